package host

import (
	"encoding/json"
	"fmt"
	"sort"
	"strings"
	"sync"

	"github.com/onflow/cadence"
	"github.com/onflow/cadence/common"

	"verif/gen/proggen"
	"verif/mc"
	"verif/rt"
)

// C34 — the VM is observationally equivalent to the interpreter.
//
// Differential: every program / history of the corpus is executed by the
// interpreter and by the VM from byte-identical ledgers; compared are the
// error class and the Go type of the innermost cause, the result value's
// String(), the logs, the events and (transactions) the committed registers.

type c34Case struct {
	Level string   `json:"level"` // "script" | "tx" | "history" | "proggen-script" | "proggen-tx"
	Parts []string `json:"parts,omitempty"`
	// proggen programs are recorded by their source (the generator's indices are not stable across its versions)
	Src   string `json:"src,omitempty"`
	Two   bool   `json:"two_accounts,omitempty"`
	Shape string `json:"shape,omitempty"`
}

type c34World struct {
	base   *rt.Ledger // K deployed at 0x1
	pgBase *rt.Ledger // proggen prelude deployed at 0x1
	snips  map[string]snippet
	ops    map[string]txOp
}

func newC34World() *c34World {
	w := &c34World{base: rt.NewLedger(), snips: map[string]snippet{}, ops: map[string]txOp{}}
	rt.Deploy(w.base, rt.Addr(1), "K", contractK, false)
	for _, s := range snippets34() {
		w.snips[s.Name] = s
	}
	for _, s := range castSnippets34() {
		w.snips[s.Name] = s
	}
	for _, o := range txOps34() {
		w.ops[o.Name] = o
	}
	w.pgBase = rt.NewLedger()
	rt.Deploy(w.pgBase, rt.Addr(1), proggen.PreludeName, proggen.PreludeContract, false)
	return w
}

type obs34 struct {
	class, kind, value string
	logs, events       []string
	regs               string
	errText            string
}

func observe(res *rt.Result, l *rt.Ledger, withRegs bool) obs34 {
	o := obs34{class: res.Class, kind: res.Kind, logs: res.Logs, events: rt.EventStrings(res.Events), errText: res.ErrString()}
	if res.Value != nil {
		o.value = res.Value.String()
	}
	if withRegs {
		o.regs = l.Bytes()
	}
	return o
}

// diff34 returns "" when the observations agree, else (difference class, detail).
func diff34(a, b obs34) (string, string) {
	short := func(s string) string {
		if len(s) > 300 {
			return s[:300] + "…"
		}
		return s
	}
	switch {
	case a.class != b.class:
		return "class:" + a.class + "->" + b.class, fmt.Sprintf("interpreter %s (%s) / VM %s (%s); interp err: %s | vm err: %s", a.class, a.kind, b.class, b.kind, short(a.errText), short(b.errText))
	case a.kind != b.kind:
		return "kind:" + a.kind + "->" + b.kind, fmt.Sprintf("same class %s, innermost cause %s vs %s; interp: %s | vm: %s", a.class, a.kind, b.kind, short(a.errText), short(b.errText))
	case a.value != b.value:
		return "value", fmt.Sprintf("interpreter returned %s, VM %s", short(a.value), short(b.value))
	case strings.Join(a.logs, "\n") != strings.Join(b.logs, "\n"):
		return "logs", fmt.Sprintf("logs differ: %s vs %s", short(strings.Join(a.logs, " | ")), short(strings.Join(b.logs, " | ")))
	case strings.Join(a.events, "\n") != strings.Join(b.events, "\n"):
		return "events", fmt.Sprintf("events differ: %s vs %s", short(strings.Join(a.events, " | ")), short(strings.Join(b.events, " | ")))
	case a.regs != b.regs:
		return "registers", "committed registers differ"
	}
	return "", ""
}

// outcomeClass summarises an agreeing observation (for the vacuity counters).
func outcomeClass(o obs34) string {
	if o.class == "ok" {
		return "ok"
	}
	return o.class + ":" + o.kind
}

func (w *c34World) parts(names []string) []snippet {
	var ps []snippet
	for _, n := range names {
		s, ok := w.snips[n]
		if !ok {
			panic("unknown snippet " + n)
		}
		ps = append(ps, s)
	}
	return ps
}

// exec runs one case on both engines; it returns the two observation lists
// (one element per step) and the index of the first differing step (-1: none).
func (w *c34World) exec(c c34Case) (diff, detail string, agree obs34, steps int) {
	type step struct {
		src    string
		script bool
		args   []cadence.Value
		sign   []common.Address
	}
	var sts []step
	base := w.base
	switch c.Level {
	case "script":
		sts = []step{{src: script34(w.parts(c.Parts)), script: true}}
	case "tx":
		sts = []step{{src: tx34(w.parts(c.Parts)), sign: s1()}}
	case "history":
		for _, n := range c.Parts {
			op, ok := w.ops[n]
			if !ok {
				panic("unknown tx op " + n)
			}
			sts = append(sts, step{src: op.Src, sign: s1()})
		}
	case "txgrid":
		var sign []common.Address
		if !c.Two { // Two is reused as "no prepare block: no signer"
			sign = s1()
		}
		sts = []step{{src: c.Src, sign: sign}}
	case "proggen-script", "proggen-tx":
		base = w.pgBase
		arg := []cadence.Value{cadence.NewInt(3)}
		sign := s1()
		if c.Two {
			sign = []common.Address{rt.Addr(1), rt.Addr(2)}
		}
		if c.Level == "proggen-script" {
			sts = []step{{src: c.Src, script: true, args: arg}}
		} else {
			sts = []step{{src: c.Src, args: arg, sign: sign}}
		}
	default:
		panic("unknown level " + c.Level)
	}
	li, lv := base.Clone(), base.Clone()
	var last obs34
	for i, st := range sts {
		ri := rt.Run(li, rt.Tx{Source: st.src, Script: st.script, Args: st.args, Signers: st.sign, UseVM: false})
		rv := rt.Run(lv, rt.Tx{Source: st.src, Script: st.script, Args: st.args, Signers: st.sign, UseVM: true})
		oi, ov := observe(ri, li, !st.script), observe(rv, lv, !st.script)
		if d, det := diff34(oi, ov); d != "" {
			return d, fmt.Sprintf("step %d/%d: %s", i+1, len(sts), det), oi, i + 1
		}
		last = oi
	}
	return "", "", last, len(sts)
}

var (
	pgMu    sync.Mutex
	pgCache = map[string]*proggen.Fragment{}
)

func proggenFragment(o proggen.Options) *proggen.Fragment {
	k, _ := json.Marshal(o)
	pgMu.Lock()
	defer pgMu.Unlock()
	if f, ok := pgCache[string(k)]; ok {
		return f
	}
	f := proggen.New(o)
	pgCache[string(k)] = f
	return f
}

func runC34(env *mc.Env) {
	w := newC34World()
	snips := snippets34()
	ops := txOps34()
	env.R.Set("snippets", len(snips))
	env.R.Set("features", strings.Join(featuresOf(snips), ","))

	var mu sync.Mutex
	differing := map[string]bool{} // snippets / ops that differ on their own
	report := func(c c34Case, construct, d, detail string) {
		env.R.Violation(construct+"|"+d, c, fmt.Sprintf("%s %v: %s", c.Level, c.Parts, detail))
	}
	evalCase := func(c c34Case, construct string, nontrivialKey string) bool {
		d, detail, agree, steps := w.exec(c)
		env.R.EvalN(int64(2 * steps))
		if d != "" {
			report(c, construct, d, detail)
			return false
		}
		env.R.Nontrivial(nontrivialKey)
		env.R.Class(c.Level+":"+outcomeClass(agree), func() any { return c })
		return true
	}

	// 1. every snippet alone, as a script and as a committing transaction
	mc.ParallelFor(env, len(snips), func(i int) {
		s := snips[i]
		ok1 := evalCase(c34Case{Level: "script", Parts: []string{s.Name}}, "snippet:"+s.Name, "s|"+s.Name)
		ok2 := true
		if txable(s) {
			ok2 = evalCase(c34Case{Level: "tx", Parts: []string{s.Name}}, "snippet:"+s.Name, "t|"+s.Name)
		}
		if !ok1 || !ok2 {
			mu.Lock()
			differing[s.Name] = true
			mu.Unlock()
		}
	})
	// 1b. the cast grid (each combination alone; the checker decides which ones are programs)
	grid := castSnippets34()
	env.R.Set("castgrid_generated", len(grid))
	mc.ParallelFor(env, len(grid), func(i int) {
		g := grid[i]
		c := c34Case{Level: "script", Parts: []string{g.Name}}
		d, detail, agree, steps := w.exec(c)
		env.R.EvalN(int64(2 * steps))
		if d != "" {
			report(c, g.Sig, d, detail)
			return
		}
		if strings.Contains(agree.kind, "CheckerError") || strings.Contains(agree.kind, "ParsingCheckingError") {
			env.R.Add("castgrid_rejected_by_checker", 1)
			return
		}
		env.R.Add("castgrid_accepted", 1)
		env.R.Nontrivial("g|" + g.Name)
		env.R.Class("castgrid:"+outcomeClass(agree), func() any { return c })
	})
	// 1c. transaction block-presence grid: prepare / pre / execute / post present or absent x conditions true or
	//     false x a storage write in prepare (and in execute)
	tg := txGrid34()
	env.R.Set("txgrid_transactions", len(tg))
	mc.ParallelFor(env, len(tg), func(i int) {
		g := tg[i]
		c := c34Case{Level: "txgrid", Src: g.Src, Two: !g.Prepare, Shape: g.Name}
		d, detail, agree, steps := w.exec(c)
		env.R.EvalN(int64(2 * steps))
		if d != "" {
			env.R.Violation("txgrid:"+g.Name+"|"+d, c, "transaction "+g.Name+": "+detail)
			return
		}
		env.R.Nontrivial("x|" + g.Name)
		env.R.Class("txgrid:"+outcomeClass(agree), func() any { return c })
	})
	// 2. every ordered pair of snippets that agree on their own (a pair containing a snippet that
	//    already differs alone would only repeat that difference)
	var clean []snippet
	for _, s := range snips {
		if !differing[s.Name] {
			clean = append(clean, s)
		}
	}
	env.R.Set("snippets_differing_alone", len(snips)-len(clean))
	type pair struct{ a, b int }
	var pairs []pair
	for a := range clean {
		for b := range clean {
			if a != b {
				pairs = append(pairs, pair{a, b})
			}
		}
	}
	mc.ParallelFor(env, len(pairs), func(i int) {
		a, b := clean[pairs[i].a], clean[pairs[i].b]
		evalCase(c34Case{Level: "script", Parts: []string{a.Name, b.Name}}, "pair:"+a.Feat+"/"+a.Name+"+"+b.Feat+"/"+b.Name, "s|"+a.Name+"|"+b.Name)
	})

	// 3. transaction histories over the op alphabet, state carried from step to step
	depth := mc.Pick(env, 3, 4)
	var hist [][]string
	var rec func(prefix []string)
	rec = func(prefix []string) {
		if len(prefix) > 0 {
			hist = append(hist, append([]string{}, prefix...))
		}
		if len(prefix) == depth {
			return
		}
		// quick tier: depth-3 histories only from the two state-building first steps (all of depth <= 2)
		if !env.Thorough() && len(prefix) == 2 && prefix[0] != "save-vault" && prefix[0] != "save-box" {
			return
		}
		for _, o := range ops {
			rec(append(prefix, o.Name))
		}
	}
	rec(nil)
	// shortest first, so that a difference is attributed to the shortest history that shows it
	sort.SliceStable(hist, func(i, j int) bool { return len(hist[i]) < len(hist[j]) })
	var histDiff sync.Map // history key (joined) that differs -> true
	byLen := map[int][][]string{}
	for _, h := range hist {
		byLen[len(h)] = append(byLen[len(h)], h)
	}
	for L := 1; L <= depth; L++ {
		hs := byLen[L]
		mc.ParallelFor(env, len(hs), func(i int) {
			h := hs[i]
			// skip extensions of a history that already differs (its prefix is reported)
			for k := 1; k < len(h); k++ {
				if _, bad := histDiff.Load(strings.Join(h[:k], ">")); bad {
					env.R.Add("histories_skipped_prefix_differs", 1)
					return
				}
			}
			c := c34Case{Level: "history", Parts: h}
			d, detail, agree, steps := w.exec(c)
			env.R.EvalN(int64(2 * steps))
			if d != "" {
				histDiff.Store(strings.Join(h, ">"), true)
				// construct = the op at which the engines part, with the op before it (the state it needs)
				at := steps - 1
				construct := "history:" + h[at]
				if at > 0 {
					construct = "history:" + h[at-1] + ">" + h[at]
				}
				report(c, construct, d, detail)
				return
			}
			env.R.Nontrivial("h|" + strings.Join(h, ">"))
			env.R.Class("history:"+outcomeClass(agree), func() any { return c })
		})
	}

	// 4. the sibling generator's fragments (typed statement templates over a variable pool)
	for oi, o := range []proggen.Options{{MaxStmts: 2}, {MaxStmts: mc.Pick(env, 2, 3), Tags: []string{"res"}, TwoAccounts: true}} {
		o := o
		// quick tier: the general fragment as scripts, the two-account resource fragment as transactions
		levels := []string{"proggen-script", "proggen-tx"}
		if !env.Thorough() {
			levels = levels[oi : oi+1]
		}
		f := proggenFragment(o)
		n := f.Count()
		env.R.Add("proggen_programs", int64(n))
		mc.ParallelFor(env, n, func(i int) {
			p := f.At(i)
			for _, lvl := range levels {
				c := c34Case{Level: lvl, Two: o.TwoAccounts, Shape: p.Shape, Src: p.Script()}
				if lvl == "proggen-tx" {
					c.Src = p.Transaction()
				}
				d, detail, agree, steps := w.exec(c)
				env.R.EvalN(int64(2 * steps))
				if d != "" {
					env.R.Violation("proggen:"+p.Shape+"|"+d, c, fmt.Sprintf("%s #%d %s: %s", lvl, i, p.Shape, detail))
					continue
				}
				env.R.Nontrivial(fmt.Sprintf("pg|%s|%v|%d", lvl, o.TwoAccounts, i))
				env.R.Class(lvl+":"+outcomeClass(agree), nil)
			}
		})
	}
	env.R.Set("limit", "the VM+peephole configuration is not run: the runtime offers no switch for compiler.Config.PeepholeOptimizationsEnabled (hook missing)")
	env.R.BoundCompleted(fmt.Sprintf("snippets alone (script+tx), all ordered pairs of agreeing snippets, tx histories to depth %d over %d ops, proggen fragments", depth, len(ops)))
}

func replayC34(env *mc.Env, raw json.RawMessage) (bool, string) {
	var c c34Case
	if err := json.Unmarshal(raw, &c); err != nil {
		return false, err.Error()
	}
	w := newC34World()
	d, detail, _, _ := w.exec(c)
	return d != "", fmt.Sprintf("%s %v %s: [%s] %s", c.Level, c.Parts, c.Shape, d, detail)
}

func init() {
	mc.Register(&mc.Check{
		ID: "C34",
		Rule: "corpus: feature snippets (arithmetic, strings, containers, optionals, casts, closures, control flow, composites/resources, interfaces with default functions and conditions, references, storage, capabilities, attachments, events, built-ins) over a deployed contract and script-local declarations: every snippet as script and as transaction, every ordered pair of snippets, every transaction history to depth 2 and those of depth 3 that start by saving a vault or a box (thorough: all to depth 4) over 17 ops, plus the proggen fragments; each run by interpreter and VM from identical ledgers; " +
			"oracle: same error class and innermost cause type, same result String(), logs, events, committed registers; non-trivial = distinct program/history on which both engines were compared to the end",
		Assumptions: []string{
			"the interpreter is the reference only in the sense of the property (equivalence); a difference is reported whichever engine is right",
			"VM+peephole is not exercised (no hook to switch it on through runtime.Context)",
		},
		Run:    runC34,
		Replay: replayC34,
	})
}

package host

import (
	"regexp"
	"sort"
	"strings"
)

// The C34 corpus generator: a deployed contract K (types with conditions,
// default functions, attachments, events, entitlements), script-local
// declarations, and an alphabet of feature snippets. A program is one snippet
// or an ordered pair of snippets; `$` in a snippet is replaced by a per-slot
// prefix so that two snippets never clash. Every snippet appends what it
// observes to `out` (returned by main, so the engines' value rendering is
// compared too) or logs it.

const contractK = `access(all) contract K {
  access(all) entitlement E
  access(all) entitlement F
  access(all) entitlement mapping M { E -> F }
  access(all) event Ev(a: Int, b: String, c: [UInt8], d: {String: Int}, e: Address?, f: Fix64)
  access(all) event Made(id: UInt64, tag: String)

  access(all) struct interface Shape {
    access(all) view fun area(): Int
    access(all) fun scaled(_ k: Int): Int {
      pre { k > 0: "k must be positive" }
      post { result >= self.area(): "must not shrink" }
      return self.area() * k
    }
    access(all) view fun name(): String { return "shape" }
  }
  access(all) struct interface Named: Shape {
    access(all) fun scaled(_ k: Int): Int {
      pre { k < 100: "k too large" }
    }
  }
  access(all) struct Sq: Named {
    access(all) var s: Int
    init(_ s: Int) { self.s = s }
    access(all) view fun area(): Int { return self.s * self.s }
    access(all) fun grow() { self.s = self.s + 1 }
    access(all) view fun name(): String { return "sq" }
  }
  access(all) struct Rect: Shape {
    access(all) let w: Int
    access(all) let h: Int
    init(w: Int, h: Int) { self.w = w; self.h = h }
    access(all) view fun area(): Int { return self.w * self.h }
  }
  access(all) enum Color: UInt8 { access(all) case red; access(all) case green; access(all) case blue }

  access(all) resource interface HasBalance {
    access(all) var balance: Int
    access(E) fun withdraw(_ n: Int): @{HasBalance} {
      pre { n <= self.balance: "insufficient" }
      post { self.balance == before(self.balance) - n: "balance must drop by n" }
    }
    access(all) fun deposit(_ v: @{HasBalance}) {
      post { self.balance >= before(self.balance): "no decrease" }
    }
  }
  access(all) resource Vault: HasBalance {
    access(all) var balance: Int
    access(all) event ResourceDestroyed(id: UInt64 = self.uuid, balance: Int = self.balance)
    init(_ b: Int) { self.balance = b; emit Made(id: self.uuid, tag: "vault") }
    access(E) fun withdraw(_ n: Int): @{HasBalance} { self.balance = self.balance - n; return <- create Vault(n) }
    access(all) fun deposit(_ v: @{HasBalance}) { self.balance = self.balance + v.balance; destroy v }
  }
  access(all) resource Box {
    access(all) var items: @[Vault]
    access(all) var named: @{String: Vault}
    access(mapping M) let inner: Inner
    init() { self.items <- []; self.named <- {}; self.inner = Inner() }
    access(all) fun put(_ v: @Vault) { self.items.append(<- v) }
    access(all) fun take(): @Vault { return <- self.items.removeLast() }
    access(all) fun total(): Int { var t = 0; var i = 0; while i < self.items.length { t = t + self.items[i].balance + i; i = i + 1 }; return t }
  }
  access(all) struct Inner {
    access(F) fun secret(): Int { return 42 }
    access(all) fun open(): Int { return 1 }
  }
  access(all) attachment Tag for Vault {
    access(all) var label: String
    init(_ l: String) { self.label = l }
    access(all) fun describe(): String { return self.label.concat(":").concat(base.balance.toString()) }
    access(all) fun relabel(_ l: String) { self.label = l }
  }
  access(all) attachment Stamp for Vault {
    access(all) let mark: Int
    access(all) event ResourceDestroyed(mark: Int = self.mark, bal: Int = base.balance)
    init(_ m: Int) { self.mark = m }
  }
  access(all) attachment BoxTag for Box {
    access(all) event ResourceDestroyed(n: Int = 1)
  }
  access(all) attachment Audit for HasBalance {
    access(all) fun seen(): Int { return base.balance }
  }
  access(all) var count: Int
  access(all) fun stash(_ v: @Vault) { let old <- self.account.storage.load<@Vault>(from: /storage/kstash); destroy old; self.account.storage.save(<- v, to: /storage/kstash) }
  access(all) fun stashed(): Int? { return self.account.storage.borrow<&Vault>(from: /storage/kstash)?.balance }
  access(all) struct interface Greeter { access(all) fun name(): String; access(all) fun greet(): String { return "hi ".concat(self.name()).concat(self.suffix()) } access(all) fun suffix(): String { return "!" } }
  access(all) struct Bob: Greeter { access(all) fun name(): String { return "bob" } access(all) fun suffix(): String { return "?" } }
  access(all) fun mkVault(_ b: Int): @Vault { return <- create Vault(b) }
  access(all) fun mkBox(): @Box { return <- create Box() }
  access(all) fun fire(_ a: Int) { emit Ev(a: a, b: "s".concat(a.toString()), c: [1, 2], d: {"k": a}, e: a % 2 == 0 ? nil : 0x1, f: -1.5) }
  access(all) fun bump(): Int { self.count = self.count + 1; return self.count }
  init() { self.count = 0 }
}`

// script-local declarations, by key
var localDecls34 = map[string]string{
	"LS": `access(all) struct LS { access(all) var a: Int; access(all) var b: [Int]; access(all) var c: {String: LS}; init(_ a: Int) { self.a = a; self.b = [a]; self.c = {} }
  access(all) fun setA(_ v: Int) { self.a = v } access(all) fun push(_ v: Int) { self.b.append(v) } access(all) fun link(_ k: String, _ v: LS) { self.c[k] = v } }`,
	"LR": `access(all) resource LR { access(all) var v: Int; access(all) var kids: @[LR]; init(_ v: Int) { self.v = v; self.kids <- [] }
  access(all) fun add(_ k: @LR) { self.kids.append(<- k) } access(all) fun sum(): Int { var s = self.v; var i = 0; while i < self.kids.length { s = s + self.kids[i].sum(); i = i + 1 }; return s } }`,
	"LI": `access(all) struct interface LI { access(all) fun f(_ x: Int): Int { pre { x >= 0: "neg" } post { result > x: "not greater" } } access(all) fun g(): String { return "LI.g" } }
access(all) struct LA: LI { access(all) fun f(_ x: Int): Int { return x + 1 } }
access(all) struct LB: LI { access(all) fun f(_ x: Int): Int { return x } access(all) fun g(): String { return "LB.g" } }`,
	"LM": `access(all) struct interface P1 { access(all) fun h(_ x: Int): Int { pre { x > 0: "p1" } } }
access(all) struct interface P2 { access(all) fun h(_ x: Int): Int { pre { x < 10: "p2" } post { result != 5: "p2post" } } }
access(all) struct interface P3: P1 { access(all) fun h(_ x: Int): Int { pre { x != 7: "p3" } post { result != 6: "p3post" } } }
access(all) struct LM: P2, P3 { access(all) fun h(_ x: Int): Int { pre { x != 3: "own" } return x } }`,
	"LE": `access(all) enum LE: Int8 { access(all) case lo; access(all) case mid; access(all) case hi }`,
	"LF": `access(all) fun fib(_ n: Int): Int { if n < 2 { return n }; return fib(n - 1) + fib(n - 2) }
access(all) fun apply(_ f: fun(Int): Int, _ x: Int): Int { return f(f(x)) }
access(all) fun mk(_ k: Int): fun(Int): Int { return fun (x: Int): Int { return x * k } }`,
	"LAT": `access(all) resource LBase { access(all) let n: Int; init(_ n: Int) { self.n = n } }
access(all) attachment LAtt for LBase { access(all) let k: Int; init(_ k: Int) { self.k = k } access(all) fun both(): Int { return base.n * 10 + self.k } }`,
}

type snippet struct {
	Name  string
	Feat  string // feature group
	Decls string // space-separated keys of localDecls34
	Code  string
	Sig   string // signature construct (cast grid only)
}

func snippets34() []snippet {
	S := func(feat, name, decls, code string) snippet { return snippet{Name: name, Feat: feat, Decls: decls, Code: code} }
	return []snippet{
		// arithmetic
		S("arith", "int-ops", "", `let $a = 17; let $b = -5; out.append([$a + $b, $a - $b, $a * $b, $a / $b, $a % $b, -$a, $a / 5 * 5 + $a % 5])`),
		S("arith", "sized-ops", "", `let $a: Int8 = 100; let $b: UInt8 = 200; let $c: Int64 = -9223372036854775807; out.append([$a / 3, $a % 7]); out.append([$b / 7, $b - 199]); out.append($c - 1); out.append(($a as Int8).saturatingAdd(100)); out.append($b.saturatingSubtract(201))`),
		S("arith", "overflow", "", `let $a: UInt8 = 250; out.append($a + 5); out.append($a + 6)`),
		S("arith", "underflow", "", `let $a: Int16 = -32768; out.append($a + 1); out.append($a - 1)`),
		S("arith", "div-zero", "", `let $z = 0; out.append(1 / (1 + $z)); out.append(1 % $z)`),
		S("arith", "word-wrap", "", `let $w: Word8 = 250; let $v: Word64 = 18446744073709551615; out.append([$w + 10, $w * 2, (3 as Word8) - $w]); out.append($v + 2)`),
		S("arith", "bitwise", "", `let $a: UInt16 = 0xf0f0; let $b: Int32 = -8; out.append([$a & 0x0ff0, $a | 0x000f, $a ^ 0xffff, $a << 4, $a >> 4]); out.append([$b >> 1, $b << 2, $b & 7])`),
		S("arith", "bigint", "", `var $a: Int = 1; var $i = 0; while $i < 40 { $a = $a * 1000000007; $i = $i + 1 }; out.append($a); out.append($a % 998244353); let $u: UInt256 = 2; out.append($u << 255); out.append(Int128.max); out.append(Int256.min)`),
		S("arith", "fixed", "", `let $a: UFix64 = 1.25; let $b: Fix64 = -3.5; out.append([$a * 4.0, $a / 3.0, $a + 0.00000001]); out.append([$b * $b, $b / 2.0, -$b, $b % 1.0]); out.append(UFix64.max); out.append(Fix64.min)`),
		S("arith", "fixed-overflow", "", `let $a: UFix64 = 184467440737.0; out.append($a * 2.0)`),
		S("arith", "conversions", "", `let $a = 300; out.append(UInt16($a)); out.append(Int($a) + Int(UInt8(44))); out.append(UFix64(3)); out.append(Int(2.9 as UFix64)); out.append(Word8(255)); out.append(Int8(-128)); out.append(UInt8($a))`),
		S("arith", "compare", "", `out.append([1 < 2, 2 <= 2, 3 > 4, 1 == 1, 1 != 1]); out.append([1.5 < 2.5, (3 as UInt8) >= 3]); out.append(["a" < "b", "ab" == "ab"]); out.append(true && !false || false)`),
		S("arith", "num-funcs", "", `out.append((255 as UInt8).toBigEndianBytes()); out.append((-2).toString()); out.append(Int.fromString("-123")); out.append(UInt8.fromString("256")); out.append(Int16.fromBigEndianBytes([1, 2])); out.append((1.5).toString()); out.append(UInt64.max)`),
		// strings
		S("strings", "str-basic", "", `let $s = "Hello, Wörld"; out.append($s.length); out.append($s.concat("!")); out.append($s.slice(from: 7, upTo: 12)); out.append($s.toLower()); out.append($s.utf8.length); out.append($s[1]); out.append($s.contains("Wö")); out.append($s.index(of: "W"))`),
		S("strings", "str-unicode", "", `let $s = "cafe\u{301} \u{1F1E9}\u{1F1EA}"; out.append($s.length); out.append($s.utf8); for c in $s { out.append(c) }; out.append($s == "caf\u{e9} \u{1F1E9}\u{1F1EA}")`),
		S("strings", "str-split-join", "", `let $p = "a,b,,c".split(separator: ","); out.append($p); out.append(String.join($p, separator: "|")); out.append("aXbXc".replaceAll(of: "X", with: "--")); out.append("abc".count("b"))`),
		S("strings", "str-template", "", `let $n = 3; let $t = "x"; out.append("n=\($n) t=\($t) sum=\($n + 1)")`),
		S("strings", "str-chars", "", `let $c: Character = "x"; out.append($c.toString()); out.append(String.fromCharacters(["a", $c])); out.append(String.fromUTF8([104, 105])); out.append(String.fromUTF8([255])); out.append(String.encodeHex([1, 171])); out.append("01ab".decodeHex()); out.append($c.utf8)`),
		S("strings", "str-slice-oob", "", `let $s = "abc"; out.append($s.slice(from: 1, upTo: 2)); out.append($s.slice(from: 2, upTo: 5))`),
		// containers
		S("containers", "array-ops", "", `var $a = [3, 1, 2]; $a.append(9); $a.insert(at: 1, 7); let $r = $a.remove(at: 0); out.append($a); out.append($r); out.append([$a.length, $a.firstIndex(of: 9) ?? -1]); out.append($a.contains(2)); out.append($a.slice(from: 1, upTo: 3)); out.append($a.reverse()); out.append($a.concat([0])); out.append($a.removeFirst()); out.append($a.removeLast()); out.append($a)`),
		S("containers", "array-hof", "", `let $a = [1, 2, 3, 4, 5]; out.append($a.map(fun (x: Int): String { return x.toString() })); out.append($a.filter(view fun (x: Int): Bool { return x % 2 == 1 })); out.append($a.toConstantSized<[Int; 5]>()); let $c: [Int; 3] = [1, 2, 3]; out.append($c.toVariableSized()); out.append($c.length)`),
		S("containers", "array-oob", "", `let $a = [1, 2]; out.append($a[1]); out.append($a[2])`),
		S("containers", "array-copy", "", `var $a = [[1], [2]]; var $b = $a; $b[0].append(5); $b.append([3]); out.append($a); out.append($b); let $c = $a[1]; out.append($c)`),
		S("containers", "dict-ops", "", `var $d: {String: Int} = {"b": 2, "a": 1}; $d["c"] = 3; let $old = $d.insert(key: "a", 10); let $rm = $d.remove(key: "b"); out.append($old); out.append($rm); out.append($d["a"]); out.append($d["zz"]); out.append($d.length); out.append($d.containsKey("c")); var $ks = $d.keys; out.append($ks.length); out.append($d.values.length)`),
		S("containers", "dict-iter", "", `let $d = {1: "one", 2: "two", 3: "three"}; var $n = 0; for k in $d.keys { $n = $n + k }; out.append($n); var $m = 0; $d.forEachKey(fun (k: Int): Bool { $m = $m + 1; return k != 0 }); out.append($m); out.append($d)`),
		S("containers", "dict-nested", "", `var $d: {String: [Int]} = {}; $d["x"] = [1]; $d["x"]!.append(2); out.append($d["x"]); let $e: {Int: {String: Bool}} = {1: {"t": true}}; out.append($e[1]!["t"]); out.append($e[2]?.length)`),
		S("containers", "dict-keys-kinds", "LE", `let $d: {LE: Int} = {LE.lo: 1, LE.hi: 3}; out.append($d[LE.hi]); let $p: {Address: Int} = {0x1: 1}; out.append($p[0x1]); let $t: {Type: Int} = {Type<Int>(): 1}; out.append($t[Type<Int>()]); let $c: {Character: Int} = {"a": 1}; out.append($c["a"]); let $b: {Bool: UFix64} = {true: 1.0}; out.append($b[false])`),
		S("containers", "range", "", `var $s = 0; for i in InclusiveRange(1, 10, step: 3) { $s = $s + i }; out.append($s); let $r = InclusiveRange(10, 1, step: -4); out.append([$r.start, $r.end, $r.step]); out.append($r.contains(6)); for i in $r { out.append(i) }`),
		// optionals
		S("optionals", "opt-basic", "", `let $a: Int? = 3; let $b: Int? = nil; out.append($a ?? 0); out.append($b ?? 7); out.append($a.map(fun (x: Int): Int { return x + 1 })); if let v = $a { out.append(v) } else { out.append("none") }; if let v = $b { out.append(v) } else { out.append("none") }; out.append($a == nil); out.append($b)`),
		S("optionals", "opt-chain", "LS", `let $s: LS? = LS(4); out.append($s?.a); out.append($s?.b?.length); let $n: LS? = nil; out.append($n?.a); out.append($n?.b); let $o: Int?? = 1; out.append($o); let $p: Int?? = nil; out.append($p == nil)`),
		S("optionals", "opt-force-nil", "", `let $a: Int? = 1; out.append($a!); let $d: {Int: Int} = {}; out.append($d[1]!)`),
		S("optionals", "opt-guard", "", `let $f = fun (_ x: Int?): Int { guard let y = x else { return -1 }; return y * 2 }; out.append($f(4)); out.append($f(nil))`),
		// casts and types
		S("casts", "cast-basic", "LS", `let $xs: [AnyStruct] = [1, "s", 2.5, true, [1], {"a": 1}, LS(1), nil, 0x2 as Address, /public/p, Type<Int>(), 3 as UInt8]; for x in $xs { out.append(x as? Int); out.append(x as? String); out.append((x as? LS)?.a); out.append(x.getType().identifier); out.append(x.isInstance(Type<[Int]>())) }`),
		S("casts", "cast-force-fail", "", `let $x: AnyStruct = "str"; out.append($x as! String); out.append($x as! Int)`),
		S("casts", "cast-interfaces", "", `let $s: AnyStruct = K.Sq(2); out.append(($s as? {K.Shape})?.area()); out.append(($s as? {K.Named})?.name()); out.append(($s as? K.Rect) == nil); let $r: {K.Shape} = K.Rect(w: 2, h: 3); out.append($r as? K.Sq); out.append(($r as! K.Rect).w)`),
		S("casts", "cast-numeric-super", "", `let $x: Integer = 5 as Int8; out.append($x as? Int8); out.append($x as? Int); let $n: Number = 1.5 as UFix64; out.append($n as? UFix64); let $f: FixedPoint = -1.0 as Fix64; out.append($f as? SignedFixedPoint); out.append($x.getType())`),
		S("casts", "types", "LS LE", `out.append(Type<Int>() == Type<Int>()); out.append(Type<LS>().identifier); out.append(Type<[Int]>().isSubtype(of: Type<[AnyStruct]>())); out.append(Type<Int?>().isSubtype(of: Type<AnyStruct>())); out.append(Type<LE>()); out.append(Type<@K.Vault>()); out.append(Type<@K.Vault>().isSubtype(of: Type<@{K.HasBalance}>())); out.append(Type<auth(K.E) &K.Vault>().isSubtype(of: Type<&K.Vault>())); out.append(Type<&K.Vault>().isSubtype(of: Type<auth(K.E) &K.Vault>()))`),
		S("casts", "runtime-types", "", `out.append(OptionalType(Type<Int>())); out.append(VariableSizedArrayType(Type<String>())); out.append(ConstantSizedArrayType(type: Type<Int>(), size: 2)); out.append(DictionaryType(key: Type<Int>(), value: Type<String>())); out.append(DictionaryType(key: Type<[Int]>(), value: Type<String>())); out.append(CompositeType("A.0000000000000001.K.Vault")); out.append(CompositeType("A.0000000000000001.K.Nope")); out.append(ReferenceType(entitlements: ["A.0000000000000001.K.E"], type: Type<@K.Vault>())); out.append(FunctionType(parameters: [Type<Int>()], return: Type<Void>())); out.append(CapabilityType(Type<&Int>())); out.append(IntersectionType(types: ["A.0000000000000001.K.HasBalance"]))`),
		// closures and functions
		S("closures", "closure-capture", "", `var $n = 0; let $inc = fun (): Int { $n = $n + 1; return $n }; $inc(); $inc(); out.append($n); var $i = 0; var $f0 = fun (): Int { return -1 }; var $f1 = $f0; while $i < 2 { let j = $i; let g = fun (): Int { return j * 10 + $n }; if $i == 0 { $f0 = g } else { $f1 = g }; $i = $i + 1 }; $n = 5; out.append([$f0(), $f1()])`),
		S("closures", "higher-order", "LF", `out.append(apply(mk(3), 2)); out.append(fib(10)); let $g = mk(5); out.append($g(1)); let $h: fun(Int): Int = fib; out.append($h(7)); out.append(apply(fun (x: Int): Int { return x - 1 }, 0))`),
		S("closures", "func-values", "", `let $s = "abc"; let $f = $s.concat; out.append($f("d")); let $a = [1, 2]; let $g = $a.contains; out.append($g(2)); let $m = K.Sq(3).area; out.append($m()); let $t = (5).toString; out.append($t())`),
		S("closures", "recursion-closure", "", `var $fact: fun(Int): Int = fun (n: Int): Int { return n }; $fact = fun (n: Int): Int { return n <= 1 ? 1 : n * $fact(n - 1) }; out.append($fact(10))`),
		// control flow
		S("control", "loops", "", `var $i = 0; var $s = 0; while true { $i = $i + 1; if $i % 2 == 0 { continue }; if $i > 9 { break }; $s = $s + $i }; out.append($s); for idx, v in ["a", "b", "c"] { if idx == 1 { continue }; out.append(v.concat(idx.toString())) }; for c in "hey" { out.append(c) }`),
		S("control", "switch", "LE", `let $f = fun (_ x: Int): String { switch x { case 1: return "one"; case 2: return "two"; default: return "many" } }; out.append([$f(1), $f(2), $f(3)]); let $e = LE.mid; switch $e { case LE.lo: out.append("lo"); case LE.mid: out.append("mid"); default: out.append("other") }`),
		S("control", "ternary-shortcircuit", "", `var $c = 0; let $t = fun (): Bool { $c = $c + 1; return true }; let $x = false && $t(); let $y = true || $t(); let $z = true && $t(); out.append([$x, $y, $z]); out.append($c); out.append($c > 0 ? "pos" : "zero"); let $n: Int? = nil; out.append($n ?? $c + 5)`),
		S("control", "eval-order", "", `var $log: [Int] = []; let $f = fun (_ x: Int): Int { $log.append(x); return x }; let $v = $f(1) + $f(2) * $f(3); let $arr = [$f(4), $f(5)]; let $d = {$f(6): $f(7)}; out.append($log); out.append($v)`),
		S("control", "panic", "", `out.append("before"); if out.length > 0 { panic("boom: ".concat(out.length.toString())) }`),
		S("control", "assert", "", `assert(1 + 1 == 2, message: "math"); out.append("ok"); assert(out.length == 0, message: "len")`),
		// composites
		S("composites", "struct-copy", "LS", `let $a = LS(1); var $b = $a; $b.setA(2); $b.push(9); out.append([$a.a, $b.a]); out.append([$a.b.length, $b.b.length]); $b.link("self", $a); out.append($b.c["self"]?.a); out.append($a.c.length); out.append($b)`),
		S("composites", "struct-contract", "", `var $q = K.Sq(3); let $c = $q; $q.grow(); out.append([$q.area(), $c.area()]); out.append($q.scaled(2)); out.append($q.name()); let $r = K.Rect(w: 2, h: 5); out.append($r.scaled(3)); out.append($r.name()); out.append($r)`),
		S("composites", "enum", "LE", `out.append(LE.hi.rawValue); out.append(LE(rawValue: 1)); out.append(LE(rawValue: 9)); out.append(K.Color.blue); out.append(K.Color(rawValue: 0) == K.Color.red); out.append(LE.lo == LE.lo)`),
		S("composites", "resource-basic", "LR", `let $r <- create LR(1); $r.add(<- create LR(2)); $r.add(<- create LR(3)); out.append($r.sum()); out.append($r.kids.length); let $k <- $r.kids.remove(at: 0); out.append($k.v); destroy $k; out.append($r.uuid > 0); destroy $r`),
		S("composites", "resource-containers", "", `let $vs: @[K.Vault] <- [<- K.mkVault(1), <- K.mkVault(2)]; $vs.append(<- K.mkVault(3)); var $t = 0; for v in [0, 1, 2] { $t = $t + $vs[v].balance }; out.append($t); let $d: @{String: K.Vault} <- {}; let $old <- $d["a"] <- $vs.removeFirst(); out.append($old == nil); destroy $old; out.append($d["a"]?.balance); out.append($d.keys); destroy $d; destroy $vs`),
		S("composites", "resource-swap", "", `var $a <- K.mkVault(10); var $b <- K.mkVault(20); $a <-> $b; out.append([$a.balance, $b.balance]); let $box <- K.mkBox(); $box.put(<- $a); $box.put(<- $b); out.append($box.total()); let $x <- $box.take(); out.append($x.balance); destroy $x; destroy $box`),
		S("composites", "resource-nested-field", "", `let $box <- K.mkBox(); let $prev <- $box.named["k"] <- K.mkVault(5); destroy $prev; out.append($box.named["k"]?.balance); let $ref = &$box.named["k"] as &K.Vault?; out.append($ref?.balance); out.append($box.named.length); destroy $box`),
		S("composites", "resource-destroy-event", "", `let $v <- K.mkVault(77); let $id = $v.uuid; destroy $v; out.append($id > 0)`),
		// more composite / language corners
		S("composites", "value-rendering", "LS LE", `out.append([LS(1)]); out.append({"k": [K.Sq(2)]}); out.append(LE.hi); out.append(K.Color.green); out.append([1.5, 2.0]); out.append("q\"uote\n"); out.append([nil, 1] as [Int?]); out.append(/public/x); out.append(Type<{String: [Int?]}>()); out.append(0x00000000000000ff as Address); out.append(("a" as Character)); out.append([true]); out.append({1: {2: "x"}}); out.append(K.Rect(w: 1, h: 2))`),
		S("composites", "opt-resource-binding", "", `var $o: @K.Vault? <- K.mkVault(4); if let v <- $o { out.append(v.balance); destroy v } else { out.append("none") }; var $n: @K.Vault? <- nil; if let v <- $n { destroy v; out.append("some") } else { out.append("none") }; var $slot: @K.Vault? <- nil; $slot <-! K.mkVault(2); out.append($slot?.balance); destroy $slot`),
		S("composites", "force-move-occupied", "", `var $slot: @K.Vault? <- K.mkVault(1); out.append("occupied"); $slot <-! K.mkVault(2); destroy $slot`),
		S("interfaces", "default-calls-default", "", `let $b = K.Bob(); out.append($b.greet()); let $g: {K.Greeter} = $b; out.append($g.greet()); let $r = &$b as &K.Bob; out.append($r.greet()); let $ri = &$g as &{K.Greeter}; out.append($ri.suffix())`),
		S("storage", "contract-account", "", `K.stash(<- K.mkVault(12)); out.append(K.stashed()); K.stash(<- K.mkVault(13)); out.append(K.stashed())`),
		S("optionals", "opt-casts", "", `let $a: AnyStruct = 1 as Int?; out.append($a as? Int); out.append($a as? Int?); out.append($a as? String?); let $n: AnyStruct = nil; out.append($n as? Int?); out.append(($n as? Int??) == nil); let $x: Int? = 5; out.append($x as? Int); out.append($x as! Int + 1)`),
		S("control", "nested-loops", "", `var $acc: [Int] = []; var $i = 0; while $i < 4 { $i = $i + 1; for j in [1, 2, 3] { if j == 2 { continue }; if $i == 3 { break }; $acc.append($i * 10 + j) }; if $i == 4 { break } }; out.append($acc); let $f = fun (): Int { for x in [1, 2, 3] { if x == 2 { return x } }; return -1 }; out.append($f())`),
		S("control", "switch-break", "", `var $r: [String] = []; for x in [1, 2, 3, 4] { switch x { case 1: $r.append("a"); case 2: break; case 3: $r.append("c"); if x == 3 { break }; $r.append("never"); default: $r.append("d") } }; out.append($r)`),
		S("closures", "closure-resource-ref", "", `let $v <- K.mkVault(3); let $r = &$v as &K.Vault; let $f = fun (): Int { return $r.balance * 2 }; out.append($f()); let $g = fun (_ x: &K.Vault): Int { return x.balance + 1 }; out.append($g($r)); destroy $v`),
		S("references", "ref-deref-copy", "", `let $arr = [1, 2]; let $ra = &$arr as &[Int]; var $cp = *$ra; $cp.append(3); out.append([$arr.length, $cp.length])`),
		S("arith", "int-misc", "", `out.append([7 / 2, -7 / 2, 7 % -2, -7 % 2]); out.append([(7 as Int8) / -2, (-128 as Int8) % 3]); out.append((5 as UInt8) << 7); out.append((1 as Int) << 100); out.append((-1 as Int) >> 100); out.append(Int8.min / -1)`),
		S("strings", "str-compare-misc", "", `out.append(["b" > "a", "" < "a", "abc" <= "abd"]); out.append("a".concat("").length); out.append("ß".toLower()); out.append("İ".toLower().length); out.append("abc".slice(from: 0, upTo: 0)); out.append("x".split(separator: "")); out.append("abc".index(of: "")); out.append("é" == "e\u{301}")`),
		// interfaces, conditions
		S("interfaces", "default-funcs", "LI", `let $a = LA(); let $b = LB(); out.append([$a.g(), $b.g()]); out.append($a.f(1)); let $i: {LI} = $a; out.append($i.f(5)); out.append($i.g())`),
		S("interfaces", "pre-fails", "LI", `let $a = LA(); out.append($a.f(0)); out.append($a.f(-1))`),
		S("interfaces", "post-fails", "LI", `let $b = LB(); out.append("calling"); out.append($b.f(3))`),
		S("interfaces", "inherited-conditions", "", `let $q = K.Sq(2); out.append($q.scaled(99)); out.append($q.scaled(100))`),
		S("interfaces", "inherited-conditions-2", "", `let $q = K.Sq(2); out.append($q.scaled(1)); out.append($q.scaled(0))`),
		S("interfaces", "resource-conditions", "", `let $v <- K.mkVault(10); let $r = &$v as auth(K.E) &K.Vault; let $w <- $r.withdraw(4); out.append([$v.balance, $w.balance]); $v.deposit(<- $w); out.append($v.balance); let $z <- $r.withdraw(11); destroy $z; destroy $v`),
		S("interfaces", "multi-cond-ok", "LM", `let $m = LM(); out.append($m.h(2)); out.append($m.h(1)); let $i: {P3} = $m; out.append($i.h(4))`),
		S("interfaces", "multi-cond-p1", "LM", `let $m = LM(); out.append($m.h(2)); out.append($m.h(0)); let $i: {P3} = $m; out.append($i.h(4))`),
		S("interfaces", "multi-cond-p2", "LM", `let $m = LM(); out.append($m.h(2)); out.append($m.h(10)); let $i: {P3} = $m; out.append($i.h(4))`),
		S("interfaces", "multi-cond-p3", "LM", `let $m = LM(); out.append($m.h(2)); out.append($m.h(7)); let $i: {P3} = $m; out.append($i.h(4))`),
		S("interfaces", "multi-cond-own", "LM", `let $m = LM(); out.append($m.h(2)); out.append($m.h(3)); let $i: {P3} = $m; out.append($i.h(4))`),
		S("interfaces", "multi-cond-p2post", "LM", `let $m = LM(); out.append($m.h(2)); out.append($m.h(5)); let $i: {P3} = $m; out.append($i.h(4))`),
		S("interfaces", "multi-cond-p3post", "LM", `let $m = LM(); out.append($m.h(2)); out.append($m.h(6)); let $i: {P3} = $m; out.append($i.h(4))`),
		// references
		S("references", "ref-basic", "LS", `var $s = LS(1); let $r = &$s as &LS; $s.setA(5); out.append($r.a); out.append($r.b); let $a = [1, 2, 3]; let $ra = &$a as auth(Mutate) &[Int]; $ra.append(4); out.append($a); out.append($ra[0]); let $x = 5; let $rx = &$x as &Int; out.append(*$rx + 1)`),
		S("references", "ref-auth", "", `let $v <- K.mkVault(3); let $u = &$v as &K.Vault; out.append($u.balance); let $e = &$v as auth(K.E) &K.Vault; let $down = $e as &K.Vault; out.append($down.balance); let $any: &AnyResource = $e; out.append(($any as? auth(K.E) &K.Vault) != nil); out.append(($u as? auth(K.E) &K.Vault) == nil); out.append($e.getType()); destroy $v`),
		S("references", "ref-mapping", "", `let $b <- K.mkBox(); let $e = &$b as auth(K.E) &K.Box; out.append($e.inner.secret()); let $p = &$b as &K.Box; out.append($p.inner.open()); destroy $b`),
		S("references", "ref-invalidated", "", `let $v <- K.mkVault(3); let $refs: [&K.Vault] = [&$v as &K.Vault]; out.append($refs[0].balance); let $w <- $v; out.append($refs[0].balance); destroy $w`),
		S("references", "ref-elements", "LS", `let $xs = [LS(1), LS(2)]; let $r = &$xs as &[LS]; out.append($r[1].a); for e in $r { out.append(e.a) }; let $d = {"k": LS(3)}; let $rd = &$d as &{String: LS}; out.append($rd["k"]?.a); out.append($rd["z"] == nil); out.append($r.length)`),
		S("references", "ref-optional", "", `let $o: Int? = 3; let $r = &$o as &Int?; out.append($r); let $n: Int? = nil; let $rn = &$n as &Int?; out.append($rn == nil); let $s: String? = "s"; out.append((&$s as &String?)?.length)`),
		// storage (scripts: writes are discarded, reads observe the base ledger)
		S("storage", "storage-script", "", `let $a = getAuthAccount<auth(Storage) &Account>(0x1); $a.storage.save(5, to: /storage/$tmp); out.append($a.storage.load<Int>(from: /storage/$tmp)); out.append($a.storage.load<Int>(from: /storage/$tmp)); $a.storage.save(<- K.mkVault(9), to: /storage/$v); out.append($a.storage.borrow<&K.Vault>(from: /storage/$v)?.balance); out.append($a.storage.type(at: /storage/$v)); out.append($a.storage.check<@K.Vault>(from: /storage/$v)); out.append($a.storage.check<Int>(from: /storage/$v)); out.append($a.storage.copy<String>(from: /storage/$v))`),
		S("storage", "storage-wrong-type", "", `let $a = getAuthAccount<auth(Storage) &Account>(0x1); $a.storage.save("str", to: /storage/$s); out.append($a.storage.borrow<&Int>(from: /storage/$s)); out.append($a.storage.load<Int>(from: /storage/$s))`),
		S("storage", "storage-overwrite", "", `let $a = getAuthAccount<auth(Storage) &Account>(0x1); $a.storage.save(1, to: /storage/$o); out.append("saved"); $a.storage.save(2, to: /storage/$o)`),
		S("storage", "storage-iter", "", `let $a = getAuthAccount<auth(Storage) &Account>(0x1); $a.storage.save([1, 2], to: /storage/$i1); $a.storage.save({"k": "v"}, to: /storage/$i2); var $n = 0; $a.storage.forEachStored(fun (p: StoragePath, t: Type): Bool { $n = $n + 1; return true }); out.append($n >= 2); out.append($a.storage.storagePaths.length >= 2)`),
		// capabilities
		S("capabilities", "cap-basic", "", `let $a = getAuthAccount<auth(Storage, Capabilities) &Account>(0x1); $a.storage.save(<- K.mkVault(6), to: /storage/$cv); let $c = $a.capabilities.storage.issue<&K.Vault>(/storage/$cv); out.append($c.check()); out.append($c.borrow()?.balance); out.append($c.address); $a.capabilities.publish($c, at: /public/$cv); out.append(getAccount(0x1).capabilities.borrow<&K.Vault>(/public/$cv)?.balance); out.append(getAccount(0x1).capabilities.get<&Int>(/public/$cv).check()); out.append($a.capabilities.exists(/public/$cv)); let $u = $a.capabilities.unpublish(/public/$cv); out.append($u != nil)`),
		S("capabilities", "cap-controller", "", `let $a = getAuthAccount<auth(Storage, Capabilities) &Account>(0x1); $a.storage.save(1, to: /storage/$cc); let $c = $a.capabilities.storage.issue<&Int>(/storage/$cc); let $ctl = $a.capabilities.storage.getController(byCapabilityID: $c.id)!; out.append($ctl.target()); $ctl.setTag("t"); out.append($ctl.tag); out.append($ctl.borrowType); $ctl.retarget(/storage/$other); out.append($c.check()); $ctl.delete(); out.append($c.check()); out.append($a.capabilities.storage.getControllers(forPath: /storage/$cc).length)`),
		S("capabilities", "cap-entitled", "", `let $a = getAuthAccount<auth(Storage, Capabilities) &Account>(0x1); $a.storage.save(<- K.mkVault(8), to: /storage/$ce); let $c = $a.capabilities.storage.issue<auth(K.E) &K.Vault>(/storage/$ce); let $w <- $c.borrow()!.withdraw(3); out.append($w.balance); destroy $w; let $plain = $a.capabilities.storage.issue<&K.Vault>(/storage/$ce); out.append($plain.borrow()!.balance); let $acc = $a.capabilities.account.issue<&Account>(); out.append($acc.borrow()!.address)`),
		// attachments
		S("attachments", "attach-basic", "", `let $v <- attach K.Tag("gold") to <- K.mkVault(5); out.append($v[K.Tag]?.describe()); $v[K.Tag]!.relabel("silver"); out.append($v[K.Tag]!.label); out.append($v[K.Audit] == nil); let $w <- attach K.Audit() to <- $v; out.append($w[K.Audit]?.seen()); remove K.Tag from $w; out.append($w[K.Tag] == nil); destroy $w`),
		S("attachments", "attach-local", "LAT", `let $b <- attach LAtt(7) to <- create LBase(3); out.append($b[LAtt]!.both()); var $n = 0; $b.forEachAttachment(fun (a: &AnyResourceAttachment) { $n = $n + 1 }); out.append($n); let $c <- $b; out.append($c[LAtt]?.k); destroy $c`),
		S("attachments", "attach-iface", "", `let $v: @{K.HasBalance} <- attach K.Audit() to <- K.mkVault(4); out.append($v[K.Audit]?.seen()); let $r = &$v as &{K.HasBalance}; out.append($r[K.Audit]?.seen()); destroy $v`),
		S("attachments", "attach-destroy-event", "", `let $v <- attach K.Stamp(7) to <- K.mkVault(5); out.append($v[K.Stamp]?.mark); destroy $v; out.append("destroyed")`),
		S("attachments", "attach-remove-event", "", `let $v <- attach K.Stamp(8) to <- K.mkVault(6); remove K.Stamp from $v; out.append($v[K.Stamp] == nil); destroy $v`),
		S("attachments", "destroy-order-nested-and-attachment", "", `let $b <- attach K.BoxTag() to <- K.mkBox(); $b.put(<- K.mkVault(1)); let $old <- $b.named["k"] <- K.mkVault(2); destroy $old; destroy $b; out.append("destroyed")`),
		S("composites", "nested-array-swap", "", `let $h: @[[K.Vault]] <- [<- [<- K.mkVault(1)]]; var $o <- K.mkVault(2); $h[0][0] <-> $o; out.append($o.balance); out.append($h[0][0].balance); destroy $o; destroy $h`),
		S("references", "ref-equality", "", `let $a = 1; let $b = 1; out.append((&$a as &Int) == (&$b as &Int)); out.append((&$a as &Int) == (&$a as &Int)); let $s = "x"; let $t = "x"; out.append((&$s as &String) == (&$t as &String)); let $x: Int128 = 5; let $y: Int128 = 5; out.append((&$x as &Int128) == (&$y as &Int128)); let $arr = [1]; out.append((&$arr as &[Int]) == (&$arr as &[Int]))`),
		// events
		S("events", "emit", "", `K.fire(1); K.fire(2); out.append("fired")`),
		S("events", "emit-create-destroy", "", `let $v <- K.mkVault(1); let $w <- K.mkVault(2); destroy $v; destroy $w; out.append("done")`),
		// host built-ins
		S("builtins", "block-random", "", `let $b = getCurrentBlock(); out.append([$b.height, $b.view]); out.append($b.timestamp); out.append(getBlock(at: 5)?.height); out.append(revertibleRandom<UInt8>()); out.append(revertibleRandom<UInt64>(modulo: 7))`),
		S("builtins", "crypto", "", `let $k = PublicKey(publicKey: "0102".decodeHex(), signatureAlgorithm: SignatureAlgorithm.ECDSA_P256); out.append($k.publicKey); out.append($k.signatureAlgorithm); out.append($k.verify(signature: [1], signedData: [2], domainSeparationTag: "t", hashAlgorithm: HashAlgorithm.SHA3_256)); out.append(HashAlgorithm.SHA2_256.hash([1])); out.append(HashAlgorithm(rawValue: 3)); out.append(RLP.decodeString([0x82, 1, 2])); out.append(RLP.decodeList([0xc1, 5]))`),
		S("builtins", "account-info", "", `let $a = getAccount(0x1); out.append($a.address); out.append($a.balance); out.append($a.storage.used > 0); out.append($a.contracts.names); out.append($a.contracts.get(name: "K")?.name); out.append($a.contracts.get(name: "Q") == nil); out.append($a.keys.count); out.append($a.contracts.borrow<&K>(name: "K")?.count)`),
		S("builtins", "contract-state", "", `out.append(K.bump()); out.append(K.bump()); out.append(K.count)`),
		S("builtins", "paths", "", `let $p = /storage/foo; out.append($p); out.append($p.toString()); out.append(StoragePath(identifier: "bar")); out.append(PublicPath(identifier: "baz")!.toString()); let $q: Path = $p; out.append($q as? StoragePath); out.append($q as? PublicPath); out.append((0x1 as Address).toBytes()); out.append(Address.fromBytes([0, 0, 0, 0, 0, 0, 0, 2])); out.append(Address.fromString("0x03"))`),
	}
}

var authAccountRe = regexp.MustCompile(`getAuthAccount<[^>]*>\(0x1\)`)

// txable: transactions cannot contain composite declarations.
func txable(s snippet) bool { return s.Decls == "" }

func featuresOf(ss []snippet) []string {
	m := map[string]bool{}
	for _, s := range ss {
		m[s.Feat] = true
	}
	var out []string
	for k := range m {
		out = append(out, k)
	}
	sort.Strings(out)
	return out
}

// script34 renders the program made of the given snippets.
func script34(parts []snippet) string {
	need := map[string]bool{}
	for _, p := range parts {
		for _, k := range strings.Fields(p.Decls) {
			need[k] = true
		}
	}
	var keys []string
	for k := range need {
		keys = append(keys, k)
	}
	sort.Strings(keys)
	var sb strings.Builder
	sb.WriteString("import K from 0x1\n")
	for _, k := range keys {
		sb.WriteString(localDecls34[k] + "\n")
	}
	sb.WriteString("access(all) fun main(): [AnyStruct] {\n  var out: [AnyStruct] = []\n")
	// every observation is logged as well, so that a failing program still exposes what it saw before
	sb.WriteString("  let rec = fun (_ v: AnyStruct) { log(v); out.append(v) }\n")
	for i, p := range parts {
		code := strings.ReplaceAll(p.Code, "out.append(", "rec(")
		sb.WriteString("  " + strings.ReplaceAll(code, "$", string(rune('p'+i))+"_") + "\n")
	}
	sb.WriteString("  return out\n}\n")
	return sb.String()
}

// tx34 renders the snippets as a transaction (effects are committed); `out` is logged at the end.
func tx34(parts []snippet) string {
	s := script34(parts)
	s = strings.Replace(s, "access(all) fun main(): [AnyStruct] {\n  var out: [AnyStruct] = []\n", "transaction {\n  prepare(signer: auth(Storage, Capabilities) &Account) {\n  var out: [AnyStruct] = []\n", 1)
	s = strings.Replace(s, "  return out\n}\n", "  log(out)\n  }\n}\n", 1)
	// transactions have no getAuthAccount: the signer (0x1) is the account
	s = authAccountRe.ReplaceAllString(s, "signer")
	return s
}

// ---------------------------------------------------------------------------
// transaction histories (committed state carried from step to step)

type txOp struct {
	Name string
	Src  string
}

func txOps34() []txOp {
	hdr := "import K from 0x1\ntransaction { prepare(s: auth(Storage, Capabilities, Inbox) &Account) {\n"
	T := func(name, body string) txOp { return txOp{name, hdr + body + "\n} }"} }
	return []txOp{
		T("save-vault", `s.storage.save(<- K.mkVault(10), to: /storage/v); log("saved")`),
		T("save-box", `let b <- K.mkBox(); b.put(<- K.mkVault(1)); b.put(<- attach K.Tag("t") to <- K.mkVault(2)); let old <- b.named["n"] <- K.mkVault(3); destroy old; s.storage.save(<- b, to: /storage/b); log("box")`),
		T("load-destroy", `let v <- s.storage.load<@K.Vault>(from: /storage/v); log(v?.balance); destroy v`),
		T("mutate-vault", `let r = s.storage.borrow<auth(K.E) &K.Vault>(from: /storage/v); if let v = r { let w <- v.withdraw(3); log(w.balance); v.deposit(<- w); log(v.balance) } else { log("no vault") }`),
		T("overdraw", `let v = s.storage.borrow<auth(K.E) &K.Vault>(from: /storage/v)!; let w <- v.withdraw(11); destroy w`),
		T("box-ops", `if let b = s.storage.borrow<&K.Box>(from: /storage/b) { log(b.total()); let x <- b.take(); log(x[K.Tag]?.describe()); b.put(<- x); log(b.named["n"]?.balance); log(b.items.length) } else { log("no box") }`),
		T("move-vault-into-box", `if let b = s.storage.borrow<&K.Box>(from: /storage/b) { if let v <- s.storage.load<@K.Vault>(from: /storage/v) { b.put(<- v); log("moved") } else { log("no vault") } } else { log("no box") }`),
		T("publish-cap", `let c = s.capabilities.storage.issue<&K.Vault>(/storage/v); s.capabilities.publish(c, at: /public/v); log(c.id)`),
		T("use-cap", `let c = s.capabilities.get<&K.Vault>(/public/v); log(c.check()); log(c.borrow()?.balance); log(s.capabilities.storage.getControllers(forPath: /storage/v).length)`),
		T("unpublish-cap", `let c = s.capabilities.unpublish(/public/v); log(c?.id); s.capabilities.storage.forEachController(forPath: /storage/v, fun (c: &StorageCapabilityController): Bool { c.delete(); return true })`),
		T("attach-stored", `if let v <- s.storage.load<@K.Vault>(from: /storage/v) { if v[K.Tag] == nil { let w <- attach K.Tag("stored") to <- v; s.storage.save(<- w, to: /storage/v); log("attached") } else { remove K.Tag from v; s.storage.save(<- v, to: /storage/v); log("removed") } } else { log("no vault") }`),
		T("struct-store", `var d = s.storage.load<{String: [Int]}>(from: /storage/d) ?? {}; let k = d.length.toString(); d[k] = [d.length, 7]; d["0"]?.append(1) ; s.storage.save(d, to: /storage/d); log(d)`),
		T("events-state", `K.fire(K.bump()); log(K.count)`),
		T("inbox", `let c = s.capabilities.storage.issue<&K.Vault>(/storage/v); s.inbox.publish(c, name: "gift", recipient: 0x1); let got = s.inbox.claim<&K.Vault>("gift", provider: 0x1); log(got?.check())`),
		{"phases", "import K from 0x1\ntransaction {\n  let before: Int\n  let ref: &K.Vault?\n  prepare(s: auth(Storage) &Account) { self.before = K.count; self.ref = s.storage.borrow<&K.Vault>(from: /storage/v); log(self.ref?.balance) }\n  pre { self.before >= 0: \"nonneg\" }\n  execute { K.fire(K.bump()); log(K.count) }\n  post { K.count == self.before + 1: \"bumped once\"; self.ref == nil || self.ref!.balance >= 0: \"bal\" }\n}"},
		T("contract-stash", `if let v <- s.storage.load<@K.Vault>(from: /storage/v) { K.stash(<- v); log("stashed") } else { log(K.stashed()) }`),
		T("fail-late", `s.storage.save("x", to: /storage/late); K.fire(9); panic("late failure")`),
	}
}

package host

import (
	"fmt"
	"strings"
)

// The cast grid of the C34 corpus: {as, as?, as!} x source {T, T? (value, nil),
// T?? (value, inner nil, nil)} x T in {Int, struct, resource, [Int], {String: Int}}
// x target {Any, Any?, T, T?, a supertype/interface, its optional} x observation
// {run-time type identifier, isInstance of the bare / optional / doubly optional
// type, a later cast back, the value itself}. The checker is the arbiter: a
// combination it rejects is rejected by both engines alike and is counted.

type castT struct {
	Name     string
	Res      bool
	Type     string // T (without @)
	Value    string // an expression of type T
	Any      string
	Super    string // a proper supertype other than Any
	BackShow string // how to show the value after the cast back (x: T)
}

var castTypes = []castT{
	{Name: "Int", Type: "Int", Value: "7", Any: "AnyStruct", Super: "Integer", BackShow: "x"},
	{Name: "struct", Type: "K.Sq", Value: "K.Sq(3)", Any: "AnyStruct", Super: "{K.Shape}", BackShow: "x.area()"},
	{Name: "array", Type: "[Int]", Value: "[1, 2]", Any: "AnyStruct", Super: "[AnyStruct]", BackShow: "x"},
	{Name: "dict", Type: "{String: Int}", Value: `{"k": 1}`, Any: "AnyStruct", Super: "{String: AnyStruct}", BackShow: "x"},
	{Name: "resource", Res: true, Type: "K.Vault", Value: "K.mkVault(5)", Any: "AnyResource", Super: "{K.HasBalance}", BackShow: "x.balance"},
}

type castSrc struct {
	Name  string
	Depth int    // optional depth of the source type
	Nil   string // "" = holds the value; else how nil it is
}

var castSrcs = []castSrc{
	{"T", 0, ""}, {"T?", 1, ""}, {"T?=nil", 1, "nil"}, {"T??", 2, ""}, {"T??=some-nil", 2, "inner"}, {"T??=nil", 2, "nil"},
}

func castSnippets34() []snippet {
	var out []snippet
	for _, t := range castTypes {
		at := ""
		mv := "="
		if t.Res {
			at, mv = "@", "<-"
		}
		targets := []struct {
			name, ty string
			depth    int
		}{
			{"Any", t.Any, 0}, {"Any?", t.Any + "?", 1}, {"T", t.Type, 0}, {"T?", t.Type + "?", 1}, {"Super", t.Super, 0}, {"Super?", t.Super + "?", 1},
		}
		for _, src := range castSrcs {
			srcType := at + t.Type + strings.Repeat("?", src.Depth)
			var init string
			switch src.Nil {
			case "":
				init = fmt.Sprintf("let $s: %s %s %s", srcType, mv, t.Value)
			case "nil":
				init = fmt.Sprintf("let $s: %s %s nil", srcType, mv)
			case "inner":
				init = fmt.Sprintf("let $i: %s%s? %s nil; let $s: %s %s $i", at, t.Type, mv, srcType, mv)
			}
			for _, op := range []string{"as", "as?", "as!"} {
				for _, tg := range targets {
					depth := tg.depth
					if op == "as?" {
						depth++
					}
					variants := []string{"both"}
					if t.Res {
						variants = []string{"box", "unwrap"}
					}
					for _, v := range variants {
						code := init + fmt.Sprintf("; let $c %s $s %s %s%s; ", mv, op, at, tg.ty)
						switch {
						case !t.Res:
							code += castObserveStruct(t, depth)
						case op == "as?":
							// a failable resource downcast must be an optional binding; if it fails the source is still there
							obs := castObserveResBox(t)
							if v == "unwrap" {
								obs = castObserveResUnwrap(t, tg.depth)
							}
							code = init + fmt.Sprintf("; if let $c <- $s as? %s%s { %s } else { out.append(\"cast failed\"); destroy $s }", at, tg.ty, obs)
						case v == "box":
							code += castObserveResBox(t)
						default:
							code += castObserveResUnwrap(t, depth)
						}
						name := fmt.Sprintf("cast:%s:%s:%s:%s", op, t.Name, src.Name, tg.name)
						if t.Res {
							name += ":" + v
						}
						// signature construct: value kind, source form, optional-ness of the target, observation
						// variant - the operator and the exact target are cases of it (one finding per feature)
						tclass := "nonoptional-target"
						if tg.depth > 0 {
							tclass = "optional-target"
						}
						out = append(out, snippet{Name: name, Feat: "castgrid", Code: code,
							Sig: fmt.Sprintf("castgrid:%s:%s:%s:%s", t.Name, src.Name, tclass, v)})
					}
				}
			}
		}
	}
	return out
}

func castTypeTests(t castT, x string) string {
	at := ""
	if t.Res {
		at = "@"
	}
	return fmt.Sprintf(`out.append(%[1]s.getType().identifier); out.append([%[1]s.isInstance(Type<%[2]s%[3]s>()), %[1]s.isInstance(Type<%[2]s%[3]s?>()), %[1]s.isInstance(Type<%[2]s%[3]s??>()), %[1]s.isInstance(Type<%[2]s%[4]s?>())]); `,
		x, at, t.Type, t.Any)
}

// castObserveStruct: the value is copyable, so it is observed boxed in AnyStruct (run-time type with its
// optional wrappers, cast back to T / T? / T??) and unwrapped level by level.
func castObserveStruct(t castT, depth int) string {
	s := "let $a: AnyStruct = $c; " + castTypeTests(t, "$a")
	s += fmt.Sprintf(`if let x = $a as? %s { out.append(%s) } else { out.append("not T") }; out.append(($a as? %s?) == nil); out.append(($a as? %s??) == nil); `, t.Type, t.BackShow, t.Type, t.Type)
	// unwrap
	cur := "$c"
	open := ""
	closeS := ""
	for d := 0; d < depth; d++ {
		v := fmt.Sprintf("$u%d", d)
		open += fmt.Sprintf("if let %s = %s { ", v, cur)
		closeS = fmt.Sprintf(` } else { out.append("nil at %d") }`, d) + closeS
		cur = v
	}
	inner := castTypeTests(t, cur) + fmt.Sprintf(`if let x = %s as? %s { out.append(%s) } else { out.append("inner not T") }`, cur, t.Type, t.BackShow)
	return s + open + inner + closeS
}

func castObserveResBox(t castT) string {
	return "let $a: @AnyResource <- $c; " + castTypeTests(t, "$a") +
		fmt.Sprintf(`if let x <- $a as? @%s { out.append(%s); destroy x } else { out.append("not T"); destroy $a }`, t.Type, t.BackShow)
}

func castObserveResUnwrap(t castT, depth int) string {
	cur := "$c"
	open := ""
	closeS := ""
	for d := 0; d < depth; d++ {
		v := fmt.Sprintf("$u%d", d)
		open += fmt.Sprintf("if let %s <- %s { ", v, cur)
		closeS = fmt.Sprintf(` } else { out.append("nil at %d") }`, d) + closeS
		cur = v
	}
	inner := castTypeTests(t, cur) + fmt.Sprintf(`if let x <- %s as? @%s { out.append(%s); destroy x } else { out.append("inner not T"); destroy %s }`, cur, t.Type, t.BackShow, cur)
	return open + inner + closeS
}

// ---------------------------------------------------------------------------
// transaction block-presence grid

type txGridCase struct {
	Name    string
	Src     string
	Prepare bool
}

func txGrid34() []txGridCase {
	var out []txGridCase
	for _, prep := range []bool{false, true} {
		for _, pre := range []string{"absent", "true", "false"} {
			for _, exe := range []bool{false, true} {
				for _, post := range []string{"absent", "true", "false"} {
					var sb strings.Builder
					sb.WriteString("import K from 0x1\ntransaction {\n")
					if prep {
						sb.WriteString("  let acct: auth(Storage) &Account\n")
						sb.WriteString("  prepare(s: auth(Storage) &Account) { self.acct = s; s.storage.save(1, to: /storage/g1); log(\"prepare\") }\n")
					}
					switch pre {
					case "true":
						sb.WriteString("  pre { K.count == 0: \"pre\" }\n")
					case "false":
						sb.WriteString("  pre { K.count == 99: \"pre\" }\n")
					}
					if exe {
						sb.WriteString("  execute { log(K.bump()); K.fire(1)")
						if prep {
							sb.WriteString("; self.acct.storage.save(2, to: /storage/g2)")
						}
						sb.WriteString(" }\n")
					}
					switch post {
					case "true":
						sb.WriteString("  post { K.count >= 0: \"post\" }\n")
					case "false":
						sb.WriteString("  post { K.count == 99: \"post\" }\n")
					}
					sb.WriteString("}\n")
					name := fmt.Sprintf("prepare=%v,pre=%s,execute=%v,post=%s", prep, pre, exe, post)
					out = append(out, txGridCase{Name: name, Src: sb.String(), Prepare: prep})
				}
			}
		}
	}
	return out
}

package host

import (
	"bytes"
	"encoding/gob"
	"encoding/json"
	"fmt"
	"hash/fnv"
	"os"
	"sort"
	"strings"

	"github.com/onflow/cadence/common"

	"verif/mc"
	"verif/rt"
)

// C31 — metering is deterministic and independent of execution history.
//
// Every run of a program p of the set P records the sequence of (memory|
// computation, kind, amount) meter calls (rt.Tx.RecordMeter). The baseline of
// (p, engine) is p run ALONE IN A FRESH PROCESS (process-global caches are the
// point, so "alone" cannot be emulated in-process). It is compared with
//
//	A  the 2nd and 3rd run of p in that same fresh process (p after p, after pp);
//	B  p after q: the same fresh process of q goes on to run every other p in
//	   rotated order (the first one is exactly "after q,q,q alone", the later ones
//	   have longer histories); thorough tier: additionally one fresh process per
//	   ordered pair (q, p), so that every pair has exactly the stated history;
//	C  every window (q1, q2, p) of a de Bruijn sequence of order 3 over P, i.e. p
//	   after EVERY prefix sequence of two programs, executed in worker processes
//	   that each walk a slice of the sequence (so their history keeps growing);
//	X  every window (q@e', p@e) of a de Bruijn sequence of order 2 over P x {interp, vm}:
//	   the prefix program may have run on the other engine.
//
// Each engine is compared with itself only.

type meterSum struct {
	N int    `json:"n"`
	H uint64 `json:"h"`
	C string `json:"c"` // result class of the run (part of the observation)
}

func sumMeter(res *rt.Result) meterSum {
	h := fnv.New64a()
	var b [17]byte
	for _, m := range res.Meter {
		if m.Mem {
			b[0] = 1
		} else {
			b[0] = 0
		}
		for i := 0; i < 8; i++ {
			b[1+i] = byte(uint64(m.Kind) >> (8 * i))
			b[9+i] = byte(m.Amount >> (8 * i))
		}
		h.Write(b[:])
	}
	return meterSum{N: len(res.Meter), H: h.Sum64(), C: res.Class}
}

func meterName(m rt.MeterCall) string {
	if m.Mem {
		return "mem/" + common.MemoryKind(m.Kind).String()
	}
	return "comp/" + common.ComputationKind(m.Kind).String()
}

type c31World struct {
	base  *rt.Ledger
	progs []prog
}

func newC31World() *c31World { return &c31World{base: baseLedger28(), progs: corpus31()} }

// The parent builds the base ledger (which takes a few set-up transactions)
// and hands it to the workers in a file, so that a worker process has executed
// NOTHING before its first program: "alone in a fresh process" is exact.
func saveLedger(l *rt.Ledger, path string) error {
	var b bytes.Buffer
	if err := gob.NewEncoder(&b).Encode(l); err != nil {
		return err
	}
	return os.WriteFile(path, b.Bytes(), 0o600)
}

func loadC31World(path string) *c31World {
	b, err := os.ReadFile(path)
	if err != nil {
		panic("C31 worker: " + err.Error())
	}
	l := rt.NewLedger()
	if err := gob.NewDecoder(bytes.NewReader(b)).Decode(l); err != nil {
		panic("C31 worker: " + err.Error())
	}
	return &c31World{base: l, progs: corpus31()}
}

func (w *c31World) run(pi int, vm bool) *rt.Result {
	p := w.progs[pi]
	return rt.Run(w.base.Clone(), rt.Tx{Source: p.Src, Args: p.Args, Signers: p.Signers, Script: p.Script, UseVM: vm, RecordMeter: true, Extra: true})
}

// deBruijn returns the cyclic de Bruijn sequence B(k, n) (FKM algorithm),
// linearised by appending its first n-1 symbols: every word of length n over
// {0..k-1} occurs exactly once as a window.
func deBruijn(k, n int) []int {
	a := make([]int, k*n+1)
	var seq []int
	var db func(t, p int)
	db = func(t, p int) {
		if t > n {
			if n%p == 0 {
				seq = append(seq, a[1:p+1]...)
			}
			return
		}
		a[t] = a[t-p]
		db(t+1, p)
		for j := a[t-p] + 1; j < k; j++ {
			a[t] = j
			db(t+1, t)
		}
	}
	db(1, 1)
	return append(seq, seq[:n-1]...)
}

// schedule returns the symbol sequence of a worker. Symbols are program
// indices, or program index*2+engine for mode X.
func (w *c31World) schedule(sel map[string]string) (syms []int, engOf func(sym int) (pi int, vm bool)) {
	n := len(w.progs)
	fixedEng := sel["eng"] == "1"
	same := func(s int) (int, bool) { return s, fixedEng }
	switch sel["mode"] {
	case "alone": // p three times
		p := selInt(sel, "p")
		return []int{p, p, p}, same
	case "afterq": // q alone (the baseline of q), q twice more, then every other p starting after q
		q := selInt(sel, "q")
		syms = []int{q, q, q}
		for d := 1; d < n; d++ {
			syms = append(syms, (q+d)%n)
		}
		return syms, same
	case "pair":
		return []int{selInt(sel, "q"), selInt(sel, "p")}, same
	case "seq": // slice of the de Bruijn sequence over the first k programs of order ord
		k, ord := selInt(sel, "k"), selInt(sel, "ord")
		full := deBruijn(k, ord)
		lo, hi := selInt(sel, "lo"), selInt(sel, "hi")
		start := lo - (ord - 1)
		if start < 0 {
			start = 0
		}
		sub := full[start:hi]
		if sel["perm"] != "" {
			// the thorough tier maps the k symbols onto a chosen subset of P
			var perm []int
			for _, s := range strings.Split(sel["perm"], ",") {
				var x int
				fmt.Sscan(s, &x)
				perm = append(perm, x)
			}
			sub = append([]int{}, sub...)
			for i := range sub {
				sub[i] = perm[sub[i]]
			}
		}
		return sub, same
	case "seqx":
		full := deBruijn(2*n, 2)
		lo, hi := selInt(sel, "lo"), selInt(sel, "hi")
		start := lo - 1
		if start < 0 {
			start = 0
		}
		return full[start:hi], func(s int) (int, bool) { return s / 2, s%2 == 1 }
	}
	panic("C31 worker: unknown mode " + sel["mode"])
}

type c31WorkerOut struct {
	Syms []int       `json:"syms"`
	Sums []meterSum  `json:"sums"`
	Full [][3]uint64 `json:"full,omitempty"` // meter calls of the last run when full=1
}

// c31Worker runs a schedule in this (fresh) process and prints the summaries.
func c31Worker(env *mc.Env) {
	applyLimits()
	sel := parseSel(env.Sub)
	w := loadC31World(os.Getenv("VERIF_C31_LEDGER"))
	syms, engOf := w.schedule(sel)
	if sel["upto"] != "" {
		syms = syms[:selInt(sel, "upto")+1]
	}
	out := c31WorkerOut{Syms: syms}
	for i, s := range syms {
		pi, vm := engOf(s)
		res := w.run(pi, vm)
		out.Sums = append(out.Sums, sumMeter(res))
		if sel["full"] == "1" && i == len(syms)-1 {
			for _, m := range res.Meter {
				k := uint64(m.Kind) << 1
				if m.Mem {
					k |= 1
				}
				out.Full = append(out.Full, [3]uint64{k, uint64(m.Kind), m.Amount})
			}
		}
	}
	b, _ := json.Marshal(out)
	os.Stdout.Write(b)
	os.Exit(0)
}

func c31Spawn(env *mc.Env, selector string) (*c31WorkerOut, error) {
	r := spawn(env, "C31", selector, subLimits{CPUSeconds: 600, GoMaxProcs: 1})
	if r.StartErr != nil || r.Exit != 0 {
		return nil, fmt.Errorf("worker %q failed: exit=%d signal=%v err=%v stderr=%s", selector, r.Exit, r.Signal, r.StartErr, tail(r.Stderr, 600))
	}
	var out c31WorkerOut
	if err := json.Unmarshal(r.Stdout, &out); err != nil {
		return nil, fmt.Errorf("worker %q: bad output: %v (%s)", selector, err, tail(string(r.Stdout), 200))
	}
	if len(out.Sums) != len(out.Syms) {
		return nil, fmt.Errorf("worker %q: truncated output", selector)
	}
	return &out, nil
}

// c31Case identifies one compared run: position idx of worker `Sel`.
type c31Case struct {
	Sel    string `json:"sel"`
	Idx    int    `json:"idx"`
	Prog   string `json:"prog"`
	VM     bool   `json:"vm"`
	Prefix string `json:"prefix"` // the (up to two) programs run immediately before, for the reader
}

// firstDiff re-runs the worker up to idx with the full meter trace and
// compares it with the baseline worker's full trace.
func c31FirstDiff(env *mc.Env, w *c31World, c c31Case, pi int) (differs bool, detail, diffKind string) {
	eng := "0"
	if c.VM {
		eng = "1"
	}
	base, err := c31Spawn(env, fmt.Sprintf("mode=alone;eng=%s;p=%d;upto=0;full=1", eng, pi))
	if err != nil {
		return false, err.Error(), ""
	}
	got, err := c31Spawn(env, fmt.Sprintf("%s;upto=%d;full=1", c.Sel, c.Idx))
	if err != nil {
		return false, err.Error(), ""
	}
	a, b := base.Full, got.Full
	name := func(x [3]uint64) string {
		return meterName(rt.MeterCall{Mem: x[0]&1 == 1, Kind: uint(x[1]), Amount: x[2]})
	}
	for i := 0; i < len(a) || i < len(b); i++ {
		switch {
		case i >= len(a):
			return true, fmt.Sprintf("%d meter calls alone, %d after prefix; first extra call #%d %s amount %d", len(a), len(b), i, name(b[i]), b[i][2]), "extra:" + name(b[i])
		case i >= len(b):
			return true, fmt.Sprintf("%d meter calls alone, %d after prefix; first missing call #%d %s amount %d", len(a), len(b), i, name(a[i]), a[i][2]), "missing:" + name(a[i])
		case a[i] != b[i]:
			return true, fmt.Sprintf("meter call #%d: alone %s amount %d, after prefix %s amount %d (%d vs %d calls)", i, name(a[i]), a[i][2], name(b[i]), b[i][2], len(a), len(b)), "changed:" + name(a[i])
		}
	}
	if base.Sums[0].C != got.Sums[len(got.Sums)-1].C {
		return true, "same meter calls but result class " + base.Sums[0].C + " vs " + got.Sums[len(got.Sums)-1].C, "result-class"
	}
	return false, "meter sequences identical on re-run", ""
}

func runC31(env *mc.Env) {
	if env.Sub != "" {
		c31Worker(env)
		return
	}
	w := newC31World()
	n := len(w.progs)
	env.R.Set("programs", n)
	if cleanup, err := c31PublishLedger(w); err != nil {
		env.R.HarnessError("%v", err)
		return
	} else {
		defer cleanup()
	}

	type task struct {
		sel string
		// engine of symbol
		x bool
	}
	var tasks []task
	// one fresh process per (q, engine): its first run is "q alone" = the baseline of q
	for e := 0; e < 2; e++ {
		for q := 0; q < n; q++ {
			tasks = append(tasks, task{sel: fmt.Sprintf("mode=afterq;eng=%d;q=%d", e, q)})
		}
	}
	nAlone := len(tasks)
	if env.Thorough() {
		for e := 0; e < 2; e++ {
			for q := 0; q < n; q++ {
				for p := 0; p < n; p++ {
					tasks = append(tasks, task{sel: fmt.Sprintf("mode=pair;eng=%d;q=%d;p=%d", e, q, p)})
				}
			}
		}
	}
	// order-3 windows: quick = the first k3 programs... no: a spread subset; thorough = all of P
	k3 := mc.Pick(env, 16, n)
	if k3 > n {
		k3 = n
	}
	perm := make([]string, k3)
	for i := 0; i < k3; i++ {
		perm[i] = fmt.Sprint(i * n / k3) // evenly spread over P (P is grouped by feature)
	}
	total3 := k3 * k3 * k3
	shards := mc.Pick(env, 8, 16)
	for e := 0; e < 2; e++ {
		for s := 0; s < shards; s++ {
			lo, hi := s*total3/shards, (s+1)*total3/shards
			if s == 0 {
				lo = 0
			}
			if s == shards-1 {
				hi = total3 + 2
			}
			tasks = append(tasks, task{sel: fmt.Sprintf("mode=seq;eng=%d;k=%d;ord=3;lo=%d;hi=%d;perm=%s", e, k3, lo, hi, strings.Join(perm, ","))})
		}
	}
	totalX := 4 * n * n
	xShards := 4
	for s := 0; s < xShards; s++ {
		lo, hi := s*totalX/xShards, (s+1)*totalX/xShards
		if s == xShards-1 {
			hi = totalX + 1
		}
		tasks = append(tasks, task{sel: fmt.Sprintf("mode=seqx;lo=%d;hi=%d", lo, hi), x: true})
	}
	env.R.Set("worker_processes", len(tasks))
	env.R.Set("order3_alphabet", k3)

	outs := make([]*c31WorkerOut, len(tasks))
	mc.ParallelFor(env, len(tasks), func(i int) {
		o, err := c31Spawn(env, tasks[i].sel)
		if err != nil {
			env.R.HarnessError("%v", err)
			return
		}
		outs[i] = o
	})

	// baselines
	base := map[[2]int]meterSum{} // (prog, engine)
	for i := 0; i < nAlone; i++ {
		if outs[i] == nil {
			env.R.NotExhaustive("a baseline worker did not finish")
			return
		}
		e, p := i/n, i%n
		base[[2]int{p, e}] = outs[i].Sums[0]
	}
	distinct := map[uint64]bool{}
	for k, s := range base {
		distinct[s.H] = true
		eng := "interp"
		if k[1] == 1 {
			eng = "vm"
		}
		env.R.Class(eng+":"+s.C, nil)
		if s.N == 0 {
			env.R.HarnessError("program %s (%s) recorded no meter call", w.progs[k[0]].Name, eng)
		}
	}
	env.R.Set("distinct_baseline_meter_sequences", len(distinct))

	type diffRes struct {
		differs      bool
		detail, kind string
	}
	diffs := map[string]diffRes{}
	// compare (deterministic order: tasks, then index)
	for ti, t := range tasks {
		o := outs[ti]
		if o == nil {
			continue
		}
		sel := parseSel(t.sel)
		engOf := func(s int) (int, int) {
			if t.x {
				return s / 2, s % 2
			}
			e := 0
			if sel["eng"] == "1" {
				e = 1
			}
			return s, e
		}
		warm := 0
		switch sel["mode"] {
		case "seq":
			if selInt(sel, "lo") > 0 {
				warm = 2
			}
		case "seqx":
			if selInt(sel, "lo") > 0 {
				warm = 1
			}
		}
		for idx, s := range o.Syms {
			if idx < warm {
				continue // belongs to the previous shard's windows; here it only builds the history
			}
			pi, e := engOf(s)
			b := base[[2]int{pi, e}]
			got := o.Sums[idx]
			env.R.Eval()
			var prefix []string
			for j := idx - 2; j < idx; j++ {
				if j >= 0 {
					qi, qe := engOf(o.Syms[j])
					prefix = append(prefix, fmt.Sprintf("%s@%d", w.progs[qi].Name, qe))
				}
			}
			key := fmt.Sprintf("%s|%d|%s", w.progs[pi].Name, e, strings.Join(prefix, ","))
			if len(prefix) > 0 {
				env.R.Nontrivial(key)
			}
			env.R.State(key)
			if got == b {
				continue
			}
			c := c31Case{Sel: t.sel, Idx: idx, Prog: w.progs[pi].Name, VM: e == 1, Prefix: strings.Join(prefix, ",")}
			// the difference is located (two more worker processes) once per distinct deviating
			// observation of (program, engine); further cases with the same observation are counted
			dk := fmt.Sprintf("%d|%d|%v", pi, e, got)
			d, seen := diffs[dk]
			if !seen {
				d.differs, d.detail, d.kind = c31FirstDiff(env, w, c, pi)
				diffs[dk] = d
			}
			if !d.differs {
				env.R.HarnessError("meter summary of %s differed (%v vs %v) but the re-run did not: %s", key, got, b, d.detail)
				continue
			}
			eng := "interp"
			if e == 1 {
				eng = "vm"
			}
			env.R.Violation(fmt.Sprintf("%s|%s|%s", eng, w.progs[pi].Name, d.kind), c,
				fmt.Sprintf("%s (%s) after [%s] in worker %q run #%d: %s", w.progs[pi].Name, eng, c.Prefix, t.sel, idx, d.detail))
		}
	}
	names := make([]string, n)
	for i, p := range w.progs {
		names[i] = p.Name
	}
	sort.Strings(names)
	env.R.Sample(map[string]any{"programs": strings.Join(names, " ")})
	for _, o := range outs {
		if o == nil {
			return // a cap was hit (reported by ParallelFor): no bound completed
		}
	}
	env.R.BoundCompleted(fmt.Sprintf("alone x3; after every q (fresh process per q); every window of B(%d,3) per engine; every window of B(%d,2) over programs x engines", k3, 2*n))
}

// c31PublishLedger writes the base ledger to a temporary file and points the
// workers at it through the environment.
func c31PublishLedger(w *c31World) (cleanup func(), err error) {
	f, err := os.CreateTemp("", "verif-c31-ledger-*")
	if err != nil {
		return nil, err
	}
	f.Close()
	if err := saveLedger(w.base, f.Name()); err != nil {
		os.Remove(f.Name())
		return nil, err
	}
	os.Setenv("VERIF_C31_LEDGER", f.Name())
	return func() { os.Remove(f.Name()) }, nil
}

func replayC31(env *mc.Env, raw json.RawMessage) (bool, string) {
	var c c31Case
	if err := json.Unmarshal(raw, &c); err != nil {
		return false, err.Error()
	}
	w := newC31World()
	if os.Getenv("VERIF_C31_LEDGER") == "" {
		cleanup, err := c31PublishLedger(w)
		if err != nil {
			return false, err.Error()
		}
		defer func() { cleanup(); os.Unsetenv("VERIF_C31_LEDGER") }()
	} else if _, err := os.Stat(os.Getenv("VERIF_C31_LEDGER")); err != nil {
		cleanup, err := c31PublishLedger(w)
		if err != nil {
			return false, err.Error()
		}
		defer func() { cleanup(); os.Unsetenv("VERIF_C31_LEDGER") }()
	}
	pi := -1
	for i, p := range w.progs {
		if p.Name == c.Prog {
			pi = i
		}
	}
	if pi < 0 {
		return false, "unknown program " + c.Prog
	}
	differs, detail, _ := c31FirstDiff(env, w, c, pi)
	return differs, fmt.Sprintf("%s vm=%v after [%s]: %s", c.Prog, c.VM, c.Prefix, detail)
}

func init() {
	mc.Register(&mc.Check{
		ID: "C31",
		Rule: "program set P (arith around the small-integer cache, built-in type members, type values, strings/lexer, entitlement mappings, imports, storage, capabilities, contracts, failures at every stage); baseline = p alone in a fresh process; compared: p after p/pp, p after q (fresh process per q), every window (q1,q2,p) of a de Bruijn sequence of order 3 (p after every prefix of 2 programs, shared worker processes), every (q@engine', p@engine) window of order 2; oracle: identical sequence of (memory|computation, kind, amount) meter calls and result class; non-trivial = distinct (p, engine, immediate prefix)",
		Assumptions: []string{
			"a worker process walks a slice of the de Bruijn sequence, so its history before a window is longer than the window itself (only the fresh-process levels have exactly the stated history)",
			"rt's gauges record every MeterMemory / MeterComputation call the runtime makes with the gauges of the Context",
		},
		Run:    runC31,
		Replay: replayC31,
	})
}

package host

import (
	"os"
	"strconv"
	"testing"

	"verif/rt"
)

func TestOne28(t *testing.T) {
	e := newC28Env()
	p := e.progs[os.Getenv("P")]
	idx, _ := strconv.Atoi(os.Getenv("I"))
	mode, _ := strconv.Atoi(os.Getenv("M"))
	f := rt.Fault{Kind: os.Getenv("K"), Index: idx, Mode: mode}
	res := e.run(p, os.Getenv("VM") == "1", []rt.Fault{f})
	t.Logf("class=%s kind=%s value=%v logs=%v\ntrace=%v\nerr=%v", res.Class, res.Kind, res.Value, res.Logs, res.Trace, res.Err)
}

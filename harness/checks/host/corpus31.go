package host

import (
	"fmt"
	"strings"

	"github.com/onflow/cadence"
)

// The C31 program set P: programs chosen to touch everything in the process
// that could remember an earlier execution — the small-integer value cache
// (InclusiveRange), lazily initialised members of the global built-in types,
// entitlement-mapping image caches, lexer / activation pools, type IDs and
// static-type conversions, imports, storage, failures at every stage.

func corpus31() []prog {
	var ps []prog
	add := func(name, src string) { ps = append(ps, prog{Name: name, Script: true, Src: src}) }

	// small integers around the cache bounds, per type
	for _, t := range []string{"Int", "Int8", "UInt8", "Int64", "UInt128", "Word16", "Int256"} {
		add("range-"+t, fmt.Sprintf(`access(all) fun main(): %[1]s {
  var s: %[1]s = 0
  for x in InclusiveRange<%[1]s>(0, 12) { s = s + x }
  let r = InclusiveRange<%[1]s>(1, 40, step: 13)
  for x in r { s = s + x %% 2 }
  return s + (r.contains(14) ? 1 : 0)
}`, t))
	}
	add("smallint-arith", `access(all) fun main(): Int { var a = 0; var i = -130; while i < 130 { a = a + i * 2 - (i / 3); i = i + 1 }; return a }`)
	add("bigint", `access(all) fun main(): Int { var a: Int = 1; var i = 0; while i < 70 { a = a * 1000003 + 7; i = i + 1 }; let b: UInt256 = 115792089237316195423570985008687907853269984665640564039457584007913129639935; return a % 1000 + Int(b % 97) }`)
	add("fixedpoint", `access(all) fun main(): UFix64 { var a: UFix64 = 1.5; let f: Fix64 = -2.25; var i = 0; while i < 20 { a = a * 1.25 + 0.00000001; i = i + 1 }; return a + UFix64(f * f) }`)
	add("bitops", `access(all) fun main(): UInt64 { var x: UInt64 = 0x9e3779b97f4a7c15; var i: UInt64 = 0; while i < 64 { x = (x << 1) ^ (x >> 3) | i; i = i + 1 }; let w: Word8 = 250; return x + UInt64(w + 10) }`)
	// strings / lexer / number parsing
	add("strings", `access(all) fun main(): Int {
  let s = "Hello, \u{1F600} wörld — ".concat("cafe\u{301}")
  var n = s.length + s.utf8.length
  for c in s { if c == "l" { n = n + 1 } }
  let parts = s.split(separator: " ")
  return n + parts.length + s.toLower().length + s.slice(from: 1, upTo: 4).length + (s.contains("wörld") ? 1 : 0) + String.join(parts, separator: "-").length
}`)
	add("string-template", `access(all) fun main(): String { let a = 1; let b = "x"; return "\(a) and \(b) and \(a + 41)" }`)
	add("parse-numbers", `access(all) fun main(): Int { return Int.fromString("123456789012345678901234567890")! % 1000 + Int(UInt8.fromString("255")!) + Int(Int64.fromBigEndianBytes([0,0,0,0,0,0,1,2])!) + (UFix64.fromString("1.5") == 1.5 ? 1 : 0) + "ff".decodeHex().length + (0xff).toString().length }`)
	add("many-tokens", "access(all) fun main(): Int { var a = 0\n"+strings.Repeat("  a = a + (1 * 2) - [3, 4][0] + {\"k\": 5}[\"k\"]! // c\n", 40)+"  return a }")
	add("characters", `access(all) fun main(): Int { let c: Character = "é"; let s = String.fromCharacters([c, "a", "\u{1F1E9}\u{1F1EA}"]); return s.length + c.utf8.length + String.fromUTF8([104, 105])!.length }`)
	// built-in types' members, type values, run-time types
	add("type-values", `access(all) fun main(): Int {
  let ts: [Type] = [Type<Int>(), Type<String>(), Type<[Int8]>(), Type<{String: Int}>(), Type<&Account>(), Type<auth(Storage) &Account.Storage>(),
    Type<PublicKey>(), Type<Capability<&Int>>(), Type<InclusiveRange<Int>>(), Type<AnyStruct?>(), Type<HashAlgorithm>(), Type<@AnyResource>(), Type<Block>(), Type<DeployedContract>()]
  var n = 0
  for t in ts { n = n + t.identifier.length; if t.isSubtype(of: Type<AnyStruct>()) { n = n + 1 }; if t.isRecovered { n = n + 1 } }
  return n + Type<fun(Int): Int>().identifier.length
}`)
	add("type-construct", `access(all) fun main(): Int {
  let a = OptionalType(Type<Int>())
  let b = VariableSizedArrayType(a)
  let c = DictionaryType(key: Type<String>(), value: b)!
  let d = ReferenceType(entitlements: ["Storage"], type: Type<Account>())
  let e = CompositeType("A.0000000000000001.C.R")
  let f = FunctionType(parameters: [Type<Int>()], return: Type<String>())
  let g = IntersectionType(types: [])
  let h = CapabilityType(Type<&Int>())
  let i = ConstantSizedArrayType(type: Type<Int>(), size: 3)
  let j = InclusiveRangeType(Type<Int>())
  return a.identifier.length + b.identifier.length + c.identifier.length + (d?.identifier?.length ?? 0) + (e?.identifier?.length ?? 0) + f.identifier.length + (g == nil ? 0 : 1) + (h?.identifier?.length ?? 0) + i.identifier.length + (j?.identifier?.length ?? 0)
}`)
	add("casts", `access(all) struct S { access(all) let a: Int; init() { self.a = 1 } }
access(all) fun main(): Int {
  let xs: [AnyStruct] = [1, "a", 2.0, true, [1], {1: 2}, S(), nil, 0x1 as Address, /public/p, Type<Int>(), 3 as UInt8, fun (): Int { return 1 }]
  var n = 0
  for x in xs {
    if let i = x as? Int { n = n + i }
    if (x as? String) != nil { n = n + 1 }
    if let s = x as? S { n = n + s.a }
    if x.isInstance(Type<[Int]>()) { n = n + 1 }
    if x.getType() == Type<UInt8>() { n = n + 1 }
    if let i = x as? Integer { n = n + 1 }
  }
  return n
}`)
	add("array-dict", `access(all) fun main(): Int {
  var xs: [Int] = []
  var i = 0
  while i < 60 { xs.append((i * 37) % 11); i = i + 1 }
  let d: {String: [Int]} = {}
  for x in xs { let k = x.toString(); if d[k] == nil { d[k] = [] }; d[k]!.append(x) }
  let m = xs.map(fun (x: Int): Int { return x + 1 }).filter(view fun (x: Int): Bool { return x % 2 == 0 })
  xs.insert(at: 0, 5); let r = xs.remove(at: 3); let sl = xs.slice(from: 2, upTo: 9); let rv = sl.reverse()
  return d.keys.length + m.length + r + rv[0] + (xs.contains(3) ? 1 : 0) + (xs.firstIndex(of: 4) ?? 0) + d.values.length + xs.concat(sl).length + (d.containsKey("1") ? 1 : 0) + (d.remove(key: "1")?.length ?? 0)
}`)
	add("optionals-closures", `access(all) fun main(): Int {
  let f = fun (_ x: Int?): Int? { return x.map(fun (y: Int): Int { return y * 2 }) }
  var acc = 0
  let adders: [fun(Int): Int] = []
  var i = 0
  while i < 5 { let j = i; adders.append(fun (x: Int): Int { return x + j }); i = i + 1 }
  for a in adders { acc = a(acc) }
  let o: Int?? = 3
  return acc + (f(4) ?? 0) + (f(nil) ?? 1) + (o! ?? 0)
}`)
	add("composites", `access(all) struct interface I { access(all) fun f(): Int { return 1 } access(all) fun g(_ x: Int): Int { pre { x > 0: "pos" } post { result > x: "grow" } } }
access(all) struct S: I { access(all) var v: Int; init(v: Int) { self.v = v } access(all) fun set(_ v: Int) { self.v = v } access(all) fun g(_ x: Int): Int { return x + self.v } }
access(all) enum E: UInt8 { access(all) case a; access(all) case b }
access(all) resource R { access(all) let id: Int; init(id: Int) { self.id = id } }
access(all) fun main(): Int {
  let s = S(v: 2)
  var t = s
  t.set(10)
  let rs: @[R] <- [<- create R(id: 1), <- create R(id: 2)]
  let r <- rs.remove(at: 0)
  let n = r.id + rs[0].id + rs.length
  destroy r
  destroy rs
  return s.f() + s.g(3) + t.v + Int(E.b.rawValue) + (E(rawValue: 0) == E.a ? 1 : 0) + n
}`)
	add("attachments", `access(all) resource R { access(all) let x: Int; init() { self.x = 3 } }
access(all) attachment A for R { access(all) fun f(): Int { return base.x + 1 } }
access(all) fun main(): Int { let r <- attach A() to <- create R(); let x = r[A]!.f(); let r2 <- r; remove A from r2; let y = r2[A] == nil ? 1 : 0; destroy r2; return x + y }`)
	add("entitlements", `access(all) entitlement X
access(all) entitlement Y
access(all) entitlement mapping M { X -> Y }
access(all) struct Inner { access(Y) fun y(): Int { return 2 } access(all) fun a(): Int { return 1 } }
access(all) struct Outer { access(mapping M) let inner: Inner; init() { self.inner = Inner() } }
access(all) fun main(): Int { let o = Outer(); let r = &o as auth(X) &Outer; let i = r.inner; let p = &o as &Outer; return i.y() + p.inner.a() }`)
	add("account-mapping", `access(all) fun main(): Int {
  let a = getAuthAccount<auth(Storage, Contracts, Keys, Inbox, Capabilities) &Account>(0x1)
  let s = a.storage
  let c = a.contracts
  let k = a.keys
  let caps = a.capabilities
  let sc = caps.storage
  let ac = caps.account
  return s.storagePaths.length + c.names.length + Int(k.count) + sc.getControllers(forPath: /storage/r).length + ac.getControllers().length
}`)
	add("references", `access(all) fun main(): Int { let xs = [[1, 2], [3]]; let r = &xs as auth(Mutate) &[[Int]]; r.append([9]); let inner = r[1]; let d = {"a": 1}; let dr = &d as &{String: Int}; return r[0].length + inner[0] + (dr["a"] ?? 0) + r.length }`)
	// host services
	add("crypto", `access(all) fun main(): Int {
  let k = PublicKey(publicKey: "0102".decodeHex(), signatureAlgorithm: SignatureAlgorithm.ECDSA_P256)
  let h = HashAlgorithm.SHA3_256.hash([1, 2, 3])
  let ok = k.verify(signature: [1], signedData: [2], domainSeparationTag: "t", hashAlgorithm: HashAlgorithm.SHA2_256)
  return h.length + (ok ? 1 : 0) + Int(HashAlgorithm.KECCAK_256.rawValue) + Int(SignatureAlgorithm.BLS_BLS12_381.rawValue) + (HashAlgorithm(rawValue: 1) == nil ? 0 : 1)
}`)
	add("block-random-rlp", `access(all) fun main(): UInt64 { let b = getCurrentBlock(); let r = revertibleRandom<UInt64>(modulo: 10); let d = RLP.decodeString([0x83, 1, 2, 3]); let l = RLP.decodeList([0xc2, 1, 2]); return b.height + r + UInt64(d.length + l.length) + UInt64(b.id.length) }`)
	// imports, storage, capabilities (base ledger of C28)
	add("import-one", `import C from 0x1
access(all) fun main(): Int { let s = C.S(a: 4); C.fire(1); return s.a + C.counter }`)
	add("import-chain", `import D from 0x2
import C, U from 0x1
access(all) fun main(): Int { let r <- C.mk(2); let x = r.x; destroy r; return D.twice(x) + U.v() }`)
	add("import-string", `import foo from "foo"
access(all) fun main(): Int { return foo() }`)
	add("storage-read", corpusSrc28("s-storage-read"))
	add("storage-meta", corpusSrc28("s-storage-meta"))
	add("cap-borrow", corpusSrc28("s-cap-borrow"))
	add("contract-query", corpusSrc28("s-contract-query"))
	add("account-info", corpusSrc28("s-account-info"))
	// failures at every stage
	add("fail-parse", `access(all) fun main(): Int { return 1 + }`)
	add("fail-check", `access(all) fun main(): Int { let x: String = 1; return x }`)
	add("fail-overflow", `access(all) fun main(): UInt8 { var x: UInt8 = 200; var i = 0; while i < 3 { x = x + 20; i = i + 1 }; return x }`)
	add("fail-index", `access(all) fun main(): Int { let xs = [1, 2, 3]; var i = 0; var s = 0; while true { s = s + xs[i]; i = i + 1 }; return s }`)
	add("fail-panic-cond", `access(all) fun f(_ x: Int): Int { pre { x < 3: "too big: ".concat(x.toString()) } return x }
access(all) fun main(): Int { return f(1) + f(2) + f(3) }`)
	add("fail-force-nil", `access(all) fun main(): Int { let d: {Int: Int} = {1: 1}; return d[1]! + d[2]! }`)
	add("fail-import-broken", `import B from 0x3
access(all) fun main(): Int { return 1 }`)
	// arguments
	ps = append(ps, prog{Name: "args", Script: true,
		Src: `access(all) fun main(a: Int, b: [String], c: {String: UInt8}, d: Address?): Int { return a + b.length + c.length + (d == nil ? 0 : 1) }`,
		Args: []cadence.Value{cadence.NewInt(7),
			cadence.NewArray([]cadence.Value{cadence.String("a"), cadence.String("bc")}).WithType(cadence.NewVariableSizedArrayType(cadence.StringType)),
			cadence.NewDictionary([]cadence.KeyValuePair{{Key: cadence.String("k"), Value: cadence.UInt8(1)}}).WithType(cadence.NewDictionaryType(cadence.StringType, cadence.UInt8Type)),
			cadence.NewOptional(cadence.NewAddress([8]byte{0, 0, 0, 0, 0, 0, 0, 1}))}})
	// transactions (run on a clone; the base ledger is never changed)
	for _, n := range []string{"t-save-resource", "t-load-move", "t-cap-issue-publish", "t-contract-add", "t-contract-update", "t-inbox", "t-mixed", "t-keys", "t-fail-after-write"} {
		p := corpusProg28(n)
		ps = append(ps, p)
	}
	return ps
}

func corpusProg28(name string) prog {
	for _, p := range corpus28() {
		if p.Name == name {
			return p
		}
	}
	panic("no C28 corpus program " + name)
}

func corpusSrc28(name string) string { return corpusProg28(name).Src }

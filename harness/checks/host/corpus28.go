package host

import (
	"fmt"

	"github.com/onflow/cadence"
	"github.com/onflow/cadence/common"

	"verif/rt"
)

// The C28 corpus: scripts and transactions written so that, together, they
// reach every callback kind of runtime.Interface that rt.Run wires.

type prog struct {
	Name    string
	Script  bool
	Src     string
	Signers []common.Address
	Args    []cadence.Value
	// TryUpdate marks programs that log "T0" immediately before and "T1 <ok>"
	// immediately after a contracts.tryUpdate call (documented exception).
	TryUpdate bool
}

const contractC = `access(all) contract C {
  access(all) event E(x: Int)
  access(all) resource R {
    access(all) var x: Int
    init(x: Int) { self.x = x }
    access(all) fun bump() { self.x = self.x + 1 }
  }
  access(all) struct S { access(all) let a: Int; init(a: Int) { self.a = a } }
  access(all) var counter: Int
  access(all) fun mk(_ x: Int): @R { return <- create R(x: x) }
  access(all) fun fire(_ x: Int) { emit E(x: x) }
  access(all) fun inc(): Int { self.counter = self.counter + 1; return self.counter }
  init() { self.counter = 0 }
}`

const contractD = `import C from 0x1
access(all) contract D {
  access(all) fun twice(_ x: Int): Int { C.fire(x); return x * 2 }
  init() {}
}`

const contractU = `access(all) contract U { access(all) fun v(): Int { return 1 } }`
const contractU2 = `access(all) contract U { access(all) fun v(): Int { return 2 } }`
const contractN = `access(all) contract N { access(all) let k: Int; init() { self.k = 5; log("N.init") } }`

// does not type-check: importing it makes the runtime ask the host to recover the program
const contractBroken = `access(all) contract B { access(all) fun f(): Int { return "no" } }`

const libFoo = `access(all) fun foo(): Int { return 41 }`

func hexOf(s string) string { return fmt.Sprintf("%x", s) }

// baseLedger28 builds the start state shared by every corpus program.
func baseLedger28() *rt.Ledger {
	l := rt.NewLedger()
	rt.Deploy(l, rt.Addr(1), "C", contractC, false)
	rt.Deploy(l, rt.Addr(2), "D", contractD, false)
	rt.Deploy(l, rt.Addr(1), "U", contractU, false)
	l.Code[string(common.AddressLocation{Address: rt.Addr(3), Name: "B"}.ID())] = []byte(contractBroken)
	l.Code[string(common.StringLocation("foo").ID())] = []byte(libFoo)
	setup := `import C from 0x1
transaction {
  prepare(s: auth(Storage, Capabilities, Inbox) &Account) {
    s.storage.save(<- C.mk(7), to: /storage/r)
    s.storage.save(42, to: /storage/n)
    var big: [String] = []
    var i = 0
    while i < 120 { big.append("0123456789012345678901234567890123456789".concat(i.toString())); i = i + 1 }
    s.storage.save(big, to: /storage/big)
    let cap = s.capabilities.storage.issue<&C.R>(/storage/r)
    s.capabilities.publish(cap, at: /public/r)
    let ncap = s.capabilities.storage.issue<&Int>(/storage/n)
    s.capabilities.publish(ncap, at: /public/n)
    s.inbox.publish(ncap, name: "gift", recipient: 0x2)
  }
}`
	r := rt.Run(l, rt.Tx{Source: setup, Signers: []common.Address{rt.Addr(1)}})
	if !r.OK() {
		panic("C28 base ledger setup failed: " + r.ErrString())
	}
	return l
}

func s1() []common.Address { return []common.Address{rt.Addr(1)} }
func s2() []common.Address { return []common.Address{rt.Addr(2)} }

var pkExpr = `PublicKey(publicKey: "0102".decodeHex(), signatureAlgorithm: SignatureAlgorithm.ECDSA_P256)`
var blsExpr = `PublicKey(publicKey: "0102".decodeHex(), signatureAlgorithm: SignatureAlgorithm.BLS_BLS12_381)`

func corpus28() []prog {
	return []prog{
		// --- logging, events, arguments
		{Name: "s-log", Script: true, Src: `access(all) fun main(): Int { log("a"); log("b"); return 3 }`},
		{Name: "s-args", Script: true, Src: `access(all) fun main(a: Int, b: String, c: [UInt8]): Int { log(b); return a + c.length }`,
			Args: []cadence.Value{cadence.NewInt(5), cadence.String("x"), cadence.NewArray([]cadence.Value{cadence.UInt8(1)}).WithType(cadence.NewVariableSizedArrayType(cadence.UInt8Type))}},
		{Name: "t-args", Src: `transaction(a: Int, b: Address) { prepare(s: &Account) { log(a) } execute { log(b) } }`, Signers: s1(),
			Args: []cadence.Value{cadence.NewInt(5), cadence.NewAddress([8]byte{0, 0, 0, 0, 0, 0, 0, 9})}},
		{Name: "t-event", Src: `import C from 0x1
transaction { prepare(s: &Account) { C.fire(1); C.fire(2) } execute { log("fired") } }`, Signers: s1()},
		{Name: "s-event-import2", Script: true, Src: `import D from 0x2
access(all) fun main(): Int { return D.twice(4) }`},
		{Name: "t-two-signers", Src: `transaction { prepare(a: &Account, b: &Account) { log(a.address); log(b.address) } }`,
			Signers: []common.Address{rt.Addr(1), rt.Addr(2)}},
		// --- imports, code and program loading
		{Name: "s-import-string", Script: true, Src: `import foo from "foo"
access(all) fun main(): Int { return foo() + 1 }`},
		{Name: "s-import-names", Script: true, Src: `import C, U from 0x1
access(all) fun main(): Int { return U.v() + C.counter }`},
		{Name: "s-import-broken", Script: true, Src: `import B from 0x3
access(all) fun main(): Int { return 1 }`},
		{Name: "t-contract-state", Src: `import C from 0x1
transaction { prepare(s: &Account) { log(C.inc()); log(C.inc()) } }`, Signers: s2()},
		// --- storage: reads, writes, slabs
		{Name: "s-storage-read", Script: true, Src: `import C from 0x1
access(all) fun main(): Int {
  let a = getAuthAccount<auth(Storage) &Account>(0x1)
  let r = a.storage.borrow<&C.R>(from: /storage/r)!
  let n = a.storage.copy<Int>(from: /storage/n)!
  let big = a.storage.borrow<&[String]>(from: /storage/big)!
  return r.x + n + big.length + big[100].length
}`},
		{Name: "s-storage-meta", Script: true, Src: `access(all) fun main(): Int {
  let a = getAuthAccount<auth(Storage) &Account>(0x1)
  var n = 0
  a.storage.forEachStored(fun (p: StoragePath, t: Type): Bool { n = n + 1; return true })
  a.storage.forEachPublic(fun (p: PublicPath, t: Type): Bool { n = n + 1; return true })
  log(a.storage.type(at: /storage/r))
  log(a.storage.check<Int>(from: /storage/n))
  return n + a.storage.storagePaths.length + a.storage.publicPaths.length
}`},
		{Name: "t-save-resource", Src: `import C from 0x1
transaction { prepare(s: auth(Storage) &Account) { s.storage.save(<- C.mk(1), to: /storage/r2); log("saved") } }`, Signers: s2()},
		{Name: "t-save-big", Src: `transaction { prepare(s: auth(Storage) &Account) {
  var xs: [String] = []
  var i = 0
  while i < 150 { xs.append("abcdefghijabcdefghijabcdefghijabcdefghij".concat(i.toString())); i = i + 1 }
  s.storage.save(xs, to: /storage/xs)
  let d: {String: [Int]} = {"a": [1,2,3], "b": []}
  s.storage.save(d, to: /storage/d)
} }`, Signers: s2()},
		{Name: "t-load-move", Src: `import C from 0x1
transaction { prepare(s: auth(Storage) &Account) {
  let r <- s.storage.load<@C.R>(from: /storage/r)!
  r.bump()
  s.storage.save(<- r, to: /storage/moved)
  let n = s.storage.load<Int>(from: /storage/n)!
  log(n)
} }`, Signers: s1()},
		{Name: "t-mutate-big", Src: `transaction { prepare(s: auth(Storage) &Account) {
  let big = s.storage.borrow<auth(Mutate) &[String]>(from: /storage/big)!
  big.append("tail")
  let x = big.remove(at: 0)
  log(x)
} }`, Signers: s1()},
		{Name: "t-destroy", Src: `import C from 0x1
transaction { prepare(s: auth(Storage) &Account) {
  let r <- s.storage.load<@C.R>(from: /storage/r)!
  destroy r
  let t <- C.mk(3)
  destroy t
} }`, Signers: s1()},
		// first write of an account without storage (new account storage map: its root register is written at commit)
		{Name: "t-first-save", Src: `transaction { prepare(a: auth(Storage) &Account, b: auth(Storage) &Account) {
  a.storage.save("first", to: /storage/first)
  b.storage.save([1, 2, 3], to: /storage/first)
} }`, Signers: []common.Address{rt.Addr(5), rt.Addr(6)}},
		{Name: "t-fail-after-write", Src: `transaction { prepare(s: auth(Storage) &Account) { s.storage.save(1, to: /storage/q); panic("user abort") } }`, Signers: s2()},
		// --- capabilities
		{Name: "s-cap-borrow", Script: true, Src: `import C from 0x1
access(all) fun main(): Int {
  let a = getAccount(0x1)
  let r = a.capabilities.borrow<&C.R>(/public/r)!
  let c = a.capabilities.get<&Int>(/public/n)
  log(a.capabilities.exists(/public/zz))
  return r.x + *(c.borrow()!)
}`},
		{Name: "t-cap-issue-publish", Src: `transaction { prepare(s: auth(Storage, Capabilities) &Account) {
  s.storage.save("hello", to: /storage/h)
  let c = s.capabilities.storage.issue<&String>(/storage/h)
  s.capabilities.publish(c, at: /public/h)
  let ac = s.capabilities.account.issue<&Account>()
  log(ac.id)
  log(s.capabilities.storage.getControllers(forPath: /storage/h).length)
} }`, Signers: s2()},
		{Name: "t-cap-unpublish-delete", Src: `transaction { prepare(s: auth(Capabilities) &Account) {
  let c = s.capabilities.unpublish(/public/n)!
  let ctl = s.capabilities.storage.getController(byCapabilityID: c.id)!
  ctl.setTag("t")
  ctl.retarget(/storage/other)
  ctl.delete()
  s.capabilities.storage.forEachController(forPath: /storage/r, fun (c: &StorageCapabilityController): Bool { log(c.capabilityID); return true })
} }`, Signers: s1()},
		{Name: "t-inbox", Src: `transaction { prepare(s: auth(Inbox, Storage, Capabilities) &Account) {
  let c = s.inbox.claim<&Int>("gift", provider: 0x1)!
  log(c.borrow())
  s.storage.save(5, to: /storage/five)
  let mine = s.capabilities.storage.issue<&Int>(/storage/five)
  s.inbox.publish(mine, name: "back", recipient: 0x1)
  let u = s.inbox.unpublish<&Int>("back")
  log(u != nil)
} }`, Signers: s2()},
		// --- contracts
		{Name: "t-contract-add", Src: fmt.Sprintf(`transaction { prepare(s: auth(Contracts) &Account) {
  let d = s.contracts.add(name: "N", code: "%s".decodeHex())
  log(d.name)
} }`, hexOf(contractN)), Signers: s2()},
		{Name: "t-contract-update", Src: fmt.Sprintf(`transaction { prepare(s: auth(Contracts) &Account) {
  let d = s.contracts.update(name: "U", code: "%s".decodeHex())
  log(d.name)
} }`, hexOf(contractU2)), Signers: s1()},
		{Name: "t-contract-tryupdate", TryUpdate: true, Src: fmt.Sprintf(`transaction { prepare(s: auth(Contracts) &Account) {
  let code = "%s".decodeHex()
  log("T0")
  let res = s.contracts.tryUpdate(name: "U", code: code)
  log(res.deployedContract == nil ? "T1 fail" : "T1 ok")
} }`, hexOf(contractU2)), Signers: s1()},
		{Name: "t-contract-tryupdate-bad", TryUpdate: true, Src: fmt.Sprintf(`transaction { prepare(s: auth(Contracts) &Account) {
  let code = "%s".decodeHex()
  log("T0")
  let res = s.contracts.tryUpdate(name: "U", code: code)
  log(res.deployedContract == nil ? "T1 fail" : "T1 ok")
} }`, hexOf(`access(all) contract U { access(all) fun v(): Int { return "s" } }`)), Signers: s1()},
		{Name: "t-contract-remove", Src: `transaction { prepare(s: auth(Contracts) &Account) {
  let d = s.contracts.remove(name: "U")
  log(d?.name)
} }`, Signers: s1()},
		{Name: "s-contract-query", Script: true, Src: `import C from 0x1
access(all) fun main(): Int {
  let a = getAccount(0x1)
  let names = a.contracts.names
  let d = a.contracts.get(name: "C")!
  log(d.code.length)
  let none = a.contracts.get(name: "Zed")
  let b = a.contracts.borrow<&C>(name: "C")!
  return names.length + b.counter + (none == nil ? 0 : 1)
}`},
		// --- account information
		{Name: "s-account-info", Script: true, Src: `access(all) fun main(): UFix64 {
  let a = getAccount(0x1)
  log(a.storage.used); log(a.storage.capacity)
  return a.balance + a.availableBalance
}`},
		{Name: "t-create-account", Src: `transaction { prepare(s: auth(BorrowValue) &Account) {
  let n = Account(payer: s)
  log(n.address)
  log(n.balance)
} }`, Signers: s1()},
		// --- keys
		{Name: "t-keys", Src: `transaction { prepare(s: auth(Keys) &Account) {
  let k = s.keys.add(publicKey: ` + pkExpr + `, hashAlgorithm: HashAlgorithm.SHA3_256, weight: 100.0)
  log(k.keyIndex)
  log(s.keys.get(keyIndex: 0) == nil)
  log(s.keys.count)
  log(s.keys.revoke(keyIndex: 0) == nil)
  s.keys.forEach(fun (k: AccountKey): Bool { return true })
} }`, Signers: s1()},
		{Name: "s-keys-query", Script: true, Src: `access(all) fun main(): UInt64 { let a = getAccount(0x2); log(a.keys.get(keyIndex: 1) == nil); return a.keys.count }`},
		// --- crypto
		{Name: "s-publickey", Script: true, Src: `access(all) fun main(): Int { let k = ` + pkExpr + `; return k.publicKey.length }`},
		{Name: "s-verify", Script: true, Src: `access(all) fun main(): Bool { let k = ` + pkExpr + `
  return k.verify(signature: [1,2], signedData: [3], domainSeparationTag: "tag", hashAlgorithm: HashAlgorithm.SHA2_256) }`},
		{Name: "s-hash", Script: true, Src: `access(all) fun main(): Int {
  let a = HashAlgorithm.SHA3_256.hash([1,2,3])
  let b = HashAlgorithm.SHA2_256.hashWithTag([1,2,3], tag: "t")
  return a.length + b.length }`},
		{Name: "s-bls", Script: true, Src: `access(all) fun main(): Bool {
  let k = ` + blsExpr + `
  let ok = k.verifyPoP([1,2,3])
  let sig = BLS.aggregateSignatures([[1],[2]])
  let agg = BLS.aggregatePublicKeys([k, k])
  return ok && sig != nil && agg != nil }`},
		// --- randomness, blocks, uuid
		{Name: "s-random", Script: true, Src: `access(all) fun main(): UInt64 { let a = revertibleRandom<UInt64>(); let b = revertibleRandom<UInt8>(modulo: 3); let c = revertibleRandom<UInt256>(); return a + UInt64(b) }`},
		{Name: "s-block", Script: true, Src: `access(all) fun main(): UInt64 { let b = getCurrentBlock(); let o = getBlock(at: 0); log(b.id); log(b.timestamp); return b.height + (o?.height ?? 7) }`},
		{Name: "t-uuid", Src: `import C from 0x1
transaction { prepare(s: &Account) { let a <- C.mk(1); let b <- C.mk(2); log(a.uuid != b.uuid); destroy a; destroy b } }`, Signers: s2()},
		// --- composite: everything in one transaction with pre/post
		{Name: "t-mixed", Src: `import C from 0x1
import D from 0x2
transaction(x: Int) {
  let n: Int
  prepare(s: auth(Storage, Capabilities) &Account) {
    self.n = D.twice(x)
    s.storage.save(<- C.mk(self.n), to: /storage/mix)
    let c = s.capabilities.storage.issue<&C.R>(/storage/mix)
    s.capabilities.publish(c, at: /public/mix)
  }
  pre { self.n > 0: "n" }
  execute { log(getCurrentBlock().height); log(revertibleRandom<UInt8>()) }
  post { C.counter >= 0: "counter" }
}`, Signers: s2(), Args: []cadence.Value{cadence.NewInt(3)}},
		{Name: "s-noop", Script: true, Src: `access(all) fun main() {}`},
		{Name: "s-attachment", Script: true, Src: `access(all) resource R {}
access(all) attachment A for R { access(all) fun f(): Int { return 1 } }
access(all) fun main(): Int { let r <- attach A() to <- create R(); let x = r[A]!.f(); destroy r; return x }`},
	}
}

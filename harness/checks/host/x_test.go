package host

import (
	"sort"
	"testing"
)

func TestGrid(t *testing.T) {
	w := newC34World()
	kinds := map[string]int{}
	var ex = map[string]string{}
	for _, g := range castSnippets34() {
		d, det, o, _ := w.exec(c34Case{Level: "script", Parts: []string{g.Name}})
		k := o.class + ":" + o.kind
		if d != "" {
			k = "DIFF " + d
			t.Logf("DIFF %s: %s %.300s", g.Name, d, det)
		}
		kinds[k]++
		if _, ok := ex[k]; !ok {
			ex[k] = g.Name + " :: " + o.errText
		}
	}
	var ks []string
	for k := range kinds {
		ks = append(ks, k)
	}
	sort.Strings(ks)
	for _, k := range ks {
		e := ex[k]
		if len(e) > 500 {
			e = e[:500]
		}
		t.Logf("%4d %s\n      e.g. %s", kinds[k], k, e)
	}
}

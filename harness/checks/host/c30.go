package host

import (
	"bufio"
	"bytes"
	"encoding/json"
	"fmt"
	"os"
	"strings"
	"sync"
	"syscall"
	"time"

	"verif/mc"
	"verif/rt"
)

// C30 — every execution is bounded by the metering and depth limits.
//
// Divergence alphabet x filler statement x computation limit x memory limit x
// call-depth limit x engine. Every case runs in a worker subprocess (address-
// space limit, CPU-time horizon measured by the worker on its own CPU clock),
// which announces the case before it starts it, so that a Go `fatal error`
// (stack overflow, out of memory — unrecoverable) or a horizon hit is
// attributed to the concrete case.

type divProg struct {
	Name  string
	Decls string // top-level declarations
	Body  string // statements of main (after the filler)
	Tx    bool   // run as a transaction signed by 0x1 (commit path: encode / health check)
	// Contract, if set, is deployed as N at 0x1 first (transactions cannot declare composites)
	Contract string
	Rec   bool   // recursion program: the call-depth clause applies
	// OnlyComp, if set, replaces the computation limits: finite, but far from binding (the memory limit must stop it)
	OnlyComp uint64
	// SizeOut: a terminating program whose result is the size in bytes of a value it holds at the end (computed by
	// the program from what it appended, so that observing it allocates nothing); if it
	// completes, that size must not exceed the memory limit (an execution is bounded by the metering limits)
	SizeOut bool
}

const chunk1MiB = `var chunk = "abcdefgh"; var k = 0; while k < 17 { chunk = chunk.concat(chunk); k = k + 1 }; `

const lrDecl = `access(all) resource LR { access(all) var kids: @[LR]; init() { self.kids <- [] } access(all) fun add(_ k: @LR) { self.kids.append(<- k) } }
`
const nodeDecl = `access(all) struct Node { access(all) let next: [Node]; init(_ n: [Node]) { self.next = n } }
`

func divergence() []divProg {
	return []divProg{
		// two terminating controls (normal completion under the larger limits)
		{Name: "terminating-loop", Body: `var i = 0; while i < 5 { i = i + 1 }; out = i`},
		{Name: "terminating-recursion", Rec: true, Decls: `access(all) fun fib(_ n: Int): Int { if n < 2 { return n }; return fib(n - 1) + fib(n - 2) }
`, Body: `out = fib(7)`},
		// values of 60 MiB built under a memory limit with a non-binding computation limit: the memory limit must stop them
		{Name: "stringbuilder-append-60MiB", OnlyComp: 2_000_000_000, SizeOut: true, Body: `var piece = "abcdefgh"; var k = 0; while k < 7 { piece = piece.concat(piece); k = k + 1 }; let b = StringBuilder(); var i = 0; while i < 61440 { b.append(piece); i = i + 1 }; out = i * 1024`},
		{Name: "stringbuilder-append-1MiB-pieces", OnlyComp: 2_000_000_000, SizeOut: true, Body: chunk1MiB + `let b = StringBuilder(); var i = 0; while i < 60 { b.append(chunk); i = i + 1 }; out = i * 1048576`},
		{Name: "string-join-60MiB", OnlyComp: 2_000_000_000, SizeOut: true, Body: chunk1MiB + `var parts: [String] = []; var i = 0; while i < 60 { parts.append(chunk); i = i + 1 }; let j = String.join(parts, separator: ""); out = i * 1048576`},
		{Name: "string-concat-64MiB", OnlyComp: 2_000_000_000, SizeOut: true, Body: chunk1MiB + `var i = 0; while i < 6 { chunk = chunk.concat(chunk); i = i + 1 }; out = 67108864`},
		{Name: "while-true", Body: `while true {}`},
		{Name: "while-true-continue", Body: `while true { continue }`},
		{Name: "while-true-if-continue", Body: `var i = 0; while true { if i == 0 { continue }; i = i + 1 }`},
		{Name: "while-count", Body: `var i = 0; while true { i = i + 1 }`},
		{Name: "while-nested-for", Body: `while true { for x in [1, 2] { if x == 1 { continue } } }`},
		{Name: "while-switch", Body: `var i = 0; while true { switch i { case 0: i = 0; default: break } }`},
		{Name: "for-range-huge", Body: `var s = 0; for i in InclusiveRange(0, 1000000000000) { s = s + 1 }`},
		{Name: "for-growing-array", Body: `var a = [0]; var i = 0; while i < a.length { a.append(i); i = i + 1 }`},
		{Name: "string-doubling", Body: `var s = "ab"; while true { s = s.concat(s) }`},
		{Name: "string-doubling-ops", Body: `var s = "ab"; var n = 0; while true { s = s.concat(s); n = n + s.toLower().length + s.utf8.length + s.split(separator: "a").length + (s.contains("ba") ? 1 : 0) + s.replaceAll(of: "a", with: "bb").length }`},
		{Name: "array-doubling", Body: `var a = [1]; while true { a = a.concat(a) }`},
		{Name: "array-doubling-ops", Body: `var a = [1]; var n = 0; while true { a.appendAll(a); n = n + a.reverse().length + a.map(fun (x: Int): Int { return x }).length + (a.contains(2) ? 1 : 0) + a.slice(from: 0, upTo: a.length).length }`},
		{Name: "dict-growth", Body: `var d: {Int: String} = {}; var i = 0; while true { d[i] = i.toString(); i = i + 1; if i % 64 == 0 { let k = d.keys.length + d.values.length } }`},
		{Name: "bigint-squaring", Body: `var x: Int = 3; while true { x = x * x }`},
		{Name: "self-recursion", Rec: true, Decls: `access(all) fun f(_ n: Int): Int { return f(n + 1) + 1 }
`, Body: `let r = f(0)`},
		{Name: "mutual-recursion", Rec: true, Decls: `access(all) fun f(_ n: Int): Int { return g(n + 1) }
access(all) fun g(_ n: Int): Int { return f(n) + 1 }
`, Body: `let r = f(0)`},
		{Name: "closure-recursion", Rec: true, Body: `var f: fun(Int): Int = fun (n: Int): Int { return n }; f = fun (n: Int): Int { return f(n + 1) + 1 }; let r = f(0)`},
		{Name: "default-function-recursion", Rec: true, Decls: `access(all) struct interface I { access(all) fun r(_ n: Int): Int { return self.r(n + 1) + 1 } }
access(all) struct S: I {}
`, Body: `let r = S().r(0)`},
		{Name: "method-recursion-resource", Rec: true, Decls: `access(all) resource R { access(all) fun r(_ n: Int): Int { return self.r(n + 1) + 1 } }
`, Body: `let x <- create R(); let r = x.r(0); destroy x`},
		{Name: "recursion-via-map", Rec: true, Decls: `access(all) fun f(_ xs: [Int]): Int { let ys = xs.map(fun (x: Int): Int { return f(xs) }); return ys.length }
`, Body: `let r = f([1])`},
		{Name: "recursion-via-foreachkey", Rec: true, Decls: `access(all) fun f(_ d: {Int: Int}): Int { var n = 0; d.forEachKey(fun (k: Int): Bool { n = n + f(d); return true }); return n }
`, Body: `let r = f({1: 1})`},
		{Name: "recursion-in-precondition", Rec: true, Decls: `access(all) view fun p(_ n: Int): Bool { return p(n + 1) }
access(all) fun f(_ n: Int): Int { pre { p(n): "p" } return n }
`, Body: `let r = f(0)`},
		{Name: "recursion-in-initializer", Rec: true, Decls: `access(all) struct T { access(all) let d: Int; init(_ n: Int) { self.d = T(n + 1).d } }
`, Body: `let r = T(0).d`},
		{Name: "nested-array-log", Body: `var a: [AnyStruct] = []; var i = 0; while i < 100000 { a = [a]; i = i + 1 }; log(a)`},
		{Name: "nested-array-return", Body: `var a: [AnyStruct] = []; var i = 0; while i < 100000 { a = [a]; i = i + 1 }; out = a`},
		{Name: "nested-array-tostring", Body: `var a: [AnyStruct] = []; var i = 0; while true { a = [a]; i = i + 1; if i % 500 == 0 { let t = a.getType().identifier.length; let c = a.isInstance(Type<[AnyStruct]>()) } }`},
		{Name: "nested-struct-equal-free", Decls: nodeDecl, Body: `var n = Node([]); var i = 0; while true { n = Node([n]); i = i + 1; if i % 500 == 0 { let c = n; let l = c.next.length } }`},
		{Name: "nested-dict-save", Tx: true, Body: `var d: {String: AnyStruct} = {}; var i = 0; while i < 100000 { d = {"k": d}; i = i + 1 }; signer.storage.save(d, to: /storage/deep)`},
		{Name: "nested-array-save-load", Tx: true, Body: `var a: [AnyStruct] = []; var i = 0; while i < 3000 { a = [a]; i = i + 1 }; signer.storage.save(a, to: /storage/deep); let b = signer.storage.load<[AnyStruct]>(from: /storage/deep)!; while true { a = [a, b] }`},
		{Name: "nested-resource-destroy", Decls: lrDecl, Body: `var r <- create LR(); var i = 0; while i < 100000 { var p <- create LR(); r <-> p; r.add(<- p); i = i + 1 }; destroy r`},
		{Name: "nested-resource-save", Tx: true, Contract: "access(all) contract N { " + strings.TrimSpace(lrDecl) + " access(all) fun mk(): @LR { return <- create LR() } }",
			Decls: "import N from 0x1\n", Body: `var r <- N.mk(); var i = 0; while i < 100000 { var p <- N.mk(); r <-> p; r.add(<- p); i = i + 1 }; signer.storage.save(<- r, to: /storage/deepr)`},
		{Name: "optional-nesting", Body: `var o: AnyStruct? = 1; var i = 0; while true { let w: AnyStruct? = o; o = [w]; i = i + 1; if i % 1000 == 0 { let s = o == nil } }`},
	}
}

var fillers30 = []struct{ Name, Stmt string }{
	{"none", ""},
	{"array-filler", `let fa = [1, 2, 3].length`},
	{"string-filler", `let fs = "a".concat("b").length`},
}

type c30Case struct {
	Prog   string `json:"prog"`
	Filler string `json:"filler"`
	Comp   uint64 `json:"comp"`
	Mem    uint64 `json:"mem"`
	Depth  uint64 `json:"depth"`
	VM     bool   `json:"vm"`
}

func (c c30Case) String() string {
	return fmt.Sprintf("%s/%s comp=%d mem=%d depth=%d vm=%v", c.Prog, c.Filler, c.Comp, c.Mem, c.Depth, c.VM)
}

type c30Result struct {
	Class    string `json:"class"`
	Kind     string `json:"kind"`
	Cat      string `json:"cat"` // ok | computation | memory | depth | other-user | bad
	LimitHit bool   `json:"limit_hit"`
	Comp     uint64 `json:"comp_used"`
	Mem      uint64 `json:"mem_used"`
	CPUms    int64  `json:"cpu_ms"`
	Value    string `json:"value,omitempty"`
	Err      string `json:"err,omitempty"`
}

func source30(c c30Case) (src string, tx bool) {
	var p divProg
	for _, d := range divergence() {
		if d.Name == c.Prog {
			p = d
		}
	}
	if p.Name == "" {
		panic("unknown divergence program " + c.Prog)
	}
	filler := ""
	for _, f := range fillers30 {
		if f.Name == c.Filler {
			filler = f.Stmt
		}
	}
	if p.Tx {
		return p.Decls + "transaction { prepare(signer: auth(Storage) &Account) {\n  " + filler + "\n  " + p.Body + "\n} }", true
	}
	return p.Decls + "access(all) fun main(): AnyStruct {\n  var out: AnyStruct = 0\n  " + filler + "\n  " + p.Body + "\n  return out\n}", false
}

func contractOf30(prog string) string {
	for _, d := range divergence() {
		if d.Name == prog {
			return d.Contract
		}
	}
	return ""
}

func run30(c c30Case) c30Result {
	src, tx := source30(c)
	t := rt.Tx{Source: src, Script: !tx, UseVM: c.VM, CompLimit: c.Comp, MemLimit: c.Mem, StackDepthLimit: c.Depth}
	if tx {
		t.Signers = s1()
	}
	l := rt.NewLedger()
	if contract := contractOf30(c.Prog); contract != "" {
		rt.Deploy(l, rt.Addr(1), "N", contract, false)
	}
	cpu0 := cpuNow()
	res := rt.Run(l, t)
	r := c30Result{Class: res.Class, Kind: res.Kind, LimitHit: res.LimitHit, Comp: res.CompUsed, Mem: res.MemUsed, CPUms: (cpuNow() - cpu0).Milliseconds()}
	es := res.ErrString()
	full := ""
	if res.Err != nil {
		full = res.Err.Error()
	}
	switch {
	case res.Class == "ok":
		r.Cat = "ok"
		if res.Value != nil {
			r.Value = res.Value.String()
		}
	case res.Class != "user":
		r.Cat = "bad"
	case strings.Contains(res.Kind, "CallStackLimitExceededError"):
		r.Cat = "depth"
	case strings.Contains(full, "computation limit exceeded (harness gauge)"):
		r.Cat = "computation"
	case strings.Contains(full, "memory limit exceeded (harness gauge)"):
		r.Cat = "memory"
	default:
		r.Cat = "other-user"
	}
	if r.Cat == "bad" || r.Cat == "other-user" {
		if len(es) > 300 {
			es = es[:300]
		}
		r.Err = es
	}
	return r
}

func cpuNow() time.Duration {
	var ru syscall.Rusage
	syscall.Getrusage(syscall.RUSAGE_SELF, &ru)
	return time.Duration(ru.Utime.Nano() + ru.Stime.Nano())
}

// judge30 returns the violation class ("" = allowed) of a finished case.
func judge30(c c30Case, r c30Result) string {
	if r.Cat == "ok" {
		for _, p := range divergence() {
			if p.Name == c.Prog && p.SizeOut {
				var n uint64
				if _, err := fmt.Sscan(r.Value, &n); err == nil && n > c.Mem {
					return "value-exceeds-memory-limit"
				}
			}
		}
	}
	switch {
	case r.Cat == "bad":
		if r.LimitHit {
			return "limit-error-not-user:" + r.Class
		}
		return "non-user-failure:" + r.Class
	case r.LimitHit && r.Cat == "ok":
		return "success-after-limit-error"
	}
	return ""
}

// ---------------------------------------------------------------------------
// worker

type c30Batch struct {
	Cases     []c30Case `json:"cases"`
	HorizonMs int64     `json:"horizon_ms"`
}

// c30Worker: reads the batch from the file named by the selector, runs the
// cases one by one: "START i" / "DONE i <json>" lines on stdout; "HORIZON i" and
// exit status 3 when a case has used more CPU time than the horizon.
func c30Worker(env *mc.Env) {
	applyLimits()
	sel := parseSel(env.Sub)
	b, err := os.ReadFile(sel["batch"])
	if err != nil {
		fmt.Fprintln(os.Stderr, err)
		os.Exit(2)
	}
	var batch c30Batch
	if err := json.Unmarshal(b, &batch); err != nil {
		fmt.Fprintln(os.Stderr, err)
		os.Exit(2)
	}
	from := 0
	if sel["from"] != "" {
		from = selInt(sel, "from")
	}
	var mu sync.Mutex
	cur, curStart := -1, time.Duration(0)
	say := func(s string) { os.Stdout.WriteString(s + "\n") }
	go func() { // CPU-time watchdog (the process's own CPU clock, not wall time)
		for {
			time.Sleep(50 * time.Millisecond)
			mu.Lock()
			i, st := cur, curStart
			mu.Unlock()
			if i >= 0 && (cpuNow()-st).Milliseconds() > batch.HorizonMs {
				say(fmt.Sprintf("HORIZON %d", i))
				os.Exit(3)
			}
		}
	}()
	for i := from; i < len(batch.Cases); i++ {
		say(fmt.Sprintf("START %d", i))
		mu.Lock()
		cur, curStart = i, cpuNow()
		mu.Unlock()
		r := run30(batch.Cases[i])
		mu.Lock()
		cur = -1
		mu.Unlock()
		j, _ := json.Marshal(r)
		say(fmt.Sprintf("DONE %d %s", i, j))
	}
	os.Exit(0)
}

type c30Outcome struct {
	Done    bool
	Res     c30Result
	Crash   string // non-empty: the worker died in this case (class of death)
	Horizon bool
	Detail  string
}

// runBatch30 runs the cases in worker processes, restarting after a death.
func runBatch30(env *mc.Env, cases []c30Case, horizonMs int64) ([]c30Outcome, error) {
	out := make([]c30Outcome, len(cases))
	f, err := os.CreateTemp("", "verif-c30-batch-*")
	if err != nil {
		return nil, err
	}
	defer os.Remove(f.Name())
	b, _ := json.Marshal(c30Batch{Cases: cases, HorizonMs: horizonMs})
	f.Write(b)
	f.Close()
	from := 0
	for from < len(cases) {
		// RLIMIT_CPU is only a backstop for a worker whose watchdog cannot run; the horizon is the worker's own
		r := spawn(env, "C30", fmt.Sprintf("batch=%s;from=%d", f.Name(), from),
			subLimits{CPUSeconds: uint64(horizonMs/1000)*uint64(len(cases)-from) + 120, ASBytes: 4 << 30, GoMaxProcs: 2})
		if r.StartErr != nil {
			return nil, r.StartErr
		}
		started := -1
		sc := bufio.NewScanner(bytes.NewReader(r.Stdout))
		sc.Buffer(make([]byte, 1<<20), 1<<20)
		for sc.Scan() {
			line := sc.Text()
			var i int
			switch {
			case strings.HasPrefix(line, "START "):
				fmt.Sscanf(line, "START %d", &i)
				started = i
			case strings.HasPrefix(line, "DONE "):
				var js string
				if n, _ := fmt.Sscanf(line, "DONE %d", &i); n == 1 {
					js = line[strings.Index(line[5:], " ")+6:]
					var res c30Result
					if err := json.Unmarshal([]byte(js), &res); err == nil && i < len(out) {
						out[i] = c30Outcome{Done: true, Res: res}
						started = -1
					}
				}
			case strings.HasPrefix(line, "HORIZON "):
				fmt.Sscanf(line, "HORIZON %d", &i)
				if i < len(out) {
					out[i] = c30Outcome{Horizon: true, Detail: fmt.Sprintf("more than %d ms of CPU time", horizonMs)}
				}
				started = -2 - i
			}
		}
		switch {
		case r.Exit == 0 && started == -1:
			return out, nil
		case started <= -2: // horizon: continue after that case
			from = -2 - started + 1
		case started >= 0: // died inside case `started`
			class := "crash:exit" + fmt.Sprint(r.Exit)
			switch {
			case strings.Contains(r.Stderr, "stack overflow") || strings.Contains(r.Stderr, "goroutine stack exceeds"):
				class = "crash:go-stack-overflow"
			case strings.Contains(r.Stderr, "out of memory") || strings.Contains(r.Stderr, "cannot allocate memory"):
				class = "crash:out-of-memory"
			case r.Signal != 0:
				class = "crash:signal-" + r.Signal.String()
			}
			first := r.Stderr
			if k := strings.Index(first, "\n\n"); k > 0 {
				first = first[:k]
			}
			out[started] = c30Outcome{Crash: class, Detail: tail(first, 400)}
			from = started + 1
		default:
			return out, fmt.Errorf("C30 worker ended unexpectedly: exit=%d signal=%v stderr=%s", r.Exit, r.Signal, tail(r.Stderr, 400))
		}
	}
	return out, nil
}

func sig30(c c30Case, bad string) string {
	eng := "interp"
	if c.VM {
		eng = "vm"
	}
	return eng + "|" + c.Prog + "|" + bad
}

func runC30(env *mc.Env) {
	if env.Sub != "" {
		c30Worker(env)
		return
	}
	// Horizons (CPU time of the worker, per case). Expected CPU time of a case: a few ms to ~1 s; the one
	// exception is a recursion stopped at the DEFAULT depth limit (2000) by the interpreter, which needs
	// 10-30 s to unwind (see notes) - those cases get the long horizon from the start.
	// A case that exceeds the first-pass horizon is re-run alone with the confirmation horizon (5 more times
	// if it hits that too) before it is believed.
	firstMs := int64(mc.Pick(env, 30000, 60000))
	confirmMs := int64(mc.Pick(env, 120000, 600000))
	slowMs := int64(mc.Pick(env, 600000, 1800000))
	horizonMs := firstMs
	env.R.Set("horizon_confirm_cpu_ms", confirmMs)
	env.R.Set("horizon_cpu_ms", horizonMs)
	progs := divergence()
	comps := mc.Pick(env, []uint64{10, 1000, 20000}, []uint64{10, 1000, 100000})
	mems := []uint64{10_000, 10_000_000}
	// quick: the default depth (2000) only in the largest configuration of each recursion program (the
	// interpreter needs ~10 s of CPU to unwind 2000 frames); 400 elsewhere
	depths := mc.Pick(env, []uint64{400, 50, 0}, []uint64{0, 50})
	fillers := fillers30
	if !env.Thorough() {
		fillers = fillers30[:2]
	}
	// VERIF_C30_ONLY=<prog>[,<prog>] restricts the alphabet (used for mutant trials, where a broken limit makes
	// many cases run into the horizons); a restricted run is reported as not exhaustive.
	if only := os.Getenv("VERIF_C30_ONLY"); only != "" {
		var sel []divProg
		for _, p := range progs {
			for _, n := range strings.Split(only, ",") {
				if p.Name == n {
					sel = append(sel, p)
				}
			}
		}
		progs = sel
		env.R.NotExhaustive("alphabet restricted by VERIF_C30_ONLY=" + only)
	}
	var cases []c30Case
	for _, p := range progs {
		for _, f := range fillers {
			pcomps := comps
			if p.OnlyComp != 0 {
				pcomps = []uint64{p.OnlyComp}
			}
			for _, comp := range pcomps {
				for _, mem := range mems {
					for _, d := range depths {
						if d == 50 && !p.Rec && f.Name != "none" {
							continue // the depth limit only matters for the recursion programs; keep one filler for the others
						}
						if p.OnlyComp != 0 && (d != depths[0] || f.Name != "none") {
							continue
						}
						if !env.Thorough() && d == 0 && !(p.Rec && f.Name == "none" && comp == comps[len(comps)-1] && mem == mems[len(mems)-1]) {
							continue
						}
						for _, vm := range []bool{false, true} {
							cases = append(cases, c30Case{p.Name, f.Name, comp, mem, d, vm})
						}
					}
				}
			}
		}
	}
	env.R.Set("cases", len(cases))
	isRec := map[string]bool{}
	for _, p := range progs {
		isRec[p.Name] = p.Rec
	}
	slow := func(c c30Case) bool { return isRec[c.Prog] && c.Depth == 0 && !c.VM }
	// batches of consecutive cases; the slow cases form batches of their own with the long horizon
	const batchSize = 48
	var batches [][]c30Case
	var batchHorizon []int64
	var fast, slowCases []c30Case
	for _, c := range cases {
		if slow(c) {
			slowCases = append(slowCases, c)
		} else {
			fast = append(fast, c)
		}
	}
	for i := 0; i < len(slowCases); i += 3 {
		batches = append(batches, slowCases[i:min(i+3, len(slowCases))])
		batchHorizon = append(batchHorizon, slowMs)
	}
	for i := 0; i < len(fast); i += batchSize {
		batches = append(batches, fast[i:min(i+batchSize, len(fast))])
		batchHorizon = append(batchHorizon, firstMs)
	}
	results := make([][]c30Outcome, len(batches))
	mc.ParallelFor(env, len(batches), func(bi int) {
		o, err := runBatch30(env, batches[bi], batchHorizon[bi])
		if err != nil {
			env.R.HarnessError("%v", err)
		}
		results[bi] = o
	})
	var maxCPU int64
	horizonSeen := map[string]bool{}
	byKey := map[string]c30Result{}
	_ = horizonMs
	for bi, b := range batches {
		if results[bi] == nil {
			continue
		}
		for i, c := range b {
			o := results[bi][i]
			switch {
			case o.Crash != "":
				env.R.Eval()
				env.R.Violation(sig30(c, o.Crash), c, c.String()+": worker died: "+o.Detail)
			case o.Horizon:
				env.R.Eval()
				sg := sig30(c, "horizon")
				if horizonSeen[sg] {
					// same engine and program as a horizon hit that was already examined: one more case of it
					env.R.Add("horizon_hits_same_signature_not_rerun", 1)
					continue
				}
				horizonSeen[sg] = true
				// believed only if it also exceeds the confirmation horizon, 1 + 5 times, alone in a worker
				long := confirmMs
				if slow(c) {
					long = slowMs
				}
				hits := make([]bool, 6)
				var term c30Outcome
				var tmu sync.Mutex
				mc.ParallelFor(env, 6, func(k int) {
					oo, err := runBatch30(env, []c30Case{c}, long)
					if err == nil && len(oo) == 1 {
						hits[k] = oo[0].Horizon
						if oo[0].Done || oo[0].Crash != "" {
							tmu.Lock()
							term = oo[0]
							tmu.Unlock()
						}
					}
				})
				n := 0
				for _, h := range hits {
					if h {
						n++
					}
				}
				switch {
				case n == 6:
					env.R.Violation(sg, c, fmt.Sprintf("%s: no termination within %d ms of CPU time (6 of 6 isolated runs, after exceeding %d ms in the batch)", c, long, batchHorizon[bi]))
				case term.Crash != "":
					env.R.Violation(sig30(c, term.Crash), c, c.String()+": worker died: "+term.Detail)
				case term.Done:
					env.R.Add("slow_cases_terminating_within_confirmation_horizon", 1)
					if bad := judge30(c, term.Res); bad != "" {
						env.R.Violation(sig30(c, bad), c, fmt.Sprintf("%s: class=%s kind=%s limitHit=%v: %s", c, term.Res.Class, term.Res.Kind, term.Res.LimitHit, term.Res.Err))
					} else {
						byKey[c.String()] = term.Res
					}
				default:
					env.R.Add("horizon_hits_not_confirmed", 1)
				}
			case o.Done:
				env.R.Eval()
				if o.Res.CPUms > maxCPU {
					maxCPU = o.Res.CPUms
				}
				if bad := judge30(c, o.Res); bad != "" {
					env.R.Violation(sig30(c, bad), c, fmt.Sprintf("%s: class=%s kind=%s limitHit=%v: %s", c, o.Res.Class, o.Res.Kind, o.Res.LimitHit, o.Res.Err))
					continue
				}
				if o.Res.LimitHit || o.Res.Cat == "depth" {
					env.R.Nontrivial(c.String())
				}
				eng := "interp"
				if c.VM {
					eng = "vm"
				}
				cc := c
				env.R.Class(eng+":"+o.Res.Cat, func() any { return cc })
				byKey[c.String()] = o.Res
			default:
				env.R.NotExhaustive("a case was not run: " + c.String())
			}
		}
	}
	// call-depth clause: a recursion that one engine stops with the call-depth error must not complete on the other
	for _, c := range cases {
		if c.VM || !isRec[c.Prog] {
			continue
		}
		cv := c
		cv.VM = true
		a, okA := byKey[c.String()]
		b, okB := byKey[cv.String()]
		if !okA || !okB {
			continue
		}
		// farFromOtherLimits: the depth error came while less than a quarter of both gauges was used, so the
		// other engine (whose metering differs by a few per cent) cannot have met a gauge limit first
		far := func(r c30Result) bool { return r.Cat == "depth" && r.Comp*4 < c.Comp && r.Mem*4 < c.Mem }
		switch {
		case a.Cat == b.Cat:
		case (a.Cat == "depth" && b.Cat == "ok") || (a.Cat == "ok" && b.Cat == "depth") || (far(a) && b.Cat != "depth") || (far(b) && a.Cat != "depth"):
			// the failing mechanism is the depth limit itself, not the program: one signature per
			// (configured/default limit, outcome pair), the programs are cases of it
			lim := "configured"
			if c.Depth == 0 {
				lim = "default"
			}
			norm := func(cat string) string {
				if cat == "computation" || cat == "memory" {
					return "other-limit" // which gauge stops the runaway engine depends on the program only
				}
				return cat
			}
			env.R.Violation(fmt.Sprintf("call-depth-limit(%s)|interp:%s,vm:%s", lim, norm(a.Cat), norm(b.Cat)), c, fmt.Sprintf("%s: interpreter %s (comp %d, mem %d), VM %s (comp %d, mem %d)", c, a.Cat, a.Comp, a.Mem, b.Cat, b.Comp, b.Mem))
		default:
			// the engines meter differently, so one may reach a computation/memory limit before the
			// depth limit and the other not: "fails the same way" does not settle this -> don't care
			env.R.DontCare.Add(1)
		}
	}
	env.R.Set("max_case_cpu_ms", maxCPU)
	env.R.Set("limit", "non-termination is judged against a CPU-time horizon, not proved")
	env.R.BoundCompleted(fmt.Sprintf("%d divergence programs x %d fillers x comp%v x mem%v x depth%v (0 = default 2000) x 2 engines", len(progs), len(fillers), comps, mems, depths))
}

func replayC30(env *mc.Env, raw json.RawMessage) (bool, string) {
	var c c30Case
	if err := json.Unmarshal(raw, &c); err != nil {
		return false, err.Error()
	}
	horizonMs := int64(120000)
	if c.Depth == 0 && !c.VM {
		horizonMs = 600000
	}
	run := func(c c30Case) c30Outcome {
		o, err := runBatch30(env, []c30Case{c}, horizonMs)
		if err != nil || len(o) != 1 {
			return c30Outcome{Detail: fmt.Sprint(err)}
		}
		return o[0]
	}
	o := run(c)
	switch {
	case o.Crash != "":
		return true, c.String() + ": " + o.Crash + " " + o.Detail
	case o.Horizon:
		return true, c.String() + ": horizon"
	case o.Done:
		if bad := judge30(c, o.Res); bad != "" {
			return true, fmt.Sprintf("%s: %s (%s %s)", c, bad, o.Res.Class, o.Res.Kind)
		}
		cv := c
		cv.VM = !c.VM
		far := func(r c30Result) bool { return r.Cat == "depth" && r.Comp*4 < c.Comp && r.Mem*4 < c.Mem }
		if o2 := run(cv); o2.Done && o.Res.Cat != o2.Res.Cat && ((o.Res.Cat == "depth" && o2.Res.Cat == "ok") || (o.Res.Cat == "ok" && o2.Res.Cat == "depth") ||
			(far(o.Res) && o2.Res.Cat != "depth") || (far(o2.Res) && o.Res.Cat != "depth")) {
			return true, fmt.Sprintf("%s: %s here, %s on the other engine", c, o.Res.Cat, o2.Res.Cat)
		}
		return false, fmt.Sprintf("%s: %s (%s)", c, o.Res.Cat, o.Res.Class)
	}
	return false, "worker problem: " + o.Detail
}

func init() {
	mc.Register(&mc.Check{
		ID: "C30",
		Rule: "divergence alphabet (unbounded while/for incl. continue/switch forms, growing arrays/strings/dictionaries/big integers with costly built-ins, self/mutual/closure/default-function/method/host-callback recursion, deeply nested values then log/export/save/destroy) x filler statement x computation limit {10,1e3,1e5} x memory limit {1e4,1e7} x call-depth limit {default,50} x engine, each in a worker subprocess (4 GiB address space, CPU-time horizon, 5x confirmation); " +
			"oracle: terminates normally or with a user error; a gauge error is never followed by success nor turned into a non-user error; no Go fatal error; recursion stopped by the call-depth limit on one engine does not complete on the other; non-trivial = distinct case stopped by a limit",
		Assumptions: []string{
			"termination is observed against a CPU-time horizon (>= 100x the slowest terminating case), not proved",
			"memory is always limited too (the embedder sets both gauges); an unlimited memory gauge with a finite computation limit is not enumerated",
		},
		Run:    runC30,
		Replay: replayC30,
	})
}

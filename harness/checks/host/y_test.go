package host

import (
	"testing"

	"verif/rt"
)

func TestMin(t *testing.T) {
	for name, src := range map[string]string{
		"a-iflet-use": `access(all) resource R {}
access(all) fun main(): String { let s: @R <- create R(); let c <- s as @R?; if let u <- c { let id = u.getType().identifier; destroy u; return id } else { return "nil" } }`,
		"b-iflet-destroy-only": `access(all) resource R {}
access(all) fun main(): String { let s: @R <- create R(); let c <- s as @R?; if let u <- c { destroy u; return "some" } else { return "nil" } }`,
		"c-no-cast": `access(all) resource R {}
access(all) fun main(): String { let s: @R <- create R(); let c: @R? <- s; if let u <- c { let id = u.getType().identifier; destroy u; return id } else { return "nil" } }`,
		"d-force": `access(all) resource R {}
access(all) fun main(): String { let s: @R <- create R(); let c <- s as! @R?; if let u <- c { let id = u.getType().identifier; destroy u; return id } else { return "nil" } }`,
	} {
		for _, vm := range []bool{false, true} {
			r := rt.Run(rt.NewLedger(), rt.Tx{Source: src, Script: true, UseVM: vm})
			e := r.ErrString()
			if len(e) > 200 {
				e = e[:200]
			}
			t.Logf("%s vm=%v: %s %s %v %s", name, vm, r.Class, r.Kind, r.Value, e)
		}
	}
}

package host

import (
	"encoding/json"
	"errors"
	"fmt"
	"sort"
	"strings"
	"sync"

	cerrors "github.com/onflow/cadence/errors"

	"verif/mc"
	"verif/rt"
)

// C28 — host failures are never swallowed.
//
// For every program of the corpus and both engines: a dry run records the
// host-callback trace; then every (kind, call index) of that trace is failed
// in each applicable mode {returns error, panics with an error, panics with a
// non-error}; then, for every such single-fault execution that made further
// host calls after the fault (the first fault was tolerated at least for a
// while: tryUpdate, clean-up paths), every later call of *that* execution is
// failed as well (two failures, deviation bound 2).

const nonErrorPanicText = "verif: injected non-error panic" // what rt panics with in mode 2

var modeName = [3]string{"error", "panic-error", "panic-nonerror"}

type c28Case struct {
	Prog   string     `json:"prog"`
	VM     bool       `json:"vm"`
	Faults []rt.Fault `json:"faults"`
}

type c28Env struct {
	base  *rt.Ledger
	progs map[string]prog
}

func newC28Env() *c28Env {
	e := &c28Env{base: baseLedger28(), progs: map[string]prog{}}
	for _, p := range corpus28() {
		e.progs[p.Name] = p
	}
	return e
}

func (e *c28Env) run(p prog, vm bool, faults []rt.Fault) *rt.Result {
	tx := rt.Tx{Source: p.Src, Args: p.Args, Signers: p.Signers, Script: p.Script, UseVM: vm, Extra: true}
	if len(faults) > 0 {
		tx.Fault = &faults[0]
		tx.Faults = faults[1:]
	}
	return rt.Run(e.base.Clone(), tx)
}

// walk visits every error reachable from err through Unwrap() error,
// Unwrap() []error and cadence's ParentError.ChildErrors().
func walk(err error, visit func(error) bool) bool {
	seen := 0
	var rec func(e error) bool
	rec = func(e error) bool {
		if e == nil || seen > 10000 {
			return false
		}
		seen++
		if visit(e) {
			return true
		}
		if u, ok := e.(interface{ Unwrap() error }); ok {
			if rec(u.Unwrap()) {
				return true
			}
		}
		if u, ok := e.(interface{ Unwrap() []error }); ok {
			for _, c := range u.Unwrap() {
				if rec(c) {
					return true
				}
			}
		}
		if p, ok := e.(cerrors.ParentError); ok {
			for _, c := range p.ChildErrors() {
				if rec(c) {
					return true
				}
			}
		}
		return false
	}
	return rec(err)
}

// carries reports whether err carries the injected host failure of the given mode.
func carries(err error, mode int) bool {
	if err == nil {
		return false
	}
	if mode != 2 {
		if errors.Is(err, rt.ErrInjected) {
			return true
		}
		return walk(err, func(e error) bool { return e == rt.ErrInjected })
	}
	// a non-error panic value has no identity as an error: it is carried if some
	// error of the chain holds the recovered value or renders it
	return walk(err, func(e error) bool {
		if ne, ok := e.(cerrors.ExternalNonError); ok {
			if s, ok := ne.Recovered.(string); ok && s == nonErrorPanicText {
				return true
			}
		}
		return false
	}) || strings.Contains(err.Error(), nonErrorPanicText)
}

// tracePos is the position in trace of the idx-th call of kind (-1 if absent).
func tracePos(trace []string, kind string, idx int) int {
	n := 0
	for i, k := range trace {
		if k == kind {
			if n == idx {
				return i
			}
			n++
		}
	}
	return -1
}

// insideTryUpdate: the fault position lies strictly between the ProgramLog
// call that printed "T0" and the one that printed "T1 …" — the program makes
// no other host call between them than those of contracts.tryUpdate.
func insideTryUpdate(trace []string, pos int) bool {
	logsBefore := 0
	for i := 0; i < pos && i < len(trace); i++ {
		if trace[i] == "ProgramLog" {
			logsBefore++
		}
	}
	return logsBefore == 1 && pos < len(trace) && !(trace[pos] == "ProgramLog")
}

// judge28 returns ("", class) if the outcome is allowed, else (difference class, detail).
func judge28(p prog, faults []rt.Fault, res *rt.Result) (bad string, class string) {
	if len(res.InjectedAt) == 0 {
		return "", "fault-not-reached"
	}
	if res.EscapedPanic != nil {
		return "escaped-panic", fmt.Sprintf("panic escaped the runtime: %v", res.EscapedPanic)
	}
	reached := res.InjectedAt
	if res.OK() {
		// documented exception 2: failures inside tryUpdate => unsuccessful deployment result
		if p.TryUpdate {
			allInside := true
			for _, f := range reached {
				if !insideTryUpdate(res.Trace, tracePos(res.Trace, f.Kind, f.Index)) {
					allInside = false
				}
			}
			unsuccessful := len(res.Logs) == 2 && res.Logs[1] == `"T1 fail"`
			if allInside && unsuccessful {
				return "", "tryUpdate-unsuccessful-result"
			}
			if allInside {
				return "swallowed-inside-tryUpdate-result-successful", "fault inside tryUpdate, yet the deployment result is successful and the transaction succeeded; logs " + strings.Join(res.Logs, ",")
			}
		}
		allNoReturn := true
		for _, f := range reached {
			if !(rt.NoErrorReturn[f.Kind] && f.Mode == 0) {
				allNoReturn = false
			}
		}
		if allNoReturn {
			return "", "no-error-result-callback"
		}
		return "swallowed-success", fmt.Sprintf("execution reported success (value %v, logs %v)", res.Value, res.Logs)
	}
	for _, f := range reached {
		if carries(res.Err, f.Mode) {
			return "", res.Class + ":carried"
		}
	}
	// documented exception 1: ValidatePublicKey error => invalid-key user error
	for _, f := range reached {
		if f.Kind == "ValidatePublicKey" && f.Mode == 0 && res.Class == "user" {
			return "", "invalid-key-user-error"
		}
	}
	// a failure inside tryUpdate may be turned into an unsuccessful result, after which the
	// program may fail for reasons of its own; the corpus programs do not, so this is a loss.
	return "failure-lost:" + res.Kind, fmt.Sprintf("execution failed (%s, %s) but the error does not carry the host failure: %s", res.Class, res.Kind, res.ErrString())
}

// sig28: engine | callback kind/mode (the failing call site) | difference class. A swallowed
// failure additionally names the corpus program (= the language feature in which the call was
// made), because the swallowing site is what distinguishes two such defects; a lost failure
// names the Go type of the error that replaced it.
func sig28(prog string, vm bool, faults []rt.Fault, bad string) string {
	eng := "interp"
	if vm {
		eng = "vm"
	}
	var fs []string
	for _, f := range faults {
		fs = append(fs, f.Kind+"/"+modeName[f.Mode])
	}
	if strings.HasPrefix(bad, "swallowed") {
		bad += "@" + prog
	}
	return eng + "|" + strings.Join(fs, "+") + "|" + bad
}

func modesFor(kind string) []int {
	if rt.NoErrorReturn[kind] {
		return []int{1, 2}
	}
	return []int{0, 1, 2}
}

func runC28(env *mc.Env) {
	e := newC28Env()
	progs := corpus28()
	type job struct {
		p  prog
		vm bool
	}
	var jobs []job
	for _, p := range progs {
		for _, vm := range []bool{false, true} {
			jobs = append(jobs, job{p, vm})
		}
	}
	kindsSeen := make([]map[string]int, len(jobs))
	// violations of two-fault executions are attributed after the enumeration (see below)
	type pairV struct {
		c      c28Case
		bad    string
		detail string
	}
	var singleMu sync.Mutex
	singleSigs := map[string]bool{}
	var pairViol []pairV
	mc.ParallelFor(env, len(jobs), func(ji int) {
		j := jobs[ji]
		dry := e.run(j.p, j.vm, nil)
		env.R.Eval()
		if dry.EscapedPanic != nil {
			env.R.HarnessError("dry run of %s (vm=%v) panicked: %v", j.p.Name, j.vm, dry.EscapedPanic)
			return
		}
		// determinism of the trace is what makes (kind, index) a crash point
		dry2 := e.run(j.p, j.vm, nil)
		if strings.Join(dry.Trace, ",") != strings.Join(dry2.Trace, ",") {
			env.R.HarnessError("callback trace of %s (vm=%v) is not deterministic", j.p.Name, j.vm)
			return
		}
		kindsSeen[ji] = dry.Calls
		env.R.Class("dry:"+dry.Class, nil)
		counts := map[string]int{}
		for _, kind := range dry.Trace {
			idx := counts[kind]
			counts[kind]++
			for _, mode := range modesFor(kind) {
				if env.Expired() {
					env.R.NotExhaustive("deadline inside " + j.p.Name)
					return
				}
				f1 := rt.Fault{Kind: kind, Index: idx, Mode: mode}
				res := e.run(j.p, j.vm, []rt.Fault{f1})
				env.R.Eval()
				c := c28Case{j.p.Name, j.vm, []rt.Fault{f1}}
				if len(res.InjectedAt) != 1 {
					env.R.HarnessError("fault %v of %s (vm=%v) was not reached although the dry run made that call", f1, j.p.Name, j.vm)
					continue
				}
				env.R.Nontrivial(fmt.Sprintf("%s|%v|%s|%d|%d", j.p.Name, j.vm, kind, idx, mode))
				bad, class := judge28(j.p, c.Faults, res)
				if bad != "" {
					sg := sig28(j.p.Name, j.vm, c.Faults, bad)
					singleMu.Lock()
					singleSigs[sg] = true
					singleMu.Unlock()
					env.R.Violation(sg, c, fmt.Sprintf("%s vm=%v fault %s#%d (%s): %s", j.p.Name, j.vm, kind, idx, modeName[mode], class))
				} else {
					cc := c
					env.R.Class("1:"+class, func() any { return cc })
				}
				// second failures: every host call the faulted execution made after the first fault
				pos := tracePos(res.Trace, kind, idx)
				if pos < 0 || pos+1 >= len(res.Trace) {
					continue
				}
				counts2 := map[string]int{}
				for i, k2 := range res.Trace {
					idx2 := counts2[k2]
					counts2[k2]++
					if i <= pos {
						continue
					}
					for _, mode2 := range modesFor(k2) {
						f2 := rt.Fault{Kind: k2, Index: idx2, Mode: mode2}
						c2 := c28Case{j.p.Name, j.vm, []rt.Fault{f1, f2}}
						res2 := e.run(j.p, j.vm, c2.Faults)
						env.R.Eval()
						if len(res2.InjectedAt) != 2 {
							env.R.HarnessError("second fault %v after %v of %s (vm=%v) not reached", f2, f1, j.p.Name, j.vm)
							continue
						}
						env.R.Nontrivial(fmt.Sprintf("%s|%v|%s|%d|%d|%s|%d|%d", j.p.Name, j.vm, kind, idx, mode, k2, idx2, mode2))
						env.R.Add("pair_executions", 1)
						bad, class := judge28(j.p, c2.Faults, res2)
						if bad != "" {
							singleMu.Lock()
							pairViol = append(pairViol, pairV{c2, bad, fmt.Sprintf("%s vm=%v faults %v: %s", j.p.Name, j.vm, c2.Faults, class)})
							singleMu.Unlock()
						} else {
							cc := c2
							env.R.Class("2:"+class, func() any { return cc })
						}
					}
				}
			}
		}
	})
	// A two-fault violation that shows the same difference as one of its faults shows alone
	// (same engine, same call site, same class) is one more case of that single-fault signature,
	// not a new defect; only a difference that needs both faults gets a signature of its own.
	sort.Slice(pairViol, func(a, b int) bool {
		ka, _ := json.Marshal(pairViol[a].c)
		kb, _ := json.Marshal(pairViol[b].c)
		return string(ka) < string(kb)
	})
	for _, pv := range pairViol {
		sg := sig28(pv.c.Prog, pv.c.VM, pv.c.Faults, pv.bad)
		for _, k := range []int{1, 0} {
			alone := sig28(pv.c.Prog, pv.c.VM, pv.c.Faults[k:k+1], pv.bad)
			if singleSigs[alone] {
				sg = alone
				break
			}
		}
		env.R.Violation(sg, pv.c, pv.detail)
	}

	// coverage of callback kinds (sorted, deterministic)
	total := map[string]int{}
	for _, m := range kindsSeen {
		for k, n := range m {
			total[k] += n
		}
	}
	var ks []string
	for k := range total {
		ks = append(ks, k)
	}
	sort.Strings(ks)
	var cov []string
	for _, k := range ks {
		cov = append(cov, fmt.Sprintf("%s=%d", k, total[k]))
	}
	env.R.Set("callback_kinds_reached", len(ks))
	env.R.Set("callback_points_by_kind", strings.Join(cov, " "))
	env.R.Set("corpus_programs", len(progs))
	env.R.Set("kinds_never_called_by_this_runtime", "ValueExists, ImplementationDebugLog (no call site in the runtime), RecordTrace (only with the cadence_tracing build tag)")
	env.R.BoundCompleted("every single fault; every second fault after a first one (deviation bound 2)")
}

func replayC28(env *mc.Env, raw json.RawMessage) (bool, string) {
	var c c28Case
	if err := json.Unmarshal(raw, &c); err != nil {
		return false, err.Error()
	}
	e := newC28Env()
	p, ok := e.progs[c.Prog]
	if !ok {
		return false, "unknown corpus program " + c.Prog
	}
	res := e.run(p, c.VM, c.Faults)
	bad, class := judge28(p, c.Faults, res)
	return bad != "", fmt.Sprintf("%s vm=%v faults=%v -> class=%s kind=%s ok=%v [%s] %s | %s", c.Prog, c.VM, c.Faults, res.Class, res.Kind, res.OK(), bad, class, res.ErrString())
}

func init() {
	mc.Register(&mc.Check{
		ID: "C28",
		Rule: "corpus of scripts/transactions reaching every host-callback kind the runtime calls; for each program and engine: every (kind, call index) of the dry-run trace x {error return, panic(error), panic(non-error)}, then every later call of each faulted execution failed too (2 failures); " +
			"oracle: no success, no escaped panic, the returned error carries the injected failure (errors.Is / Unwrap+ChildErrors walk; ExternalNonError or message for non-error panics), except ValidatePublicKey error => user error and faults inside tryUpdate => unsuccessful DeploymentResult; non-trivial = distinct fault point actually reached",
		Assumptions: []string{
			"the harness host (rt) is deterministic, so (kind, index) names the same call in the dry run and in the faulted run (checked: a fault that is not reached is a harness error)",
			"callbacks without an error result (metrics, ResourceOwnerChanged) are only failed by panicking",
		},
		Run:    runC28,
		Replay: replayC28,
	})
}

package types

import (
	"encoding/json"
	"fmt"
	"math/bits"
	"strings"
	"sync"

	"github.com/onflow/cadence"

	"github.com/onflow/cadence/interpreter"
	"github.com/onflow/cadence/sema"

	"verif/gen/tygen"
	"verif/mc"
	"verif/rt"
)

// C08 — subtyping is a consistent preorder across all implementations.
//
// Space: every ordered pair (a, b) of the type universe 𝒯(1) (quick) / 𝒯(2)
// (thorough); every triple for transitivity, decided on the full boolean
// matrix.
//
// For every pair the six implementations are called on the real code:
//
//	R   sema.IsSubType(a, b)                        (the checker's relation)
//	H   sema.CheckSubTypeWithoutEquality(a, b)      hand-written
//	G   sema.CheckSubTypeWithoutEquality_gen(a, b)  generated twin
//	SG  interpreter.CheckSubTypeWithoutEquality_gen(conv, sa, sb)
//	RT  interpreter.IsSubType(conv, sa, sb)
//	RS  interpreter.IsSubTypeOfSemaType(conv, sa, b)
//
// Oracle (the property sentence only):
//   - R is reflexive (also across differently-built equal types), transitive,
//     Never ≤ T ≤ Any;
//   - H = G = SG on every pair of *different* types. The three functions
//     document that they do "NOT return a specific value when the two types are
//     equal", so pairs with a.Equal(b) are don't-care cells for this clause;
//   - RT = RS = R on every pair;
//   - ConvertStaticToSemaType(ConvertSemaToStaticType(t)) equals t.

type c08Case struct {
	Law   string `json:"law"`
	Depth int    `json:"depth"`
	A     string `json:"a"`
	B     string `json:"b,omitempty"`
	C     string `json:"c,omitempty"`
	UseVM bool   `json:"use_vm,omitempty"`
}

type c08Rel struct {
	r, h, g, sg, rt, rs bool
	equal               bool
	panicked            string
}

func c08Eval(conv *interpreter.Interpreter, a, b tygen.Ty) (res c08Rel) {
	defer func() {
		if p := recover(); p != nil {
			res.panicked = fmt.Sprintf("%v", p)
		}
	}()
	res.equal = a.Sema.Equal(b.Sema)
	res.r = sema.IsSubType(a.Sema, b.Sema)
	res.h = sema.CheckSubTypeWithoutEquality(a.Sema, b.Sema)
	res.g = sema.CheckSubTypeWithoutEquality_gen(a.Sema, b.Sema)
	res.sg = interpreter.CheckSubTypeWithoutEquality_gen(conv, a.Static, b.Static)
	res.rt = interpreter.IsSubType(conv, a.Static, b.Static)
	res.rs = interpreter.IsSubTypeOfSemaType(conv, a.Static, b.Sema)
	return
}

// c08Class is the structural class of a type used in signatures: atoms by
// name (they are a fixed alphabet and the relation special-cases many of
// them), nominal types by composite kind, constructed types by constructor
// and the class of the outermost component only.
func c08Class(t tygen.Ty) string {
	return c08SemaClass(t.Sema, 1)
}

func c08SemaClass(t sema.Type, depth int) string {
	inner := func(x sema.Type) string {
		if depth <= 0 {
			return "_"
		}
		// inside a constructor the concrete numeric / path type rarely matters:
		// one class for each family keeps the signature space small
		switch {
		case x == sema.NeverType:
		case sema.IsSubType(x, sema.NumberType):
			return "number"
		case sema.IsSubType(x, sema.PathType):
			return "path"
		}
		return c08SemaClass(x, depth-1)
	}
	switch t := t.(type) {
	case *sema.CompositeType:
		if t.Location == nil {
			return t.QualifiedString()
		}
		return "composite:" + t.Kind.Name()
	case *sema.InterfaceType:
		return "interface:" + t.CompositeKind.Name()
	case *sema.OptionalType:
		return "optional<" + inner(t.Type) + ">"
	case *sema.VariableSizedType:
		return "vararray<" + inner(t.Type) + ">"
	case *sema.ConstantSizedType:
		return "constarray<" + inner(t.Type) + ">"
	case *sema.DictionaryType:
		return "dictionary<" + inner(t.KeyType) + "," + inner(t.ValueType) + ">"
	case *sema.ReferenceType:
		auth := "unauth"
		if s, ok := t.Authorization.(sema.EntitlementSetAccess); ok {
			auth = "conj"
			if s.SetKind == sema.Disjunction {
				auth = "disj"
			}
			auth += fmt.Sprint(s.Entitlements.Len())
		}
		return "reference:" + auth + "<" + inner(t.Type) + ">"
	case *sema.IntersectionType:
		return fmt.Sprintf("intersection%d", len(t.Types))
	case *sema.CapabilityType:
		if t.BorrowType == nil {
			return "capability"
		}
		return "capability<" + inner(t.BorrowType) + ">"
	case *sema.FunctionType:
		s := "function"
		if t.Purity == sema.FunctionPurityView {
			s = "viewfunction"
		}
		return fmt.Sprintf("%s/%dtp/%dp", s, len(t.TypeParameters), len(t.Parameters))
	case *sema.InclusiveRangeType:
		return "range<" + inner(t.MemberType) + ">"
	}
	return t.QualifiedString()
}

// c08Coarse is the class used in transitivity signatures (three types per
// signature, so it is deliberately coarse and independent of the constructor
// nesting): atoms by name; every other type by kind (resource / struct),
// whether the bottom type Never occurs inside, and whether one of the
// kind-based top types AnyResource / AnyStruct occurs inside.
func c08Coarse(t tygen.Ty) string {
	switch t.Kind {
	case "prim", "nominal":
		return c08SemaClass(t.Sema, 0)
	}
	s := "struct"
	if t.Resource {
		s = "resource"
	}
	if c08HasNever(t.Sema) {
		s += "+never"
	}
	mentions := map[string]bool{}
	c09Leaves(t.Sema, func(leaf sema.Type) {
		if leaf == sema.AnyResourceType || leaf == sema.AnyStructType {
			mentions[leaf.QualifiedString()] = true
		}
	})
	if mentions["AnyResource"] {
		s += "+AnyResource"
	}
	if mentions["AnyStruct"] {
		s += "+AnyStruct"
	}
	return s
}

func c08HasNever(t sema.Type) bool {
	switch t := t.(type) {
	case *sema.OptionalType:
		return c08HasNever(t.Type)
	case *sema.VariableSizedType:
		return c08HasNever(t.Type)
	case *sema.ConstantSizedType:
		return c08HasNever(t.Type)
	case *sema.DictionaryType:
		return c08HasNever(t.KeyType) || c08HasNever(t.ValueType)
	case *sema.ReferenceType:
		return c08HasNever(t.Type)
	case *sema.CapabilityType:
		return t.BorrowType != nil && c08HasNever(t.BorrowType)
	case *sema.InclusiveRangeType:
		return t.MemberType != nil && c08HasNever(t.MemberType)
	case *sema.FunctionType:
		for _, p := range t.Parameters {
			if c08HasNever(p.TypeAnnotation.Type) {
				return true
			}
		}
		return t.ReturnTypeAnnotation.Type != nil && c08HasNever(t.ReturnTypeAnnotation.Type)
	}
	return t == sema.NeverType
}

// c08Universe: T(depth) + tygen.Extras + the types over contract D (interface
// inheritance chains of depth 3, struct and resource kinded).
func c08Universe(depth int) []tygen.Ty {
	return append(append([]tygen.Ty{}, tygen.UniversePlus(depth)...), tygen.ChainTypes()...)
}

func c08Depth(env *mc.Env) int { return mc.Pick(env, 1, 2) }

var c08ConvPool = sync.Pool{New: func() any { return tygen.NewChainConverter() }}

// c08Tally counts violating cases per law (signature prefix), for the evidence.
type c08Tally struct {
	mu sync.Mutex
	m  map[string]int64
}

func (t *c08Tally) add(sig string) {
	law := sig
	for i := 0; i < len(sig); i++ {
		if sig[i] == '|' {
			law = sig[:i]
			break
		}
	}
	t.mu.Lock()
	t.m[law]++
	t.mu.Unlock()
}

// c08JudgePair compares the implementations on one pair; returns violations as (signature, detail).
func c08JudgePair(a, b tygen.Ty, rel c08Rel) (sig, detail string) {
	pair := "sub=" + c08Class(a) + "|super=" + c08Class(b)
	show := fmt.Sprintf("sub=%s super=%s: IsSubType=%v hand=%v gen=%v staticgen=%v runtime=%v runtimeSema=%v equal=%v",
		a.Name, b.Name, rel.r, rel.h, rel.g, rel.sg, rel.rt, rel.rs, rel.equal)
	if rel.panicked != "" {
		return "panic|" + pair, show + " PANIC " + rel.panicked
	}
	if !rel.equal {
		// the three *WithoutEquality functions are specified on different types only
		if rel.h != rel.g {
			return "sema-hand-vs-gen|" + pair, show
		}
		if rel.h != rel.sg {
			return "sema-vs-static-gen|" + pair, show
		}
		if rel.r != rel.h {
			return "IsSubType-vs-CheckSubTypeWithoutEquality|" + pair, show
		}
	}
	if rel.rt != rel.r {
		return "runtime-IsSubType-vs-checker|" + pair, show
	}
	if rel.rs != rel.r {
		return "runtime-IsSubTypeOfSemaType-vs-checker|" + pair, show
	}
	if rel.equal && !rel.r {
		return "reflexive|" + pair, show
	}
	if a.Sema == sema.NeverType && !rel.r {
		return "never-bottom|" + pair, show
	}
	if b.Sema == sema.AnyType && !rel.r {
		return "any-top|" + pair, show
	}
	return "", ""
}

func c08Roundtrip(conv *interpreter.Interpreter, t tygen.Ty) (sig, detail string) {
	var back sema.Type
	var err error
	panicked, val, _ := mc.Guard(func() {
		back, err = interpreter.ConvertStaticToSemaType(conv, t.Static)
	})
	cls := c08Class(t)
	switch {
	case panicked:
		return "roundtrip-panic|" + cls, fmt.Sprintf("%s: static %s: panic %v", t.Name, t.Static, val)
	case err != nil:
		return "roundtrip-error|" + cls, fmt.Sprintf("%s: static %s: %v", t.Name, t.Static, err)
	case back == nil || !back.Equal(t.Sema) || !t.Sema.Equal(back):
		return "roundtrip-differs|" + cls, fmt.Sprintf("%s: static %s converts back to %v", t.Name, t.Static, back)
	case back.ID() != t.Sema.ID():
		return "roundtrip-id|" + cls, fmt.Sprintf("%s: id %s vs %s", t.Name, back.ID(), t.Sema.ID())
	case string(t.Static.ID()) != string(t.Sema.ID()):
		return "static-id-differs|" + cls, fmt.Sprintf("%s: static id %s, sema id %s", t.Name, t.Static.ID(), t.Sema.ID())
	}
	return "", ""
}

func runC08(env *mc.Env) {
	depth := c08Depth(env)
	u := c08Universe(depth)
	n := len(u)
	words := (n + 63) / 64
	rows := make([][]uint64, n)
	for i := range rows {
		rows[i] = make([]uint64, words)
	}
	env.R.Set("universe_size", int64(n))
	env.R.Set("universe_depth", int64(depth))
	env.R.Set("universe_dropped_ill_formed", int64(len(tygen.Dropped[depth])))
	kinds := map[string]int64{}
	for _, t := range u {
		kinds[t.Kind]++
	}
	env.R.Set("universe_kinds", kinds)
	tally := &c08Tally{m: map[string]int64{}}
	defer func() { env.R.Set("violating_cases_by_law", tally.m) }()

	// round trip of every member
	{
		conv := tygen.NewChainConverter()
		for _, t := range u {
			env.R.Eval()
			if sig, detail := c08Roundtrip(conv, t); sig != "" {
				tally.add(sig)
				env.R.Violation(sig, c08Case{Law: "roundtrip", Depth: depth, A: t.Name}, detail)
			}
		}
	}

	completed := make([]bool, n)
	mc.ParallelFor(env, n, func(i int) {
		conv := c08ConvPool.Get().(*interpreter.Interpreter)
		defer c08ConvPool.Put(conv)
		a := u[i]
		classes := map[string]int64{}
		for j := 0; j < n; j++ {
			b := u[j]
			rel := c08Eval(conv, a, b)
			if rel.r {
				rows[i][j/64] |= 1 << (uint(j) % 64)
			}
			if sig, detail := c08JudgePair(a, b, rel); sig != "" {
				tally.add(sig)
				env.R.Violation(sig, c08Case{Law: "pair", Depth: depth, A: a.Name, B: b.Name}, detail)
				continue
			}
			switch {
			case i == j:
				classes["identical"]++
			case rel.equal:
				// equal but built differently ({I,I2} vs {I2,I}, auth(E,F) vs auth(F,E))
				classes["equal-differently-built"]++
				env.R.Nontrivial(a.Name + "≡" + b.Name)
				env.R.DontCare.Add(1) // *WithoutEquality agreement not judged on equal types
			case rel.r:
				classes["proper-subtype:"+a.Kind+"<:"+b.Kind]++
				env.R.Nontrivial(a.Name + "<:" + b.Name)
			default:
				classes["unrelated"]++
			}
		}
		env.R.EvalN(int64(6 * n))
		for k, v := range classes {
			kk := k
			env.R.Class(kk, func() any { return "first pair of class " + kk + " in the row of " + a.Name })
			env.R.ClassN(kk, v-1)
		}
		completed[i] = true
	})
	for _, ok := range completed {
		if !ok {
			return // capped: the matrix is incomplete, transitivity is not decidable on it
		}
	}

	// transitivity on the full matrix: R[i][j] ⇒ row(j) ⊆ row(i).
	//
	// Don't-care: triples whose first or last member is a *bare interface type*
	// (`C.I` as a type by itself). The statement quantifies "over all types a program can
	// denote", and no program can write an interface type outside `{…}`; the
	// quantifier text on the other hand lists "interfaces with conformances".
	// The sentence does not settle whether the preorder laws must hold there
	// (today `Int <: {StructStringer} <: StructStringer` but not
	// `Int <: StructStringer`), so these triples are counted and never alarm.
	// Agreement of the implementations on pairs with interface types is
	// still judged above (all of them claim to implement one relation).
	isIface := make([]bool, n)
	ifaceMask := make([]uint64, words)
	for i, t := range u {
		if _, ok := t.Sema.(*sema.InterfaceType); ok {
			isIface[i] = true
			ifaceMask[i/64] |= 1 << (uint(i) % 64)
		}
	}
	var triplesViolated int64
	for i := 0; i < n; i++ {
		for j := 0; j < n; j++ {
			if rows[i][j/64]&(1<<(uint(j)%64)) == 0 {
				continue
			}
			for w := 0; w < words; w++ {
				miss := rows[j][w] &^ rows[i][w]
				if miss == 0 {
					continue
				}
				// only the *endpoints* decide: with denotable a and c the conclusion
				// a <: c is a statement about denotable types, whatever the middle
				// type of the chain is (a bare interface b is a type of the
				// quantifier text, "interfaces with conformances")
				if isIface[i] {
					env.R.DontCare.Add(int64(bits.OnesCount64(miss)))
					continue
				}
				if dc := miss & ifaceMask[w]; dc != 0 {
					env.R.DontCare.Add(int64(bits.OnesCount64(dc)))
					miss &^= ifaceMask[w]
				}
				for ; miss != 0; miss &= miss - 1 {
					k := w*64 + bits.TrailingZeros64(miss)
					triplesViolated++
					tally.add("transitive")
					env.R.Violation(
						"transitive|a="+c08Coarse(u[i])+"|b="+c08Coarse(u[j])+"|c="+c08Coarse(u[k]),
						c08Case{Law: "transitive", Depth: depth, A: u[i].Name, B: u[j].Name, C: u[k].Name},
						fmt.Sprintf("%s <: %s and %s <: %s but not %s <: %s", u[i].Name, u[j].Name, u[j].Name, u[k].Name, u[i].Name, u[k].Name))
				}
			}
		}
	}
	c08ScriptLayer(env, depth, tally)
	env.R.Set("triples_decided", int64(n)*int64(n)*int64(n))
	env.R.Set("pairs", int64(n)*int64(n))
	env.R.BoundCompleted(fmt.Sprintf("all ordered pairs and triples of T(%d), %d types", depth, n))
}

// c08ScriptLayer: "run-time subtype tests on static types agree with the
// checker's relation", observed end to end: for every ordered pair of the
// denotable core types (the C09 target set) a script evaluates
// `Type<A>().isSubtype(of: Type<B>())` in both engines; the answer must equal
// sema.IsSubType(A, B).
func c08ScriptLayer(env *mc.Env, depth int, tally *c08Tally) {
	ts := c09Targets(env)
	env.R.Set("script_layer_types", int64(len(ts)))
	l := tygen.NewLedger()
	type job struct {
		i  int
		vm bool
	}
	var jobs []job
	for i := range ts {
		jobs = append(jobs, job{i, false}, job{i, true})
	}
	mc.ParallelFor(env, len(jobs), func(j int) {
		a, vm := ts[jobs[j].i], jobs[j].vm
		got, errs := c08ScriptRow(l.Clone(), a, ts, vm)
		if got == nil {
			env.R.HarnessError("C08 script layer: row %s: %s", a.Name, errs)
			return
		}
		env.R.EvalN(int64(len(ts)))
		for k, b := range ts {
			want := sema.IsSubType(a.Sema, b.Sema)
			if got[k] != want {
				sig := fmt.Sprintf("script-isSubtype-vs-checker|sub=%s|super=%s|%s", c08Class(a), c08Class(b), c09Engine(vm))
				tally.add(sig)
				env.R.Violation(sig, c08Case{Law: "script", Depth: depth, A: a.Name, B: b.Name, UseVM: vm},
					fmt.Sprintf("Type<%s>().isSubtype(of: Type<%s>()) = %v, checker relation = %v", a.Source, b.Source, got[k], want))
			}
		}
		env.R.ClassN("script-layer-row-agrees:"+c09Engine(vm), 1)
	})
}

func c08ScriptRow(l *rt.Ledger, a tygen.Ty, ts []tygen.Ty, vm bool) ([]bool, string) {
	var sb strings.Builder
	sb.WriteString(tygen.Import())
	fmt.Fprintf(&sb, "access(all) fun main(): [Bool] {\n  let t = %s\n  return [\n", a.TypeExpr())
	for _, b := range ts {
		fmt.Fprintf(&sb, "    t.isSubtype(of: %s),\n", b.TypeExpr())
	}
	sb.WriteString("    true]\n}\n")
	res := rt.Run(l, rt.Tx{Source: sb.String(), Script: true, UseVM: vm})
	if !res.OK() {
		return nil, res.ErrString()
	}
	arr, ok := res.Value.(cadence.Array)
	if !ok || len(arr.Values) != len(ts)+1 {
		return nil, "unexpected result"
	}
	out := make([]bool, len(ts))
	for i := range ts {
		b, ok := arr.Values[i].(cadence.Bool)
		if !ok {
			return nil, "unexpected element"
		}
		out[i] = bool(b)
	}
	return out, ""
}

func c08Find(depth int, name string) (tygen.Ty, bool) {
	for _, t := range c08Universe(depth) {
		if t.Name == name {
			return t, true
		}
	}
	return tygen.Ty{}, false
}

func replayC08(env *mc.Env, raw json.RawMessage) (bool, string) {
	var c c08Case
	if err := json.Unmarshal(raw, &c); err != nil {
		return false, err.Error()
	}
	conv := tygen.NewChainConverter()
	a, ok := c08Find(c.Depth, c.A)
	if !ok {
		return false, "type not in universe: " + c.A
	}
	switch c.Law {
	case "roundtrip":
		sig, detail := c08Roundtrip(conv, a)
		return sig != "", detail
	case "pair":
		b, ok := c08Find(c.Depth, c.B)
		if !ok {
			return false, "type not in universe: " + c.B
		}
		sig, detail := c08JudgePair(a, b, c08Eval(conv, a, b))
		return sig != "", sig + " " + detail
	case "script":
		b, ok := c08Find(c.Depth, c.B)
		if !ok {
			return false, "type not in universe: " + c.B
		}
		got, errs := c08ScriptRow(tygen.NewLedger(), a, []tygen.Ty{b}, c.UseVM)
		if got == nil {
			return false, errs
		}
		want := sema.IsSubType(a.Sema, b.Sema)
		return got[0] != want, fmt.Sprintf("Type<%s>().isSubtype(of: Type<%s>()) = %v, checker = %v", a.Source, b.Source, got[0], want)
	case "transitive":
		b, ok1 := c08Find(c.Depth, c.B)
		cc, ok2 := c08Find(c.Depth, c.C)
		if !ok1 || !ok2 {
			return false, "type not in universe"
		}
		ab, bc, ac := sema.IsSubType(a.Sema, b.Sema), sema.IsSubType(b.Sema, cc.Sema), sema.IsSubType(a.Sema, cc.Sema)
		return ab && bc && !ac, fmt.Sprintf("%s <: %s = %v, %s <: %s = %v, %s <: %s = %v", c.A, c.B, ab, c.B, c.C, bc, c.A, c.C, ac)
	}
	return false, "unknown law " + c.Law
}

func init() {
	mc.Register(&mc.Check{
		ID: "C08",
		Rule: "every ordered pair of the type universe T(1) (quick) / T(2) (thorough) built by verif/gen/tygen, plus tygen.Extras (doubly/triply nested optionals of 8 atoms; references with 13 authorizations incl. partially overlapping sets, bare and nested in optional/array/dictionary/capability) (all denotable primitive types, " +
			"the nominal types of a checked prelude contract, closed under optional, arrays, dictionary, reference x 6 authorizations, intersection, " +
			"capability, function, inclusive range; each member's source spelling confirmed by the real checker) is given to the six subtype " +
			"implementations; transitivity is decided for every triple on the boolean matrix; non-trivial = distinct pair in proper subtype " +
			"relation, or pair of equal but differently built types",
		Assumptions: []string{
			"the nominal part of the universe is the fixed prelude contract (tygen.Prelude)",
			"pairs of Equal types are don't-care for the agreement of the three CheckSubTypeWithoutEquality functions, which document that they return no specific value there",
		},
		Run:    runC08,
		Replay: replayC08,
	})
}

package types

import (
	"encoding/json"
	"errors"
	"fmt"
	"regexp"
	"sort"
	"strings"

	"github.com/onflow/cadence"
	"github.com/onflow/cadence/ast"
	"github.com/onflow/cadence/sema"

	"verif/gen/tygen"
	"verif/mc"
	"verif/rt"
)

// C09 — dynamic casts and run-time type tests agree.
//
// Space: a fixed list of value-producing expressions (numbers, strings, paths,
// type values, nested containers, composites, enum, interface-typed values,
// optionals and nested optionals of these, ephemeral references with each
// authorization, capabilities, ranges, functions, resources) × the denotable
// target types of 𝒯(1) whose atoms lie in a core set, in both engines.
//
// Observations, per (value v, target T), all through scripts:
//
//	cast  (v as? T) != nil            inst  v.isInstance(Type<T>())
//	sub   v.getType().isSubtype(of: Type<T>())
//	force v as! T  completes / aborts, and what a successful cast yields
//
// Oracle, clause by clause of the sentence:
//
//	(1) v neither optional nor a reference:  cast ⇔ inst ⇔ sub.
//	(2) a successful cast yields the original value (exported rendering equal).
//	(3) v optional = some(x): for T ∉ {AnyStruct, AnyResource, optionals of
//	    them} the cast behaves as on x (cast(v,T) ⇔ cast(x,T)); for those T
//	    the value is not unwrapped, so the cast succeeds.
//	(4) as! aborts ⇔ as? is nil.
//
// Don't-care cells (the sentence does not settle them):
//
//	DC-ref   v is a reference: `v.isInstance` and `v.getType()` are forwarded to
//	         the *referenced* value (pinned by the repository's own tests,
//	         interpreter/reference_test.go: `ref.isInstance(Type<@R>())` is
//	         true), so "the value's run-time type" is not observable for the
//	         reference itself. inst and sub are not judged; cast is judged
//	         against the reference type the program created only where the
//	         answer does not depend on whether "run-time type" means the
//	         borrowed type or the referent's dynamic type.
//	DC-nil   v is nil (or nested nil): a *successful* cast of nil to `T?` yields
//	         nil, indistinguishable from a failed cast; clause (4) cannot be
//	         read off. Nothing is judged.
//	DC-opt   v optional: clause (1) excludes optionals; inst/sub are not judged.

type c09Value struct {
	Name  string // short stable name (used in signatures' class only via Class)
	Setup string // statements before the value declaration
	Expr  string // the value expression
	// Decl is the declared static type of the variable holding the value:
	// "AnyStruct" (boxed; note that boxing strips the entitlements of a
	// reference at run time, by design), "@AnyResource", or a reference type
	// for the typed mode.
	Decl     string
	Resource bool
	// Class: "plain", "reference", "optional" (some(x)), "nil".
	Class string
	// UnwrapOf names the value x for Class "optional".
	UnwrapOf string
	// RefBorrow / RefDyn: for references, the source spelling of the reference
	// type by borrowed type and by the referent's dynamic type.
	RefBorrow string
	RefDyn    string
	// Kind is the structural class for signatures.
	Kind string
}

func c09Values() []c09Value {
	var vs []c09Value
	plain := func(name, kind, expr string) {
		vs = append(vs, c09Value{Name: name, Expr: expr, Decl: "AnyStruct", Class: "plain", Kind: kind})
	}
	opt := func(name, kind, expr, of string) {
		vs = append(vs, c09Value{Name: name, Expr: expr, Decl: "AnyStruct", Class: "optional", UnwrapOf: of, Kind: kind})
	}
	// numbers
	plain("Int", "number", "1")
	plain("Int8", "number", "Int8(1)")
	plain("UInt8", "number", "UInt8(1)")
	plain("UInt64", "number", "UInt64(7)")
	plain("Word8", "number", "Word8(1)")
	plain("Int256", "number", "Int256(1)")
	plain("UFix64", "number", "1.5")
	plain("Fix64", "number", "-1.5")
	// text, bool, address, paths, types
	plain("String", "string", `"a"`)
	plain("Character", "character", `("a" as Character)`)
	plain("Bool", "bool", "true")
	plain("Address", "address", "(0x1 as Address)")
	plain("PublicPath", "path", "/public/p")
	plain("StoragePath", "path", "/storage/s")
	plain("Type", "type", "Type<Int>()")
	plain("TypeRef", "type", "Type<auth(C.E) &C.S>()")
	// containers
	plain("ArrInt", "array", "[1, 2]")
	plain("ArrAny", "array", `[1, "a"]`)
	plain("ArrEmpty", "array", "([] as [Int])")
	plain("ArrArr", "array", "[[1]]")
	plain("ArrConst", "array", "([1, 2] as [Int; 2])")
	plain("ArrOpt", "array", "([nil, 1] as [Int?])")
	plain("ArrS", "array", "[C.S(1)]")
	plain("ArrI", "array", "([C.S2(1)] as [{C.I}])")
	plain("DictSI", "dictionary", `{"a": 1}`)
	plain("DictIS", "dictionary", `{1: "a"}`)
	plain("DictSArr", "dictionary", `{"a": [1]}`)
	plain("DictEmpty", "dictionary", "({} as {String: Int})")
	plain("DictS", "dictionary", `{"a": C.S(1)}`)
	plain("DictAny", "dictionary", `({"a": 1} as {String: AnyStruct})`)
	// composites
	plain("S", "composite", "C.S(1)")
	plain("S2", "composite", "C.S2(1)")
	plain("S3", "composite", "C.S3()")
	plain("S2asI", "composite", "(C.S2(1) as {C.I})")
	plain("En", "enum", "C.En.a")
	// capability, range, function, account
	plain("Cap", "capability", "getAccount(0x1).capabilities.get<&C.S>(/public/x)")
	plain("CapAuth", "capability", "getAccount(0x1).capabilities.get<auth(C.E) &C.S>(/public/x)")
	plain("Range", "range", "InclusiveRange(1, 3)")
	plain("RangeU8", "range", "InclusiveRange(UInt8(1), UInt8(3))")
	plain("Fun", "function", "fun (_ x: Int): Int { return x }")
	plain("FunView", "function", "view fun (): Int { return 1 }")
	plain("FunVoid", "function", "fun () {}")
	// optionals
	opt("OptInt", "optional", "(1 as Int?)", "Int")
	opt("OptOptInt", "optional", "((1 as Int?) as Int??)", "Int")
	opt("OptString", "optional", `("a" as String?)`, "String")
	opt("OptS", "optional", "(C.S(1) as C.S?)", "S")
	opt("OptArr", "optional", "([1, 2] as [Int]?)", "ArrInt")
	opt("OptAny", "optional", "((1 as AnyStruct) as AnyStruct?)", "Int")
	opt("OptEn", "optional", "(C.En.a as C.En?)", "En")
	vs = append(vs,
		c09Value{Name: "Nil", Expr: "nil", Decl: "AnyStruct", Class: "nil", Kind: "nil"},
		c09Value{Name: "NilInt", Expr: "(nil as Int?)", Decl: "AnyStruct", Class: "nil", Kind: "nil"},
		c09Value{Name: "NilNested", Expr: "((nil as Int?) as Int??)", Decl: "AnyStruct", Class: "nil", Kind: "nil"},
	)
	// references. Boxed (`AnyStruct`): every entitlement is stripped at run time
	// by design, the reference type created is the unauthorized one.
	setup := "let s = C.S(1)\n  let s2 = C.S2(1)\n  let i = 1\n  let arr = [1]\n  let o: Int? = 1\n"
	ref := func(name, expr, decl, borrow, dyn string) {
		vs = append(vs, c09Value{Name: name, Setup: setup, Expr: expr, Decl: decl, Class: "reference", RefBorrow: borrow, RefDyn: dyn, Kind: "reference"})
	}
	ref("RefS", "&s as &C.S", "AnyStruct", "&C.S", "&C.S")
	ref("RefSE.boxed", "&s as auth(C.E) &C.S", "AnyStruct", "&C.S", "&C.S")
	ref("RefI.boxed", "&s2 as &{C.I}", "AnyStruct", "&{C.I}", "&C.S2")
	ref("RefAny.boxed", "&s as &AnyStruct", "AnyStruct", "&AnyStruct", "&C.S")
	ref("RefInt", "&i as &Int", "AnyStruct", "&Int", "&Int")
	ref("RefArr", "&arr as &[Int]", "AnyStruct", "&[Int]", "&[Int]")
	ref("RefAccount", "getAccount(0x1)", "AnyStruct", "&Account", "&Account")
	// typed: the variable has the reference type itself
	for _, a := range append(tygen.Auths(), tygen.ExtraAuths()...) {
		src := a.Source + "&C.S"
		ref("RefS."+a.Name, "&s as "+src, src, src, src)
	}
	ref("RefI", "&s2 as &{C.I}", "&{C.I}", "&{C.I}", "&C.S2")
	ref("RefIE", "&s2 as auth(C.E) &{C.I}", "auth(C.E) &{C.I}", "auth(C.E) &{C.I}", "auth(C.E) &C.S2")
	ref("RefAnyE", "&s as auth(C.E) &AnyStruct", "auth(C.E) &AnyStruct", "auth(C.E) &AnyStruct", "auth(C.E) &C.S")
	ref("RefArrM", "&arr as auth(Mutate) &[Int]", "auth(Mutate) &[Int]", "auth(Mutate) &[Int]", "auth(Mutate) &[Int]")
	// containers / optionals whose run-time type nests an entitled reference
	// NOTE: boxing into AnyStruct strips the entitlements of nested references
	// too (the run-time type becomes `[&C.S]`), so these values are held in a
	// variable of their own container type; one boxed variant is kept.
	nest := func(name, kind, expr, decl string) {
		vs = append(vs, c09Value{Name: name, Setup: setup, Expr: expr, Decl: decl, Class: "plain", Kind: kind})
	}
	for _, a := range []struct{ n, src string }{{"EF", "auth(C.E, C.F) &C.S"}, {"EG", "auth(C.E, C.G) &C.S"}, {"EorF", "auth(C.E | C.F) &C.S"}, {"G", "auth(C.G) &C.S"}} {
		nest("ArrRef."+a.n, "array-of-reference", "[&s as "+a.src+"]", "["+a.src+"]")
		nest("DictRef."+a.n, "dictionary-of-reference", `{"a": &s as `+a.src+`}`, "{String: "+a.src+"}")
		nest("ConstArrRef."+a.n, "array-of-reference", "[&s as "+a.src+"]", "["+a.src+"; 1]")
	}
	nest("ArrOptRef.EF", "array-of-reference", "[&s as auth(C.E, C.F) &C.S]", "[(auth(C.E, C.F) &C.S)?]")
	nest("ArrRef.EF.boxed", "array-of-reference", "[&s as auth(C.E, C.F) &C.S]", "AnyStruct")
	// resources
	res := func(name, kind, expr string) {
		vs = append(vs, c09Value{Name: name, Expr: expr, Decl: "@AnyResource", Resource: true, Class: "plain", Kind: kind})
	}
	res("R", "resource", "C.mkR(1)")
	res("R2", "resource", "C.mkR2()")
	res("ArrR", "resource-array", "[<- C.mkR(1)]")
	res("DictR", "resource-dictionary", `{"a": <- C.mkR(1)}`)
	vs = append(vs,
		c09Value{Name: "OptR", Expr: "C.mkR(1)", Decl: "@AnyResource?", Resource: true, Class: "optional", UnwrapOf: "R", Kind: "optional"},
		// two and three optional levels, held under their own static type (resource and struct twin)
		c09Value{Name: "OptOptR", Expr: "C.mkR(1)", Decl: "@C.R??", Resource: true, Class: "optional", UnwrapOf: "R", Kind: "optional"},
		c09Value{Name: "OptOptOptR", Expr: "C.mkR(1)", Decl: "@C.R???", Resource: true, Class: "optional", UnwrapOf: "R", Kind: "optional"},
		c09Value{Name: "OptRtyped", Expr: "C.mkR(1)", Decl: "@C.R?", Resource: true, Class: "optional", UnwrapOf: "R", Kind: "optional"},
		c09Value{Name: "OptOptS", Expr: "C.S(1)", Decl: "C.S??", Class: "optional", UnwrapOf: "S", Kind: "optional"},
		c09Value{Name: "OptOptOptS", Expr: "C.S(1)", Decl: "C.S???", Class: "optional", UnwrapOf: "S", Kind: "optional"},
		c09Value{Name: "NilOptR", Expr: "nil", Decl: "@C.R??", Resource: true, Class: "nil", Kind: "nil"},
		c09Value{Name: "NilOptS", Expr: "nil", Decl: "C.S??", Class: "nil", Kind: "nil"},
	)
	return vs
}

// c09Targets: the denotable members of 𝒯(1) all of whose atoms lie in the core set.
func c09Targets(env *mc.Env) []tygen.Ty {
	core := map[string]bool{}
	for _, n := range []string{"Int", "String", "AnyStruct", "AnyResource", "Never", "HashableStruct", "Integer",
		"A.0000000000000001.C.S", "A.0000000000000001.C.S2", "A.0000000000000001.C.R",
		"A.0000000000000001.C.I", "A.0000000000000001.C.RI"} {
		core[n] = true
	}
	if env.Thorough() {
		for _, n := range []string{"UInt8", "Number", "Bool", "Type", "Void", "Path", "Account", "A.0000000000000001.C.En","Int8", "Int256", "UInt64", "Word8", "UFix64", "Fix64", "SignedInteger", "FixedPoint", "Character", "Address",
			"PublicPath", "StoragePath", "CapabilityPath", "AnyStructAttachment", "AnyResourceAttachment", "Capability",
			"A.0000000000000001.C.S3", "A.0000000000000001.C.R2", "A.0000000000000001.C.I2", "A.0000000000000001.C.Inner"} {
			core[n] = true
		}
	}
	var out []tygen.Ty
	isExtra := map[string]bool{}
	for _, t := range tygen.Extras() {
		isExtra[t.Name] = true
	}
	for _, t := range tygen.UniversePlus(1) {
		if !t.Denotable() {
			continue
		}
		if isExtra[t.Name] {
			out = append(out, t) // nested optionals, every authorization bare and nested
			continue
		}
		if t.Depth == 0 {
			out = append(out, t) // every denotable atom and intersection
			continue
		}
		if t.Kind == "function" && !env.Thorough() && strings.HasPrefix(t.Bare(), "view") {
			continue
		}
		ok := true
		c09Leaves(t.Sema, func(leaf sema.Type) {
			if !core[string(leaf.ID())] {
				ok = false
			}
		})
		if ok {
			out = append(out, t)
		}
	}
	return out
}

func c09Leaves(t sema.Type, f func(sema.Type)) {
	switch t := t.(type) {
	case *sema.OptionalType:
		c09Leaves(t.Type, f)
	case *sema.VariableSizedType:
		c09Leaves(t.Type, f)
	case *sema.ConstantSizedType:
		c09Leaves(t.Type, f)
	case *sema.DictionaryType:
		c09Leaves(t.KeyType, f)
		c09Leaves(t.ValueType, f)
	case *sema.ReferenceType:
		c09Leaves(t.Type, f)
	case *sema.CapabilityType:
		if t.BorrowType != nil {
			c09Leaves(t.BorrowType, f)
		}
	case *sema.InclusiveRangeType:
		if t.MemberType != nil {
			c09Leaves(t.MemberType, f)
		}
	case *sema.IntersectionType:
		for _, i := range t.Types {
			f(i)
		}
	case *sema.FunctionType:
		for _, p := range t.Parameters {
			c09Leaves(p.TypeAnnotation.Type, f)
		}
		if t.ReturnTypeAnnotation.Type != nil {
			c09Leaves(t.ReturnTypeAnnotation.Type, f)
		}
	default:
		f(t)
	}
}

// ---------------------------------------------------------------------------
// scripts

func c09Header(v c09Value) string {
	var sb strings.Builder
	sb.WriteString(tygen.Import())
	sb.WriteString("access(all) fun main(): [AnyStruct] {\n  ")
	sb.WriteString(v.Setup)
	return sb.String()
}

func c09Decl(v c09Value, name string) string {
	if v.Resource {
		return fmt.Sprintf("  let %s: %s <- %s\n", name, v.Decl, v.Expr)
	}
	return fmt.Sprintf("  let %s: %s = %s\n", name, v.Decl, v.Expr)
}

// legs script (struct-kinded): one line per target, [cast, inst, sub].
// For resources every target needs a fresh value (the cast consumes it).
func c09LegsScript(v c09Value, targets []tygen.Ty) (src string, lineOf map[int]int) {
	var sb strings.Builder
	sb.WriteString(c09Header(v))
	lineOf = map[int]int{}
	line := 2 + strings.Count(v.Setup, "\n") + 1
	if !v.Resource {
		sb.WriteString(c09Decl(v, "v"))
		sb.WriteString("  let t = v.getType()\n  let out: [AnyStruct] = []\n")
		line += 3
		for i, t := range targets {
			fmt.Fprintf(&sb, "  out.append([(v as? %s) != nil, v.isInstance(%s), t.isSubtype(of: %s)])\n", t.Source, t.TypeExpr(), t.TypeExpr())
			lineOf[line] = i
			line++
		}
	} else {
		sb.WriteString("  let out: [AnyStruct] = []\n")
		line++
		for i, t := range targets {
			fmt.Fprintf(&sb, "  if true { let v: %s <- %s; let t = v.getType(); let i = v.isInstance(%s); let s = t.isSubtype(of: %s); if let c <- v as? %s { out.append([true, i, s]); destroy c } else { out.append([false, i, s]); destroy v } }\n",
				v.Decl, v.Expr, t.TypeExpr(), t.TypeExpr(), t.Source)
			lineOf[line] = i
			line++
		}
	}
	sb.WriteString("  return out\n}\n")
	return sb.String(), lineOf
}

// force script: `v as! T` for the given targets (all expected to succeed),
// returning the original value followed by the cast results.
func c09ForceScript(v c09Value, targets []tygen.Ty) string {
	var sb strings.Builder
	sb.WriteString(c09Header(v))
	if !v.Resource {
		sb.WriteString(c09Decl(v, "v"))
		sb.WriteString("  let out: [AnyStruct] = [v, v.getType().identifier]\n")
		for _, t := range targets {
			fmt.Fprintf(&sb, "  out.append(v as! %s)\n  out.append((v as! %s).getType().identifier)\n", t.Source, t.Source)
		}
	} else {
		// resources cannot be returned from a script: report their type and uuid-free rendering
		sb.WriteString("  let out: [AnyStruct] = [\"resource\", \"\"]\n")
		for _, t := range targets {
			fmt.Fprintf(&sb, "  if true { let v: %s <- %s; let before = v.getType(); let c <- v as! %s; out.append(before.identifier.concat(\"|\").concat(c.getType().identifier)); out.append(\"\"); destroy c }\n",
				v.Decl, v.Expr, t.Source)
		}
	}
	sb.WriteString("  return out\n}\n")
	return sb.String()
}

func c09Rows(res *rt.Result) ([][3]bool, bool) {
	arr, ok := res.Value.(cadence.Array)
	if !ok {
		return nil, false
	}
	out := make([][3]bool, len(arr.Values))
	for i, v := range arr.Values {
		row, ok := v.(cadence.Array)
		if !ok || len(row.Values) != 3 {
			return nil, false
		}
		for j := 0; j < 3; j++ {
			b, ok := row.Values[j].(cadence.Bool)
			if !ok {
				return nil, false
			}
			out[i][j] = bool(b)
		}
	}
	return out, true
}

// c09Accepted asks the real checker which target lines of the legs script it accepts.
func c09Accepted(v c09Value, targets []tygen.Ty) (kept []tygen.Ty, dropped int, harness string) {
	src, lineOf := c09LegsScript(v, targets)
	ch, err := tygen.Check(src)
	if ch == nil {
		return nil, 0, fmt.Sprintf("value %s: script does not parse: %v\n%s", v.Name, err, src)
	}
	bad := map[int]bool{}
	if err != nil {
		var ce *sema.CheckerError
		if !errors.As(err, &ce) {
			return nil, 0, err.Error()
		}
		for _, e := range ce.Errors {
			pos, _ := e.(ast.HasPosition)
			if pos == nil {
				return nil, 0, fmt.Sprintf("value %s: checker error without position: %v", v.Name, e)
			}
			i, ok := lineOf[pos.StartPosition().Line]
			if !ok {
				return nil, 0, fmt.Sprintf("value %s: the value declaration is rejected: line %d %T %v\n%s", v.Name, pos.StartPosition().Line, e, e, src)
			}
			bad[i] = true
		}
	}
	for i, t := range targets {
		if bad[i] {
			dropped++
			continue
		}
		kept = append(kept, t)
	}
	return kept, dropped, ""
}

// ---------------------------------------------------------------------------
// judging

type c09Case struct {
	Value  string `json:"value"`
	Target string `json:"target"`
	UseVM  bool   `json:"use_vm"`
	Law    string `json:"law"`
}

func c09Engine(vm bool) string {
	if vm {
		return "vm"
	}
	return "interp"
}

func c09TargetClass(t tygen.Ty) string {
	return c08Class(t)
}

type c09Obs struct {
	targets []tygen.Ty
	rows    [][3]bool
	index   map[string]int
}

// c09Observe runs the legs script of v in one engine.
func c09Observe(l *rt.Ledger, v c09Value, targets []tygen.Ty, vm bool) (*c09Obs, *rt.Result) {
	src, _ := c09LegsScript(v, targets)
	res := rt.Run(l, rt.Tx{Source: src, Script: true, UseVM: vm})
	if !res.OK() {
		return nil, res
	}
	rows, ok := c09Rows(res)
	if !ok || len(rows) != len(targets) {
		return nil, res
	}
	o := &c09Obs{targets: targets, rows: rows, index: map[string]int{}}
	for i, t := range targets {
		o.index[t.Name] = i
	}
	return o, res
}

func c09IsAnyish(t sema.Type) bool {
	u := sema.UnwrapOptionalType(t)
	return u == sema.AnyStructType || u == sema.AnyResourceType
}

// c09RefExpect: expected cast outcome for a reference value, or ok=false when
// the two readings of "run-time type" disagree (don't-care).
func c09RefExpect(v c09Value, t tygen.Ty, refTypes map[string]sema.Type) (want bool, ok bool) {
	b, d := refTypes[v.RefBorrow], refTypes[v.RefDyn]
	if b == nil || d == nil {
		return false, false
	}
	wb, wd := sema.IsSubType(b, t.Sema), sema.IsSubType(d, t.Sema)
	return wb, wb == wd
}

type c09Viol struct {
	sig, detail string
	c           c09Case
}

// c09JudgeLegs judges the observations of one value in one engine. base is the
// observation of the unwrapped value for Class "optional".
func c09JudgeLegs(env *mc.Env, v c09Value, o *c09Obs, base *c09Obs, vm bool, refTypes map[string]sema.Type, classes map[string]int64) (viols []c09Viol) {
	eng := c09Engine(vm)
	add := func(law string, t tygen.Ty, detail string) {
		viols = append(viols, c09Viol{
			sig:    fmt.Sprintf("%s|value=%s|target=%s|%s", law, v.Kind, c09TargetClass(t), eng),
			detail: fmt.Sprintf("value %s (%s), target %s: %s", v.Name, v.Expr, t.Source, detail),
			c:      c09Case{Value: v.Name, Target: t.Name, UseVM: vm, Law: law},
		})
	}
	for i, t := range o.targets {
		cast, inst, sub := o.rows[i][0], o.rows[i][1], o.rows[i][2]
		show := fmt.Sprintf("(v as? T) != nil = %v, v.isInstance(Type<T>()) = %v, v.getType().isSubtype(of: Type<T>()) = %v", cast, inst, sub)
		switch v.Class {
		case "plain":
			// clause (1)
			switch {
			case cast != inst:
				add("cast-vs-isInstance", t, show)
			case cast != sub:
				add("cast-vs-getType-isSubtype", t, show)
			default:
				classes[fmt.Sprintf("plain:%s:cast=%v", v.Kind, cast)]++
				if cast {
					env.R.Nontrivial(v.Name + "|" + t.Name)
				}
			}
		case "reference":
			// DC-ref: inst and sub are about the referent
			env.R.DontCare.Add(1)
			want, ok := c09RefExpect(v, t, refTypes)
			if !ok {
				env.R.DontCare.Add(1)
				classes["reference:reading-dependent"]++
				continue
			}
			if cast != want {
				add("reference-cast-vs-created-reference-type", t, fmt.Sprintf("cast = %v, the reference was created as %s", cast, v.RefBorrow))
			} else {
				classes[fmt.Sprintf("reference:cast=%v", cast)]++
				if cast {
					env.R.Nontrivial(v.Name + "|" + t.Name)
				}
			}
		case "optional":
			// DC-opt for inst/sub; clause (3)
			if c09IsAnyish(t.Sema) {
				if !cast {
					add("optional-not-preserved-for-Any-target", t, show)
				} else {
					classes["optional:any-target-preserved"]++
					env.R.Nontrivial(v.Name + "|" + t.Name)
				}
				continue
			}
			if base == nil {
				continue
			}
			bi, ok := base.index[t.Name]
			if !ok {
				env.R.DontCare.Add(1) // the checker refused the cast on the unwrapped value: nothing to compare with
				continue
			}
			if cast != base.rows[bi][0] {
				add("optional-unwrap", t, fmt.Sprintf("cast of the optional = %v, cast of the unwrapped value (%s) = %v", cast, v.UnwrapOf, base.rows[bi][0]))
			} else {
				classes[fmt.Sprintf("optional:unwrapped-cast=%v", cast)]++
				if cast {
					env.R.Nontrivial(v.Name + "|" + t.Name)
				}
			}
		case "nil":
			env.R.DontCare.Add(1) // DC-nil
			classes["nil:not-judged"]++
		}
	}
	return viols
}

// c09JudgeForce: clause (4) and (2). succeed = targets whose as? was non-nil.
func c09JudgeForce(env *mc.Env, l *rt.Ledger, v c09Value, o *c09Obs, vm bool, failTargets []tygen.Ty, classes map[string]int64, evals *int64) (viols []c09Viol) {
	if v.Class == "nil" {
		return nil
	}
	eng := c09Engine(vm)
	var succ []tygen.Ty
	for i, t := range o.targets {
		if o.rows[i][0] {
			succ = append(succ, t)
		}
	}
	add := func(law string, t tygen.Ty, detail string) {
		viols = append(viols, c09Viol{
			sig:    fmt.Sprintf("%s|value=%s|target=%s|%s", law, v.Kind, c09TargetClass(t), eng),
			detail: fmt.Sprintf("value %s (%s), target %s: %s", v.Name, v.Expr, t.Source, detail),
			c:      c09Case{Value: v.Name, Target: t.Name, UseVM: vm, Law: law},
		})
	}
	// all successful targets in one script; on failure localise one by one
	judgeSucc := func(ts []tygen.Ty) bool {
		res := rt.Run(l, rt.Tx{Source: c09ForceScript(v, ts), Script: true, UseVM: vm})
		*evals += int64(len(ts))
		if !res.OK() {
			if len(ts) == 1 {
				add("force-cast-aborts-although-failable-cast-succeeds", ts[0], res.Class+" "+res.Kind+": "+c09FirstLine(res.ErrString()))
			}
			return false
		}
		arr, ok := res.Value.(cadence.Array)
		if !ok || len(arr.Values) != 2*len(ts)+2 {
			return false
		}
		orig := arr.Values[0].String()
		origType := c09Unquote(arr.Values[1].String())
		for i, t := range ts {
			got := arr.Values[2*i+2].String()
			gotType := c09Unquote(arr.Values[2*i+3].String())
			if v.Resource {
				if parts := strings.SplitN(c09Unquote(got), "|", 2); len(parts) == 2 {
					origType, gotType = parts[0], parts[1]
				}
			}
			// "Casts first unwrap optional values unless the target is AnyStruct or
			// AnyResource (or an optional of them)": for those targets the value is
			// kept as it is and only boxed up to the target's optional depth, so its
			// run-time type keeps its base and has max(own, target) optional levels.
			if (v.Class == "optional" || v.Class == "plain") && c09IsAnyish(t.Sema) && origType != "" && gotType != "" {
				origBase, wantDepth := c09Peel(origType)
				gotBase, gotDepth := c09Peel(gotType)
				if d := c09OptionalDepth(t.Sema); d > wantDepth {
					wantDepth = d
				}
				if origBase != gotBase || gotDepth != wantDepth {
					add("cast-to-Any-target-changes-optional-levels", t,
						fmt.Sprintf("run-time type before the cast %s, after %s (expected %d optional levels)", origType, gotType, wantDepth))
					continue
				}
				classes["force:any-target-optional-levels-kept"]++
			}
			if v.Resource {
				// resources cannot leave a script: identity is judged on the dynamic
				// type, modulo the optional wrapping the cast target adds or removes
				norm := func(x string) string { return strings.NewReplacer("?", "", "(", "", ")", "", "\"", "").Replace(x) }
				parts := strings.SplitN(got, "|", 2)
				if len(parts) != 2 || norm(parts[0]) != norm(parts[1]) {
					add("successful-cast-yields-different-value", t, "dynamic type before|after the cast: "+got)
				} else {
					classes["force:succeeds-same-resource-type"]++
				}
				continue
			}
			if got != orig && c09StripAuth(got) == c09StripAuth(orig) {
				// Don't-care: the cast narrowed the authorization carried by a
				// reference / capability type to the target's ("casting to a less
				// authorized type strips entitlements", interpreter.convert, by
				// design). "Yields the original value" is read as: the same
				// referent / capability; whether the carried authorization belongs
				// to the value's identity is not settled by the sentence.
				env.R.DontCare.Add(1)
				classes["force:succeeds-authorization-narrowed"]++
				continue
			}
			if got != orig {
				add("successful-cast-yields-different-value", t, fmt.Sprintf("original %s, cast yields %s", c09Trunc(orig), c09Trunc(got)))
			} else {
				classes["force:succeeds-same-value"]++
			}
		}
		return true
	}
	if len(succ) > 0 && !judgeSucc(succ) {
		for _, t := range succ {
			judgeSucc([]tygen.Ty{t})
		}
	}
	// targets whose as? is nil: as! must abort (one script each)
	for _, t := range failTargets {
		i, ok := o.index[t.Name]
		if !ok || o.rows[i][0] {
			continue
		}
		res := rt.Run(l, rt.Tx{Source: c09ForceScript(v, []tygen.Ty{t}), Script: true, UseVM: vm})
		*evals++
		if res.OK() {
			add("force-cast-succeeds-although-failable-cast-is-nil", t, "as! returned "+c09Trunc(fmt.Sprint(res.Value)))
		} else {
			classes["force:aborts:"+res.Class]++
			env.R.Nontrivial("force-abort|" + v.Name + "|" + t.Name)
		}
	}
	return viols
}

func c09Unquote(s string) string { return strings.Trim(s, "\"") }

// c09Peel splits a run-time type identifier `((X)?)?` into X and its outer
// optional depth. Entitlements are ignored (they are stripped by design when
// a value is boxed into AnyStruct).
func c09Peel(s string) (base string, depth int) {
	s = c09StripAuth(s)
	for strings.HasPrefix(s, "(") && strings.HasSuffix(s, ")?") {
		s = s[1 : len(s)-2]
		depth++
	}
	return s, depth
}

func c09OptionalDepth(t sema.Type) int {
	d := 0
	for {
		o, ok := t.(*sema.OptionalType)
		if !ok {
			return d
		}
		d++
		t = o.Type
	}
}

var c09AuthRe = regexp.MustCompile(`auth\([^)]*\)`)

func c09StripAuth(s string) string { return c09AuthRe.ReplaceAllString(s, "") }

func c09FirstLine(s string) string {
	if i := strings.Index(s, "-->"); i > 0 {
		s = s[:i]
	}
	return strings.TrimSpace(strings.ReplaceAll(s, "\n", " "))
}

func c09Trunc(s string) string {
	if len(s) > 120 {
		return s[:120] + "…"
	}
	return s
}

// c09FailSubset: the targets on which an aborting `as!` is executed (one
// script each): quick = the first two targets of every (constructor kind,
// resource-ness, depth) class plus six atoms; thorough = all.
func c09FailSubset(env *mc.Env, targets []tygen.Ty) []tygen.Ty {
	if env.Thorough() {
		return targets
	}
	seen := map[string]int{}
	var out []tygen.Ty
	for _, t := range targets {
		key := fmt.Sprintf("%s/%v/%d", t.Kind, t.Resource, t.Depth)
		limit := 2
		if t.Depth == 0 {
			key = "atom:" + fmt.Sprint(seen["atoms"]%6)
			seen["atoms"]++
			limit = 1
		}
		if seen[key] < limit {
			seen[key]++
			out = append(out, t)
		}
	}
	return out
}

func c09RefTypes() map[string]sema.Type {
	// the reference types named by the value list, resolved by the real checker
	names := map[string]bool{}
	for _, v := range c09Values() {
		if v.Class == "reference" {
			names[v.RefBorrow] = true
			names[v.RefDyn] = true
		}
	}
	var list []string
	for n := range names {
		list = append(list, n)
	}
	sort.Strings(list)
	var sb strings.Builder
	sb.WriteString(tygen.Import())
	for i, n := range list {
		fmt.Fprintf(&sb, "access(all) let t%d = Type<%s>()\n", i, n)
	}
	ch, err := tygen.Check(sb.String())
	if ch == nil || err != nil {
		panic(fmt.Sprintf("c09: reference types do not check: %v", err))
	}
	out := map[string]sema.Type{}
	decls := ch.Program.VariableDeclarations()
	for i, n := range list {
		inv := decls[i].Value.(*ast.InvocationExpression)
		out[n] = ch.Elaboration.InvocationExpressionTypes(inv).TypeArguments.Oldest().Value
	}
	return out
}

func runC09(env *mc.Env) {
	values := c09Values()
	targets := c09Targets(env)
	failSubset := c09FailSubset(env, targets)
	refTypes := c09RefTypes()
	env.R.Set("values", int64(len(values)))
	env.R.Set("targets", int64(len(targets)))
	env.R.Set("force_abort_targets_per_value", int64(len(failSubset)))
	byName := map[string]int{}
	for i, v := range values {
		byName[v.Name] = i
	}
	base := tygen.NewLedger()

	// pass 1: which casts the checker accepts, per value
	kept := make([][]tygen.Ty, len(values))
	mc.ParallelFor(env, len(values), func(i int) {
		k, dropped, harness := c09Accepted(values[i], targets)
		if harness != "" {
			env.R.HarnessError("%s", harness)
			return
		}
		if len(k) == 0 {
			env.R.HarnessError("value %s: the checker refuses every cast line", values[i].Name)
			return
		}
		kept[i] = k
		env.R.Add("casts_refused_by_checker", int64(dropped))
	})

	// pass 2: observe every value in both engines (bases first: they are needed by the optionals)
	obs := make([][2]*c09Obs, len(values))
	type job struct {
		vi int
		vm bool
	}
	var jobs []job
	for i := range values {
		for _, vm := range []bool{false, true} {
			jobs = append(jobs, job{i, vm})
		}
	}
	mc.ParallelFor(env, len(jobs), func(j int) {
		vi, vm := jobs[j].vi, jobs[j].vm
		if kept[vi] == nil {
			return
		}
		o, res := c09Observe(base.Clone(), values[vi], kept[vi], vm)
		env.R.EvalN(int64(3 * len(kept[vi])))
		if o == nil {
			env.R.Violation(fmt.Sprintf("legs-script-fails|value=%s|%s|%s", values[vi].Kind, c09Engine(vm), res.Class),
				c09Case{Value: values[vi].Name, UseVM: vm, Law: "legs-script"}, c09FirstLine(res.ErrString()))
			return
		}
		e := 0
		if vm {
			e = 1
		}
		obs[vi][e] = o
	})

	// pass 3: judge
	mc.ParallelFor(env, len(jobs), func(j int) {
		vi, vm := jobs[j].vi, jobs[j].vm
		e := 0
		if vm {
			e = 1
		}
		o := obs[vi][e]
		if o == nil {
			return
		}
		v := values[vi]
		var b *c09Obs
		if v.Class == "optional" {
			b = obs[byName[v.UnwrapOf]][e]
		}
		classes := map[string]int64{}
		viols := c09JudgeLegs(env, v, o, b, vm, refTypes, classes)
		var evals int64
		viols = append(viols, c09JudgeForce(env, base.Clone(), v, o, vm, failSubset, classes, &evals)...)
		env.R.EvalN(evals)
		for _, vl := range viols {
			env.R.Violation(vl.sig, vl.c, vl.detail)
		}
		keys := make([]string, 0, len(classes))
		for k := range classes {
			keys = append(keys, k)
		}
		sort.Strings(keys)
		for _, k := range keys {
			kk := k
			env.R.Class(kk, func() any { return "value " + v.Name + " (" + v.Expr + "), engine " + c09Engine(vm) })
			env.R.ClassN(kk, classes[k]-1)
		}
	})
	env.R.BoundCompleted(fmt.Sprintf("%d values x %d targets x 2 engines (as?/isInstance/getType legs and successful as! on all; aborting as! on %d targets per value)", len(values), len(targets), len(failSubset)))
}

func replayC09(env *mc.Env, raw json.RawMessage) (bool, string) {
	var c c09Case
	if err := json.Unmarshal(raw, &c); err != nil {
		return false, err.Error()
	}
	var v c09Value
	found := false
	for _, x := range c09Values() {
		if x.Name == c.Value {
			v, found = x, true
		}
	}
	if !found {
		return false, "unknown value " + c.Value
	}
	l := tygen.NewLedger()
	if c.Law == "legs-script" {
		kept, _, h := c09Accepted(v, c09Targets(env))
		if h != "" {
			return false, h
		}
		o, res := c09Observe(l, v, kept, c.UseVM)
		return o == nil, c09FirstLine(res.ErrString())
	}
	var target tygen.Ty
	found = false
	for _, t := range tygen.UniversePlus(1) {
		if t.Name == c.Target {
			target, found = t, true
		}
	}
	if !found {
		return false, "unknown target " + c.Target
	}
	ts := []tygen.Ty{target}
	o, res := c09Observe(l, v, ts, c.UseVM)
	if o == nil {
		return false, "legs script fails: " + c09FirstLine(res.ErrString())
	}
	var b *c09Obs
	if v.Class == "optional" {
		for _, x := range c09Values() {
			if x.Name == v.UnwrapOf {
				b, _ = c09Observe(l, x, ts, c.UseVM)
			}
		}
	}
	classes := map[string]int64{}
	scratch := &mc.Env{R: mc.NewReport("C09"), Tier: "thorough"}
	viols := c09JudgeLegs(scratch, v, o, b, c.UseVM, c09RefTypes(), classes)
	var evals int64
	viols = append(viols, c09JudgeForce(scratch, l, v, o, c.UseVM, ts, classes, &evals)...)
	for _, vl := range viols {
		if vl.c.Law == c.Law {
			return true, vl.sig + ": " + vl.detail
		}
	}
	if len(viols) > 0 {
		return false, "different violation: " + viols[0].sig
	}
	return false, "no violation"
}

func init() {
	mc.Register(&mc.Check{
		ID: "C09",
		Rule: "every value expression of a fixed list (numbers, text, paths, type values, nested containers, composites, enum, interface-typed values, optionals, nil, " +
			"ephemeral references boxed and with each authorization, capabilities, ranges, functions, account reference, resources) x every denotable target type of T(1) over a core atom set, " +
			"both engines: (v as? T) != nil, v.isInstance(Type<T>()), v.getType().isSubtype(of: Type<T>()) in batched scripts (casts the checker refuses are dropped and counted), " +
			"v as! T for all targets whose as? succeeded (one script, values compared) and for a per-class subset (quick) / all (thorough) of the targets whose as? is nil (one script each); " +
			"non-trivial = distinct (value, target) with a successful cast, or an executed aborting force cast",
		Assumptions: []string{
			"the exported rendering (cadence.Value.String) identifies a value for 'a successful cast yields the original value'",
			"reference values: isInstance/getType are forwarded to the referenced value by design, so only the cast legs are judged (DC-ref); nil values are not judged (DC-nil)",
		},
		Run:    runC09,
		Replay: replayC09,
	})
}

package types

import (
	"testing"

	"verif/gen/tygen"
)

func TestC09Res(t *testing.T) {
	var v c09Value
	for _, x := range c09Values() {
		if x.Name == "R" {
			v = x
		}
	}
	ts := []tygen.Ty{}
	for _, tt := range tygen.Universe(1) {
		if tt.Name == "@C.R" || tt.Name == "@AnyResource" || tt.Name == "Int" || tt.Name == "@C.R?" {
			ts = append(ts, tt)
		}
	}
	src, _ := c09LegsScript(v, ts)
	t.Log(src)
	_, err := tygen.Check(src)
	t.Log(err)
}

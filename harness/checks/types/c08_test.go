package types

import (
	"testing"

	"verif/gen/tygen"
	"verif/rt"
)

func TestC08EndToEnd(t *testing.T) {
	l := tygen.NewLedger()
	for _, src := range []string{
		`access(all) fun main(): [Bool] { return [Type<[Never]>().isSubtype(of: Type<@[C.R]>()), Type<@[C.R]>().isSubtype(of: Type<@AnyResource>()), Type<[Never]>().isSubtype(of: Type<@AnyResource>())] }`,
		`access(all) fun main(): [Bool] { return [Type<Never?>().isSubtype(of: Type<@C.R?>()), Type<@C.R?>().isSubtype(of: Type<@AnyResource>()), Type<Never?>().isSubtype(of: Type<@AnyResource>())] }`,
		`access(all) fun main() { let a: @[C.R] <- []; let b: @AnyResource <- a; destroy b }`,
		`access(all) fun main() { let c: @AnyResource <- []; destroy c }`,
		`access(all) fun main() { let n: Never? = nil; let c: @AnyResource <- n; destroy c }`,
		`access(all) fun main() { let n: Never? = nil; let c: @C.R? <- n; let d: @AnyResource <- c; destroy d }`,
		`access(all) fun main(): Bool { let n: Int? = nil; return n.isInstance(Type<@AnyResource>()) }`,
	} {
		for _, vm := range []bool{false, true} {
			r := rt.Run(l, rt.Tx{Source: tygen.Import() + src, Script: true, UseVM: vm})
			t.Logf("vm=%v %s\n   -> %v %s %s", vm, src, r.Value, r.Class, r.ErrString())
		}
	}
}

// C18 — equality, ordering and hashing obey their laws.
//
// Property sentence (properties.jsonl): "For all values of equatable types, ==
// is reflexive, symmetric and transitive. For comparable types, < <= > >= form
// a total order consistent with ==. Equal hashable values are interchangeable
// as dictionary keys: inserting both leaves one entry, and either one finds it."
//
// Everything of this check lives in this one file and every identifier is
// prefixed c18/C18, so that the file can be moved into another package by
// changing the package clause only.
package types

import (
	"encoding/json"
	"errors"
	"fmt"
	"math/big"
	"os"
	"sort"
	"strings"
	"sync"
	"time"

	"github.com/onflow/cadence"
	"github.com/onflow/cadence/sema"
	"github.com/rivo/uniseg"
	"golang.org/x/text/unicode/norm"

	"verif/mc"
	"verif/num"
	"verif/rt"
)

// ---------------------------------------------------------------------------
// Case model

// c18Val is one value of a kind: its Cadence source and what the harness
// independently knows about it.
type c18Val struct {
	Expr string `json:"expr"`
	// Cls is an independent equivalence-class label: two values of one kind
	// with the same non-empty Grp and non-empty Cls labels MUST be == exactly
	// when the labels are equal (known from the language definition: same
	// number, canonically equivalent text, same set of interfaces …).
	// "" = the harness has no independent expectation (only the laws apply).
	Cls string `json:"cls,omitempty"`
	// Grp restricts expectations to pairs inside one group ("" is a group too).
	Grp string `json:"grp,omitempty"`
	// Num, for numeric kinds, is the exact raw (scaled) integer: the expected
	// order of `<` between two values of the same Grp.
	Num string `json:"num,omitempty"`
}

// c18Kind is one static type with its value list.
type c18Kind struct {
	Name  string   `json:"name"`  // e.g. "[String]"
	Sig   string   `json:"sig"`   // structural type kind used in signatures, e.g. "Array<String>"
	Fam   string   `json:"fam"`   // outermost constructor, used for "aborts" signatures and outcome classes
	Type  string   `json:"type"`  // Cadence type of the values
	Decls string   `json:"decls"` // top-level declarations of the script
	Setup string   `json:"setup"` // statements before the value array
	Vals  []c18Val `json:"vals"`
}

// c18Case is the replayable case: a self-contained miniature kind holding just
// the values involved, the law, and the exact signature to look for.
type c18Case struct {
	Kind      c18Kind `json:"kind"`
	Law       string  `json:"law"`
	Op        string  `json:"op"`
	Engine    string  `json:"engine"`
	Signature string  `json:"signature"`
}

type c18Viol struct {
	sig    string
	c      c18Case
	detail string
}

// ---------------------------------------------------------------------------
// Prelude contract (deployed at 0x1 with rt.Deploy)

const c18Contract = `
access(all) contract C18 {
  access(all) entitlement E
  access(all) entitlement F
  access(all) entitlement G
  access(all) struct interface I {}
  access(all) struct interface I2: I {}
  access(all) struct interface I3 {}
  access(all) resource interface RI {}
  access(all) struct S: I2, I3 { access(all) let x: Int; init() { self.x = 1 } }
  access(all) struct S2: I {}
  access(all) resource R: RI {}
  access(all) enum En: UInt8 { access(all) case a; access(all) case b; access(all) case c }
  access(all) enum En2: UInt8 { access(all) case a; access(all) case b }
  access(all) enum Big: Int128 { access(all) case x; access(all) case y }
  access(all) let stored: En
  access(all) let storedB: En
  access(all) let storedBig: Big
  access(all) fun mkA(): En { return En.a }
  access(all) fun noop() {}
  init() { self.stored = En.a; self.storedB = En.b; self.storedBig = Big.y }
}`

const c18Addr = "A.0000000000000001.C18."

var (
	c18LedgerOnce [2]sync.Once
	c18Ledgers    [2]*rt.Ledger
)

func c18Ledger(vm bool) *rt.Ledger {
	i := 0
	if vm {
		i = 1
	}
	c18LedgerOnce[i].Do(func() {
		l := rt.NewLedger()
		rt.Deploy(l, rt.Addr(1), "C18", c18Contract, vm)
		c18Ledgers[i] = l
	})
	return c18Ledgers[i]
}

func c18Engine(vm bool) string {
	if vm {
		return "vm"
	}
	return "interp"
}

// ---------------------------------------------------------------------------
// Script generation

var c18ModeOps = map[string][]string{
	"eq":  {"==", "!="},
	"ord": {"<", "<=", ">", ">="},
}

// c18Script renders the batched script of one mode over the values idx of k
// (nil = all). With single=true only the cell (first, last) is evaluated, and
// for the modes eq/ord only operator op.
func c18Script(k *c18Kind, idx []int, mode string, single bool, op string) string {
	var sb strings.Builder
	sb.WriteString("import C18 from 0x0000000000000001\n")
	sb.WriteString(k.Decls)
	sb.WriteString("\naccess(all) fun main(): [Int] {\n")
	sb.WriteString(k.Setup)
	fmt.Fprintf(&sb, "\nlet vs: [%s] = [\n", k.Type)
	if idx == nil {
		for i := range k.Vals {
			idx = append(idx, i)
		}
	}
	for n, i := range idx {
		if n > 0 {
			sb.WriteString(",\n")
		}
		sb.WriteString("  ")
		sb.WriteString(k.Vals[i].Expr)
	}
	sb.WriteString("\n]\nlet n = vs.length\nlet out: [Int] = []\n")
	if mode == "hash" {
		fmt.Fprintf(&sb, "var d18: {%s: Int} = {}\n", k.Type)
	}
	if mode == "vals" {
		sb.WriteString("out.append(n)\nreturn out\n}\n")
		return sb.String()
	}
	body := ""
	switch mode {
	case "eq", "ord":
		ops := c18ModeOps[mode]
		if single {
			ops = []string{op}
		}
		body = "var r = 0\n"
		bit := 1
		for _, o := range ops {
			body += fmt.Sprintf("if vs[i] %s vs[j] { r = r + %d }\n", o, bit)
			bit *= 2
		}
		body += "out.append(r)\n"
	case "hash":
		// One dictionary is reused for all pairs (emptied after each pair; replaced if the removals
		// left something behind): a fresh dictionary per pair would allocate a slab per pair and make
		// the runtime's storage validation quadratic in the number of pairs.
		body = `d18[vs[i]] = 1
d18[vs[j]] = 2
var r = d18.length * 100 + (d18[vs[i]] ?? 0) * 10 + (d18[vs[j]] ?? 0)
if d18.containsKey(vs[i]) { r = r + 1000 }
if d18.containsKey(vs[j]) { r = r + 2000 }
d18.remove(key: vs[i])
d18.remove(key: vs[j])
if d18.length != 0 { d18 = {} }
out.append(r)
`
	default:
		panic("c18: unknown mode " + mode)
	}
	if single {
		sb.WriteString("let i = 0\nlet j = n - 1\n")
		sb.WriteString(body)
		sb.WriteString("return out\n}\n")
		return sb.String()
	}
	// One result per row: the cells of a row are packed into one Int in base
	// c18Base (appending every cell to an array would make the interpreter's
	// atree validation of `out` quadratic in the number of cells).
	body = strings.ReplaceAll(body, "out.append(r)\n", fmt.Sprintf("row = row * %d + r\n", c18Base))
	sb.WriteString("var i = 0\nwhile i < n {\nvar row = 0\nvar j = 0\nwhile j < n {\n")
	sb.WriteString(body)
	sb.WriteString("j = j + 1\n}\nout.append(row)\ni = i + 1\n}\n")
	if mode == "hash" {
		fmt.Fprintf(&sb, `let all: {%s: Int} = {}
i = 0
while i < n { all[vs[i]] = i + 1; i = i + 1 }
out.append(all.length)
var tail = 0
i = 0
while i < n { tail = tail * %d + (all[vs[i]] ?? 0); i = i + 1 }
out.append(tail)
`, k.Type, c18Base)
	}
	sb.WriteString("return out\n}\n")
	return sb.String()
}

const c18Base = 10000

// c18Unpack expands the per-row packed results of a batched script into one
// cell per ordered pair (plus, for the hash mode, the insert-all tail).
func c18Unpack(rows []*big.Int, n int, mode string) ([]int64, bool) {
	want := n
	if mode == "hash" {
		want = n + 2
	}
	if len(rows) != want {
		return nil, false
	}
	base := big.NewInt(c18Base)
	unrow := func(x *big.Int) []int64 {
		x = new(big.Int).Set(x)
		out := make([]int64, n)
		m := new(big.Int)
		for j := n - 1; j >= 0; j-- {
			x.QuoRem(x, base, m)
			out[j] = m.Int64()
		}
		return out
	}
	var cells []int64
	for i := 0; i < n; i++ {
		cells = append(cells, unrow(rows[i])...)
	}
	if mode == "hash" {
		cells = append(cells, rows[n].Int64())
		cells = append(cells, unrow(rows[n+1])...)
	}
	return cells, true
}

// c18Obs is the outcome of one batched script.
type c18Obs struct {
	ok       bool
	rejected bool // the checker refused the operator / key type for this static type
	badGen   string
	class    string // rt class of the failure
	err      string
	cells    []int64
	rows     []*big.Int
}

func c18ShortErr(r *rt.Result) string {
	s := r.ErrString()
	s = strings.ReplaceAll(s, "\n", " | ")
	if len(s) > 260 {
		s = s[:260]
	}
	return s
}

func c18RunScript(src string, vm bool) c18Obs {
	res := rt.Run(c18Ledger(vm), rt.Tx{Source: src, Script: true, UseVM: vm})
	if res.OK() {
		arr, ok := res.Value.(cadence.Array)
		if !ok {
			return c18Obs{badGen: fmt.Sprintf("script returned %T", res.Value)}
		}
		cells := make([]int64, len(arr.Values))
		rows := make([]*big.Int, len(arr.Values))
		for i, v := range arr.Values {
			iv, ok := v.(cadence.Int)
			if !ok {
				return c18Obs{badGen: fmt.Sprintf("script returned element %T", v)}
			}
			rows[i] = iv.Value
			if iv.Value.IsInt64() {
				cells[i] = iv.Value.Int64()
			}
		}
		return c18Obs{ok: true, cells: cells, rows: rows}
	}
	o := c18Obs{class: res.Class, err: c18ShortErr(res)}
	var ce *sema.CheckerError
	if res.Err != nil && errors.As(res.Err, &ce) {
		// The checker is the arbiter of which types are equatable / comparable /
		// usable as dictionary keys: a rejection made only of these two error
		// kinds means "this static type does not support the operation".
		// (the value list itself was validated by the "vals" script before, so further
		// errors next to one of these two are consequences of the refused type.)
		onlyOperand := false
		for _, e := range ce.Errors {
			switch e.(type) {
			case *sema.InvalidBinaryOperandsError, *sema.InvalidDictionaryKeyTypeError:
				onlyOperand = true
			}
		}
		if onlyOperand {
			o.rejected = true
		} else {
			o.badGen = "checker rejected the generated script: " + o.err
		}
	}
	return o
}

// ---------------------------------------------------------------------------
// Judging one kind

// c18Stats are the coverage counters of one kind (merged into the report by Run).
type c18Stats struct {
	evals      int64
	triples    int64
	dontCare   int64
	classes    map[string]int64
	samples    map[string]string
	nontrivial []string
	rejected   []string // "<kind>:<mode>" refused by the checker
	harness    []string
}

func (s *c18Stats) class(name string, n int64, sample func() string) {
	if n == 0 {
		return
	}
	if s.classes == nil {
		s.classes = map[string]int64{}
		s.samples = map[string]string{}
	}
	if _, ok := s.classes[name]; !ok && sample != nil {
		s.samples[name] = sample()
	}
	s.classes[name] += n
}

func c18Sub(k *c18Kind, idx ...int) c18Kind {
	sub := *k
	sub.Vals = nil
	for _, i := range idx {
		sub.Vals = append(sub.Vals, k.Vals[i])
	}
	return sub
}

// c18Expect returns (known, equal): what the harness independently knows
// about vals[i] == vals[j].
func c18Expect(k *c18Kind, i, j int) (bool, bool) {
	a, b := k.Vals[i], k.Vals[j]
	if a.Cls == "" || b.Cls == "" || a.Grp != b.Grp {
		return false, false
	}
	return true, a.Cls == b.Cls
}

const c18FallbackCap = 4

// c18JudgeKind runs every batched script of kind k on both engines and
// judges the laws. It is used by Run (whole kinds) and by Replay (the
// miniature kind stored in the case).
func c18JudgeKind(k *c18Kind, st *c18Stats) []c18Viol {
	var viols []c18Viol
	n := len(k.Vals)
	emit := func(vm bool, both bool, op, law string, useFam bool, idx []int, detail string) {
		eng := c18Engine(vm)
		if both {
			eng = "both"
		}
		fam := k.Sig
		if useFam {
			fam = k.Fam
		}
		sig := fmt.Sprintf("%s|%s|%s|%s", fam, op, law, eng)
		var parts []string
		for _, i := range idx {
			parts = append(parts, k.Vals[i].Expr)
		}
		viols = append(viols, c18Viol{sig: sig,
			c:      c18Case{Kind: c18Sub(k, idx...), Law: law, Op: op, Engine: eng, Signature: sig},
			detail: fmt.Sprintf("%s (%s) values [%s]: %s", k.Name, eng, strings.Join(parts, " ; "), detail)})
	}
	all := make([]int, n)
	for i := range all {
		all[i] = i
	}

	// locate attributes a run-time abort of an accepted batch to single cells.
	locate := func(vm bool, mode string, o c18Obs) {
		ops := c18ModeOps[mode]
		opName := map[string]string{"eq": "equality", "ord": "ordering", "hash": "dict-key"}[mode]
		if mode == "hash" {
			ops = []string{"dict-key"}
		}
		m := n
		if m > c18FallbackCap {
			m = c18FallbackCap
		}
		found := false
		for i := 0; i < m; i++ {
			for j := 0; j < m; j++ {
				for _, op := range ops {
					idx := []int{i, j}
					if i == j {
						idx = []int{i}
					}
					so := c18RunScript(c18Script(k, idx, mode, true, op), vm)
					st.evals++
					if !so.ok && !so.rejected && so.badGen == "" {
						found = true
						// Sentence: "== is reflexive, symmetric and transitive" / "< <= > >= form a total
						// order" / "either one finds it": an operator the checker accepted for this static type
						// that aborts at run time yields no relation at all for the pair, whatever the error class.
						emit(vm, false, opName, "aborts-at-run-time", true, idx,
							fmt.Sprintf("`a %s b` was accepted by the checker but aborts (%s): %s", op, so.class, so.err))
					}
				}
			}
		}
		if !found {
			emit(vm, false, opName, "aborts-at-run-time", true, all,
				fmt.Sprintf("the batched %s script was accepted by the checker but aborts (%s): %s", mode, o.class, o.err))
		}
	}

	type engineObs struct {
		valsOK       bool
		eq, ord, hsh c18Obs
		eqM          [][]bool
		eqValid      bool
	}
	var eo [2]engineObs

	for e, vm := range []bool{false, true} {
		eng := c18Engine(vm)
		vo := c18RunScript(c18Script(k, nil, "vals", false, ""), vm)
		if !vo.ok || len(vo.cells) != 1 || vo.cells[0] != int64(n) {
			// generator defect (or an unrelated failure of a constructor): find the value
			msg := fmt.Sprintf("kind %s (%s): value list does not evaluate: %s %s %s", k.Name, eng, vo.class, vo.err, vo.badGen)
			for i := range k.Vals {
				so := c18RunScript(c18Script(k, []int{i}, "vals", false, ""), vm)
				if !so.ok {
					msg += fmt.Sprintf(" | offending value %q: %s %s", k.Vals[i].Expr, so.class, so.err)
					break
				}
			}
			st.harness = append(st.harness, msg)
			continue
		}
		eo[e].valsOK = true

		run := func(mode string) c18Obs {
			o := c18RunScript(c18Script(k, nil, mode, false, ""), vm)
			if o.ok {
				var good bool
				if o.cells, good = c18Unpack(o.rows, n, mode); !good {
					o.cells = nil // reported below as a cell-count mismatch
				}
			}
			switch {
			case o.badGen != "":
				st.harness = append(st.harness, fmt.Sprintf("kind %s mode %s (%s): %s", k.Name, mode, eng, o.badGen))
			case o.rejected:
				if !vm {
					st.rejected = append(st.rejected, k.Name+":"+mode)
				}
				st.class(k.Fam+":"+mode+"-refused-by-checker", 1, func() string { return k.Name })
			case !o.ok:
				locate(vm, mode, o)
			}
			return o
		}

		// ---- equality
		eq := run("eq")
		eo[e].eq = eq
		if eq.ok {
			if len(eq.cells) != n*n {
				st.harness = append(st.harness, fmt.Sprintf("kind %s eq (%s): %d cells for %d values", k.Name, eng, len(eq.cells), n))
				continue
			}
			st.evals += int64(2 * n * n)
			M := make([][]bool, n)
			valid := true
			var nTrue, nFalse int64
			for i := 0; i < n; i++ {
				M[i] = make([]bool, n)
				for j := 0; j < n; j++ {
					c := eq.cells[i*n+j]
					M[i][j] = c&1 != 0
					if M[i][j] {
						nTrue++
					} else {
						nFalse++
					}
					if (c&1 != 0) == (c&2 != 0) {
						valid = false
						emit(vm, false, "!=", "negation-of-==", false, []int{i, j},
							fmt.Sprintf("a == b is %v and a != b is %v", c&1 != 0, c&2 != 0))
					}
				}
			}
			st.class(k.Fam+":eq-true", nTrue, func() string { return k.Name })
			st.class(k.Fam+":eq-false", nFalse, func() string { return k.Name })
			for i := 0; i < n; i++ {
				if !M[i][i] {
					valid = false
					emit(vm, false, "==", "reflexivity", false, []int{i}, "a == a is false")
				}
				for j := 0; j < n; j++ {
					if i < j && M[i][j] != M[j][i] {
						valid = false
						emit(vm, false, "==", "symmetry", false, []int{i, j},
							fmt.Sprintf("a == b is %v but b == a is %v", M[i][j], M[j][i]))
					}
					known, want := c18Expect(k, i, j)
					switch {
					case !known:
						if i != j {
							// the sentence states laws, not which values are equal: pairs without an
							// independent expectation are judged by the laws only.
							st.dontCare++
						}
					case want && !M[i][j]:
						emit(vm, false, "==", "expected-equal", false, []int{i, j},
							"the two expressions denote the same value by the language definition but == is false")
					case !want && M[i][j]:
						emit(vm, false, "==", "expected-unequal", false, []int{i, j},
							"the two expressions denote different values but == is true")
					}
					if i < j && k.Vals[i].Expr != k.Vals[j].Expr && ((known && want) || (!known && M[i][j])) {
						st.nontrivial = append(st.nontrivial, fmt.Sprintf("eq|%s|%s|%s", k.Name, k.Vals[i].Expr, k.Vals[j].Expr))
					}
				}
			}
			for i := 0; i < n; i++ {
				for j := 0; j < n; j++ {
					if !M[i][j] {
						continue
					}
					for l := 0; l < n; l++ {
						if M[j][l] && !M[i][l] {
							valid = false
							emit(vm, false, "==", "transitivity", false, []int{i, j, l}, "a == b and b == c but a == c is false")
						}
					}
				}
			}
			st.triples += int64(n * n * n)
			eo[e].eqM, eo[e].eqValid = M, valid
		}

		// ---- ordering
		ord := run("ord")
		eo[e].ord = ord
		if ord.ok && len(ord.cells) == n*n {
			st.evals += int64(4 * n * n)
			lt := func(i, j int) bool { return ord.cells[i*n+j]&1 != 0 }
			le := func(i, j int) bool { return ord.cells[i*n+j]&2 != 0 }
			gt := func(i, j int) bool { return ord.cells[i*n+j]&4 != 0 }
			ge := func(i, j int) bool { return ord.cells[i*n+j]&8 != 0 }
			var nLt, nGt, nNeither int64
			for i := 0; i < n; i++ {
				for j := 0; j < n; j++ {
					switch {
					case lt(i, j):
						nLt++
					case gt(i, j):
						nGt++
					default:
						nNeither++
					}
					if eo[e].eqM != nil {
						cnt := 0
						for _, b := range []bool{lt(i, j), eo[e].eqM[i][j], gt(i, j)} {
							if b {
								cnt++
							}
						}
						if cnt != 1 {
							emit(vm, false, "<,==,>", "trichotomy", false, []int{i, j},
								fmt.Sprintf("a < b: %v, a == b: %v, a > b: %v (exactly one must hold)", lt(i, j), eo[e].eqM[i][j], gt(i, j)))
						}
						if le(i, j) != (lt(i, j) || eo[e].eqM[i][j]) {
							emit(vm, false, "<=", "le-iff-lt-or-eq", false, []int{i, j},
								fmt.Sprintf("a <= b: %v, a < b: %v, a == b: %v", le(i, j), lt(i, j), eo[e].eqM[i][j]))
						}
					}
					if ge(i, j) != !lt(i, j) {
						emit(vm, false, ">=", "ge-iff-not-lt", false, []int{i, j},
							fmt.Sprintf("a >= b: %v, a < b: %v", ge(i, j), lt(i, j)))
					}
					if lt(i, j) != gt(j, i) {
						emit(vm, false, "<,>", "converse", false, []int{i, j},
							fmt.Sprintf("a < b: %v but b > a: %v", lt(i, j), gt(j, i)))
					}
					a, b := k.Vals[i], k.Vals[j]
					if a.Num != "" && b.Num != "" && a.Grp == b.Grp {
						x, _ := new(big.Int).SetString(a.Num, 10)
						y, _ := new(big.Int).SetString(b.Num, 10)
						if lt(i, j) != (x.Cmp(y) < 0) {
							emit(vm, false, "<", "numeric-order", false, []int{i, j},
								fmt.Sprintf("a < b is %v for the numbers %s and %s (raw scaled integers)", lt(i, j), a.Num, b.Num))
						}
					} else if i != j {
						// "form a total order consistent with ==" does not say WHICH total order strings,
						// characters and booleans have: the direction of a strict comparison is don't-care.
						st.dontCare++
					}
				}
			}
			for i := 0; i < n; i++ {
				for j := 0; j < n; j++ {
					if !lt(i, j) {
						continue
					}
					for l := 0; l < n; l++ {
						if lt(j, l) && !lt(i, l) {
							emit(vm, false, "<", "transitivity", false, []int{i, j, l}, "a < b and b < c but a < c is false")
						}
					}
				}
			}
			st.triples += int64(n * n * n)
			st.class(k.Fam+":lt", nLt, func() string { return k.Name })
			st.class(k.Fam+":gt", nGt, func() string { return k.Name })
			st.class(k.Fam+":neither-lt-nor-gt", nNeither, func() string { return k.Name })
		} else if ord.ok {
			st.harness = append(st.harness, fmt.Sprintf("kind %s ord (%s): %d cells for %d values", k.Name, eng, len(ord.cells), n))
		}

		// ---- hashing / dictionary keys
		hsh := run("hash")
		eo[e].hsh = hsh
		if hsh.ok && len(hsh.cells) == n*n+1+n {
			st.evals += int64(n*n + 1)
			var nMerged, nDistinct int64
			for i := 0; i < n; i++ {
				for j := 0; j < n; j++ {
					c := hsh.cells[i*n+j]
					length, da, db := (c%1000)/100, (c%100)/10, c%10
					ca, cb := (c/1000)&1 != 0, (c/1000)&2 != 0
					var equal bool
					if eo[e].eqM != nil {
						equal = eo[e].eqM[i][j]
					} else {
						known, want := c18Expect(k, i, j)
						if !known || !want {
							// == is not available for this static type (e.g. HashableStruct) and the values are
							// not known to be equal: "Equal hashable values are interchangeable …" says nothing here.
							st.dontCare++
							continue
						}
						equal = true
					}
					obs := fmt.Sprintf("d = {}; d[a] = 1; d[b] = 2 gives length %d, d[a] = %d, d[b] = %d, containsKey(a) = %v, containsKey(b) = %v (0 = nil)", length, da, db, ca, cb)
					if equal {
						nMerged++
						if i < j {
							st.nontrivial = append(st.nontrivial, fmt.Sprintf("hash|%s|%s|%s", k.Name, k.Vals[i].Expr, k.Vals[j].Expr))
						}
						if length != 1 {
							emit(vm, false, "dict-key", "equal-keys-two-entries", false, []int{i, j}, "a == b but "+obs)
						} else if da != 2 || db != 2 || !ca || !cb {
							emit(vm, false, "dict-key", "equal-keys-lookup-mismatch", false, []int{i, j}, "a == b but "+obs)
						}
					} else {
						nDistinct++
						if length != 2 {
							emit(vm, false, "dict-key", "unequal-keys-merged", false, []int{i, j}, "a != b but "+obs)
						} else if da != 1 || db != 2 || !ca || !cb {
							emit(vm, false, "dict-key", "unequal-keys-lookup-mismatch", false, []int{i, j}, "a != b but "+obs)
						}
					}
				}
			}
			st.class(k.Fam+":hash-merged", nMerged, func() string { return k.Name })
			st.class(k.Fam+":hash-distinct", nDistinct, func() string { return k.Name })
			if eo[e].eqM != nil && eo[e].eqValid {
				M := eo[e].eqM
				classes := 0
				for i := 0; i < n; i++ {
					first := true
					for j := 0; j < i; j++ {
						if M[i][j] {
							first = false
						}
					}
					if first {
						classes++
					}
				}
				gotLen := hsh.cells[n*n]
				if gotLen != int64(classes) {
					emit(vm, false, "dict-key", "insert-all-entry-count", false, all,
						fmt.Sprintf("inserting all %d values (%d classes under ==) leaves %d entries", n, classes, gotLen))
				} else {
					for i := 0; i < n; i++ {
						want := 0
						for j := 0; j < n; j++ {
							if M[i][j] {
								want = j + 1
							}
						}
						if got := hsh.cells[n*n+1+i]; got != int64(want) {
							emit(vm, false, "dict-key", "insert-all-lookup", false, all,
								fmt.Sprintf("after all[v_k] = k+1 for every k, all[v_%d] is %d, expected %d (the last equal value inserted)", i, got, want))
							break
						}
					}
				}
			}
		} else if hsh.ok {
			st.harness = append(st.harness, fmt.Sprintf("kind %s hash (%s): %d cells for %d values", k.Name, eng, len(hsh.cells), n))
		}
	}

	// ---- interpreter vs VM, cell by cell
	if eo[0].valsOK && eo[1].valsOK {
		diff := func(mode, op string, a, b c18Obs, width int) {
			if !a.ok || !b.ok || len(a.cells) != len(b.cells) {
				return
			}
			for c := range a.cells {
				if a.cells[c] != b.cells[c] {
					idx := all
					if c < n*n {
						idx = []int{c / n, c % n}
						if idx[0] == idx[1] {
							idx = idx[:1]
						}
					}
					emit(false, true, op, "interp-vs-vm", false, idx,
						fmt.Sprintf("%s cell differs: interpreter %d, vm %d", mode, a.cells[c], b.cells[c]))
				}
			}
		}
		// C18's sentence states the laws per engine; it does not ask the two
		// engines to agree with each other (that is C34's sentence). The
		// differential is therefore not judged here (coordinator decision; the
		// one difference it found — equality of references to values without
		// identity — is recorded under C34).
		_ = diff
	}
	return viols
}

// ---------------------------------------------------------------------------
// Value universes

func c18V(expr, cls string) c18Val { return c18Val{Expr: expr, Cls: cls} }

func c18Pow10(n int) *big.Int { return new(big.Int).Exp(big.NewInt(10), big.NewInt(int64(n)), nil) }

// c18NumLit renders the raw (scaled) integer as a literal of the type.
func c18NumLit(t *num.Type, raw *big.Int) string {
	if !t.IsFixed() {
		return raw.String()
	}
	abs := new(big.Int).Abs(raw)
	ip, fp := new(big.Int).QuoRem(abs, c18Pow10(t.Scale), new(big.Int))
	s := fmt.Sprintf("%s.%0*s", ip.String(), t.Scale, fp.String())
	if raw.Sign() < 0 {
		s = "-" + s
	}
	return s
}

func c18BytesLit(x *big.Int) string {
	bs := x.Bytes()
	if len(bs) == 0 {
		bs = []byte{0}
	}
	parts := make([]string, len(bs))
	for i, b := range bs {
		parts[i] = fmt.Sprint(b)
	}
	return "[" + strings.Join(parts, ", ") + "]"
}

// c18NumVals: boundary values as literals plus equal values built differently.
func c18NumVals(t *num.Type, thorough bool) []c18Val {
	one := big.NewInt(1)
	if t.IsFixed() {
		one = c18Pow10(t.Scale)
	}
	two := new(big.Int).Mul(one, big.NewInt(2))
	var raws []*big.Int
	if thorough {
		raws = num.Lattice(t, false)
	} else {
		set := map[string]*big.Int{}
		put := func(x *big.Int) {
			if t.InRange(x) {
				set[x.String()] = x
			}
		}
		for _, x := range []*big.Int{big.NewInt(-1), big.NewInt(0), big.NewInt(1), new(big.Int).Neg(one), one, two} {
			put(x)
		}
		if t.Min != nil {
			put(t.Min)
			put(new(big.Int).Add(t.Min, big.NewInt(1)))
		} else {
			p := new(big.Int).Lsh(big.NewInt(1), 64)
			put(new(big.Int).Neg(p))
			put(new(big.Int).Sub(new(big.Int).Neg(p), big.NewInt(1)))
		}
		if t.Max != nil {
			put(t.Max)
			put(new(big.Int).Sub(t.Max, big.NewInt(1)))
		} else {
			p := new(big.Int).Lsh(big.NewInt(1), 64)
			put(new(big.Int).Sub(p, big.NewInt(1)))
			put(p)
			put(new(big.Int).Add(p, big.NewInt(1)))
		}
		for _, x := range set {
			raws = append(raws, x)
		}
		sort.Slice(raws, func(i, j int) bool { return raws[i].Cmp(raws[j]) < 0 })
	}
	var out []c18Val
	add := func(expr string, raw *big.Int) {
		out = append(out, c18Val{Expr: expr, Cls: raw.String(), Num: raw.String()})
	}
	for _, r := range raws {
		add(c18NumLit(t, r), r)
	}
	T := t.Name
	// the same numbers, built differently
	add(fmt.Sprintf("%s(1) + %s(1)", T, T), two)
	add(fmt.Sprintf("%s(UInt8(2))", T), two)
	add(fmt.Sprintf("%s(0)", T), big.NewInt(0))
	add(fmt.Sprintf("%s.fromBigEndianBytes(%s)!", T, c18BytesLit(two)), two)
	if t.IsFixed() {
		add(fmt.Sprintf("%s.fromString(\"2.0\")!", T), two)
		add("2.00", two)
		add("1.0", one)
		add("0.5 + 0.5", one)
		if t.Signed() {
			add("-0.0", big.NewInt(0))
		}
	} else {
		add(fmt.Sprintf("%s.fromString(\"2\")!", T), two)
		add("0x2", two)
		add("0b10", two)
		add("3 - 1", two)
		add("0 * 1", big.NewInt(0))
	}
	if t.Max != nil {
		add(T+".max", t.Max)
		add(T+".min", t.Min)
	}
	if t.Kind == num.Word {
		add(fmt.Sprintf("%s(0) - %s(1)", T, T), t.Max) // wraps
	}
	return out
}

func c18NumKind(t *num.Type, thorough bool) *c18Kind {
	fam := "Integer"
	if t.IsFixed() {
		fam = "FixedPoint"
	}
	return &c18Kind{Name: t.Name, Sig: t.Name, Fam: fam, Type: t.Name, Vals: c18NumVals(t, thorough)}
}

// c18Quote renders s as a Cadence string literal in plain ASCII.
func c18Quote(s string) string {
	var sb strings.Builder
	sb.WriteByte('"')
	for _, r := range s {
		switch {
		case r == '"' || r == '\\':
			sb.WriteByte('\\')
			sb.WriteRune(r)
		case r == '\n':
			sb.WriteString("\\n")
		case r == '\r':
			sb.WriteString("\\r")
		case r >= 0x20 && r < 0x7f:
			sb.WriteRune(r)
		default:
			fmt.Fprintf(&sb, "\\u{%x}", r)
		}
	}
	sb.WriteByte('"')
	return sb.String()
}

// c18TextCls: strings and characters are compared by canonical equivalence,
// so the class of a text is its NFC form (x/text is the reference).
func c18TextCls(s string) string { return fmt.Sprintf("%x", norm.NFC.String(s)) }

func c18Utf8Lit(s string) string {
	parts := make([]string, len(s))
	for i := 0; i < len(s); i++ {
		parts[i] = fmt.Sprint(s[i])
	}
	return "[" + strings.Join(parts, ", ") + "]"
}

var c18Atoms = []string{"a", "b", "e", "\u00e9", "\u0301", "\u0323", "A", "\u030a", "\u00c5", "\u212b", "\u1100", "\u1161", "\uac00"}

func c18StringKind(thorough bool) *c18Kind {
	k := &c18Kind{Name: "String", Sig: "String", Fam: "String", Type: "String"}
	add := func(expr, denotes string) { k.Vals = append(k.Vals, c18V(expr, c18TextCls(denotes))) }
	lit := func(s string) { add(c18Quote(s), s) }
	lit("")
	lit("a")
	lit("b")
	lit("ab")
	add(`"a".concat("b")`, "ab")
	lit("\u00e9")
	lit("e\u0301")
	add(`"e".concat("\u{301}")`, "e\u0301")
	add("String.fromUTF8("+c18Utf8Lit("e\u0301")+")!", "e\u0301")
	add(`String.fromCharacters(["e\u{301}"])`, "e\u0301")
	lit("\u00c5")
	lit("\u212b")
	lit("A\u030a")
	lit("a\u0301\u0323")
	lit("a\u0323\u0301")
	lit("\uac00")
	lit("\u1100\u1161")
	add(`"ab".slice(from: 0, upTo: 1)`, "a")
	add(`"A".toLower()`, "a")
	add(`String.join(["a", "b"], separator: "")`, "ab")
	add(`"\u{e9}x".slice(from: 0, upTo: 1)`, "\u00e9")
	lit("e")
	if thorough {
		seen := map[string]bool{}
		for _, v := range k.Vals {
			seen[v.Expr] = true
		}
		for _, x := range c18Atoms {
			if e := c18Quote(x); !seen[e] {
				seen[e] = true
				lit(x)
			}
			for _, y := range c18Atoms {
				if e := c18Quote(x + y); !seen[e] {
					seen[e] = true
					lit(x + y)
				}
				add(c18Quote(x)+".concat("+c18Quote(y)+")", x+y)
			}
		}
		for _, x := range c18Atoms[:6] {
			for _, y := range c18Atoms[:6] {
				for _, z := range c18Atoms[:6] {
					if e := c18Quote(x + y + z); !seen[e] {
						seen[e] = true
						lit(x + y + z)
					}
				}
			}
		}
	}
	return k
}

func c18IsCharacter(s string) bool {
	return s != "" && uniseg.GraphemeClusterCount(s) == 1 && uniseg.GraphemeClusterCount(norm.NFC.String(s)) == 1
}

// c18Embeds: "x"+s+"y" segments into exactly the three clusters x, s, y
// (false e.g. when s starts with a combining mark, which joins the x).
func c18Embeds(s string) bool {
	for _, t := range []string{"x" + s + "y", norm.NFC.String("x" + s + "y")} {
		g := uniseg.NewGraphemes(t)
		var parts []string
		for g.Next() {
			parts = append(parts, g.Str())
		}
		if len(parts) != 3 || parts[0] != "x" || parts[2] != "y" || norm.NFC.String(parts[1]) != norm.NFC.String(s) {
			return false
		}
	}
	return true
}

func c18CharacterKind(thorough bool) *c18Kind {
	k := &c18Kind{Name: "Character", Sig: "Character", Fam: "Character", Type: "Character"}
	add := func(expr, denotes string) { k.Vals = append(k.Vals, c18V(expr, c18TextCls(denotes))) }
	lit := func(s string) { add(c18Quote(s), s) }
	lit("a")
	lit("b")
	add(`"ab"[0]`, "a")
	lit("\u00e9")
	lit("e\u0301")
	add(`"xe\u{301}"[1]`, "e\u0301")
	add(`"\u{e9}"[0]`, "\u00e9")
	add(`"e".concat("\u{301}")[0]`, "e\u0301")
	lit("\u00c5")
	lit("\u212b")
	lit("A\u030a")
	lit("\U0001F1EB\U0001F1F7")
	lit("\r\n")
	lit("\n")
	lit("a\u0301\u0323")
	lit("a\u0323\u0301")
	if thorough {
		seen := map[string]bool{}
		for _, v := range k.Vals {
			seen[v.Expr] = true
		}
		var seqs []string
		for _, x := range c18Atoms {
			seqs = append(seqs, x)
			for _, y := range c18Atoms {
				seqs = append(seqs, x+y)
				for _, z := range c18Atoms[:6] {
					seqs = append(seqs, x+y+z)
				}
			}
		}
		for _, s := range seqs {
			if e := c18Quote(s); c18IsCharacter(s) && !seen[e] {
				seen[e] = true
				lit(s)
				if c18Embeds(s) {
					add(c18Quote("x"+s+"y")+"[1]", s)
				}
			}
		}
	}
	return k
}

func c18BoolKind() *c18Kind {
	return &c18Kind{Name: "Bool", Sig: "Bool", Fam: "Bool", Type: "Bool", Vals: []c18Val{
		c18V("true", "t"), c18V("false", "f"), c18V("!true", "f"), c18V("!false", "t"), c18V("1 == 1", "t"),
		c18V("1 == 2", "f"), c18V("true && true", "t"), c18V("false || false", "f"), c18V(`"a" == "a"`, "t"),
	}}
}

func c18AddressKind(thorough bool) *c18Kind {
	k := &c18Kind{Name: "Address", Sig: "Address", Fam: "Address", Type: "Address"}
	nums := []uint64{0, 1, 2, 0x100, 0xffffffffffffffff}
	if thorough {
		nums = []uint64{0, 1, 2, 3, 0xff, 0x100, 0x101, 0xffff, 0x10000, 1 << 32, 1 << 56, 1 << 63, 0x0102030405060708, 0xfffffffffffffffe, 0xffffffffffffffff}
	}
	for n, x := range nums {
		cls := fmt.Sprint(x)
		be := new(big.Int).SetUint64(x)
		full := make([]string, 8)
		for i := 0; i < 8; i++ {
			full[i] = fmt.Sprint(byte(x >> (8 * (7 - i))))
		}
		forms := []string{
			fmt.Sprintf("0x%x", x),
			fmt.Sprintf("0x%016x", x),
			fmt.Sprintf("Address(%d as UInt64)", x),
			fmt.Sprintf("Address.fromString(\"0x%x\")!", x),
			fmt.Sprintf("Address.fromString(\"0x%016x\")!", x),
			"Address.fromBytes(" + c18BytesLit(be) + ")",
			"Address.fromBytes([" + strings.Join(full, ", ") + "])",
		}
		if x == 1 {
			forms = append(forms, "0x01", "getAccount(0x1).address")
		}
		if !thorough && n != 1 {
			forms = []string{forms[0], forms[5]}
		}
		for _, f := range forms {
			k.Vals = append(k.Vals, c18V(f, cls))
		}
	}
	return k
}

// c18PathKinds: the five path types. Same path built as a literal and with
// the run-time constructors; /storage/a vs /public/a differ by domain only.
func c18PathKinds(thorough bool) []*c18Kind {
	ids := []string{"a", "b", "ab"}
	if thorough {
		ids = []string{"a", "b", "ab", "ba", "a_1", "A", "a1", "_a"}
	}
	ctor := map[string]string{"storage": "StoragePath", "public": "PublicPath", "private": "PrivatePath"}
	vals := func(domains ...string) []c18Val {
		var out []c18Val
		for _, id := range ids {
			for _, d := range domains {
				cls := d + "/" + id
				out = append(out, c18V("/"+d+"/"+id, cls))
				out = append(out, c18V(fmt.Sprintf("%s(identifier: %q)!", ctor[d], id), cls))
				if id == "ab" {
					out = append(out, c18V(fmt.Sprintf("%s(identifier: \"a\".concat(\"b\"))!", ctor[d]), cls))
				}
			}
		}
		// identifiers outside the literal syntax: canonically equivalent strings give … the sentence does not say;
		// no expectation, laws (and == vs hashing consistency) only
		for _, d := range domains {
			out = append(out, c18V(fmt.Sprintf("%s(identifier: \"\\u{e9}\")!", ctor[d]), ""))
			out = append(out, c18V(fmt.Sprintf("%s(identifier: \"e\\u{301}\")!", ctor[d]), ""))
		}
		return out
	}
	mk := func(name string, domains ...string) *c18Kind {
		return &c18Kind{Name: name, Sig: name, Fam: "Path", Type: name, Vals: vals(domains...)}
	}
	return []*c18Kind{
		mk("StoragePath", "storage"), mk("PublicPath", "public"), mk("PrivatePath", "private"),
		mk("CapabilityPath", "public", "private"), mk("Path", "storage", "public", "private"),
	}
}

func c18EnumKinds() []*c18Kind {
	return []*c18Kind{
		{Name: "C18.En", Sig: "Enum", Fam: "Enum", Type: "C18.En", Vals: []c18Val{
			c18V("C18.En.a", "a"), c18V("C18.En(rawValue: 0)!", "a"), c18V("C18.mkA()", "a"), c18V("C18.stored", "a"),
			c18V("C18.En.b", "b"), c18V("C18.En(rawValue: 1)!", "b"), c18V("C18.storedB", "b"),
			c18V("C18.En.c", "c"), c18V("C18.En(rawValue: C18.En.c.rawValue)!", "c"),
		}},
		{Name: "C18.En2", Sig: "Enum", Fam: "Enum", Type: "C18.En2", Vals: []c18Val{
			c18V("C18.En2.a", "a"), c18V("C18.En2(rawValue: 0)!", "a"), c18V("C18.En2.b", "b"), c18V("C18.En2(rawValue: 1)!", "b"),
		}},
		{Name: "C18.Big", Sig: "Enum", Fam: "Enum", Type: "C18.Big", Vals: []c18Val{
			c18V("C18.Big.x", "x"), c18V("C18.Big(rawValue: 0)!", "x"), c18V("C18.Big.y", "y"), c18V("C18.Big(rawValue: 1)!", "y"),
			c18V("C18.storedBig", "y"), c18V("C18.Big(rawValue: Int128(2) - Int128(1))!", "y"),
		}},
		{Name: "L18(script-local enum)", Sig: "Enum", Fam: "Enum", Type: "L18",
			Decls: "access(all) enum L18: Int { access(all) case p; access(all) case q; access(all) case r }",
			Vals: []c18Val{
				c18V("L18.p", "p"), c18V("L18(rawValue: 0)!", "p"), c18V("L18.q", "q"), c18V("L18(rawValue: 1)!", "q"),
				c18V("L18.r", "r"), c18V("L18(rawValue: 1 + 1)!", "r"),
			}},
	}
}

// c18TypeKind: run-time type values. Each entry is one type with several
// spellings (static `Type<…>()` with set members in different orders, and
// run-time constructors); all spellings of one entry denote the same type.
func c18TypeKind(thorough bool) *c18Kind {
	k := &c18Kind{Name: "Type", Sig: "Type", Fam: "Type", Type: "Type",
		Setup: "let s18 = C18.S()\nlet i18: Int = 1\n"}
	q := func(n string) string { return `"` + c18Addr + n + `"` }
	// base types: class label -> static spellings (inside Type<…>) and extra run-time expressions
	type ty struct {
		cls     string
		static  []string
		runtime []string
		ref     bool // already a reference / resource: not wrapped by & and Capability
		res     bool
	}
	bases := []ty{
		{cls: "Int", static: []string{"Int"}, runtime: []string{"i18.getType()"}},
		{cls: "String", static: []string{"String"}, runtime: []string{`"x".getType()`}},
		{cls: "S", static: []string{"C18.S"}, runtime: []string{"s18.getType()", "CompositeType(" + q("S") + ")!"}},
		{cls: "{I}", static: []string{"{C18.I}"}, runtime: []string{"IntersectionType(types: [" + q("I") + "])!"}},
		{cls: "{I,I2}", static: []string{"{C18.I, C18.I2}", "{C18.I2, C18.I}"},
			runtime: []string{"IntersectionType(types: [" + q("I") + ", " + q("I2") + "])!", "IntersectionType(types: [" + q("I2") + ", " + q("I") + "])!"}},
		{cls: "{I,I2,I3}", static: []string{"{C18.I, C18.I2, C18.I3}", "{C18.I3, C18.I, C18.I2}", "{C18.I2, C18.I3, C18.I}"},
			runtime: []string{"IntersectionType(types: [" + q("I3") + ", " + q("I2") + ", " + q("I") + "])!"}},
		{cls: "&S", static: []string{"&C18.S"}, runtime: []string{"ReferenceType(entitlements: [], type: Type<C18.S>())!"}, ref: true},
		{cls: "auth(E)&S", static: []string{"auth(C18.E) &C18.S"}, runtime: []string{"ReferenceType(entitlements: [" + q("E") + "], type: Type<C18.S>())!"}, ref: true},
		{cls: "auth(E,F)&S", static: []string{"auth(C18.E, C18.F) &C18.S", "auth(C18.F, C18.E) &C18.S"},
			runtime: []string{
				"ReferenceType(entitlements: [" + q("E") + ", " + q("F") + "], type: Type<C18.S>())!",
				"ReferenceType(entitlements: [" + q("F") + ", " + q("E") + "], type: Type<C18.S>())!",}, ref: true},
		{cls: "auth(E|F)&S", static: []string{"auth(C18.E | C18.F) &C18.S", "auth(C18.F | C18.E) &C18.S"},
			ref: true},
		{cls: "auth(E,F,G)&S", static: []string{"auth(C18.E, C18.F, C18.G) &C18.S", "auth(C18.G, C18.E, C18.F) &C18.S", "auth(C18.F, C18.G, C18.E) &C18.S"},
			runtime: []string{"ReferenceType(entitlements: [" + q("G") + ", " + q("F") + ", " + q("E") + "], type: Type<C18.S>())!"}, ref: true},
		{cls: "auth(E,F)&{I,I2}", static: []string{"auth(C18.E, C18.F) &{C18.I, C18.I2}", "auth(C18.F, C18.E) &{C18.I2, C18.I}"}, ref: true},
		{cls: "@R", static: []string{"@C18.R"}, runtime: []string{"CompositeType(" + q("R") + ")!"}, ref: true, res: true},
		{cls: "@{RI}", static: []string{"@{C18.RI}"}, ref: true, res: true},
		{cls: "En", static: []string{"C18.En"}, runtime: []string{"C18.En.a.getType()", "C18.stored.getType()"}},
	}
	if thorough {
		bases = append(bases,
			ty{cls: "Bool", static: []string{"Bool"}}, ty{cls: "Address", static: []string{"Address"}},
			ty{cls: "S2", static: []string{"C18.S2"}}, ty{cls: "{I2}", static: []string{"{C18.I2}"}},
			ty{cls: "{I3,I}", static: []string{"{C18.I3, C18.I}", "{C18.I, C18.I3}"}},
			ty{cls: "AnyStruct", static: []string{"AnyStruct"}}, ty{cls: "Type", static: []string{"Type"}},
			ty{cls: "Path", static: []string{"Path"}}, ty{cls: "UInt8", static: []string{"UInt8"}},
			ty{cls: "auth(F)&S", static: []string{"auth(C18.F) &C18.S"}, ref: true},
			ty{cls: "auth(E,G)&S", static: []string{"auth(C18.E, C18.G) &C18.S", "auth(C18.G, C18.E) &C18.S"}, ref: true},
			ty{cls: "auth(E|G)&S", static: []string{"auth(C18.E | C18.G) &C18.S", "auth(C18.G | C18.E) &C18.S"}, ref: true},
			ty{cls: "auth(E)&{I}", static: []string{"auth(C18.E) &{C18.I}"}, ref: true},
		)
	}
	add := func(expr, cls string) { k.Vals = append(k.Vals, c18V(expr, cls)) }
	T := func(s string) string { return "Type<" + s + ">()" }
	for _, b := range bases {
		for _, s := range b.static {
			add(T(s), b.cls)
		}
		for _, r := range b.runtime {
			add(r, b.cls)
		}
	}
	// wrappers: every spelling of the base inside the static form + the run-time constructor on the first spelling
	nWrap := 3
	if thorough {
		nWrap = len(bases)
	}
	for bi, b := range bases {
		if bi >= nWrap && !(b.cls == "{I,I2}" || b.cls == "auth(E,F)&S") {
			continue
		}
		s0 := b.static[0]
		if b.res {
			continue
		}
		for _, s := range b.static {
			add(T(s+"?"), b.cls+"?")
			add(T("["+s+"]"), "["+b.cls+"]")
			add(T("{String: "+s+"}"), "{String:"+b.cls+"}")
			if thorough {
				add(T("["+s+"; 2]"), "["+b.cls+";2]")
				add(T(s+"??"), b.cls+"??")
			}
			if !b.ref {
				add(T("&"+s), "&"+b.cls)
				add(T("Capability<&"+s+">"), "Capability<&"+b.cls+">")
			}
		}
		add("OptionalType("+T(s0)+")", b.cls+"?")
		add("VariableSizedArrayType("+T(s0)+")", "["+b.cls+"]")
		add("DictionaryType(key: Type<String>(), value: "+T(s0)+")!", "{String:"+b.cls+"}")
		if thorough {
			add("ConstantSizedArrayType(type: "+T(s0)+", size: 2)", "["+b.cls+";2]")
			add("OptionalType(OptionalType("+T(s0)+"))", b.cls+"??")
		}
		if !b.ref {
			add("ReferenceType(entitlements: [], type: "+T(s0)+")!", "&"+b.cls)
			add("CapabilityType("+T("&"+s0)+")!", "Capability<&"+b.cls+">")
		}
	}
	// getType() through a reference: whether it yields the reference type or the referenced value's type is not
	// settled by the sentence: no expectation, laws (and == vs hashing) only
	add("(&s18 as &C18.S).getType()", "")
	add("(&s18 as auth(C18.E, C18.F) &C18.S).getType()", "")
	add("(&s18 as auth(C18.F, C18.E) &C18.S).getType()", "")
	add("Type<InclusiveRange<Int>>()", "InclusiveRange<Int>")
	add("InclusiveRangeType(Type<Int>())!", "InclusiveRange<Int>")
	// (function types are left out: a Type value of a function type cannot be put into an array)
	return k
}

// c18Pick selects up to want values of base: first the members of the first
// classes that have two differently-built members, then one member of other classes.
func c18Pick(base *c18Kind, want int) []c18Val {
	byCls := map[string][]int{}
	var order []string
	for i, v := range base.Vals {
		if v.Cls == "" {
			continue
		}
		key := v.Grp + "\x00" + v.Cls
		if _, ok := byCls[key]; !ok {
			order = append(order, key)
		}
		byCls[key] = append(byCls[key], i)
	}
	var out []c18Val
	used := map[string]bool{}
	for _, key := range order {
		if len(byCls[key]) >= 2 && len(out)+2 <= want && len(out) < 4 {
			used[key] = true
			out = append(out, base.Vals[byCls[key][0]], base.Vals[byCls[key][1]])
		}
	}
	for _, key := range order {
		if !used[key] && len(out) < want {
			out = append(out, base.Vals[byCls[key][0]])
		}
	}
	return out
}

// c18Split returns (e0, e1, u, w): e0 and e1 equal but differently built, u and w of other classes.
func c18Split(base *c18Kind) (e0, e1, u, w c18Val) {
	p := c18Pick(base, 6)
	if len(p) < 3 || p[0].Cls != p[1].Cls {
		panic("c18: kind " + base.Name + " has no equal-but-differently-built pair")
	}
	e0, e1 = p[0], p[1]
	var others []c18Val
	for _, v := range p[2:] {
		if v.Cls != e0.Cls && (len(others) == 0 || v.Cls != others[0].Cls) {
			others = append(others, v)
		}
	}
	if len(others) == 1 {
		others = append(others, others[0]) // two-valued types (Bool)
	}
	if len(others) < 2 {
		panic("c18: kind " + base.Name + " has too few classes")
	}
	return e0, e1, others[0], others[1]
}

func c18OptionalKind(base *c18Kind, nested bool, want int) *c18Kind {
	k := &c18Kind{Name: base.Type + "?", Sig: "Optional<" + base.Sig + ">", Fam: "Optional", Type: base.Type + "?", Decls: base.Decls, Setup: base.Setup}
	k.Vals = append(k.Vals, c18V("nil", "nil"))
	if nested {
		k.Name, k.Type, k.Sig = base.Type+"??", base.Type+"??", "Optional<Optional<"+base.Sig+">>"
		k.Vals = append(k.Vals, c18V("(nil as "+base.Type+"?)", "nil"))
	}
	for _, v := range c18Pick(base, want) {
		k.Vals = append(k.Vals, c18Val{Expr: v.Expr, Cls: "some " + v.Cls, Grp: v.Grp})
		if nested {
			k.Vals = append(k.Vals, c18Val{Expr: "((" + v.Expr + ") as " + base.Type + "?)", Cls: "some " + v.Cls, Grp: v.Grp})
		}
	}
	return k
}

func c18ArrayKind(base *c18Kind) *c18Kind {
	e0, e1, u, w := c18Split(base)
	T := base.Type
	k := &c18Kind{Name: "[" + T + "]", Sig: "Array<" + base.Sig + ">", Fam: "Array", Type: "[" + T + "]", Decls: base.Decls, Setup: base.Setup}
	cls := func(vs ...c18Val) string {
		var p []string
		for _, v := range vs {
			p = append(p, v.Cls)
		}
		return "[" + strings.Join(p, ",") + "]"
	}
	lit := func(vs ...c18Val) string {
		var p []string
		for _, v := range vs {
			p = append(p, v.Expr)
		}
		return "[" + strings.Join(p, ", ") + "]"
	}
	add := func(vs ...c18Val) { k.Vals = append(k.Vals, c18V(lit(vs...), cls(vs...))) }
	add()
	add(e0)
	add(e1)
	add(u)
	add(e0, u)
	add(e1, u)
	add(u, e0)
	add(e0, e0)
	add(e0, e1)
	add(e0, u, w)
	k.Vals = append(k.Vals,
		c18V("("+lit(e0)+" as ["+T+"]).concat("+lit(u)+")", cls(e0, u)),
		c18V("("+lit(e1, u, w)+" as ["+T+"]).slice(from: 0, upTo: 2)", cls(e0, u)),
		c18V("("+lit(u, e1)+" as ["+T+"]).reverse()", cls(e0, u)),
	)
	return k
}

func c18ConstArrayKind(base *c18Kind) *c18Kind {
	e0, e1, u, w := c18Split(base)
	T := base.Type
	k := &c18Kind{Name: "[" + T + "; 2]", Sig: "ConstArray<" + base.Sig + ">", Fam: "ConstArray", Type: "[" + T + "; 2]", Decls: base.Decls, Setup: base.Setup}
	pair := func(a, b c18Val) { k.Vals = append(k.Vals, c18V("["+a.Expr+", "+b.Expr+"]", "["+a.Cls+","+b.Cls+"]")) }
	pair(e0, u)
	pair(e1, u)
	pair(u, e0)
	pair(u, e1)
	pair(e0, e1)
	pair(e1, e0)
	pair(u, u)
	pair(u, w)
	k.Vals = append(k.Vals, c18V("(["+e1.Expr+", "+u.Expr+"] as ["+T+"]).toConstantSized<["+T+"; 2]>()!", "["+e0.Cls+","+u.Cls+"]"))
	return k
}

func c18DictKind(kb, vb *c18Kind) *c18Kind {
	k0, k1, ku, kw := c18Split(kb)
	v0, v1, vu, _ := c18Split(vb)
	T := "{" + kb.Type + ": " + vb.Type + "}"
	k := &c18Kind{Name: T, Sig: "Dictionary<" + kb.Sig + "," + vb.Sig + ">", Fam: "Dictionary", Type: T,
		Decls: kb.Decls + "\n" + vb.Decls, Setup: kb.Setup + "\n" + vb.Setup}
	type kv struct{ k, v c18Val }
	cls := func(es ...kv) string {
		var p []string
		for _, e := range es {
			p = append(p, e.k.Cls+"="+e.v.Cls)
		}
		sort.Strings(p)
		return "{" + strings.Join(p, ",") + "}"
	}
	lit := func(es ...kv) string {
		var p []string
		for _, e := range es {
			p = append(p, e.k.Expr+": "+e.v.Expr)
		}
		return "{" + strings.Join(p, ", ") + "}"
	}
	add := func(es ...kv) { k.Vals = append(k.Vals, c18V(lit(es...), cls(es...))) }
	add()
	add(kv{k0, v0})
	add(kv{k1, v0})
	add(kv{k0, v1})
	add(kv{k0, vu})
	add(kv{ku, v0})
	add(kv{k0, v0}, kv{ku, vu})
	add(kv{ku, vu}, kv{k1, v1})
	add(kv{k0, v0}, kv{ku, vu}, kv{kw, v0})
	add(kv{kw, v1}, kv{k1, v0}, kv{ku, vu})
	// the same dictionary reached by insertions, an overwrite through the other spelling of the key, and a removal
	dv := fmt.Sprintf("d18x%x", mc.Hash(T))
	k.Setup += fmt.Sprintf("\nlet %[1]s: %[2]s = {}\n%[1]s[%[3]s] = %[4]s\n%[1]s[%[5]s] = %[6]s\n%[1]s[%[7]s] = %[4]s\n%[1]s[%[8]s] = %[6]s\n%[1]s.remove(key: %[5]s)\n",
		dv, T, ku.Expr, vu.Expr, kw.Expr, v0.Expr, k0.Expr, k1.Expr)
	k.Vals = append(k.Vals, c18V(dv, cls(kv{k0, v0}, kv{ku, vu})))
	return k
}

func c18RangeKind(T string) *c18Kind {
	R := func(args string) string { return "InclusiveRange(" + args + ")" }
	c := func(v string) string { return T + "(" + v + ")" }
	k := &c18Kind{Name: "InclusiveRange<" + T + ">", Sig: "InclusiveRange<" + T + ">", Fam: "InclusiveRange", Type: "InclusiveRange<" + T + ">"}
	k.Vals = []c18Val{
		c18V(R(c("1")+", "+c("5")), "1,5,1"),
		c18V(R(c("1")+", "+c("5")+", step: "+c("1")), "1,5,1"), // the step defaults to 1 for start <= end
		c18V(R(c("1")+", "+c("2")+" + "+c("3")), "1,5,1"),
		c18V(R(c("1")+", "+c("5")+", step: "+c("2")), "1,5,2"),
		c18V(R(c("1")+", "+c("6")+", step: "+c("2")), ""), // same members as 1..5 step 2: the sentence does not say
		c18V(R(c("2")+", "+c("5")), "2,5,1"),
		c18V(R(c("1")+", "+c("4")), "1,4,1"),
		c18V(R(c("5")+", "+c("5")), "5,5,1"),
	}
	if T == "Int" || T == "Int64" {
		// descending: the step defaults to -1
		k.Vals = append(k.Vals, c18V(R(c("5")+", "+c("1")), "5,1,-1"), c18V(R(c("5")+", "+c("1")+", step: "+c("-1")), "5,1,-1"),
			c18V(R(c("5")+", "+c("1")+", step: "+c("-2")), "5,1,-2"))
	}
	return k
}

func c18RefKinds() []*c18Kind {
	// References: equatable per the checker; which references are equal is not
	// stated by the sentence, so only the laws apply (no Cls).
	setup := "let a18: Int = 1\nlet b18: Int = 1\nlet s18 = C18.S()\nlet t18 = C18.S()\nlet x18: [Int] = [1]\nlet y18: [Int] = [1]\n"
	nv := func(es ...string) []c18Val {
		var out []c18Val
		for _, e := range es {
			out = append(out, c18V(e, ""))
		}
		return out
	}
	return []*c18Kind{
		{Name: "&Int", Sig: "Reference<Int>", Fam: "Reference", Type: "&Int", Setup: setup,
			Vals: nv("&a18 as &Int", "&a18 as &Int", "&b18 as &Int", "&x18[0] as &Int", "&y18[0] as &Int")},
		{Name: "&C18.S", Sig: "Reference<Struct>", Fam: "Reference", Type: "&C18.S", Setup: setup,
			Vals: nv("&s18 as &C18.S", "&s18 as &C18.S", "&s18 as auth(C18.E) &C18.S", "&t18 as &C18.S", "&t18 as auth(C18.E, C18.F) &C18.S")},
		{Name: "&[Int]", Sig: "Reference<Array>", Fam: "Reference", Type: "&[Int]", Setup: setup,
			Vals: nv("&x18 as &[Int]", "&x18 as &[Int]", "&y18 as &[Int]", "&x18 as auth(Mutate) &[Int]")},
	}
}

func c18VoidKind() *c18Kind {
	return &c18Kind{Name: "Void", Sig: "Void", Fam: "Void", Type: "Void",
		Vals: []c18Val{c18V("()", "void"), c18V("C18.noop()", "void"), c18V("()", "void")}}
}

// c18SuperKinds: numeric supertypes. == is accepted by the checker on them; a
// pair of different dynamic types has no expectation (Grp = dynamic type).
func c18SuperKinds() []*c18Kind {
	mk := func(name string, members ...string) *c18Kind {
		k := &c18Kind{Name: name, Sig: name, Fam: "NumericSupertype", Type: name}
		for _, m := range members {
			for _, v := range []string{"1", "2"} {
				k.Vals = append(k.Vals, c18Val{Expr: m + "(" + v + ")", Cls: v, Grp: m, Num: v})
			}
			k.Vals = append(k.Vals, c18Val{Expr: m + "(3) - " + m + "(2)", Cls: "1", Grp: m, Num: "1"})
		}
		return k
	}
	return []*c18Kind{
		mk("Integer", "Int", "Int8", "Int16", "UInt8", "UInt", "Word8", "Word64", "Int256", "UInt128"),
		mk("SignedInteger", "Int", "Int8", "Int64", "Int128"),
		mk("FixedSizeUnsignedInteger", "UInt8", "UInt64", "Word8", "Word64", "Word256"),
		mk("FixedPoint", "Fix64", "UFix64", "Fix128", "UFix128"),
		mk("SignedFixedPoint", "Fix64", "Fix128"),
		mk("Number", "Int", "Int8", "UInt8", "Word8", "Fix64", "UFix64", "Fix128", "UFix128"),
		mk("SignedNumber", "Int", "Int8", "Fix64", "Fix128"),
	}
}

// c18HashableKind: `==` is not offered on HashableStruct, but it is a valid
// dictionary key type: equal values (same Grp, same Cls) must merge.
func c18HashableKind(parts ...*c18Kind) *c18Kind {
	k := &c18Kind{Name: "HashableStruct", Sig: "HashableStruct", Fam: "HashableStruct", Type: "HashableStruct"}
	for _, p := range parts {
		k.Decls += p.Decls + "\n"
		k.Setup += p.Setup + "\n"
		for _, v := range c18Pick(p, 3) {
			e := "(" + v.Expr + ") as " + p.Type
			k.Vals = append(k.Vals, c18Val{Expr: e, Cls: v.Cls, Grp: p.Name + "/" + v.Grp})
		}
	}
	return k
}

// ---------------------------------------------------------------------------
// The enumerated space

func c18Kinds(thorough bool) []*c18Kind {
	var ks []*c18Kind
	byName := map[string]*c18Kind{}
	add := func(k ...*c18Kind) {
		for _, x := range k {
			ks = append(ks, x)
			byName[x.Name] = x
		}
	}
	for _, t := range num.Types {
		add(c18NumKind(t, thorough))
	}
	add(c18StringKind(thorough), c18CharacterKind(thorough), c18BoolKind(), c18AddressKind(thorough))
	add(c18PathKinds(thorough)...)
	add(c18EnumKinds()...)
	add(c18TypeKind(thorough))
	// for containers the base lists stay small (they are covered on their own above)
	small := map[string]*c18Kind{}
	for _, t := range num.Types {
		small[t.Name] = c18NumKind(t, false)
	}
	small["String"], small["Character"], small["Address"], small["Type"] = c18StringKind(false), c18CharacterKind(false), c18AddressKind(false), c18TypeKind(false)
	for _, p := range c18PathKinds(false) {
		small[p.Name] = p
	}
	small["Bool"], small["C18.En"] = byName["Bool"], byName["C18.En"]
	optBases := []string{"Int", "UInt8", "Fix64", "Word256", "String", "Character", "Bool", "Address", "Path", "StoragePath", "C18.En", "Type"}
	want := mc_c18Pick(thorough, 8, 24)
	for _, b := range optBases {
		add(c18OptionalKind(small[b], false, want))
	}
	for _, b := range []string{"Int", "String", "Type", "C18.En"} {
		add(c18OptionalKind(small[b], true, want))
	}
	arrBases := []string{"Int", "UInt8", "Int128", "UFix64", "String", "Character", "Bool", "Address", "Path", "C18.En", "Type"}
	arr := map[string]*c18Kind{}
	for _, b := range arrBases {
		a := c18ArrayKind(small[b])
		arr[b] = a
		add(a)
	}
	for _, b := range []string{"Int", "String", "Type", "Character"} {
		add(c18ConstArrayKind(small[b]))
	}
	// nesting
	add(c18ArrayKind(arr["Int"]), c18ArrayKind(arr["String"]), c18ArrayKind(arr["Type"]))
	add(c18OptionalKind(arr["Int"], false, want), c18OptionalKind(arr["String"], false, want))
	optInt := c18OptionalKind(small["Int"], false, want)
	optStr := c18OptionalKind(small["String"], false, want)
	add(c18ArrayKind(optInt), c18ArrayKind(optStr))
	for _, kv := range [][2]string{{"String", "Int"}, {"Int", "String"}, {"Type", "Int"}, {"Address", "Bool"}, {"C18.En", "Type"}, {"Path", "Character"}, {"Character", "String"}, {"UInt8", "Fix64"}} {
		add(c18DictKind(small[kv[0]], small[kv[1]]))
	}
	dSI := c18DictKind(small["String"], small["Int"])
	add(c18DictKind(small["String"], arr["Int"]), c18DictKind(small["Type"], optStr), c18ArrayKind(dSI), c18OptionalKind(dSI, false, want),
		c18DictKind(small["Int"], dSI))
	add(c18RangeKind("Int"), c18RangeKind("UInt8"), c18RangeKind("Int64"), c18RangeKind("Word8"))
	add(c18RefKinds()...)
	add(c18VoidKind())
	add(c18SuperKinds()...)
	add(c18HashableKind(small["Int"], small["Int8"], small["UInt8"], small["Word8"], small["Fix64"], small["UFix64"], small["String"], small["Character"],
		small["Bool"], small["Address"], small["Path"], small["C18.En"], byName["C18.En2"], small["Type"]))
	// kind names must be unique (they key the nontrivial sets)
	seen := map[string]bool{}
	for _, k := range ks {
		if seen[k.Name] {
			panic("c18: duplicate kind " + k.Name)
		}
		seen[k.Name] = true
	}
	return ks
}

func mc_c18Pick(thorough bool, q, t int) int {
	if thorough {
		return t
	}
	return q
}

// ---------------------------------------------------------------------------
// Run / Replay / registration

func c18Run(env *mc.Env) {
	kinds := c18Kinds(env.Thorough())
	// big kinds first so that the parallel tail is short
	order := make([]int, len(kinds))
	for i := range order {
		order[i] = i
	}
	sort.SliceStable(order, func(a, b int) bool { return len(kinds[order[a]].Vals) > len(kinds[order[b]].Vals) })
	stats := make([]c18Stats, len(kinds))
	viols := make([][]c18Viol, len(kinds))
	done := make([]bool, len(kinds))
	c18Ledger(false)
	c18Ledger(true)
	mc.ParallelFor(env, len(kinds), func(n int) {
		i := order[n]
		t0 := time.Now()
		viols[i] = c18JudgeKind(kinds[i], &stats[i])
		done[i] = true
		if os.Getenv("C18_DEBUG") != "" { // diagnostics only, never part of a verdict
			fmt.Fprintf(os.Stderr, "c18: %-40s %4d values %8.2fs\n", kinds[i].Name, len(kinds[i].Vals), time.Since(t0).Seconds())
		}
	})
	// merge in kind order (deterministic, independent of scheduling)
	var values, pairs, rejected int64
	var rejectedList []string
	for i, k := range kinds {
		if !done[i] {
			continue
		}
		st := &stats[i]
		values += int64(len(k.Vals))
		pairs += int64(len(k.Vals) * len(k.Vals))
		env.R.EvalN(st.evals)
		env.R.DontCare.Add(st.dontCare)
		env.R.Add("triples_checked", st.triples)
		for _, key := range st.nontrivial {
			env.R.Nontrivial(key)
		}
		names := make([]string, 0, len(st.classes))
		for name := range st.classes {
			names = append(names, name)
		}
		sort.Strings(names)
		for _, name := range names {
			sample := st.samples[name]
			nm := name
			env.R.Class(nm, func() any { return "first kind with this outcome: " + sample })
			env.R.ClassN(nm, st.classes[nm]-1)
		}
		for _, h := range st.harness {
			env.R.HarnessError("%s", h)
		}
		rejected += int64(len(st.rejected))
		rejectedList = append(rejectedList, st.rejected...)
		for _, v := range viols[i] {
			env.R.Violation(v.sig, v.c, v.detail)
		}
	}
	env.R.Set("kinds", len(kinds))
	env.R.Set("values", values)
	env.R.Set("ordered_pairs_per_engine", pairs)
	env.R.Set("operations_refused_by_checker", rejectedList)
	env.R.BoundCompleted(fmt.Sprintf("%d kinds, %d values, all ordered pairs and triples, both engines", len(kinds), values))
}

func c18Replay(env *mc.Env, raw json.RawMessage) (bool, string) {
	var c c18Case
	if err := json.Unmarshal(raw, &c); err != nil {
		return false, err.Error()
	}
	var st c18Stats
	k := c.Kind
	viols := c18JudgeKind(&k, &st)
	for _, v := range viols {
		if v.sig == c.Signature {
			return true, v.detail
		}
	}
	d := fmt.Sprintf("signature %q not reproduced on the %d recorded values", c.Signature, len(k.Vals))
	if len(st.harness) > 0 {
		d += ": " + st.harness[0]
	}
	return false, d
}

func init() {
	mc.Register(&mc.Check{
		ID: "C18",
		Rule: "per static type (27 numeric types, String, Character, Bool, Address, 5 path types, enums, Type, optionals, arrays, constant-sized arrays, dictionaries, ranges, references, Void, numeric supertypes, HashableStruct) a list of values including equal-but-differently-built ones; " +
			"batched scripts compute the full ==/!= matrix, the < <= > >= matrix and, per ordered pair, {a:1}; d[b]=2 plus one insert-all dictionary, on interpreter and VM; laws judged on all ordered pairs and all triples; " +
			"non-trivial = distinct pair of equal values built from different expressions (== stage) or merged as dictionary keys (hash stage)",
		Assumptions: []string{
			"the checker is the arbiter of which static types are equatable / comparable / valid dictionary keys (refused operations are counted, not judged)",
			"x/text NFC is the reference for canonical equivalence of the text values; math/big for numeric order",
			"transitivity is judged on the complete pairwise matrices (every triple), not by re-evaluating each triple",
		},
		Run:    c18Run,
		Replay: c18Replay,
	})
}

package types

import (
	"encoding/json"
	"errors"
	"fmt"
	"math/bits"
	"sort"
	"strings"

	"github.com/onflow/cadence"
	"github.com/onflow/cadence/ast"
	"github.com/onflow/cadence/common"
	"github.com/onflow/cadence/sema"

	"verif/gen/tygen"
	"verif/mc"
	"verif/rt"
)

// C06 — entitlement authorization algebra is sound and upcasts never escalate.
//
// Reference model: possible-worlds semantics over a universe U of n
// entitlements. A *world* is the set of entitlements a holder actually
// possesses (a subset of U).
//
//	unauthorized          is held in every world (also the empty one)
//	conjunction (A, B)    is held in the worlds W ⊇ {A, B}
//	disjunction (A | B)   is held in the worlds W with W ∩ {A, B} ≠ ∅
//	self                  (access from inside the type) satisfies every requirement
//
// and a requirement r is satisfied in world W by the same clauses read as a
// predicate on W. From the sentence:
//
//	"A requirement is satisfied by a reference's authorization exactly per set
//	 semantics"                 PermitsAccess(r, a) ⇔ every world of a satisfies r
//	"derived by intersection … never grants more than the source authorization"
//	                            every world of a, and every world of b, satisfies IntersectAccess(a, b)
//	"… or by applying an entitlement mapping never grants more …"
//	                            for every world W of a, the image M(W) satisfies Image(M, a)
//	"if a reference type can be upcast to another, every member and
//	 authorization reachable through the upcast type is also reachable through
//	 the original"              program layer, see c06Program
//
// A mapping that refuses (error) grants nothing and is always acceptable.

// ---------------------------------------------------------------------------
// model

const (
	c06Unauth = iota
	c06Conj
	c06Disj
	c06Self
)

// c06Auth is an authorization of the model; Members are indices into U, in
// the order in which the set is built (the real sets are insertion-ordered).
type c06Auth struct {
	Kind    int   `json:"kind"`
	Members []int `json:"members,omitempty"`
}

func (a c06Auth) mask() uint {
	var m uint
	for _, i := range a.Members {
		m |= 1 << uint(i)
	}
	return m
}

func (a c06Auth) kindName() string {
	switch a.Kind {
	case c06Unauth:
		return "unauth"
	case c06Conj:
		return "conj"
	case c06Disj:
		return "disj"
	}
	return "self"
}

func (a c06Auth) String() string {
	names := make([]string, len(a.Members))
	for i, m := range a.Members {
		names[i] = c06EntName(m)
	}
	switch a.Kind {
	case c06Unauth:
		return "unauthorized"
	case c06Conj:
		return "(" + strings.Join(names, ", ") + ")"
	case c06Disj:
		return "(" + strings.Join(names, " | ") + ")"
	}
	return "self"
}

func c06EntName(i int) string { return string(rune('W' + i)) } // W, X, Y, Z

// satisfied: does a holder with exactly the entitlements `world` meet requirement r?
func c06Satisfied(r c06Auth, world uint) bool {
	switch r.Kind {
	case c06Unauth:
		return true
	case c06Conj:
		return r.mask()&^world == 0
	case c06Disj:
		return r.mask()&world != 0
	}
	return false // only `self` meets a `self` requirement
}

// worlds of an authorization over n entitlements; self=true means "inside the type".
func c06Worlds(a c06Auth, n int) (worlds []uint, self bool) {
	if a.Kind == c06Self {
		return nil, true
	}
	for w := uint(0); w < 1<<uint(n); w++ {
		if c06Satisfied(a, w) {
			worlds = append(worlds, w)
		}
	}
	return worlds, false
}

// c06Entails: every holder of a meets requirement r.
func c06Entails(a, r c06Auth, n int) bool {
	worlds, self := c06Worlds(a, n)
	if self {
		return true
	}
	for _, w := range worlds {
		if !c06Satisfied(r, w) {
			return false
		}
	}
	return true
}

// c06Map is a mapping of the model: Rel[i] = bit set of outputs of input i.
type c06Map struct {
	N        int    `json:"n"`
	Rel      []uint `json:"rel"`
	Identity bool   `json:"identity"`
}

func (m c06Map) image(world uint) uint {
	var out uint
	for i := 0; i < m.N; i++ {
		if world&(1<<uint(i)) != 0 {
			out |= m.Rel[i]
			if m.Identity {
				out |= 1 << uint(i)
			}
		}
	}
	return out
}

func (m c06Map) String() string {
	var parts []string
	for i := 0; i < m.N; i++ {
		for j := 0; j < m.N; j++ {
			if m.Rel[i]&(1<<uint(j)) != 0 {
				parts = append(parts, c06EntName(i)+"->"+c06EntName(j))
			}
		}
	}
	if m.Identity {
		parts = append(parts, "include Identity")
	}
	return "{" + strings.Join(parts, "; ") + "}"
}

func c06MapFromBits(n int, bitsRel uint64, identity bool) c06Map {
	m := c06Map{N: n, Rel: make([]uint, n), Identity: identity}
	for i := 0; i < n; i++ {
		for j := 0; j < n; j++ {
			if bitsRel&(1<<uint(i*n+j)) != 0 {
				m.Rel[i] |= 1 << uint(j)
			}
		}
	}
	return m
}

// all authorizations over n entitlements: unauthorized, every non-empty
// conjunction and disjunction; with perms, every insertion order of each set.
func c06Auths(n int, perms bool) []c06Auth {
	out := []c06Auth{{Kind: c06Unauth}}
	var seqs [][]int
	var rec func(cur []int, used uint)
	rec = func(cur []int, used uint) {
		if len(cur) > 0 {
			seqs = append(seqs, append([]int(nil), cur...))
		}
		for i := 0; i < n; i++ {
			if used&(1<<uint(i)) != 0 {
				continue
			}
			if !perms && len(cur) > 0 && cur[len(cur)-1] > i {
				continue
			}
			rec(append(cur, i), used|1<<uint(i))
		}
	}
	rec(nil, 0)
	for _, k := range []int{c06Conj, c06Disj} {
		for _, s := range seqs {
			out = append(out, c06Auth{Kind: k, Members: s})
		}
	}
	return out
}

// ---------------------------------------------------------------------------
// real objects

type c06Real struct {
	n    int
	ents []*sema.EntitlementType
	idx  map[*sema.EntitlementType]int
}

var c06Loc = common.AddressLocation{Address: common.Address{0, 0, 0, 0, 0, 0, 0, 1}, Name: "T"}

func c06NewReal(n int) *c06Real {
	r := &c06Real{n: n, idx: map[*sema.EntitlementType]int{}}
	for i := 0; i < n; i++ {
		e := sema.NewEntitlementType(nil, c06Loc, c06EntName(i))
		r.ents = append(r.ents, e)
		r.idx[e] = i
	}
	return r
}

func (r *c06Real) access(a c06Auth) sema.Access {
	switch a.Kind {
	case c06Unauth:
		return sema.UnauthorizedAccess
	case c06Self:
		return sema.PrimitiveAccess(ast.AccessSelf)
	}
	es := make([]*sema.EntitlementType, len(a.Members))
	for i, m := range a.Members {
		es[i] = r.ents[m]
	}
	kind := sema.Conjunction
	if a.Kind == c06Disj {
		kind = sema.Disjunction
	}
	return sema.NewEntitlementSetAccess(es, kind)
}

// model reads a real access back; ok=false if it is not expressible (then the check reports it).
func (r *c06Real) model(acc sema.Access) (c06Auth, bool) {
	switch acc := acc.(type) {
	case sema.PrimitiveAccess:
		switch acc {
		case sema.PrimitiveAccess(ast.AccessAll):
			return c06Auth{Kind: c06Unauth}, true
		case sema.PrimitiveAccess(ast.AccessSelf):
			return c06Auth{Kind: c06Self}, true
		}
		return c06Auth{}, false
	case sema.EntitlementSetAccess:
		a := c06Auth{Kind: c06Conj}
		if acc.SetKind == sema.Disjunction {
			a.Kind = c06Disj
		}
		ok := true
		acc.Entitlements.Foreach(func(e *sema.EntitlementType, _ struct{}) {
			i, found := r.idx[e]
			if !found {
				ok = false
			}
			a.Members = append(a.Members, i)
		})
		if len(a.Members) == 0 {
			return c06Auth{}, false
		}
		return a, ok
	}
	return c06Auth{}, false
}

func (r *c06Real) mapType(m c06Map) *sema.EntitlementMapType {
	mt := sema.NewEntitlementMapType(nil, c06Loc, "M")
	for i := 0; i < m.N; i++ {
		for j := 0; j < m.N; j++ {
			if m.Rel[i]&(1<<uint(j)) != 0 {
				mt.Relations = append(mt.Relations, sema.EntitlementRelation{Input: r.ents[i], Output: r.ents[j]})
			}
		}
	}
	mt.IncludesIdentity = m.Identity
	return mt
}

// ---------------------------------------------------------------------------
// API layer

type c06Case struct {
	Layer string   `json:"layer"` // permits | intersect | refsub | image | include | program
	N     int      `json:"n"`
	A     *c06Auth `json:"a,omitempty"`
	B     *c06Auth `json:"b,omitempty"`
	Map   *c06Map  `json:"map,omitempty"`
	// include layer / program layer
	Sources []string `json:"sources,omitempty"`
	UseVM   bool     `json:"use_vm,omitempty"`
}

// c06JudgePermits: PermitsAccess(req, a) and reference subtyping by authorization.
func c06JudgePermits(r *c06Real, req, a c06Auth) (sig, detail, class string) {
	want := c06Entails(a, req, r.n)
	var got bool
	if p, v, _ := mc.Guard(func() { got = r.access(req).PermitsAccess(r.access(a)) }); p {
		return "PermitsAccess|req=" + req.kindName() + "|auth=" + a.kindName() + "|panic", fmt.Sprint(v), ""
	}
	if got != want {
		return fmt.Sprintf("PermitsAccess|req=%s|auth=%s|%s", req.kindName(), a.kindName(), c06Dir(got)),
			fmt.Sprintf("requirement %s, reference authorization %s: PermitsAccess = %v, set semantics say %v", req, a, got, want), ""
	}
	return "", "", fmt.Sprintf("permits:%s<-%s:%v", req.kindName(), a.kindName(), got)
}

func c06Dir(got bool) string {
	if got {
		return "permits-but-should-not"
	}
	return "refuses-but-should-permit"
}

// c06JudgeRefSub: auth(a) &T <: auth(b) &T  ⇔  every holder of a meets b.
func c06JudgeRefSub(r *c06Real, a, b c06Auth) (sig, detail, class string) {
	want := c06Entails(a, b, r.n)
	sub := sema.NewReferenceType(nil, r.access(a), sema.IntType)
	super := sema.NewReferenceType(nil, r.access(b), sema.IntType)
	var got bool
	if p, v, _ := mc.Guard(func() { got = sema.IsSubType(sub, super) }); p {
		return "RefSubtype|sub=" + a.kindName() + "|super=" + b.kindName() + "|panic", fmt.Sprint(v), ""
	}
	if got != want {
		return fmt.Sprintf("RefSubtype|sub=%s|super=%s|%s", a.kindName(), b.kindName(), c06Dir(got)),
			fmt.Sprintf("auth%s &Int <: auth%s &Int = %v, set semantics say %v", a, b, got, want), ""
	}
	return "", "", fmt.Sprintf("refsub:%s<:%s:%v", a.kindName(), b.kindName(), got)
}

// c06JudgeIntersect: the result must be met by every holder of a and by every holder of b.
func c06JudgeIntersect(r *c06Real, a, b c06Auth) (sig, detail, class string) {
	var got sema.Access
	if p, v, _ := mc.Guard(func() { got = sema.IntersectAccess(r.access(a), r.access(b)) }); p {
		return "IntersectAccess|a=" + a.kindName() + "|b=" + b.kindName() + "|panic", fmt.Sprint(v), ""
	}
	res, ok := r.model(got)
	if !ok {
		return "IntersectAccess|a=" + a.kindName() + "|b=" + b.kindName() + "|unreadable-result", fmt.Sprintf("%v", got), ""
	}
	okA, okB := c06Entails(a, res, r.n), c06Entails(b, res, r.n)
	if !okA || !okB {
		return fmt.Sprintf("IntersectAccess|a=%s|b=%s|result=%s|grants-more", a.kindName(), b.kindName(), res.kindName()),
			fmt.Sprintf("IntersectAccess(%s, %s) = %s, which a holder of %s need not have", a, b, res, map[bool]string{true: b.String(), false: a.String()}[okA]), ""
	}
	return "", "", fmt.Sprintf("intersect:%s,%s->%s", a.kindName(), b.kindName(), res.kindName())
}

// c06MemberImages says whether some member of a has an empty image under m (structural class of the input).
func c06MemberImages(m c06Map, a c06Auth) string {
	for _, i := range a.Members {
		if m.image(1<<uint(i)) == 0 {
			return "some-member-image-empty"
		}
	}
	return "all-member-images-nonempty"
}

// c06JudgeImage: for every world W of a, the image M(W) must meet Image(M, a).
func c06JudgeImage(r *c06Real, mt *sema.EntitlementMapAccess, m c06Map, a c06Auth) (sig, detail, class string) {
	var got sema.Access
	var err error
	if p, v, _ := mc.Guard(func() { got, err = mt.Image(nil, r.access(a), ast.EmptyRange) }); p {
		return "Image|input=" + a.kindName() + "|panic", fmt.Sprint(v), ""
	}
	if err != nil {
		// a refusal grants nothing
		return "", "", "image:" + a.kindName() + "->refused"
	}
	res, ok := r.model(got)
	if !ok {
		return "Image|input=" + a.kindName() + "|unreadable-result", fmt.Sprintf("%v", got), ""
	}
	worlds, self := c06Worlds(a, r.n)
	if self {
		// inside the type: everything is reachable anyway
		return "", "", "image:self->" + res.kindName()
	}
	exact := true
	for _, w := range worlds {
		if !c06Satisfied(res, m.image(w)) {
			return fmt.Sprintf("Image|input=%s|%s|result=%s|grants-more", a.kindName(), c06MemberImages(m, a), res.kindName()),
				fmt.Sprintf("mapping %s applied to %s yields %s, but a holder of exactly %s obtains only %s through the mapping",
					m, a, res, c06Set(w), c06Set(m.image(w))), ""
		}
	}
	// tightness, for the class only: is the result met by *only* those image worlds it should?
	if res.Kind == c06Unauth && len(a.Members) > 0 {
		for _, i := range a.Members {
			if m.image(1<<uint(i)) != 0 {
				exact = false
			}
		}
	}
	if exact {
		return "", "", "image:" + a.kindName() + "->" + res.kindName()
	}
	return "", "", "image:" + a.kindName() + "->" + res.kindName() + "(weaker)"
}

func c06Set(w uint) string {
	var names []string
	for i := 0; i < 8; i++ {
		if w&(1<<uint(i)) != 0 {
			names = append(names, c06EntName(i))
		}
	}
	return "{" + strings.Join(names, ",") + "}"
}

type c06Classes map[string]int64

func (c c06Classes) flush(env *mc.Env, sample string) {
	keys := make([]string, 0, len(c))
	for k := range c {
		keys = append(keys, k)
	}
	sort.Strings(keys)
	for _, k := range keys {
		kk := k
		env.R.Class(kk, func() any { return sample })
		env.R.ClassN(kk, c[k]-1)
	}
}

func c06RunAPI(env *mc.Env, n int) {
	r := c06NewReal(n)
	auths := c06Auths(n, true)
	withSelf := append(append([]c06Auth{}, auths...), c06Auth{Kind: c06Self})
	env.R.Set("api_universe", int64(n))
	env.R.Set("api_authorizations", int64(len(auths)))

	// PermitsAccess, reference subtyping, IntersectAccess: all ordered pairs
	mc.ParallelFor(env, len(withSelf), func(i int) {
		a := withSelf[i]
		classes := c06Classes{}
		for _, b := range withSelf {
			bb := b
			env.R.Eval()
			sig, detail, class := c06JudgePermits(r, a, b)
			if sig != "" {
				env.R.Violation(sig, c06Case{Layer: "permits", N: n, A: &a, B: &bb}, detail)
			} else {
				classes[class]++
				if a.Kind != b.Kind && len(a.Members) > 0 && len(b.Members) > 0 {
					env.R.Nontrivial("permits|" + a.String() + "|" + b.String())
				}
			}
			if a.Kind == c06Self || b.Kind == c06Self {
				continue
			}
			env.R.Eval()
			if sig, detail, class = c06JudgeRefSub(r, a, b); sig != "" {
				env.R.Violation(sig, c06Case{Layer: "refsub", N: n, A: &a, B: &bb}, detail)
			} else {
				classes[class]++
			}
			env.R.Eval()
			if sig, detail, class = c06JudgeIntersect(r, a, b); sig != "" {
				env.R.Violation(sig, c06Case{Layer: "intersect", N: n, A: &a, B: &bb}, detail)
			} else {
				classes[class]++
				if a.Kind == c06Disj || b.Kind == c06Disj {
					env.R.Nontrivial("intersect|" + a.String() + "|" + b.String())
				}
			}
		}
		classes.flush(env, "first authorization of the row: "+a.String())
	})

	// Image: all mappings R ⊆ U×U × identity flag × all authorizations
	total := 1 << uint(n*n)
	chunk := 64
	mc.ParallelFor(env, (total+chunk-1)/chunk, func(ci int) {
		classes := c06Classes{}
		for bitsRel := ci * chunk; bitsRel < (ci+1)*chunk && bitsRel < total; bitsRel++ {
			for _, identity := range []bool{false, true} {
				m := c06MapFromBits(n, uint64(bitsRel), identity)
				mt := sema.NewEntitlementMapAccess(r.mapType(m))
				for _, a := range withSelf {
					aa := a
					sig, detail, class := c06JudgeImage(r, mt, m, a)
					if sig != "" {
						env.R.Violation(sig, c06Case{Layer: "image", N: n, A: &aa, Map: &m}, detail)
						continue
					}
					classes[class]++
					if a.Kind == c06Disj && len(a.Members) > 1 {
						env.R.Nontrivial(fmt.Sprintf("image|%d|%v|%s", bitsRel, identity, a))
					}
				}
				env.R.EvalN(int64(len(withSelf)))
			}
		}
		classes.flush(env, fmt.Sprintf("mappings %d.. of the relation enumeration", ci*chunk))
	})
	env.R.Set("api_mappings", int64(total*2))
}

// ---------------------------------------------------------------------------
// include chains: three mappings A, B, C declared in a contract and resolved
// by the real checker; A may include B and/or C, B may include C, each may
// include Identity.

type c06IncludeCase struct {
	rels     [3]int  // index into c06IncludeRels
	identity [3]bool // include Identity
	aB, aC   bool    // A includes B / C
	bC       bool    // B includes C
}

// relation alphabets over W, X, Y (indices 0, 1, 2)
var c06IncludeRels = [][][2]int{
	{},
	{{0, 1}},
	{{1, 2}},
	{{0, 1}, {0, 2}},
}

func (c c06IncludeCase) source() string {
	var sb strings.Builder
	sb.WriteString("access(all) contract T {\n")
	for i := 0; i < 3; i++ {
		fmt.Fprintf(&sb, "  access(all) entitlement %s\n", c06EntName(i))
	}
	names := []string{"A", "B", "C"}
	for k := 2; k >= 0; k-- {
		fmt.Fprintf(&sb, "  access(all) entitlement mapping %s {\n", names[k])
		if c.identity[k] {
			sb.WriteString("    include Identity\n")
		}
		if k == 0 && c.aB {
			sb.WriteString("    include B\n")
		}
		if k == 0 && c.aC {
			sb.WriteString("    include C\n")
		}
		if k == 1 && c.bC {
			sb.WriteString("    include C\n")
		}
		for _, p := range c06IncludeRels[c.rels[k]] {
			fmt.Fprintf(&sb, "    %s -> %s\n", c06EntName(p[0]), c06EntName(p[1]))
		}
		sb.WriteString("  }\n")
	}
	sb.WriteString("}\n")
	return sb.String()
}

// model: the relation of A = union over everything reachable through includes
func (c c06IncludeCase) model() c06Map {
	m := c06Map{N: 3, Rel: make([]uint, 3)}
	var add func(k int, seen uint)
	add = func(k int, seen uint) {
		if seen&(1<<uint(k)) != 0 {
			return
		}
		seen |= 1 << uint(k)
		for _, p := range c06IncludeRels[c.rels[k]] {
			m.Rel[p[0]] |= 1 << uint(p[1])
		}
		if c.identity[k] {
			m.Identity = true
		}
		if k == 0 && c.aB {
			add(1, seen)
		}
		if k == 0 && c.aC {
			add(2, seen)
		}
		if k == 1 && c.bC {
			add(2, seen)
		}
	}
	add(0, 0)
	return m
}

// c06JudgeInclude checks the contract and compares the resolved mapping A with the union model.
func c06JudgeInclude(src string, model c06Map) (sig, detail, class string) {
	ch, err := tygen.CheckProgram(src, c06Loc, nil)
	if ch == nil || err != nil {
		return "", "generator: include contract rejected: " + fmt.Sprint(err), "harness"
	}
	mt := ch.Elaboration.EntitlementMapType(c06Loc.TypeID(nil, "T.A"))
	if mt == nil {
		return "", "generator: mapping T.A not found", "harness"
	}
	got := c06Map{N: 3, Rel: make([]uint, 3), Identity: mt.IncludesIdentity}
	idx := map[string]int{}
	for i := 0; i < 3; i++ {
		idx[c06EntName(i)] = i
	}
	for _, rel := range mt.Relations {
		got.Rel[idx[rel.Input.Identifier]] |= 1 << uint(idx[rel.Output.Identifier])
	}
	extra := false
	missing := false
	for i := 0; i < 3; i++ {
		if got.Rel[i]&^model.Rel[i] != 0 {
			extra = true
		}
		if model.Rel[i]&^got.Rel[i] != 0 {
			missing = true
		}
	}
	if got.Identity && !model.Identity {
		extra = true
	}
	if model.Identity && !got.Identity {
		missing = true
	}
	switch {
	case extra:
		return "Include|resolved-mapping-has-relations-not-declared-or-included",
			fmt.Sprintf("declared (with includes) %s, checker resolved %s", model, got), ""
	case missing:
		// The sentence only forbids granting more; a resolved mapping with fewer
		// relations grants less. Don't-care.
		return "", "", "dontcare"
	}
	// the resolved real mapping applied to every authorization, against the model
	r := &c06Real{n: 3, idx: map[*sema.EntitlementType]int{}}
	for i := 0; i < 3; i++ {
		e := ch.Elaboration.EntitlementType(c06Loc.TypeID(nil, "T."+c06EntName(i)))
		r.ents = append(r.ents, e)
		r.idx[e] = i
	}
	acc := sema.NewEntitlementMapAccess(mt)
	for _, a := range c06Auths(3, false) {
		if s, d, _ := c06JudgeImage(r, acc, model, a); s != "" {
			return "Include|" + s, d, ""
		}
	}
	return "", "", fmt.Sprintf("include:identity=%v", got.Identity)
}

func c06RunInclude(env *mc.Env) {
	var cases []c06IncludeCase
	nr := len(c06IncludeRels)
	for r0 := 0; r0 < nr; r0++ {
		for r1 := 0; r1 < nr; r1++ {
			for r2 := 0; r2 < nr; r2++ {
				for f := 0; f < 64; f++ {
					cases = append(cases, c06IncludeCase{
						rels:     [3]int{r0, r1, r2},
						identity: [3]bool{f&1 != 0, f&2 != 0, f&4 != 0},
						aB:       f&8 != 0, aC: f&16 != 0, bC: f&32 != 0,
					})
				}
			}
		}
	}
	env.R.Set("include_programs", int64(len(cases)))
	mc.ParallelFor(env, len(cases), func(i int) {
		c := cases[i]
		src := c.source()
		model := c.model()
		env.R.Eval()
		sig, detail, class := c06JudgeInclude(src, model)
		switch {
		case class == "harness":
			env.R.HarnessError("%s\n%s", detail, src)
		case sig != "":
			env.R.Violation(sig, c06Case{Layer: "include", N: 3, Map: &model, Sources: []string{src}}, detail)
		case class == "dontcare":
			env.R.DontCare.Add(1)
		default:
			env.R.Class(class, func() any { return src })
			if c.aB && c.bC {
				env.R.Nontrivial("include|" + src)
			}
		}
	})
}

// ---------------------------------------------------------------------------
// program layer

// authorizations a program can spell over W, X, Y: unauthorized, conjunctions, disjunctions of ≥ 2
func c06ProgramAuths() []c06Auth {
	var out []c06Auth
	for _, a := range c06Auths(3, false) {
		if a.Kind == c06Disj && len(a.Members) < 2 {
			continue
		}
		out = append(out, a)
	}
	return out
}

func c06AuthSource(a c06Auth) string {
	if a.Kind == c06Unauth {
		return ""
	}
	names := make([]string, len(a.Members))
	for i, m := range a.Members {
		names[i] = "T." + c06EntName(m)
	}
	sep := ", "
	if a.Kind == c06Disj {
		sep = " | "
	}
	return "auth(" + strings.Join(names, sep) + ") "
}

func c06AccessSource(a c06Auth) string {
	names := make([]string, len(a.Members))
	for i, m := range a.Members {
		names[i] = c06EntName(m)
	}
	sep := ", "
	if a.Kind == c06Disj {
		sep = " | "
	}
	return "access(" + strings.Join(names, sep) + ")"
}

// the probe members of Inner: one function per requirement shape
func c06Probes() []c06Auth {
	var out []c06Auth
	for _, a := range c06ProgramAuths() {
		if a.Kind != c06Unauth {
			out = append(out, a)
		}
	}
	return out
}

func c06ProbeName(a c06Auth) string {
	s := "f"
	if a.Kind == c06Disj {
		s = "g"
	}
	for _, m := range a.Members {
		s += c06EntName(m)
	}
	return s
}

func c06ContractSource(m c06Map) string {
	var sb strings.Builder
	sb.WriteString("access(all) contract T {\n")
	for i := 0; i < 3; i++ {
		fmt.Fprintf(&sb, "  access(all) entitlement %s\n", c06EntName(i))
	}
	sb.WriteString("  access(all) entitlement mapping M {\n")
	if m.Identity {
		sb.WriteString("    include Identity\n")
	}
	for i := 0; i < 3; i++ {
		for j := 0; j < 3; j++ {
			if m.Rel[i]&(1<<uint(j)) != 0 {
				fmt.Fprintf(&sb, "    %s -> %s\n", c06EntName(i), c06EntName(j))
			}
		}
	}
	sb.WriteString("  }\n  access(all) struct Inner {\n")
	for _, p := range c06Probes() {
		fmt.Fprintf(&sb, "    %s fun %s(): Int { return 1 }\n", c06AccessSource(p), c06ProbeName(p))
	}
	sb.WriteString("  }\n  access(all) struct S {\n    access(mapping M) let inner: Inner\n    init() { self.inner = Inner() }\n  }\n}\n")
	return sb.String()
}

// static program: one function p<k> per upcast pair, one probe per line,
// through the original reference `ra` and the upcast one `rb`.
func c06StaticProgram(pairs [][2]c06Auth) (src string, probeLine map[int][3]int, mapLine map[int][2]int) {
	var sb strings.Builder
	sb.WriteString("import T from 0x1\n")
	line := 2
	probeLine = map[int][3]int{} // line -> pair, probe, side
	mapLine = map[int][2]int{}   // line -> pair, side   (the two `.inner` accesses)
	for k, p := range pairs {
		fmt.Fprintf(&sb, "access(all) fun p%d() {\n  let s = T.S()\n", k)
		fmt.Fprintf(&sb, "  let ra = &s as %s&T.S\n", c06AuthSource(p[0]))
		fmt.Fprintf(&sb, "  let rb = ra as %s&T.S\n", c06AuthSource(p[1]))
		sb.WriteString("  let ia = ra.inner\n  let ib = rb.inner\n")
		mapLine[line+4] = [2]int{k, 0}
		mapLine[line+5] = [2]int{k, 1}
		line += 6
		for pi, pr := range c06Probes() {
			for side, ref := range []string{"ia", "ib"} {
				fmt.Fprintf(&sb, "  %s.%s()\n", ref, c06ProbeName(pr))
				probeLine[line] = [3]int{k, pi, side}
				line++
			}
		}
		sb.WriteString("}\n")
		line++
	}
	return sb.String(), probeLine, mapLine
}

type c06Static struct {
	reach    [2][]bool // [side][probe] accepted by the checker
	auth     [2]c06Auth
	mapError [2]bool // the mapping refused (unrepresentable) on that side
}

var c06ScriptLoc = common.ScriptLocation{0x6}

// c06CheckStatic runs the real checker once over all pairs; harness != "" reports a generator defect.
func c06CheckStatic(contract *sema.Checker, pairs [][2]c06Auth) (sts []c06Static, harness string) {
	src, probeLine, mapLine := c06StaticProgram(pairs)
	probes := c06Probes()
	sts = make([]c06Static, len(pairs))
	for k := range sts {
		for side := 0; side < 2; side++ {
			sts[k].reach[side] = make([]bool, len(probes))
			for i := range sts[k].reach[side] {
				sts[k].reach[side][i] = true
			}
		}
	}
	ch, err := tygen.CheckProgram(src, c06ScriptLoc, map[string]*sema.Elaboration{c06Loc.ID(): contract.Elaboration})
	if ch == nil {
		return nil, "parse: " + fmt.Sprint(err) + "\n" + src
	}
	if err != nil {
		var ce *sema.CheckerError
		if !errors.As(err, &ce) {
			return nil, err.Error()
		}
		for _, e := range ce.Errors {
			pos, _ := e.(ast.HasPosition)
			line := 0
			if pos != nil {
				line = pos.StartPosition().Line
			}
			switch e.(type) {
			case *sema.InvalidAccessError:
				if ps, ok := probeLine[line]; ok {
					sts[ps[0]].reach[ps[2]][ps[1]] = false
					continue
				}
			case *sema.UnrepresentableEntitlementMapOutputError:
				if ps, ok := mapLine[line]; ok {
					sts[ps[0]].mapError[ps[1]] = true
					continue
				}
			}
			return nil, fmt.Sprintf("unexpected checker error, line %d: %T: %v\n%s", line, e, e, src)
		}
	}
	// static types of ia and ib
	r := &c06Real{n: 3, idx: map[*sema.EntitlementType]int{}}
	for i := 0; i < 3; i++ {
		e := contract.Elaboration.EntitlementType(c06Loc.TypeID(nil, "T."+c06EntName(i)))
		r.idx[e] = i
	}
	decls := ch.Program.FunctionDeclarations()
	for k := range pairs {
		stmts := decls[k].FunctionBlock.Block.Statements
		for side := 0; side < 2; side++ {
			decl := stmts[3+side].(*ast.VariableDeclaration)
			ty := ch.Elaboration.VariableDeclarationTypes(decl).TargetType
			ref, ok := ty.(*sema.ReferenceType)
			if !ok {
				return nil, "inner is not a reference: " + ty.String()
			}
			au, ok := r.model(ref.Authorization)
			if !ok {
				return nil, "unreadable authorization " + ref.Authorization.String()
			}
			sts[k].auth[side] = au
		}
	}
	return sts, ""
}

// dynamic program: only what the checker accepted. For each pair a function
// p<k> returns, for each of the two obtained references (skipped when the
// mapping refused on that side), the outcome of a dynamic cast to every
// spellable authorization — which determines the run-time authorization up to
// equivalence — and then the results of the accepted probe calls.
func c06DynamicProgram(pairs [][2]c06Auth, sts []c06Static) string {
	var sb strings.Builder
	sb.WriteString("import T from 0x1\n")
	for k, p := range pairs {
		st := sts[k]
		fmt.Fprintf(&sb, "access(all) fun p%d(): [String] {\n  let s = T.S()\n", k)
		fmt.Fprintf(&sb, "  let ra = &s as %s&T.S\n", c06AuthSource(p[0]))
		fmt.Fprintf(&sb, "  let rb = ra as %s&T.S\n", c06AuthSource(p[1]))
		sb.WriteString("  let out: [String] = []\n")
		for side, ref := range []string{"a", "b"} {
			if st.mapError[side] {
				continue
			}
			// NOTE: the cast is applied to the reference under its own static type.
			// Routing it through AnyStruct would strip every entitlement at run time
			// ("Assigning/casting to AnyStruct should strip-off all entitlements",
			// interpreter.convert) and observe nothing.
			fmt.Fprintf(&sb, "  let i%s = r%s.inner\n", ref, ref)
			for _, pa := range c06ProgramAuths() {
				fmt.Fprintf(&sb, "  out.append((i%s as? %s&T.Inner) != nil ? \"1\" : \"0\")\n", ref, c06AuthSource(pa))
			}
		}
		for pi, pr := range c06Probes() {
			for side, ref := range []string{"ia", "ib"} {
				if st.reach[side][pi] && !st.mapError[side] {
					fmt.Fprintf(&sb, "  out.append(%s.%s().toString())\n", ref, c06ProbeName(pr))
				}
			}
		}
		sb.WriteString("  return out\n}\n")
	}
	sb.WriteString("access(all) fun main(): [[String]] {\n  return [")
	for k := range pairs {
		if k > 0 {
			sb.WriteString(", ")
		}
		fmt.Fprintf(&sb, "p%d()", k)
	}
	sb.WriteString("]\n}\n")
	return sb.String()
}

func c06UpcastClass(a, b c06Auth) string {
	return "from=" + a.kindName() + "|to=" + b.kindName()
}

type c06Viol struct {
	pair        int
	sig, detail string
}

// c06JudgeStatic judges the checker's answers for one pair.
func c06JudgeStatic(m c06Map, a, b c06Auth, st c06Static) (viols [][2]string, class string) {
	up := c06UpcastClass(a, b)
	probes := c06Probes()
	escal := false
	for pi, p := range probes {
		if st.reach[1][pi] && !st.reach[0][pi] {
			escal = true
			viols = append(viols, [2]string{
				fmt.Sprintf("upcast|%s|%s|member=%s|reachable-through-upcast-only", up, c06MemberImages(m, b), p.kindName()),
				fmt.Sprintf("mapping %s: holder of auth%s &S upcasts to auth%s &S; through the upcast reference `inner.%s()` (requires %s) is accepted, through the original it is rejected (inner types: original %s, upcast %s)",
					m, a, b, c06ProbeName(p), p, st.auth[0], st.auth[1]),
			})
			break
		}
	}
	// authorization obtained through the upcast must be entailed by the one obtained through the original
	if !escal && !st.mapError[0] && !st.mapError[1] && !c06Entails(st.auth[0], st.auth[1], 3) {
		viols = append(viols, [2]string{
			fmt.Sprintf("upcast|%s|%s|authorization-through-upcast-not-entailed", up, c06MemberImages(m, b)),
			fmt.Sprintf("mapping %s: a as %s -> inner %s; b as %s -> inner %s", m, a, st.auth[0], b, st.auth[1]),
		})
	}
	// absolute soundness of what the checker grants through each reference
	for side, src := range []c06Auth{a, b} {
		worlds, _ := c06Worlds(src, 3)
		for _, w := range worlds {
			if !st.mapError[side] && !c06Satisfied(st.auth[side], m.image(w)) {
				viols = append(viols, [2]string{
					fmt.Sprintf("mapped-member|ref=%s|%s|result=%s|grants-more", src.kindName(), c06MemberImages(m, src), st.auth[side].kindName()),
					fmt.Sprintf("mapping %s: `inner` through auth%s &S has type auth%s &Inner, but a holder of exactly %s obtains only %s", m, src, st.auth[side], c06Set(w), c06Set(m.image(w))),
				})
				break
			}
		}
	}
	class = fmt.Sprintf("program:%s:inner=%s->%s", up, st.auth[0].kindName(), st.auth[1].kindName())
	if st.mapError[0] || st.mapError[1] {
		class += ":map-refused"
	}
	return viols, class
}

// c06JudgeDynamic judges the run-time output of one pair in one engine.
func c06JudgeDynamic(m c06Map, a, b c06Auth, st c06Static, out []string, eng string) (viol [2]string, harness string) {
	up := c06UpcastClass(a, b)
	pos := 0
	for side := 0; side < 2; side++ {
		if st.mapError[side] {
			continue
		}
		for _, p := range c06ProgramAuths() {
			if pos >= len(out) {
				return viol, "dynamic script returned too few values: " + fmt.Sprint(out)
			}
			want := c06Entails(st.auth[side], p, 3)
			if (out[pos] == "1") != want {
				return [2]string{
					fmt.Sprintf("runtime|%s|%s|dynamic-cast-of-mapped-reference-disagrees-with-checker-type", up, eng),
					fmt.Sprintf("mapping %s, %s as %s: checker gives `inner` (side %d) the authorization %s, run-time cast to auth%s = %s",
						m, a, b, side, st.auth[side], p, out[pos]),
				}, ""
			}
			pos++
		}
	}
	for _, v := range out[pos:] {
		if v != "1" {
			return [2]string{fmt.Sprintf("runtime|%s|%s|probe-result", up, eng), fmt.Sprint(out)}, ""
		}
	}
	return viol, ""
}

// c06RunMapping runs the whole program layer for one mapping and the given pairs.
func c06RunMapping(m c06Map, pairs [][2]c06Auth, engines []bool) (viols []c06Viol, classes []string, evals int64, harness string) {
	contract, l, herr := c06Deploy(m)
	if herr != "" {
		return nil, nil, 0, herr
	}
	sts, herr := c06CheckStatic(contract, pairs)
	if herr != "" {
		return nil, nil, 0, "mapping " + m.String() + ": " + herr
	}
	evals += int64(len(pairs))
	classes = make([]string, len(pairs))
	for k, p := range pairs {
		vs, class := c06JudgeStatic(m, p[0], p[1], sts[k])
		classes[k] = class
		for _, v := range vs {
			viols = append(viols, c06Viol{k, v[0], v[1]})
		}
	}
	for _, vm := range engines {
		eng := "interp"
		if vm {
			eng = "vm"
		}
		run := func(ps [][2]c06Auth, ss []c06Static) ([][]string, *rt.Result) {
			res := rt.Run(l, rt.Tx{Source: c06DynamicProgram(ps, ss), Script: true, UseVM: vm})
			if !res.OK() {
				return nil, res
			}
			return c06StringArrays(res), res
		}
		outs, res := run(pairs, sts)
		evals += int64(len(pairs))
		if outs == nil || len(outs) != len(pairs) {
			// localise: one script per pair
			for k, p := range pairs {
				o, r1 := run([][2]c06Auth{p}, []c06Static{sts[k]})
				if o == nil || len(o) != 1 {
					viols = append(viols, c06Viol{k,
						fmt.Sprintf("runtime|%s|%s|checker-accepted-script-fails|%s|%s", c06UpcastClass(p[0], p[1]), eng, r1.Class, r1.Kind),
						r1.ErrString()})
					continue
				}
				v, h := c06JudgeDynamic(m, p[0], p[1], sts[k], o[0], eng)
				if h != "" {
					return viols, classes, evals, h
				}
				if v[0] != "" {
					viols = append(viols, c06Viol{k, v[0], v[1]})
				}
			}
			_ = res
			continue
		}
		for k, p := range pairs {
			v, h := c06JudgeDynamic(m, p[0], p[1], sts[k], outs[k], eng)
			if h != "" {
				return viols, classes, evals, h
			}
			if v[0] != "" {
				viols = append(viols, c06Viol{k, v[0], v[1]})
			}
		}
	}
	return viols, classes, evals, ""
}

func c06StringArrays(res *rt.Result) [][]string {
	arr, ok := res.Value.(cadence.Array)
	if !ok {
		return nil
	}
	var out [][]string
	for _, v := range arr.Values {
		inner, ok := v.(cadence.Array)
		if !ok {
			return nil
		}
		row := []string{}
		for _, x := range inner.Values {
			sv, ok := x.(cadence.String)
			if !ok {
				return nil
			}
			row = append(row, string(sv))
		}
		out = append(out, row)
	}
	return out
}

func c06ProgramMappings(env *mc.Env) []c06Map {
	var out []c06Map
	maxRel := mc.Pick(env, 2, 9)
	for bitsRel := 0; bitsRel < 1<<9; bitsRel++ {
		if bits.OnesCount(uint(bitsRel)) > maxRel {
			continue
		}
		for _, id := range []bool{false, true} {
			out = append(out, c06MapFromBits(3, uint64(bitsRel), id))
		}
	}
	return out
}

func c06Deploy(m c06Map) (*sema.Checker, *rt.Ledger, string) {
	src := c06ContractSource(m)
	ch, err := tygen.CheckProgram(src, c06Loc, nil)
	if ch == nil || err != nil {
		return nil, nil, "contract rejected: " + fmt.Sprint(err) + "\n" + src
	}
	l := rt.NewLedger()
	if p, v, _ := mc.Guard(func() { rt.Deploy(l, rt.Addr(1), "T", src, false) }); p {
		return nil, nil, fmt.Sprint(v)
	}
	return ch, l, ""
}

func c06RunPrograms(env *mc.Env) {
	maps := c06ProgramMappings(env)
	auths := c06ProgramAuths()
	var pairs [][2]c06Auth
	for _, a := range auths {
		for _, b := range auths {
			if c06Entails(a, b, 3) && a.String() != b.String() {
				pairs = append(pairs, [2]c06Auth{a, b})
			}
		}
	}
	env.R.Set("program_mappings", int64(len(maps)))
	env.R.Set("program_upcast_pairs", int64(len(pairs)))
	engines := []bool{false, true}
	mc.ParallelFor(env, len(maps), func(i int) {
		m := maps[i]
		viols, classList, evals, harness := c06RunMapping(m, pairs, engines)
		if harness != "" {
			env.R.HarnessError("%s", harness)
			return
		}
		bad := map[int]bool{}
		for _, v := range viols {
			mm, aa, bb := m, pairs[v.pair][0], pairs[v.pair][1]
			bad[v.pair] = true
			env.R.Violation(v.sig, c06Case{Layer: "program", N: 3, Map: &mm, A: &aa, B: &bb}, v.detail)
		}
		classes := c06Classes{}
		for k, c := range classList {
			if !bad[k] {
				classes[c]++
				env.R.Nontrivial(fmt.Sprintf("program|%d|%s|%s", i, pairs[k][0], pairs[k][1]))
			}
		}
		env.R.EvalN(evals)
		classes.flush(env, "mapping "+m.String())
	})
}

// ---------------------------------------------------------------------------
// nested access: sema.GetDescendantReferenceType (the type the checker gives a
// member / element / removed value reached through a reference) over every
// container shape up to two wrappers deep around a reference leaf
// `auth(inner) &Int`, for every outer and inner authorization. Wherever the
// leaf reference ends up in the result, its authorization must be met by every
// holder of the outer authorization and by every holder of the inner one.

var c06Wrappers = []string{"opt", "var", "const", "dict"}

func c06Shapes() [][]string {
	shapes := [][]string{{}}
	for _, a := range c06Wrappers {
		shapes = append(shapes, []string{a})
		for _, b := range c06Wrappers {
			shapes = append(shapes, []string{a, b})
		}
	}
	return shapes
}

func c06ShapeName(shape []string) string {
	s := "ref"
	for i := len(shape) - 1; i >= 0; i-- {
		s = shape[i] + "<" + s + ">"
	}
	return s
}

func c06Wrap(shape []string, leaf sema.Type) sema.Type {
	t := leaf
	for i := len(shape) - 1; i >= 0; i-- {
		switch shape[i] {
		case "opt":
			t = sema.NewOptionalType(nil, t)
		case "var":
			t = sema.NewVariableSizedType(nil, t)
		case "const":
			t = sema.NewConstantSizedType(nil, t, 1)
		case "dict":
			t = sema.NewDictionaryType(nil, sema.StringType, t)
		}
	}
	return t
}

// leaf references (to Int) anywhere inside t
func c06LeafRefs(t sema.Type, out *[]*sema.ReferenceType) {
	switch t := t.(type) {
	case *sema.ReferenceType:
		if t.Type == sema.IntType {
			*out = append(*out, t)
			return
		}
		c06LeafRefs(t.Type, out)
	case *sema.OptionalType:
		c06LeafRefs(t.Type, out)
	case *sema.VariableSizedType:
		c06LeafRefs(t.Type, out)
	case *sema.ConstantSizedType:
		c06LeafRefs(t.Type, out)
	case *sema.DictionaryType:
		c06LeafRefs(t.KeyType, out)
		c06LeafRefs(t.ValueType, out)
	}
}

func c06JudgeNested(r *c06Real, shape []string, outer, inner c06Auth) (sig, detail, class string) {
	leaf := sema.NewReferenceType(nil, r.access(inner), sema.IntType)
	desc := c06Wrap(shape, leaf)
	name := c06ShapeName(shape)
	var got sema.Type
	if p, v, _ := mc.Guard(func() {
		got = sema.GetDescendantReferenceType(nil, desc, sema.UnauthorizedAccess, r.access(outer))
	}); p {
		return "NestedAccess|shape=" + name + "|panic", fmt.Sprint(v), ""
	}
	var leaves []*sema.ReferenceType
	c06LeafRefs(got, &leaves)
	if len(leaves) != 1 {
		return "NestedAccess|shape=" + name + "|leaf-reference-lost", fmt.Sprintf("%s through auth%s: %s", desc, outer, got), ""
	}
	res, ok := r.model(leaves[0].Authorization)
	if !ok {
		return "NestedAccess|shape=" + name + "|unreadable-result", got.String(), ""
	}
	if !c06Entails(outer, res, r.n) || !c06Entails(inner, res, r.n) {
		return fmt.Sprintf("NestedAccess|shape=%s|outer=%s|inner=%s|result=%s|grants-more", name, outer.kindName(), inner.kindName(), res.kindName()),
			fmt.Sprintf("a value of type %s reached through a reference with authorization %s is given the type %s: the inner reference keeps %s, which a holder of %s need not have",
				desc, outer, got, res, outer), ""
	}
	return "", "", fmt.Sprintf("nested:%s:%s,%s->%s", name, outer.kindName(), inner.kindName(), res.kindName())
}

func c06RunNested(env *mc.Env, n int) {
	r := c06NewReal(n)
	auths := c06Auths(n, false)
	shapes := c06Shapes()
	env.R.Set("nested_shapes", int64(len(shapes)))
	mc.ParallelFor(env, len(shapes), func(i int) {
		shape := shapes[i]
		classes := c06Classes{}
		for _, outer := range auths {
			for _, inner := range auths {
				o, in := outer, inner
				env.R.Eval()
				sig, detail, class := c06JudgeNested(r, shape, outer, inner)
				if sig != "" {
					env.R.Violation(sig, c06Case{Layer: "nested", N: n, A: &o, B: &in, Sources: shape}, detail)
					continue
				}
				classes[class]++
				if len(inner.Members) > 0 && !c06Entails(outer, inner, n) {
					env.R.Nontrivial("nested|" + c06ShapeName(shape) + "|" + outer.String() + "|" + inner.String())
				}
			}
		}
		classes.flush(env, "shape "+c06ShapeName(shape))
	})
}

// ---------------------------------------------------------------------------

func runC06(env *mc.Env) {
	n := mc.Pick(env, 3, 4)
	// --sub api|include|program runs one layer only (debugging; no evidence is written)
	if env.Sub == "" || env.Sub == "api" {
		c06RunAPI(env, n)
	}
	if env.Sub == "" || env.Sub == "nested" {
		c06RunNested(env, n)
	}
	if env.Sub == "" || env.Sub == "include" {
		c06RunInclude(env)
	}
	if env.Sub == "" || env.Sub == "program" {
		c06RunPrograms(env)
	}
	env.R.BoundCompleted(fmt.Sprintf("API layer |U|=%d (all authorizations in every insertion order, all 2^(n*n) mappings x identity); include chains over 3 mappings; program layer: mappings over |U|=3 with at most %d relations x identity x all proper upcast pairs, both engines", n, mc.Pick(env, 2, 9)))
}

func replayC06(env *mc.Env, raw json.RawMessage) (bool, string) {
	var c c06Case
	if err := json.Unmarshal(raw, &c); err != nil {
		return false, err.Error()
	}
	r := c06NewReal(c.N)
	switch c.Layer {
	case "permits":
		sig, detail, _ := c06JudgePermits(r, *c.A, *c.B)
		return sig != "", detail
	case "refsub":
		sig, detail, _ := c06JudgeRefSub(r, *c.A, *c.B)
		return sig != "", detail
	case "intersect":
		sig, detail, _ := c06JudgeIntersect(r, *c.A, *c.B)
		return sig != "", detail
	case "image":
		sig, detail, _ := c06JudgeImage(r, sema.NewEntitlementMapAccess(r.mapType(*c.Map)), *c.Map, *c.A)
		return sig != "", detail
	case "nested":
		sig, detail, _ := c06JudgeNested(r, c.Sources, *c.A, *c.B)
		return sig != "", detail
	case "include":
		sig, detail, _ := c06JudgeInclude(c.Sources[0], *c.Map)
		return sig != "", detail
	case "program":
		viols, _, _, harness := c06RunMapping(*c.Map, [][2]c06Auth{{*c.A, *c.B}}, []bool{false, true})
		if harness != "" {
			return false, harness
		}
		if len(viols) == 0 {
			return false, "no violation"
		}
		return true, viols[0].sig + ": " + viols[0].detail
	}
	return false, "unknown layer " + c.Layer
}

func init() {
	mc.Register(&mc.Check{
		ID: "C06",
		Rule: "API layer: over a universe of 3 (quick) / 4 (thorough) entitlements, every authorization (unauthorized, self, every non-empty conjunction and disjunction in every insertion order): " +
			"all ordered pairs for PermitsAccess, reference subtyping and IntersectAccess; all relations R ⊆ U×U x identity flag x all authorizations for Image; " +
			"GetDescendantReferenceType over 21 container shapes (optional / variable / constant array / dictionary, up to two deep) around a reference leaf x all outer x inner authorizations; 4096 contracts with include chains over three mappings resolved by the checker; program layer: for each mapping over 3 entitlements with at most 2 relations (quick: 92) / all 1024 (thorough) a contract with an access(mapping M) field, " +
			"and for each pair a <: b of spellable authorizations a script that upcasts auth(a) &S to auth(b) &S and probes every requirement shape through both (checker), then runs it in both engines; " +
			"oracle = possible-worlds set semantics; non-trivial = mixed conjunction/disjunction pairs, disjunctive inputs of Image/IntersectAccess, include chains of length 2, proper upcasts",
		Assumptions: []string{
			"entitlement universe bounded by 4; worlds are subsets of the universe (monotonicity makes larger worlds redundant)",
			"a mapping that refuses (unrepresentable output) grants nothing and is acceptable",
		},
		Run:    runC06,
		Replay: replayC06,
	})
}

package types

import (
	"testing"

	"verif/gen/tygen"
	"verif/rt"
)

func TestZZ(t *testing.T) {
	l := tygen.NewLedger()
	for _, vm := range []bool{false, true} {
		r := rt.Run(l, rt.Tx{Source: tygen.Import() + `access(all) fun main(): [AnyStruct] { let s = C.S(1); let v: AnyStruct = [&s as auth(C.E, C.F) &C.S]; let w = [&s as auth(C.E, C.F) &C.S]
 return [v.getType(), v.isInstance(Type<[auth(C.E, C.G) &C.S]>()), (v as? [auth(C.E, C.G) &C.S]) != nil, w.getType(), w.isInstance(Type<[auth(C.E, C.G) &C.S]>()), v.isInstance(Type<[auth(C.E, C.F) &C.S]>())] }`, Script: true, UseVM: vm})
		t.Log(vm, r.Value, r.Class, r.ErrString())
	}
}

package types

// C50 — access modifiers and constant fields are enforced by the checker.
//
// Every identifier of this file is prefixed c50/C50 so that the file can be
// moved into package `types` by changing the package clause only.
//
// The check enumerates the full product
//
//	member kind {let, var, fun} x modifier {self, contract, account, all, E}
//	x declaring composite {contract C, nested struct S, nested resource R}
//	x access site {same composite, composite nested in the declaring composite,
//	               sibling composite, function of the same contract, other contract
//	               on the same account, other contract on another account (two
//	               addresses), script, transaction}
//	x via {self.m, v.m, (&v as &T).m, (&v as auth(E) &T).m, (&v as auth(F) &T).m}
//	x operation {read/call, assign, assign in an initializer, second assign in an initializer}
//
// generates one program per expressible cell (one access site per program),
// pushes it through the real runtime (contract deployment / script /
// transaction, i.e. the real checker configuration of the host environment)
// and compares "checker accepted" vs "checker rejected for an access /
// assignment / constant-field reason" with an independent scope model
// (c50Model) written from the property sentence only.

import (
	"encoding/hex"
	"encoding/json"
	"fmt"
	"os"
	"reflect"
	"sort"
	"strings"

	"github.com/onflow/cadence/common"
	"github.com/onflow/cadence/sema"

	"verif/mc"
	"verif/rt"
)

// ---------------------------------------------------------------------------
// Cell coordinates

type c50Cell struct {
	Kind   string `json:"kind"`           // let | var | fun
	Access string `json:"access"`         // self | contract | account | all | E
	Cont   string `json:"in"`             // contract | struct | resource  (the declaring composite)
	Site   string `json:"site"`           // see c50Sites
	Via    string `json:"via"`            // self | value | ref | authref | authref-other
	Op     string `json:"op"`             // read (call for fun) | assign | init-assign | init-assign2
	Acct   string `json:"acct,omitempty"` // other-contract-other-account only: "0x2" | "far"
	Ext    string `json:"ext,omitempty"`  // thorough-tier variant: "" | optional | closure | iface | swap | decl-far
}

var (
	c50Kinds    = []string{"let", "var", "fun"}
	c50Accesses = []string{"self", "contract", "account", "all", "E"}
	c50Conts    = []string{"contract", "struct", "resource"}
	c50Sites    = []string{"same-composite", "nested-composite", "sibling-composite", "same-contract",
		"other-contract-same-account", "other-contract-other-account", "script", "transaction"}
	c50Vias = []string{"self", "value", "ref", "authref", "authref-other"}
	c50Ops  = []string{"read", "assign", "init-assign", "init-assign2"}
)

func (c c50Cell) accessText() string {
	if c.Access == "E" {
		return "access(E)"
	}
	return "access(" + c.Access + ")"
}

func (c c50Cell) memberClass() string {
	if c.Kind == "fun" {
		return "function"
	}
	return "field-" + c.Kind
}

func (c c50Cell) opText() string {
	if c.Kind == "fun" && c.Op == "read" {
		return "call"
	}
	return c.Op
}

// coords is the structural name of the cell (never source text).
func (c c50Cell) coords() string {
	s := fmt.Sprintf("%s|%s|in=%s|site=%s|via=%s|op=%s", c.memberClass(), c.accessText(), c.Cont, c.Site, c.Via, c.opText())
	if c.Acct != "" && c.Acct != "0x2" {
		s += "|acct=" + c.Acct
	}
	if c.Ext != "" {
		s += "|ext=" + c.Ext
	}
	return s
}

// ---------------------------------------------------------------------------
// The oracle: an independent scope model, written from the property sentence.
//
//	(1) "The checker accepts a read or call of a member exactly when the access
//	     site is permitted by the member's modifier.
//	(2)  access(self) allows only the declaring composite,
//	(3)  access(contract) the enclosing contract,
//	(4)  access(account) code deployed to the same account,
//	(5)  and access(all) or a satisfied entitlement everyone.
//	(6)  Assignment to a field is accepted only inside the declaring composite,
//	(7)  and a let field is assigned only once, in its initializer."
//
// Don't-care cells (the sentence does not settle them; they never alarm):
//
//	DC1 fragment (2)/(6) "the declaring composite": a composite declared
//	    lexically *inside* the declaring composite (only a contract can contain
//	    one) is neither clearly part of "the declaring composite" nor clearly
//	    outside it. -> access(self) read/call and `var` assignment from a
//	    nested composite.
//	DC2 fragment (5) "a satisfied entitlement [allows] everyone" says nothing
//	    about an *unsatisfied* entitlement at a site that every scope modifier
//	    would admit: inside the declaring composite through `&T` / `auth(F) &T`.
//	    (Outside the declaring composite an unsatisfied entitlement permits
//	    nobody: hard reject.)
//	DC3 fragment (6) "accepted only inside" is a necessary condition. The
//	    accept direction is taken as intended for `self.m = x` and `v.m = x`
//	    (owned value) inside the declaring composite; assignment *through a
//	    reference* inside the declaring composite is not settled.
//
// "satisfied entitlement": an owned value (incl. self) is fully authorized =
// satisfied; `auth(E) &T` = satisfied; `&T` and `auth(F) &T` = not satisfied.
// A script or transaction is not "code deployed to the same account", whoever
// signs it (4) -> access(account) rejects there.
// A value other than `self` has completed its initializer, and in the
// generated initializers `self.m = 1` always precedes the judged statement,
// so any `let` assignment that is not the single `self.m = 1` of the
// declaring initializer is a second assignment or outside "its initializer" (7).

const (
	c50Accept   = "accept"
	c50Reject   = "reject"
	c50DontCare = "dont-care"
)

func c50Model(c c50Cell) (expected string, why string) {
	if c.Ext == "inherited" {
		// The member is a default function declared in an interface of ANOTHER
		// contract D and inherited by a composite of contract C. The member's
		// "enclosing contract" (3) is D, its account (4) is D's account: code in C
		// or in a script is never inside D; it is deployed to D's account only
		// when C and D share the account.
		switch c.Access {
		case "all":
			return c50Accept, "(5) access(all): everyone"
		case "contract":
			return c50Reject, "(3) access(contract): the access site is not in the contract that declares the member"
		case "account":
			if c.Acct == "same" && c.Site != "script" {
				return c50Accept, "(4) access(account): inheriting contract deployed to the declaring account"
			}
			return c50Reject, "(4) access(account): not code deployed to the declaring account"
		}
		panic("c50: bad inherited access " + c.Access)
	}
	inDecl := c.Site == "same-composite"
	nested := c.Site == "nested-composite"
	inContract := inDecl || nested || c.Site == "sibling-composite" || c.Site == "same-contract"
	inAccount := inContract || c.Site == "other-contract-same-account"
	satisfied := c.Via == "self" || c.Via == "value" || c.Via == "authref"
	yes := func(b bool, w string) (string, string) {
		if b {
			return c50Accept, w
		}
		return c50Reject, w
	}
	read := func() (string, string) {
		switch c.Access {
		case "all":
			return c50Accept, "(5) access(all): everyone"
		case "E":
			if satisfied {
				return c50Accept, "(5) satisfied entitlement: everyone"
			}
			if inDecl {
				return c50DontCare, "DC2 unsatisfied entitlement inside the declaring composite"
			}
			return c50Reject, "(5) entitlement not satisfied"
		case "self":
			if nested {
				return c50DontCare, "DC1 access(self) from a composite nested inside the declaring composite"
			}
			return yes(inDecl, "(2) access(self): only the declaring composite")
		case "contract":
			return yes(inContract, "(3) access(contract): the enclosing contract")
		case "account":
			return yes(inAccount, "(4) access(account): code deployed to the same account")
		}
		panic("c50: bad access " + c.Access)
	}
	if c.Op == "read" {
		return read()
	}
	if c.Kind == "let" {
		// (ext=swap: the swap statement always follows the initializer's `self.m = 1`,
		// so it is a second assignment)
		if c.Op == "init-assign" && inDecl && c.Via == "self" && c.Ext != "swap" {
			return c50Accept, "(7) the single assignment of a let field in its initializer"
		}
		return c50Reject, "(7) let field assigned outside its initializer or a second time"
	}
	// var field
	if nested {
		return c50DontCare, "DC1 assignment from a composite nested inside the declaring composite"
	}
	if !inDecl {
		return c50Reject, "(6) assignment outside the declaring composite"
	}
	if r, w := read(); r != c50Accept {
		return c50DontCare, w
	}
	if c.Via != "self" && c.Via != "value" {
		return c50DontCare, "DC3 assignment through a reference inside the declaring composite"
	}
	return c50Accept, "(6) var field assigned inside the declaring composite"
}

// ---------------------------------------------------------------------------
// Expressibility: the raw product minus what cannot be written (counted).

func c50Expressible(c c50Cell) (ok bool, dropReason string) {
	switch {
	case c.Kind == "fun" && c.Op != "read":
		return false, "function member is not a field (assignment ops apply to fields)"
	case c.Via == "self" && c.Site != "same-composite":
		return false, "self.m outside the declaring composite denotes another object"
	case c.Site == "nested-composite" && c.Cont != "contract":
		return false, "composites can only be nested in a contract (struct/resource cannot contain a composite)"
	case c.Site == "sibling-composite" && c.Cont == "contract":
		return false, "a contract member has no sibling composite (that is the nested-composite / other-contract site)"
	case c.Site == "same-contract" && c.Cont == "contract":
		return false, "same-contract function coincides with same-composite for a contract member"
	case (c.Site == "script" || c.Site == "transaction") && (c.Op == "init-assign" || c.Op == "init-assign2"):
		return false, "scripts and transactions have no initializer"
	case c.Access == "E" && c.Cont == "contract":
		return false, "entitlement access is not declarable on a contract member (confirmed at run time)"
	}
	switch c.Ext {
	case "optional":
		if c.Op != "read" {
			return false, "ext=optional: assignment through optional chaining is not supported by the language"
		}
		if c.Via == "self" {
			return false, "ext=optional: self is never optional"
		}
		if c.Cont == "contract" && c.Via == "value" {
			return false, "ext=optional: a contract value cannot be copied into an optional"
		}
	case "closure":
		if c.Op != "read" && c.Op != "assign" {
			return false, "ext=closure: initializer ops are not repeated inside closures"
		}
		if c.Via == "self" && c.Cont == "resource" {
			return false, "ext=closure: a closure cannot capture a resource-typed self"
		}
	case "swap":
		if c.Op == "read" {
			return false, "ext=swap: the swap statement is an assignment form"
		}
	case "iface":
		if c.Cont == "contract" {
			return false, "ext=iface: member declared in a struct/resource interface only"
		}
		if c.Site == "same-composite" {
			return false, "ext=iface: an interface has no initializer; interface-internal default functions not generated"
		}
		if c.Access == "self" {
			return false, "ext=iface: access(self) is not declarable in an interface (confirmed at run time)"
		}
	}
	return true, ""
}

// ---------------------------------------------------------------------------
// Program generator

type c50Src struct {
	Addr string `json:"addr"` // 16 hex digits
	Name string `json:"name"`
	Code string `json:"code"`
}

// c50Case is the replayable unit: cell coordinates plus the generated sources.
type c50Case struct {
	Cell   c50Cell  `json:"cell"`
	Setup  []c50Src `json:"setup"`            // deployed first; must be accepted
	Judged *c50Src  `json:"judged,omitempty"` // the deployment whose acceptance is judged, or
	Script string   `json:"script,omitempty"` // the script / transaction whose acceptance is judged
	IsTx   bool     `json:"is_tx,omitempty"`
	Signer string   `json:"signer,omitempty"`
	VM     bool     `json:"vm"`
}

var (
	c50AddrC   = common.Address{0, 0, 0, 0, 0, 0, 0, 1}
	c50Addr2   = common.Address{0, 0, 0, 0, 0, 0, 0, 2}
	c50AddrFar = common.Address{1, 0, 0, 0, 0, 0, 0, 1} // differs from 0x1 in the first byte only
)

func c50Hex(a common.Address) string { return hex.EncodeToString(a[:]) }

// c50DeclAddr is the account of the declaring contract C; c50OtherAddr the
// account of the accessing contract O for the two other-contract sites.
// ext=decl-far swaps the roles of 0x1 and the far address.
func c50DeclAddr(c c50Cell) common.Address {
	if c.Ext == "decl-far" {
		return c50AddrFar
	}
	return c50AddrC
}

func c50OtherAddr(c c50Cell) common.Address {
	if c.Site == "other-contract-same-account" {
		return c50DeclAddr(c)
	}
	if c.Acct == "far" {
		if c.Ext == "decl-far" {
			return c50AddrC
		}
		return c50AddrFar
	}
	return c50Addr2
}

func c50Import(c c50Cell) string { return "import C from 0x" + c50Hex(c50DeclAddr(c)) + "\n" }

func c50ParseAddr(s string) common.Address {
	var a common.Address
	b, _ := hex.DecodeString(s)
	copy(a[:], b)
	return a
}

func c50DeclName(cont string) string {
	switch cont {
	case "contract":
		return "C"
	case "struct":
		return "S"
	case "resource":
		return "R"
	}
	panic(cont)
}

// c50MemberDecl renders the member declaration (iface: without body).
func c50MemberDecl(c c50Cell, inInterface bool) string {
	switch c.Kind {
	case "let", "var":
		return fmt.Sprintf("%s %s m: Int", c.accessText(), c.Kind)
	case "fun":
		if inInterface {
			return fmt.Sprintf("%s fun m(): Int", c.accessText())
		}
		return fmt.Sprintf("%s fun m(): Int { return 1 }", c.accessText())
	}
	panic(c.Kind)
}

// c50Access renders the statements of the access site.
// inside: the code sits inside contract C (unqualified type names).
// inDeclInit: the statements go into the initializer of the declaring composite
// (the base `self.m = 1` is emitted by the caller).
func c50Access(c c50Cell, inside bool) string {
	q := "C."
	if inside {
		q = ""
	}
	tyName := q + c50DeclName(c.Cont)
	if c.Cont == "contract" {
		tyName = "C"
	}
	refTy := tyName
	if c.Ext == "iface" {
		refTy = "{" + q + c50DeclName(c.Cont) + "I}"
	}
	var setup, teardown []string
	base := "v"
	switch c.Cont {
	case "contract":
		base = "C"
	case "struct":
		mk := "C.mkS()"
		if inside {
			mk = "S()"
		}
		if c.Via != "self" {
			if c.Ext == "iface" {
				setup = append(setup, fmt.Sprintf("var v: %s = %s", refTy, mk))
			} else {
				setup = append(setup, "var v = "+mk)
			}
		}
	case "resource":
		mk := "C.mkR()"
		if inside {
			mk = "create R()"
		}
		if c.Via != "self" {
			if c.Ext == "iface" {
				setup = append(setup, fmt.Sprintf("let v: @%s <- %s", refTy, mk))
			} else {
				setup = append(setup, "let v <- "+mk)
			}
			teardown = append(teardown, "destroy v")
		}
	}
	var target string
	mkRef := func(auth string) string {
		if c.Cont == "contract" {
			// `&C` is not an expression (a contract name can only be used as `C.x`);
			// the only way to a contract reference is the account API
			return fmt.Sprintf("(getAccount(0x%s).contracts.borrow<%s&C>(name: \"C\")!)", c50Hex(c50DeclAddr(c)), auth)
		}
		return fmt.Sprintf("(&%s as %s&%s)", base, auth, refTy)
	}
	switch c.Via {
	case "self":
		target = "self"
	case "value":
		target = base
	case "ref":
		target = mkRef("")
	case "authref":
		target = mkRef("auth(" + q + "E) ")
	case "authref-other":
		target = mkRef("auth(" + q + "F) ")
	default:
		panic(c.Via)
	}
	if c.Op != "read" && target[0] == '(' {
		// a cast expression is not an assignment target: bind the reference first
		setup = append(setup, "let r = "+target[1:len(target)-1])
		target = "r"
	}
	chain := "."
	resTy := "Int"
	if c.Ext == "optional" {
		chain, resTy = "?.", "Int?"
		switch c.Via {
		case "value":
			if c.Cont == "resource" {
				// move the resource into an optional and destroy that instead
				setup[len(setup)-1] = strings.Replace(setup[len(setup)-1], "let v <- ", "let o: @"+tyName+"? <- ", 1)
				teardown = []string{"destroy o"}
			} else {
				setup = append(setup, fmt.Sprintf("let o: %s? = v", tyName))
			}
		case "ref":
			setup = append(setup, fmt.Sprintf("let o: &%s? = %s", refTy, target))
		case "authref":
			setup = append(setup, fmt.Sprintf("let o: auth(%sE) &%s? = %s", q, refTy, target))
		case "authref-other":
			setup = append(setup, fmt.Sprintf("let o: auth(%sF) &%s? = %s", q, refTy, target))
		}
		target = "o"
	}
	var stmts []string
	switch c.Op {
	case "read":
		if c.Kind == "fun" {
			stmts = append(stmts, fmt.Sprintf("let x: %s = %s%sm()", resTy, target, chain))
		} else {
			stmts = append(stmts, fmt.Sprintf("let x: %s = %s%sm", resTy, target, chain))
		}
	case "assign", "init-assign":
		stmts = append(stmts, target+".m = 2")
	case "init-assign2":
		stmts = append(stmts, target+".m = 2", target+".m = 3")
	}
	if c.Ext == "swap" {
		// the swap statement assigns to the field as well
		stmts = []string{"var t = 5", target + ".m <-> t"}
		if c.Op == "init-assign2" {
			stmts = append(stmts, target+".m <-> t")
		}
	}
	all := append(append(setup, stmts...), teardown...)
	body := strings.Join(all, "; ")
	if c.Ext == "closure" {
		body = "let f = fun (): Void { " + body + " }; f()"
	}
	return body
}

// c50ContractC renders the declaring contract. withSite: the access site of an
// inside-the-contract cell is included (then C itself is the judged program).
func c50ContractC(c c50Cell, withSite bool) string {
	isField := c.Kind != "fun"
	decl := c50DeclName(c.Cont)
	member := map[string]string{"C": "", "S": "", "R": ""}
	imember := map[string]string{"S": "", "R": ""}
	member[decl] = c50MemberDecl(c, false)
	if c.Ext == "iface" {
		imember[decl] = c50MemberDecl(c, true)
	}
	initOf := map[string]string{"C": "", "S": "", "R": "", "T": ""}
	fnOf := map[string]string{"C": "", "S": "", "R": "", "T": ""}
	if isField {
		initOf[decl] = "self.m = 1"
	}
	if withSite {
		var siteComp string
		switch c.Site {
		case "same-composite":
			siteComp = decl
		case "nested-composite", "sibling-composite":
			siteComp = "T"
		case "same-contract":
			siteComp = "C"
		default:
			panic("c50: not an inside site: " + c.Site)
		}
		switch c.Op {
		case "read", "assign":
			fnOf[siteComp] = "access(all) fun site() { " + c50Access(c, true) + " }"
		case "init-assign", "init-assign2":
			if siteComp == decl && c.Via == "self" && c.Ext != "swap" {
				// the initializer's own assignment is the judged one
				initOf[siteComp] = "self.m = 1"
				if c.Op == "init-assign2" {
					initOf[siteComp] = "self.m = 1; self.m = 2"
				}
			} else {
				body := c50Access(c, true)
				if initOf[siteComp] != "" {
					body = initOf[siteComp] + "; " + body
				}
				initOf[siteComp] = body
			}
		}
	}
	sConf, rConf := "", ""
	if c.Ext == "iface" {
		sConf, rConf = ": SI", ": RI"
	}
	var sb strings.Builder
	sb.WriteString("access(all) contract C {\n")
	sb.WriteString("  access(all) entitlement E\n  access(all) entitlement F\n")
	if member["C"] != "" {
		sb.WriteString("  " + member["C"] + "\n")
	}
	if c.Ext == "iface" {
		fmt.Fprintf(&sb, "  access(all) struct interface SI { %s }\n", imember["S"])
		fmt.Fprintf(&sb, "  access(all) resource interface RI { %s }\n", imember["R"])
	}
	fmt.Fprintf(&sb, "  access(all) struct S%s {\n    %s\n    %s\n    init() { %s }\n  }\n", sConf, member["S"], fnOf["S"], initOf["S"])
	fmt.Fprintf(&sb, "  access(all) resource R%s {\n    %s\n    %s\n    init() { %s }\n  }\n", rConf, member["R"], fnOf["R"], initOf["R"])
	fmt.Fprintf(&sb, "  access(all) struct T {\n    %s\n    init() { %s }\n  }\n", fnOf["T"], initOf["T"])
	sb.WriteString("  access(all) fun mkS(): S { return S() }\n")
	sb.WriteString("  access(all) fun mkR(): @R { return <- create R() }\n")
	if fnOf["C"] != "" {
		sb.WriteString("  " + fnOf["C"] + "\n")
	}
	fmt.Fprintf(&sb, "  init() { %s }\n}\n", initOf["C"])
	return sb.String()
}

// c50Build generates the program of a cell.
func c50Build(c c50Cell, vm bool) c50Case {
	cs := c50Case{Cell: c, VM: vm}
	switch c.Site {
	case "same-composite", "nested-composite", "sibling-composite", "same-contract":
		cs.Judged = &c50Src{Addr: c50Hex(c50DeclAddr(c)), Name: "C", Code: c50ContractC(c, true)}
		return cs
	}
	cs.Setup = []c50Src{{Addr: c50Hex(c50DeclAddr(c)), Name: "C", Code: c50ContractC(c, false)}}
	acc := c50Access(c, false)
	switch c.Site {
	case "other-contract-same-account", "other-contract-other-account":
		addr := c50OtherAddr(c)
		fn, ini := "", ""
		if c.Op == "read" || c.Op == "assign" {
			fn = "access(all) fun site() { " + acc + " }"
		} else {
			ini = acc
		}
		cs.Judged = &c50Src{Addr: c50Hex(addr), Name: "O",
			Code: fmt.Sprintf("%saccess(all) contract O {\n  %s\n  init() { %s }\n}\n", c50Import(c), fn, ini)}
	case "script":
		cs.Script = c50Import(c) + "access(all) fun main() { " + acc + " }\n"
	case "transaction":
		cs.Script = c50Import(c) + "transaction {\n  prepare(a: &Account) {}\n  execute { " + acc + " }\n}\n"
		cs.IsTx = true
		cs.Signer = c50Hex(c50DeclAddr(c)) // signed by the declaring account: still not code deployed to it
	default:
		panic(c.Site)
	}
	return cs
}

// ---------------------------------------------------------------------------
// Running and classifying

func c50DeployTx(l *rt.Ledger, s c50Src, vm bool) *rt.Result {
	src := fmt.Sprintf(`transaction { prepare(signer: auth(Contracts) &Account) { signer.contracts.add(name: %q, code: "%x".decodeHex()) } }`, s.Name, s.Code)
	return rt.Run(l, rt.Tx{Source: src, Signers: []common.Address{c50ParseAddr(s.Addr)}, UseVM: vm})
}

// c50Observed is the checker's answer.
type c50Observed struct {
	Verdict string   // "accepted" | "rejected" | "other"
	Kinds   []string // sorted distinct checker error kinds (rejected) / error kind (other)
	Err     string
	// RuntimeFailure: the checker accepted, the execution that followed failed (kind)
	RuntimeFailure string
}

func (o c50Observed) key() string {
	if o.Verdict == "accepted" {
		if o.RuntimeFailure != "" {
			return "accepted(then failed at run time)"
		}
		return "accepted"
	}
	return o.Verdict + ":" + strings.Join(o.Kinds, "+")
}

// The error kinds that mean "rejected for an access / assignment / constant-field reason".
var c50ReasonKinds = map[string]bool{
	"*sema.InvalidAccessError":                   true,
	"*sema.InvalidAssignmentAccessError":         true,
	"*sema.AssignmentToConstantMemberError":      true,
	"*sema.FieldReinitializationError":           true,
	"*sema.UnauthorizedReferenceAssignmentError": true,
}

// c50WalkErr collects the kinds of all checker errors below err.
func c50WalkErr(err error, kinds map[string]string, sawChecker, sawParseCheck *bool, depth int) {
	if err == nil || depth > 40 {
		return
	}
	if strings.HasSuffix(reflect.TypeOf(err).String(), "ParsingCheckingError") {
		*sawParseCheck = true
	}
	if ce, ok := err.(*sema.CheckerError); ok {
		*sawChecker = true
		for _, ch := range ce.ChildErrors() {
			// (an error of an imported program would show up here as its wrapper kind,
			// which is not an access reason -> generator defect)
			k := reflect.TypeOf(ch).String()
			if _, seen := kinds[k]; !seen {
				kinds[k] = ch.Error()
			}
		}
		return
	}
	if u, ok := err.(interface{ Unwrap() error }); ok {
		if next := u.Unwrap(); next != nil {
			c50WalkErr(next, kinds, sawChecker, sawParseCheck, depth+1)
			return
		}
	}
	if p, ok := err.(interface{ ChildErrors() []error }); ok {
		for _, ch := range p.ChildErrors() {
			c50WalkErr(ch, kinds, sawChecker, sawParseCheck, depth+1)
		}
	}
}

func c50HasParserError(err error, depth int) bool {
	if err == nil || depth > 40 {
		return false
	}
	if strings.Contains(reflect.TypeOf(err).String(), "parser.") {
		return true
	}
	if u, ok := err.(interface{ Unwrap() error }); ok {
		if next := u.Unwrap(); next != nil {
			return c50HasParserError(next, depth+1)
		}
	}
	if p, ok := err.(interface{ ChildErrors() []error }); ok {
		for _, ch := range p.ChildErrors() {
			if c50HasParserError(ch, depth+1) {
				return true
			}
		}
	}
	return false
}

func c50Classify(res *rt.Result) c50Observed {
	if res.EscapedPanic != nil {
		return c50Observed{Verdict: "other", Kinds: []string{"escaped-panic"}, Err: res.ErrString()}
	}
	if res.Err == nil {
		return c50Observed{Verdict: "accepted"}
	}
	kinds := map[string]string{}
	var sawChecker, sawPC bool
	c50WalkErr(res.Err, kinds, &sawChecker, &sawPC, 0)
	if sawChecker {
		var ks, msgs []string
		for k := range kinds {
			ks = append(ks, k)
		}
		sort.Strings(ks)
		for _, k := range ks {
			msgs = append(msgs, kinds[k])
		}
		return c50Observed{Verdict: "rejected", Kinds: ks, Err: strings.Join(msgs, " / ")}
	}
	// Not a checker error. A user-level failure without any parsing/checking error in
	// the chain happened *after* the checker accepted the program (e.g. borrowing a
	// contract reference inside that contract's own initializer yields nil): the
	// checker's verdict is "accepted". Anything else is a generator defect.
	if !sawPC && !c50HasParserError(res.Err, 0) && res.Class == "user" {
		return c50Observed{Verdict: "accepted", RuntimeFailure: res.Kind, Err: res.ErrString()}
	}
	return c50Observed{Verdict: "other", Kinds: []string{res.Class + "/" + res.Kind}, Err: res.ErrString()}
}

// c50RunCase deploys the setup on top of base (nil: fresh ledger) and runs the judged program.
func c50RunCase(base *rt.Ledger, cs c50Case) (c50Observed, error) {
	var l *rt.Ledger
	if base != nil {
		l = base.Clone()
	} else {
		l = rt.NewLedger()
		for _, s := range cs.Setup {
			r := c50DeployTx(l, s, cs.VM)
			if !r.OK() {
				return c50Observed{}, fmt.Errorf("setup deployment of %s rejected: %s", s.Name, r.ErrString())
			}
		}
	}
	var res *rt.Result
	if cs.Judged != nil {
		res = c50DeployTx(l, *cs.Judged, cs.VM)
	} else {
		tx := rt.Tx{Source: cs.Script, Script: !cs.IsTx, UseVM: cs.VM}
		if cs.IsTx {
			tx.Signers = []common.Address{c50ParseAddr(cs.Signer)}
		}
		res = rt.Run(l, tx)
	}
	return c50Classify(res), nil
}

// c50Judge compares the observation with the model. bad == "" means fine.
// harness != "" means the generated program is defective (never a violation).
func c50Judge(c c50Cell, obs c50Observed) (bad string, harness string, expected string, why string) {
	expected, why = c50Model(c)
	switch obs.Verdict {
	case "other":
		return "", fmt.Sprintf("generated program failed for a non-checker reason %v: %s", obs.Kinds, obs.Err), expected, why
	case "rejected":
		for _, k := range obs.Kinds {
			if !c50ReasonKinds[k] {
				return "", fmt.Sprintf("generated program rejected with a non-access checker error %v: %s", obs.Kinds, obs.Err), expected, why
			}
		}
		if expected == c50Accept {
			return "rejected-but-model-accepts", "", expected, why
		}
	case "accepted":
		if expected == c50Reject {
			return "accepted-but-model-rejects", "", expected, why
		}
	}
	return "", "", expected, why
}

// ---------------------------------------------------------------------------
// Enumeration

type c50Decl struct{ Kind, Access, Cont, Ext string }

func c50Exts(env *mc.Env) []string {
	if env.Thorough() {
		return []string{"", "optional", "closure", "iface", "swap", "decl-far"}
	}
	return []string{""}
}

// c50Cells enumerates the raw product of one declaration in a fixed order.
func c50Cells(d c50Decl, each func(c c50Cell)) {
	for _, site := range c50Sites {
		accts := []string{""}
		if site == "other-contract-other-account" {
			accts = []string{"0x2", "far"}
		}
		for _, acct := range accts {
			for _, via := range c50Vias {
				for _, op := range c50Ops {
					each(c50Cell{Kind: d.Kind, Access: d.Access, Cont: d.Cont, Site: site, Via: via, Op: op, Acct: acct, Ext: d.Ext})
				}
			}
		}
	}
}

func c50Run(env *mc.Env) {
	var decls []c50Decl
	for _, ext := range c50Exts(env) {
		for _, k := range c50Kinds {
			for _, a := range c50Accesses {
				for _, ct := range c50Conts {
					decls = append(decls, c50Decl{k, a, ct, ext})
				}
			}
		}
	}
	engines := []bool{false, true}

	// The declarations assumed not to be expressible must really be refused by the
	// checker (otherwise the enumeration silently lost a part of the space).
	c50ConfirmInexpressible(env)

	mc.ParallelFor(env, len(decls), func(i int) {
		d := decls[i]
		var raw, dropped int64
		drops := map[string]int64{}
		var cells []c50Cell
		c50Cells(d, func(c c50Cell) {
			raw++
			if ok, why := c50Expressible(c); !ok {
				dropped++
				drops[why]++
				return
			}
			cells = append(cells, c)
		})
		env.R.Add("raw_product_cells", raw)
		env.R.Add("dropped_inexpressible_cells", dropped)
		for w, n := range drops {
			env.R.Add("dropped: "+w, n)
		}
		if len(cells) == 0 {
			return
		}
		// base ledgers: the declaring contract deployed once per engine
		bases := map[bool]*rt.Ledger{}
		for _, vm := range engines {
			l := rt.NewLedger()
			baseCell := cells[0]
			r := c50DeployTx(l, c50Src{Addr: c50Hex(c50DeclAddr(baseCell)), Name: "C", Code: c50ContractC(baseCell, false)}, vm)
			if !r.OK() {
				env.R.HarnessError("base contract of %v (vm=%v) rejected: %s\n%s", d, vm, r.ErrString(), c50ContractC(baseCell, false))
				return
			}
			bases[vm] = l
		}
		for _, c := range cells {
			if env.Expired() {
				env.R.NotExhaustive("deadline inside declaration " + fmt.Sprint(d))
				return
			}
			var first string
			for _, vm := range engines {
				cs := c50Build(c, vm)
				var base *rt.Ledger
				if len(cs.Setup) > 0 {
					base = bases[vm]
				} else {
					base = rt.NewLedger()
				}
				obs, err := c50RunCase(base, cs)
				if err != nil {
					env.R.HarnessError("%s: %v", c.coords(), err)
					continue
				}
				env.R.Eval()
				bad, harness, expected, why := c50Judge(c, obs)
				if dump := os.Getenv("C50_DUMP"); dump != "" && strings.Contains(c.coords(), dump) {
					fmt.Fprintf(os.Stderr, "=== %s vm=%v\nmodel: %s [%s]\nchecker: %s\n%s\n", c.coords(), vm, expected, why, obs.key(), c50Show(cs))
				}
				if harness != "" {
					env.R.HarnessError("%s: %s\n%s", c.coords(), harness, c50Show(cs))
					continue
				}
				if vm && first != obs.key() {
					// the checker must not depend on the engine
					env.R.Violation(c.coords()+"|checker-verdict-differs-between-engines", cs,
						fmt.Sprintf("interpreter environment: %s, VM environment: %s\n%s", first, obs.key(), c50Show(cs)))
				}
				first = obs.key()
				if bad != "" {
					env.R.Violation(c.coords()+"|"+bad, cs,
						fmt.Sprintf("model: %s [%s]; checker: %s %s\n%s", expected, why, obs.key(), obs.Err, c50Show(cs)))
					continue
				}
				if expected == c50DontCare {
					env.R.DontCare.Add(1)
				}
				cls := "expected=" + expected + "|observed=" + obs.key()
				cc := cs
				env.R.Class(cls, func() any { return map[string]any{"cell": cc.Cell.coords(), "program": c50Show(cc)} })
				// non-trivial: the modifier (or the let/assignment rule) actually restricted
				// something, or a restricted (non-access(all)) member was accepted
				if expected == c50Reject || (obs.Verdict == "accepted" && (c.Access != "all" || c.Op != "read")) {
					env.R.Nontrivial(c.coords())
				}
				env.R.State(c.coords())
			}
		}
	})
	c50RunInherited(env)
	env.R.BoundCompleted(fmt.Sprintf("full product of %d declarations x sites x vias x ops (exts %v), both engines", len(decls), c50Exts(env)))
}

// ---------------------------------------------------------------------------
// Inherited members: a default function declared in a struct / resource
// interface of another contract D (same account or account 0x2), inherited by a
// composite S of contract C (0x1), used from inside S (self / another S value /
// a reference), from a sibling composite of C, from a function of C, and from
// a script.

func c50InheritedCells() []c50Cell {
	var out []c50Cell
	for _, acct := range []string{"same", "0x2"} {
		for _, access := range []string{"contract", "account", "all"} {
			for _, cont := range []string{"struct", "resource"} {
				for _, site := range []string{"same-composite", "sibling-composite", "same-contract", "script"} {
					for _, via := range []string{"self", "value", "ref"} {
						if via == "self" && site != "same-composite" {
							continue
						}
						if cont == "resource" && (via == "value" || site == "script") {
							continue // a resource parameter / a resource created in a script is not expressible here
						}
						if site == "script" && via != "value" {
							continue
						}
						out = append(out, c50Cell{Kind: "fun", Access: access, Cont: cont, Site: site, Via: via, Op: "read", Acct: acct, Ext: "inherited"})
					}
				}
			}
		}
	}
	return out
}

func c50InheritedBuild(c c50Cell, vm bool) c50Case {
	dAddr := c50AddrC
	if c.Acct == "0x2" {
		dAddr = c50Addr2
	}
	kind := c.Cont
	d := fmt.Sprintf("access(all) contract D {\n  access(all) %s interface I {\n    access(%s) fun m(): Int { return 1 }\n  }\n  init() {}\n}\n", kind, c.Access)
	param := "other: S"
	recv := "other"
	switch {
	case c.Via == "self":
		recv = "self"
		param = ""
	case c.Via == "ref" || kind == "resource":
		param = "other: &S"
	}
	test := fmt.Sprintf("access(all) fun test(%s): Int { return %s.m() }", param, recv)
	if c.Via == "ref" && kind == "struct" {
		test = "access(all) fun test(other: S): Int { return (&other as &S).m() }"
	}
	site := func(s string) string {
		if c.Site == s {
			return "\n    " + test
		}
		return ""
	}
	var sb strings.Builder
	fmt.Fprintf(&sb, "import D from 0x%s\naccess(all) contract C {\n", c50Hex(dAddr))
	fmt.Fprintf(&sb, "  access(all) %s S: D.I {\n    init() {}%s\n  }\n", kind, site("same-composite"))
	fmt.Fprintf(&sb, "  access(all) struct Sib {\n    init() {}%s\n  }\n", site("sibling-composite"))
	if c.Site == "same-contract" {
		sb.WriteString("  " + test + "\n")
	}
	sb.WriteString("  init() {}\n}\n")
	cs := c50Case{Cell: c, VM: vm, Setup: []c50Src{{Addr: c50Hex(dAddr), Name: "D", Code: d}}}
	cSrc := c50Src{Addr: c50Hex(c50AddrC), Name: "C", Code: sb.String()}
	if c.Site == "script" {
		cs.Setup = append(cs.Setup, cSrc)
		cs.Script = fmt.Sprintf("import C from 0x%s\naccess(all) fun main(): Int { let s = C.S(); return s.m() }\n", c50Hex(c50AddrC))
	} else {
		cs.Judged = &cSrc
	}
	return cs
}

func c50RunInherited(env *mc.Env) {
	cells := c50InheritedCells()
	env.R.Set("inherited_member_cells", int64(len(cells)))
	mc.ParallelFor(env, len(cells), func(i int) {
		c := cells[i]
		first := ""
		for _, vm := range []bool{false, true} {
			cs := c50InheritedBuild(c, vm)
			obs, err := c50RunCase(nil, cs)
			if err != nil {
				env.R.HarnessError("%s: %v\n%s", c.coords(), err, c50Show(cs))
				return
			}
			env.R.Eval()
			bad, harness, expected, why := c50Judge(c, obs)
			if harness != "" {
				env.R.HarnessError("%s: %s\n%s", c.coords(), harness, c50Show(cs))
				return
			}
			if vm && first != obs.key() {
				env.R.Violation(c.coords()+"|checker-verdict-differs-between-engines", cs,
					fmt.Sprintf("interpreter environment: %s, VM environment: %s\n%s", first, obs.key(), c50Show(cs)))
			}
			first = obs.key()
			if bad != "" {
				env.R.Violation(c.coords()+"|"+bad, cs,
					fmt.Sprintf("model: %s [%s]; checker: %s %s\n%s", expected, why, obs.key(), obs.Err, c50Show(cs)))
				continue
			}
			cls := "inherited|expected=" + expected + "|observed=" + obs.key()
			cc := cs
			env.R.Class(cls, func() any { return map[string]any{"cell": cc.Cell.coords(), "program": c50Show(cc)} })
			if expected == c50Reject || c.Access != "all" {
				env.R.Nontrivial(c.coords())
			}
			env.R.State(c.coords())
		}
	})
}

func c50Show(cs c50Case) string {
	var sb strings.Builder
	for _, s := range cs.Setup {
		fmt.Fprintf(&sb, "// setup: contract %s at 0x%s\n%s", s.Name, s.Addr, s.Code)
	}
	if cs.Judged != nil {
		fmt.Fprintf(&sb, "// judged: deployment of contract %s at 0x%s (vm=%v)\n%s", cs.Judged.Name, cs.Judged.Addr, cs.VM, cs.Judged.Code)
	} else {
		kind := "script"
		if cs.IsTx {
			kind = "transaction signed by 0x" + cs.Signer
		}
		fmt.Fprintf(&sb, "// judged: %s (vm=%v)\n%s", kind, cs.VM, cs.Script)
	}
	return sb.String()
}

// c50ConfirmInexpressible deploys the declarations (and the two-level nesting)
// that the enumeration drops as "not declarable" and records whether the
// checker really refuses them.
func c50ConfirmInexpressible(env *mc.Env) {
	type probe struct {
		name string
		code string
	}
	var probes []probe
	for _, k := range c50Kinds {
		probes = append(probes, probe{"access(E) " + k + " member of a contract",
			c50ContractC(c50Cell{Kind: k, Access: "E", Cont: "contract"}, false)})
	}
	for _, k := range c50Kinds {
		for _, ct := range []string{"struct", "resource"} {
			probes = append(probes, probe{"access(self) " + k + " member of a " + ct + " interface",
				c50ContractC(c50Cell{Kind: k, Access: "self", Cont: ct, Ext: "iface"}, false)})
		}
	}
	probes = append(probes, probe{"struct nested in a struct",
		"access(all) contract C { access(all) struct S { access(all) struct N { init() {} } init() {} } init() {} }"})
	probes = append(probes, probe{"struct nested in a resource",
		"access(all) contract C { access(all) resource R { access(all) struct N { init() {} } init() {} } init() {} }"})
	confirmed := map[string]string{}
	for _, p := range probes {
		r := c50DeployTx(rt.NewLedger(), c50Src{Addr: c50Hex(c50AddrC), Name: "C", Code: p.code}, false)
		obs := c50Classify(r)
		confirmed[p.name] = obs.key()
		if obs.Verdict != "rejected" {
			// the language accepts something this enumeration does not cover: say so
			env.R.NotExhaustive("assumed-inexpressible declaration is accepted by the checker: " + p.name)
		}
	}
	env.R.Set("inexpressible_confirmed", confirmed)
}

func c50Replay(env *mc.Env, raw json.RawMessage) (bool, string) {
	var cs c50Case
	if err := json.Unmarshal(raw, &cs); err != nil {
		return false, err.Error()
	}
	run := func(vm bool) (c50Observed, error) {
		c := cs
		c.VM = vm
		return c50RunCase(nil, c)
	}
	obs, err := run(cs.VM)
	if err != nil {
		return false, err.Error()
	}
	bad, harness, expected, why := c50Judge(cs.Cell, obs)
	detail := fmt.Sprintf("%s: model %s [%s]; checker %s %s", cs.Cell.coords(), expected, why, obs.key(), obs.Err)
	if harness != "" {
		return false, "harness: " + harness
	}
	if bad != "" {
		return true, detail
	}
	// engine-difference violations: re-run the other engine
	other, err := run(!cs.VM)
	if err != nil {
		return false, err.Error()
	}
	if other.key() != obs.key() {
		return true, fmt.Sprintf("%s: checker verdict differs between engines: %s vs %s", cs.Cell.coords(), obs.key(), other.key())
	}
	return false, detail
}

func init() {
	mc.Register(&mc.Check{
		ID: "C50",
		Rule: "one program per expressible cell of {let,var,fun} x {access(self),(contract),(account),(all),(E)} x declared in {contract, nested struct, nested resource} " +
			"x site {same composite, composite nested in the declaring contract, sibling composite, same-contract function, other contract same account, other contract other account (0x2 and an address differing from 0x1 in the first byte only), script, transaction signed by the declaring account} " +
			"x via {self.m, v.m, (&v as &T).m, (&v as auth(E) &T).m, (&v as auth(F) &T).m} x op {read/call, assign, assign in initializer, second assign in initializer}; " +
			"each deployed / run through runtime.Runtime in both engine environments; checker acceptance compared with a scope model written from the property sentence; " +
			"plus default functions inherited from a struct/resource interface of another contract (same account / other account) x {contract, account, all} x 4 sites x vias; thorough adds optional chaining, access from inside a closure, and members declared in struct/resource interfaces accessed through interface types. " +
			"non-trivial = distinct cell where the model demands a rejection (the modifier / let rule restricted something) or where a restricted member (not a plain access(all) read) was accepted",
		Assumptions: []string{
			"a program is judged by whether the real checker (as configured by runtime.Runtime for deployments, scripts and transactions) accepts it; error kinds are only used to tell access/assignment rejections from generator defects",
			"one access site per generated program, Int-typed members; coverage ends at the stated product (no attachments, enums, contract interfaces, mapped entitlements)",
		},
		Run:    c50Run,
		Replay: c50Replay,
	})
}

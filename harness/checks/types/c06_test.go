package types

import (
	"testing"
	"time"

	"verif/rt"
)

func TestC06Timing(t *testing.T) {
	m := c06Map{N: 3, Rel: []uint{2, 0, 0}, Identity: true}
	auths := c06ProgramAuths()
	var pairs [][2]c06Auth
	for _, a := range auths {
		for _, b := range auths {
			if c06Entails(a, b, 3) && a.String() != b.String() {
				pairs = append(pairs, [2]c06Auth{a, b})
			}
		}
	}
	t0 := time.Now()
	contract, l, herr := c06Deploy(m)
	if herr != "" {
		t.Fatal(herr)
	}
	t.Log("deploy", time.Since(t0))
	t0 = time.Now()
	sts, h := c06CheckStatic(contract, pairs)
	t.Log("static", time.Since(t0), h, len(pairs))
	src := c06DynamicProgram(pairs, sts)
	for _, vm := range []bool{false, true} {
		t0 = time.Now()
		res := rt.Run(l, rt.Tx{Source: src, Script: true, UseVM: vm})
		t.Log("dynamic", vm, time.Since(t0), res.Class, len(src))
	}
}

package resources

import (
	"encoding/json"
	"fmt"
	"os"
	"sort"
	"strings"
	"sync"
	"testing"

	"verif/gen/proggen"
)

// TestC03Dump lists every disagreement of the quick space (debug aid).
func TestC03Dump(t *testing.T) {
	out := os.Getenv("C03DUMP")
	if out == "" {
		t.Skip()
	}
	si := 0
	fmt.Sscan(os.Getenv("C03SLICE"), &si)
	var all [][]proggen.LinTok
	proggen.EnumLinear(c03Slices(true)[si].opts, func(toks []proggen.LinTok) bool {
		all = append(all, append([]proggen.LinTok(nil), toks...))
		return true
	})
	var dis [][]proggen.LinTok
	var mu sync.Mutex
	sigs := map[string][]string{}
	var wg sync.WaitGroup
	W := 12
	lcs := make([]*linChecker, W)
	for i := range lcs {
		lcs[i] = newLinChecker()
	}
	for w := 0; w < W; w++ {
		wg.Add(1)
		go func(w int) {
			defer wg.Done()
			for i := w; i < len(all); i += W {
				sig, _, _, h := lcs[w].judge(all[i])
				if h != "" {
					sig = "HARNESS " + h[:60]
				}
				if sig != "" {
					mu.Lock()
					sigs[sig] = append(sigs[sig], bodyOf(all[i]))
					dis = append(dis, all[i])
					mu.Unlock()
				}
			}
		}(w)
	}
	wg.Wait()
	var keys []string
	for k := range sigs {
		keys = append(keys, k)
	}
	sort.Strings(keys)
	jb, _ := json.Marshal(dis)
	os.WriteFile(out+".json", jb, 0o644)
	f, _ := os.Create(out)
	defer f.Close()
	for _, k := range keys {
		sort.Strings(sigs[k])
		fmt.Fprintf(f, "%s\t%d\n%s\n", k, len(sigs[k]), sigs[k][0])
	}
	t.Logf("%d programs, %d disagreement signatures", len(all), len(keys))
}


// TestC03Resign recomputes the signatures of saved disagreeing programs (debug aid).
func TestC03Resign(t *testing.T) {
	in := os.Getenv("C03RESIGN")
	if in == "" {
		t.Skip()
	}
	b, _ := os.ReadFile(in)
	var progs [][]proggen.LinTok
	if err := json.Unmarshal(b, &progs); err != nil {
		t.Fatal(err)
	}
	lc := newLinChecker()
	cnt := map[string]int{}
	first := map[string]string{}
	for _, p := range progs {
		sig, _, _, h := lc.judge(p)
		if h != "" {
			sig = "HARNESS " + h
		}
		cnt[sig]++
		if _, ok := first[sig]; !ok {
			first[sig] = bodyOf(p)
		}
	}
	var keys []string
	for k := range cnt {
		keys = append(keys, k)
	}
	sort.Strings(keys)
	for _, k := range keys {
		fmt.Printf("%s\t%d\n", k, cnt[k])
	}
}

// TestC03Skel judges skeleton-notation programs given in C03SKEL (space separated).
func TestC03Skel(t *testing.T) {
	in := os.Getenv("C03SKEL")
	if in == "" {
		t.Skip()
	}
	lc := newLinChecker()
	for _, sk := range strings.Fields(in) {
		toks, ok := proggen.ParseSkeleton(sk)
		if !ok || !proggen.LinValid(proggen.ParseLin(toks)) {
			t.Errorf("bad skeleton %s", sk)
			continue
		}
		sig, _, class, h := lc.judge(toks)
		_, kinds, _ := lc.rejects(toks, true)
		fmt.Printf("%-50s oracle=%+v checker=%v => %s%s%s\n", sk, LinJudge(toks), kinds, sig, class, h)
	}
}

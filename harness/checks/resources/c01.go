package resources

import (
	"encoding/json"
	"errors"
	"fmt"
	"runtime/debug"
	"strings"
	"sync"

	"github.com/onflow/cadence"
	"github.com/onflow/cadence/common"
	"github.com/onflow/cadence/interpreter"

	"verif/gen/proggen"
	"verif/mc"
	"verif/rt"
)

// ---------------------------------------------------------------------------
// C01 — checker-accepted programs never fail with internal errors, never
// crash the host, and never trip the run-time defensive checks.
//
// Programs come from the feature-interaction fragment (gen/proggen). Each
// accepted program is run as a script and as a transaction, on the
// interpreter and on the VM, from each relevant pre-state, with each relevant
// argument.

type c01Case struct {
	Slice  string `json:"slice"`
	Index  int    `json:"index"`
	Shape  string `json:"shape"`
	Script bool   `json:"script"`
	VM     bool   `json:"vm"`
	Pre    string `json:"pre"`
	Arg    int    `json:"arg"`
	Source string `json:"source"`
}

// c01CoreTemplates is the curated sub-alphabet of the k=3 quick slice.
var c01CoreTemplates = []string{"destroy", "arr-append", "arr-remove", "dict-force", "opt-second", "swap-elem",
	"save", "load", "ref-take", "refs-append-id", "ref-read", "refs0-read", "refs1-call", "attach",
	"take-opt", "take-arr", "eat-r", "eat-dict"}

type c01Slice struct {
	name string
	opts proggen.Options
}

func c01Slices(thorough bool) []c01Slice {
	all := map[string]bool{}
	for _, t := range proggen.Templates {
		all[t.Name] = true
	}
	for _, n := range c01CoreTemplates {
		if !all[n] {
			panic("c01: unknown core template " + n)
		}
		delete(all, n)
	}
	var notCore []string
	for _, t := range proggen.Templates {
		if all[t.Name] {
			notCore = append(notCore, t.Name)
		}
	}
	if thorough {
		return []c01Slice{{"k<=3/all", proggen.Options{MaxStmts: 3}}}
	}
	return []c01Slice{
		{"k<=2/all", proggen.Options{MaxStmts: 2}},
		{"k<=3/core", proggen.Options{MaxStmts: 3, Exclude: notCore}},
	}
}

// c01PreStates builds the pre-state ledgers (contract C deployed at 0x1).
func c01PreStates() map[string]*rt.Ledger {
	base := rt.NewLedger()
	rt.Deploy(base, rt.Addr(1), "C", proggen.PreludeContract, false)
	mk := func(body string) *rt.Ledger {
		l := base.Clone()
		src := "import C from 0x1\ntransaction { prepare(acct: auth(Storage) &Account) { " + body + " } }"
		r := rt.Run(l, rt.Tx{Source: src, Signers: []common.Address{rt.Addr(1)}})
		if !r.OK() {
			panic("c01 pre-state: " + r.ErrString())
		}
		return l
	}
	return map[string]*rt.Ledger{
		"empty": base,
		"R":     mk(`acct.storage.save(<- C.mk(5), to: /storage/r)`),
		"[R]":   mk(`acct.storage.save(<- [<- C.mk(6), <- C.mk(7)], to: /storage/arr)`),
		"S":     mk(`acct.storage.save(C.S(8), to: /storage/s)`),
	}
}

// c01RelevantPre: a program is run from the empty account and from every
// pre-state that holds something at a storage path the program mentions.
func c01RelevantPre(p proggen.Program) []string {
	pre := []string{"empty"}
	text := strings.Join(p.Stmts, "\n")
	if strings.Contains(text, "/storage/r)") || strings.Contains(text, "/storage/r,") {
		pre = append(pre, "R")
	}
	if strings.Contains(text, "/storage/arr") {
		pre = append(pre, "[R]")
	}
	if strings.Contains(text, "/storage/s") {
		pre = append(pre, "S")
	}
	return pre
}

// c01Judge classifies one run. bad == "" means the property holds on it.
func c01Judge(res *rt.Result) (bad string, class string) {
	var vt *interpreter.ValueTransferTypeError
	var ir *interpreter.InvalidatedResourceError
	var ma *interpreter.MemberAccessTypeError
	if res.Err != nil {
		switch {
		case errors.As(res.Err, &vt):
			return "defensive:ValueTransferTypeError", ""
		case errors.As(res.Err, &ir):
			return "defensive:InvalidatedResourceError", ""
		case errors.As(res.Err, &ma):
			return "defensive:MemberAccessTypeError", ""
		}
	}
	switch res.Class {
	case "ok":
		return "", "ok"
	case "user", "external":
		return "", res.Class + ":" + shortKind(res.Kind)
	}
	return res.Class + ":" + shortKind(res.Kind), ""
}

func c01Rejected(res *rt.Result) bool {
	return res.Class == "user" && (strings.Contains(res.Kind, "CheckerError") || strings.Contains(res.Kind, "parser.") || strings.Contains(res.Kind, "ParsingError"))
}

func c01Run(pre *rt.Ledger, src string, script, vm bool, arg int) *rt.Result {
	tx := rt.Tx{Source: src, Script: script, UseVM: vm, Args: []cadence.Value{cadence.NewInt(arg)}}
	if !script {
		tx.Signers = []common.Address{rt.Addr(1)}
	}
	return rt.Run(pre.Clone(), tx)
}

// c01Probes are hand-written accepted programs outside the template alphabet,
// one per feature that the generator deliberately avoids (because the feature
// alone already fails on the pinned tree and would otherwise flood every shape
// that contains it) or that lies beyond its statement bound. Judged like
// every other program; signature "probe:<name>".
var c01Probes = []struct{ name, src string }{
	{"attachment-destroy-event-default", `access(all) entitlement E
access(all) resource R { access(E) fun f() {} }
access(all) attachment A for R {
  access(all) let k: Int
  access(all) event ResourceDestroyed(k: Int = self.k)
  init() { self.k = 1 }
}
access(all) fun main(arg: Int): Int {
  let r <- attach A() to <- create R()
  destroy r
  return arg
}`},
	{"swap-nested-array-element", `access(all) resource R { access(all) let id: Int; init(_ id: Int) { self.id = id } }
access(all) fun main(arg: Int): Int {
  var h: @[[R]] <- [<- [<- create R(10)]]
  var other <- create R(40)
  h[0][0] <-> other
  let x = other.id
  destroy h
  destroy other
  return x
}`},
	{"loop-invalidation-then-panic", `access(all) resource R {}
access(all) fun main(arg: Int): Int {
  var a <- create R()
  var i = 0
  while i < 2 { destroy a; i = i + 1 }
  panic("end")
}`},
	{"branch-invalidation-jump-return", `access(all) resource R {}
access(all) fun c(_ n: Int): Bool { return n > 0 }
access(all) fun main(arg: Int): Int {
  var a <- create R()
  while c(arg) {
    if c(arg) { destroy a; if c(arg) { break }; return 1 }
  }
  destroy a
  return 2
}`},
	{"swap-array-element-with-variable", `access(all) resource R { access(all) let id: Int; init(_ id: Int) { self.id = id } }
access(all) fun main(arg: Int): Int {
  var h: @[R] <- [<- create R(10)]
  var other <- create R(40)
  h[0] <-> other
  let x = other.id + h[0].id
  destroy h
  destroy other
  return x
}`},
}

func runC01(env *mc.Env) {
	// each run allocates a few short-lived megabytes (parse + check of the imported contract): collect less often
	defer debug.SetGCPercent(debug.SetGCPercent(400))
	pres := c01PreStates()
	for _, pr := range c01Probes {
		for _, vm := range []bool{false, true} {
			res := c01Run(pres["empty"], pr.src, true, vm, 1)
			if c01Rejected(res) {
				env.R.HarnessError("probe %s is rejected by the checker: %s", pr.name, res.ErrString())
				continue
			}
			env.R.Eval()
			eng := "interpreter"
			if vm {
				eng = "vm"
			}
			bad, class := c01Judge(res)
			if bad == "" {
				env.R.Class("probe:"+class, nil)
				continue
			}
			env.R.Class("VIOLATING:"+bad+"|"+eng, nil)
			env.R.Violation(fmt.Sprintf("%s|%s|probe:%s", bad, eng, pr.name),
				c01Case{Slice: "probe", Shape: pr.name, Script: true, VM: vm, Pre: "empty", Arg: 1, Source: pr.src},
				fmt.Sprintf("%s script: %s\n%s", eng, res.ErrString(), pr.src))
		}
	}
	var accepted, rejected, generated int64
	var mu sync.Mutex
	shapesBad := map[string]map[string]int{} // bad kind -> shape -> count
	for _, sl := range c01Slices(env.Thorough()) {
		f := proggen.New(sl.opts)
		generated += int64(f.Count())
		env.R.Set("programs:"+sl.name, f.Count())
		mc.ParallelFor(env, f.Count(), func(i int) {
			p := f.At(i)
			if sl.name == "k<=3/core" && len(p.Stmts) < 3 {
				return // already covered by the k<=2 slice
			}
			preNames := c01RelevantPre(p)
			args := []int{1}
			if p.Tags["cond"] {
				args = []int{1, 0, -1, 1000}
			}
			first := true
			for _, script := range []bool{true, false} {
				src := p.Transaction()
				if script {
					src = p.Script()
				}
				for _, pn := range preNames {
					for _, arg := range args {
						for _, vm := range []bool{false, true} {
							res := c01Run(pres[pn], src, script, vm, arg)
							if c01Rejected(res) {
								if first {
									mu.Lock()
									rejected++
									mu.Unlock()
									env.R.Class("checker-rejected:"+shortKind(res.Kind), func() any { return map[string]any{"shape": p.Shape, "error": res.ErrString()} })
								}
								return
							}
							if first {
								first = false
								mu.Lock()
								accepted++
								mu.Unlock()
								env.R.Nontrivial(fmt.Sprintf("%s#%d", sl.name, i))
							}
							env.R.Eval()
							bad, class := c01Judge(res)
							if bad == "" {
								env.R.Class(class, nil)
								continue
							}
							eng, kind := "interpreter", "transaction"
							if vm {
								eng = "vm"
							}
							if script {
								kind = "script"
							}
							mu.Lock()
							if shapesBad[bad+"|"+eng] == nil {
								shapesBad[bad+"|"+eng] = map[string]int{}
							}
							shapesBad[bad+"|"+eng][p.Shape]++
							mu.Unlock()
							env.R.Class("VIOLATING:"+bad+"|"+eng, nil)
							env.R.Violation(fmt.Sprintf("%s|%s|%s", bad, eng, p.Shape),
								c01Case{Slice: sl.name, Index: i, Shape: p.Shape, Script: script, VM: vm, Pre: pn, Arg: arg, Source: src},
								fmt.Sprintf("%s %s pre=%s arg=%d: %s\n%s", eng, kind, pn, arg, res.ErrString(), strings.Join(p.Stmts, "\n")))
						}
					}
				}
			}
		})
		if env.Expired() {
			break
		}
		env.R.BoundCompleted(sl.name)
	}
	env.R.Set("programs_generated", generated)
	env.R.Set("programs_accepted", accepted)
	env.R.Set("programs_rejected", rejected)
	summary := map[string]int{}
	for k, m := range shapesBad {
		summary[k] = len(m)
	}
	env.R.Set("violating_shapes_by_error", summary)
	if generated > 0 && accepted*5 < generated {
		env.R.HarnessError("fragment acceptance rate %d/%d is below 20%%: the generator is mis-designed", accepted, generated)
	}
}

func replayC01(env *mc.Env, raw json.RawMessage) (bool, string) {
	var c c01Case
	if err := json.Unmarshal(raw, &c); err != nil {
		return false, err.Error()
	}
	pre := c01PreStates()[c.Pre]
	if pre == nil {
		return false, "unknown pre-state " + c.Pre
	}
	res := c01Run(pre, c.Source, c.Script, c.VM, c.Arg)
	if c01Rejected(res) {
		return false, "checker rejects the program: " + res.ErrString()
	}
	bad, class := c01Judge(res)
	return bad != "", fmt.Sprintf("%s%s: %s", bad, class, res.ErrString())
}

func init() {
	mc.Register(&mc.Check{
		ID: "C01",
		Rule: "every program of the feature-interaction fragment (fixed contract prelude + 7-variable header + body of <= 2 statements from 130 templates, plus bodies of exactly 3 statements from a 18-template core alphabet; thorough: <= 3 statements from all templates) that the checker accepts, " +
			"x {script, transaction} x {interpreter, VM} x pre-states {empty account, and R / [R] / S stored at each storage path the program mentions} x arguments {1, 0, -1, 1000} (for programs that reach a pre/post-condition); " +
			"oracle: result is success or a user/external error; never an internal error, Go runtime panic, escaped panic, nor ValueTransferTypeError / InvalidatedResourceError / MemberAccessTypeError; non-trivial = distinct accepted program",
		Assumptions: []string{
			"acceptance is decided by the run itself (a CheckerError / parser error result means rejected; rejected programs are counted and skipped)",
			"host liveness is judged inside the process (Go panics escaping the runtime are caught by the host and reported); fatal errors that kill the process would abort the check with a non-zero exit",
		},
		Run:    runC01,
		Replay: replayC01,
	})
}

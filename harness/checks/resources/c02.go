package resources

import (
	"encoding/json"
	"fmt"
	"sort"
	"strconv"
	"strings"
	"sync"

	"github.com/onflow/atree"

	"github.com/onflow/cadence"
	"github.com/onflow/cadence/common"
	"github.com/onflow/cadence/interpreter"
	"github.com/onflow/cadence/runtime"

	"verif/gen/proggen"
	"verif/mc"
	"verif/rt"
)

// ---------------------------------------------------------------------------
// C02 — resources are never duplicated or lost at run time.
//
// Conservation is counted, not asserted inside the program:
//   C  = uuids the transaction's own log reports as created ("created:<uuid>", logged by every initializer)
//   D  = uuids carried by the ResourceDestroyed events the host received
//   S  = uuids of all resources decoded from the committed ledger before, S' after (fresh storage, every account, every domain, nested)
// after every successful transaction: S' = (S + C) - D, D without duplicates and within S + C, S' without duplicates, C disjoint from S.
// Attachments have no uuid; they are counted per transaction (attached-logs, destruction events, stored).

// --- reading the committed ledger --------------------------------------------------

type c02ROLedger struct{ l *rt.Ledger }

func (r c02ROLedger) GetValue(owner, key []byte) ([]byte, error) {
	return r.l.Values[string(owner)+"|"+string(key)], nil
}
func (r c02ROLedger) SetValue(owner, key, value []byte) error {
	return fmt.Errorf("c02: read-only ledger")
}
func (r c02ROLedger) ValueExists(owner, key []byte) (bool, error) {
	return len(r.l.Values[string(owner)+"|"+string(key)]) > 0, nil
}
func (r c02ROLedger) AllocateSlabIndex(owner []byte) (atree.SlabIndex, error) {
	return atree.SlabIndex{}, fmt.Errorf("c02: read-only ledger")
}

// c02Stored is what the committed ledger holds.
type c02Stored struct {
	uuids       []uint64 // every resource with a uuid field, with multiplicity
	attachments int
	shape       string // canonical structure with uuids erased (state key)
}

// c02Walk decodes every value of every account of the ledger.
func c02Walk(l *rt.Ledger) (out c02Stored, err error) {
	defer func() {
		if p := recover(); p != nil {
			err = fmt.Errorf("ledger walk panicked: %v", p)
		}
	}()
	st := runtime.NewStorage(c02ROLedger{l}, nil, nil, runtime.StorageConfig{})
	inter, ierr := interpreter.NewInterpreter(nil, nil, &interpreter.Config{Storage: st})
	if ierr != nil {
		return out, ierr
	}
	var keys []string
	for k, v := range l.Values {
		if len(v) > 0 && len(k) > 9 && k[8] == '|' && k[9:] == runtime.AccountStorageKey {
			keys = append(keys, k)
		}
	}
	sort.Strings(keys)
	var sb strings.Builder
	var walk func(v interpreter.Value)
	walk = func(v interpreter.Value) {
		switch x := v.(type) {
		case *interpreter.ArrayValue:
			sb.WriteString("[")
			x.Iterate(inter, func(e interpreter.Value) bool { walk(e); sb.WriteString(","); return true }, false)
			sb.WriteString("]")
		case *interpreter.DictionaryValue:
			var parts []string
			x.Iterate(inter, func(k, e interpreter.Value) bool {
				save := sb
				sb = strings.Builder{}
				sb.WriteString(k.String() + ":")
				walk(e)
				parts = append(parts, sb.String())
				sb = save
				return true
			})
			sort.Strings(parts)
			sb.WriteString("{" + strings.Join(parts, ",") + "}")
		case *interpreter.CompositeValue:
			type fv struct {
				n string
				v interpreter.Value
			}
			var fs []fv
			x.ForEachField(inter, func(n string, fval interpreter.Value) bool { fs = append(fs, fv{n, fval}); return true })
			sort.Slice(fs, func(i, j int) bool { return fs[i].n < fs[j].n })
			sb.WriteString(string(x.TypeID()) + "(")
			if x.Kind == common.CompositeKindAttachment {
				out.attachments++
			}
			for _, f := range fs {
				if f.n == "uuid" && x.Kind == common.CompositeKindResource {
					if u, ok := f.v.(interpreter.UInt64Value); ok {
						out.uuids = append(out.uuids, uint64(u))
					}
					continue
				}
				sb.WriteString(f.n + "=")
				walk(f.v)
				sb.WriteString(";")
			}
			sb.WriteString(")")
		case *interpreter.SomeValue:
			sb.WriteString("?")
			walk(x.InnerValue())
		default:
			sb.WriteString(v.String())
		}
	}
	for _, k := range keys {
		var idx atree.SlabIndex
		copy(idx[:], l.Values[k])
		var addr atree.Address
		copy(addr[:], k[:8])
		asm := interpreter.NewAccountStorageMapWithRootID(nil, st, atree.NewSlabID(addr, idx))
		fmt.Fprintf(&sb, "account %x\n", k[:8])
		var doms []common.StorageDomain
		for _, d := range common.AllStorageDomains {
			if asm.DomainExists(nil, d) {
				doms = append(doms, d)
			}
		}
		for _, d := range doms {
			dm := asm.GetDomain(nil, nil, inter, d, false)
			if dm == nil {
				continue
			}
			type kv struct {
				k string
				v interpreter.Value
			}
			var es []kv
			it := dm.Iterator()
			for {
				key, val := it.Next(nil)
				if key == nil {
					break
				}
				es = append(es, kv{fmt.Sprint(key), val})
			}
			sort.Slice(es, func(i, j int) bool { return es[i].k < es[j].k })
			for _, e := range es {
				fmt.Fprintf(&sb, " %s/%s = ", d.Identifier(), e.k)
				walk(e.v)
				sb.WriteString("\n")
			}
		}
	}
	out.shape = sb.String()
	return out, nil
}

// --- observations of one transaction ------------------------------------------------

type c02Obs struct {
	created, destroyed     []uint64            // destroyed: from the resource's own ResourceDestroyed event
	destroyedR             []uint64            // subset reported by C.R.ResourceDestroyed
	inherited              map[string][]uint64 // uuids per inherited (interface-declared) destruction event type
	attached, attDestroyed int
	malformed              string
}

// c02Marker is a contract deployed under the same name at 0x1 and at 0x2; R
// conforms to both K.Marked interfaces (the second imported with an alias), so
// destroying an R must deliver one destruction event per declaring type.
const c02Marker = `access(all) contract K {
    access(all) resource interface Marked {
        access(all) event ResourceDestroyed(uuid: UInt64 = self.uuid)
    }
}
`

var c02InheritedEvents = []string{"A.0000000000000001.K.Marked.ResourceDestroyed", "A.0000000000000002.K.Marked.ResourceDestroyed"}

func c02Prelude() string {
	p := strings.Replace(proggen.PreludeContract, "access(all) contract C {", "import K from 0x1\nimport K as K2 from 0x2\naccess(all) contract C {", 1)
	if !strings.Contains(p, "access(all) resource R: RI {") {
		panic("c02: prelude changed")
	}
	return strings.Replace(p, "access(all) resource R: RI {", "access(all) resource R: RI, K.Marked, K2.Marked {", 1)
}

func c02Observe(res *rt.Result) (o c02Obs) {
	o.inherited = map[string][]uint64{}
	for _, l := range res.Logs {
		l = strings.Trim(l, "\"")
		switch {
		case strings.HasPrefix(l, "created:"):
			n, err := strconv.ParseUint(l[len("created:"):], 10, 64)
			if err != nil {
				o.malformed = "log " + l
			}
			o.created = append(o.created, n)
		case strings.HasPrefix(l, "attached:"):
			o.attached++
		}
	}
	for _, ev := range res.Events {
		if ev.EventType == nil || !strings.HasSuffix(ev.EventType.QualifiedIdentifier, ".ResourceDestroyed") {
			continue
		}
		fields := cadence.FieldsMappedByName(ev)
		if u, ok := fields["uuid"]; ok {
			if uv, ok := u.(cadence.UInt64); ok {
				id := ev.EventType.ID()
				switch {
				case strings.Contains(id, ".K.Marked."):
					o.inherited[id] = append(o.inherited[id], uint64(uv))
				case strings.HasSuffix(id, ".C.R.ResourceDestroyed"):
					o.destroyedR = append(o.destroyedR, uint64(uv))
					o.destroyed = append(o.destroyed, uint64(uv))
				default:
					o.destroyed = append(o.destroyed, uint64(uv))
				}
			} else {
				o.malformed = "event " + ev.String()
			}
		} else if strings.HasSuffix(ev.EventType.QualifiedIdentifier, "C.A.ResourceDestroyed") {
			o.attDestroyed++
		} else {
			o.malformed = "event " + ev.String()
		}
	}
	return
}

func dupOf(xs []uint64) (uint64, bool) {
	seen := map[uint64]bool{}
	for _, x := range xs {
		if seen[x] {
			return x, true
		}
		seen[x] = true
	}
	return 0, false
}

func setOf(xs []uint64) map[uint64]bool {
	m := map[uint64]bool{}
	for _, x := range xs {
		m[x] = true
	}
	return m
}

// c02Check applies the conservation oracle to one successful transaction.
func c02Check(before, after c02Stored, o c02Obs) (bad, detail string) {
	if o.malformed != "" {
		return "malformed-observation", o.malformed
	}
	S, C, D, S2 := setOf(before.uuids), setOf(o.created), setOf(o.destroyed), setOf(after.uuids)
	if u, dup := dupOf(o.destroyed); dup {
		return "destroy-event-duplicate", fmt.Sprintf("uuid %d destroyed twice", u)
	}
	if u, dup := dupOf(after.uuids); dup {
		return "duplicate-in-storage", fmt.Sprintf("uuid %d is stored twice", u)
	}
	if u, dup := dupOf(o.created); dup {
		return "uuid-collision", fmt.Sprintf("uuid %d created twice", u)
	}
	for u := range C {
		if S[u] {
			return "uuid-collision", fmt.Sprintf("created uuid %d already lives in storage", u)
		}
	}
	for u := range D {
		if !S[u] && !C[u] {
			return "destroy-event-for-unknown", fmt.Sprintf("uuid %d destroyed but neither stored before nor created", u)
		}
		if S2[u] {
			return "destroyed-but-still-stored", fmt.Sprintf("uuid %d", u)
		}
	}
	for u := range S2 {
		if !S[u] && !C[u] {
			return "stored-from-nowhere", fmt.Sprintf("uuid %d", u)
		}
	}
	for _, src := range []map[uint64]bool{S, C} {
		for u := range src {
			if !S2[u] && !D[u] {
				return "unaccounted", fmt.Sprintf("uuid %d is neither stored nor reported destroyed after the transaction (lost, or its destruction event is missing)", u)
			}
		}
	}
	// every destruction event a type declares or inherits is delivered exactly once per destroyed resource:
	// R inherits one from K.Marked of 0x1 and one from the same-named K.Marked of 0x2
	wantR := setOf(o.destroyedR)
	for _, evType := range c02InheritedEvents {
		got := o.inherited[evType]
		if u, dup := dupOf(got); dup {
			return "inherited-destroy-event-duplicate", fmt.Sprintf("%s delivered twice for uuid %d", evType, u)
		}
		gs := setOf(got)
		for u := range wantR {
			if !gs[u] {
				return "inherited-destroy-event-missing", fmt.Sprintf("R %d was destroyed but %s was not delivered for it", u, evType)
			}
		}
		for u := range gs {
			if !wantR[u] {
				return "inherited-destroy-event-for-unknown", fmt.Sprintf("%s delivered for uuid %d which C.R.ResourceDestroyed did not report", evType, u)
			}
		}
	}
	for id := range o.inherited {
		if id != c02InheritedEvents[0] && id != c02InheritedEvents[1] {
			return "malformed-observation", "unexpected inherited event type " + id
		}
	}
	if after.attachments != before.attachments+o.attached-o.attDestroyed {
		return "attachment-count", fmt.Sprintf("attachments stored before=%d attached=%d destroyed=%d stored after=%d", before.attachments, o.attached, o.attDestroyed, after.attachments)
	}
	return "", ""
}

// --- exploration --------------------------------------------------------------------

type c02Case struct {
	VM      bool     `json:"vm"`
	History []string `json:"history"` // transaction sources, the last one is judged
	Shapes  []string `json:"shapes"`
}

type c02State struct {
	l       *rt.Ledger
	stored  c02Stored
	history []string
	shapes  []string
}

func c02Base() *rt.Ledger {
	l := rt.NewLedger()
	rt.Deploy(l, rt.Addr(1), "K", c02Marker, false)
	rt.Deploy(l, rt.Addr(2), "K", c02Marker, false)
	rt.Deploy(l, rt.Addr(1), "C", c02Prelude(), false)
	return l
}

var c02Signers = []common.Address{rt.Addr(1), rt.Addr(2)}

// c02Step runs one transaction from st and judges it. next == nil if the transaction failed.
func c02Step(st *c02State, src, shape string, vm bool) (next *c02State, bad, detail string, res *rt.Result) {
	l := st.l.Clone()
	res = rt.Run(l, rt.Tx{Source: src, Signers: c02Signers, UseVM: vm, Args: []cadence.Value{cadence.NewInt(1)}})
	if !res.OK() {
		return nil, "", "", res
	}
	after, err := c02Walk(l)
	if err != nil {
		return nil, "ledger-unreadable", err.Error(), res
	}
	bad, detail = c02Check(st.stored, after, c02Observe(res))
	h := append(append([]string{}, st.history...), src)
	sh := append(append([]string{}, st.shapes...), shape)
	return &c02State{l: l, stored: after, history: h, shapes: sh}, bad, detail, res
}

func runC02(env *mc.Env) {
	full := proggen.New(proggen.Options{MaxStmts: mc.Pick(env, 2, 3), Tags: []string{"res"}, TwoAccounts: true})
	follow := proggen.New(proggen.Options{MaxStmts: mc.Pick(env, 1, 2), Tags: []string{"storage", "vault"}, TwoAccounts: true})
	env.R.Set("programs_first_tx", full.Count())
	env.R.Set("programs_following_tx", follow.Count())
	maxStates := mc.Pick(env, 1500, 6000)
	for _, vm := range []bool{false, true} {
		eng := "interpreter"
		if vm {
			eng = "vm"
		}
		base := c02Base()
		bs, err := c02Walk(base)
		if err != nil {
			env.R.HarnessError("cannot read the base ledger: %v", err)
			return
		}
		root := &c02State{l: base, stored: bs}
		seen := map[string]bool{bs.shape: true}
		var mu sync.Mutex
		var frontier []*c02State
		cand := map[string]*c02State{}
		report := func(st *c02State, src, shape, bad, detail string) {
			h := append(append([]string{}, st.history...), src)
			sh := append(append([]string{}, st.shapes...), shape)
			env.R.Violation(fmt.Sprintf("%s|%s|%s", bad, eng, shape), c02Case{VM: vm, History: h, Shapes: sh},
				fmt.Sprintf("%s after history %v: %s\nlast transaction:\n%s", bad, sh, detail, src))
		}
		judge := func(st *c02State, p proggen.Program, depth int) {
			src := p.Transaction()
			next, bad, detail, res := c02Step(st, src, p.Shape, vm)
			if res.Class == "user" && (strings.Contains(res.Kind, "CheckerError") || strings.Contains(res.Kind, "parser")) {
				env.R.Add("checker_rejected", 1)
				return
			}
			env.R.Eval()
			if bad != "" {
				report(st, src, p.Shape, bad, detail)
				return
			}
			if next == nil {
				env.R.Class(eng+":failed:"+res.Class+":"+shortKind(res.Kind), nil)
				if res.Class != "user" && res.Class != "external" {
					env.R.Add("non_user_failures_(C01_subject)", 1)
				}
				return
			}
			o := c02Observe(res)
			class := "conserved"
			if len(o.created) > 0 || len(o.destroyed) > 0 {
				class += ":created/destroyed"
			}
			if next.stored.shape != st.stored.shape {
				class += ":storage-changed"
				env.R.Nontrivial(fmt.Sprintf("%s|%d|%s|%x", eng, depth, p.Shape, mc.Hash(st.stored.shape)))
			}
			env.R.Class(eng+":"+class, nil)
			mu.Lock()
			if !seen[next.stored.shape] {
				// keep, per new shape, the candidate with the smallest history (deterministic under parallelism)
				k := strings.Join(next.shapes, "\x00")
				if old, ok := cand[next.stored.shape]; !ok || k < strings.Join(old.shapes, "\x00") {
					cand[next.stored.shape] = next
				}
			}
			mu.Unlock()
		}
		// admit moves the candidates of a finished level into the frontier, in shape order, up to the cap
		admit := func() {
			var ks []string
			for k := range cand {
				ks = append(ks, k)
			}
			sort.Strings(ks)
			frontier = nil
			for _, k := range ks {
				if len(seen) >= maxStates {
					env.R.NotExhaustive(fmt.Sprintf("state cap %d reached (%s): %d new states not continued", maxStates, eng, len(ks)-len(frontier)))
					break
				}
				seen[k] = true
				frontier = append(frontier, cand[k])
				env.R.State(eng + k)
			}
			cand = map[string]*c02State{}
		}
		// first transaction: every program of the resource fragment
		mc.ParallelFor(env, full.Count(), func(i int) { judge(root, full.At(i), 1) })
		admit()
		// following transactions: every storage/vault program from every distinct state
		for depth := 2; depth <= 3 && !env.Expired(); depth++ {
			cur := frontier
			type job struct {
				st *c02State
				i  int
			}
			var jobs []job
			for _, st := range cur {
				for i := 0; i < follow.Count(); i++ {
					jobs = append(jobs, job{st, i})
				}
			}
			mc.ParallelFor(env, len(jobs), func(k int) { judge(jobs[k].st, follow.At(jobs[k].i), depth) })
			admit()
			env.R.Set(fmt.Sprintf("states_entering_depth_%d_%s", depth, eng), len(cur))
		}
	}
	if !env.Expired() {
		env.R.BoundCompleted("histories<=3")
	}
}

func replayC02(env *mc.Env, raw json.RawMessage) (bool, string) {
	var c c02Case
	if err := json.Unmarshal(raw, &c); err != nil {
		return false, err.Error()
	}
	base := c02Base()
	bs, err := c02Walk(base)
	if err != nil {
		return false, err.Error()
	}
	st := &c02State{l: base, stored: bs}
	for i, src := range c.History {
		next, bad, detail, res := c02Step(st, src, "", c.VM)
		if i == len(c.History)-1 {
			return bad != "", fmt.Sprintf("%s: %s (class %s)", bad, detail, res.Class)
		}
		if next == nil {
			return false, "history prefix failed: " + res.ErrString()
		}
		st = next
	}
	return false, "empty history"
}

func init() {
	mc.Register(&mc.Check{
		ID: "C02",
		Rule: "histories of <= 3 transactions on two accounts: the first transaction is every program of the resource fragment (header + <= 2 statements from the 56 resource templates: create, move through variables/arrays/dictionaries/optionals/second-value transfer/swap/casts/nested fields/attachments/storage of both accounts/contract field, destroy; 3 statements in the thorough tier); " +
			"every distinct resulting storage state (canonical decoded dump, uuids erased; capped) is continued with every storage/contract-vault program, twice; both engines. After every successful transaction the conservation equation S' = S + C - D is checked on uuids (C from the program's own log, D from delivered ResourceDestroyed events, S decoded from the committed ledger), together with duplicate-freedom of D and S', freshness of C and the attachment count; " +
			"non-trivial = distinct (engine, depth, program shape, start state) whose transaction changed the stored population",
		Assumptions: []string{
			"the prelude's initializers log their uuid and every resource type declares the default destruction event with its uuid; attachments are counted, not identified",
			"failed transactions are discarded by the host (rt.Run) and are not judged here (C24); internal errors are C01's subject and only counted",
		},
		Run:    runC02,
		Replay: replayC02,
	})
}

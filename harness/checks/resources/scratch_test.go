package resources

import (
	"os"
	"strings"
	"testing"

	"verif/rt"
)

// go test -run TestScratch with SRC=file: runs `---`-separated scripts with both engines.
func TestScratch(t *testing.T) {
	fn := os.Getenv("SRC")
	if fn == "" {
		t.Skip()
	}
	b, _ := os.ReadFile(fn)
	for _, src := range strings.Split(string(b), "\n---\n") {
		t.Log("=====\n" + src)
		for _, vm := range []bool{false, true} {
			l := rt.NewLedger()
			r := rt.Run(l, rt.Tx{Source: src, Script: !strings.Contains(src, "transaction"), UseVM: vm, Signers: nil})
			t.Logf("vm=%v class=%s kind=%s value=%v logs=%v err=%s", vm, r.Class, r.Kind, r.Value, r.Logs, r.ErrString())
		}
	}
}

package resources

import (
	"os"
	"strings"
	"testing"

	"github.com/onflow/cadence"
	"github.com/onflow/cadence/common"
	"verif/gen/proggen"
	"verif/rt"
)

// SRC2=file: runs `---`-separated programs importing the prelude C, both engines, arg 1.
func TestScratch2(t *testing.T) {
	fn := os.Getenv("SRC2")
	if fn == "" {
		t.Skip()
	}
	b, _ := os.ReadFile(fn)
	base := rt.NewLedger()
	rt.Deploy(base, rt.Addr(1), "C", proggen.PreludeContract, false)
	for _, src := range strings.Split(string(b), "\n---\n") {
		t.Log("=====\n" + src)
		for _, vm := range []bool{false, true} {
			script := !strings.Contains(src, "transaction")
			tx := rt.Tx{Source: src, Script: script, UseVM: vm}
			if strings.Contains(src, "arg: Int") {
				tx.Args = []cadence.Value{cadence.NewInt(1)}
			}
			if !script {
				tx.Signers = []common.Address{rt.Addr(1)}
			}
			r := rt.Run(base.Clone(), tx)
			t.Logf("vm=%v class=%s kind=%s value=%v logs=%v events=%v err=%s", vm, r.Class, r.Kind, r.Value, r.Logs, rt.EventStrings(r.Events), r.ErrString())
		}
	}
}

package resources

import (
	"encoding/json"
	"fmt"
	"sort"
	"strings"

	"github.com/onflow/cadence/common"

	"verif/mc"
	"verif/rt"
)

// ---------------------------------------------------------------------------
// C49 — attachments follow their lifecycle rules.
//
// Every straight-line sequence of attachment operations on one base value
// (resource or struct) is rendered as a transaction and run on both engines;
// a 40-line model (set of attachment types on the base + the counter each
// attachment carries) predicts every log line, the point of failure
// (attaching a type twice) and the multiset of destruction events.

const c49Contract = `access(all) contract T {
    access(all) entitlement E
    access(all) resource R {
        access(all) event ResourceDestroyed(tag: String = "R")
        access(all) let id: Int
        init(_ id: Int) { self.id = id }
        access(E) fun secret(): Int { return 42 }
    }
    access(all) struct S {
        access(all) let id: Int
        init(_ id: Int) { self.id = id }
        access(E) fun secret(): Int { return 42 }
    }
    access(all) attachment A for R {
        access(all) event ResourceDestroyed(tag: String = "A")
        access(all) var cnt: Int
        access(all) let x: Int
        init() { self.cnt = 0; self.x = 1 }
        access(all) fun getSelf(): Int { return self.x }
        access(all) fun getBase(): Int { return base.id }
        access(all) fun bump(): Int { self.cnt = self.cnt + 1; return self.cnt }
        access(E) fun viaEnt(): Int { return base.secret() }
    }
    access(all) attachment B for R {
        access(all) event ResourceDestroyed(tag: String = "B")
        access(all) var cnt: Int
        access(all) let x: Int
        init() { self.cnt = 0; self.x = 2 }
        access(all) fun getSelf(): Int { return self.x }
        access(all) fun getBase(): Int { return base.id }
        access(all) fun bump(): Int { self.cnt = self.cnt + 1; return self.cnt }
    }
    access(all) attachment SA for S {
        access(all) var cnt: Int
        access(all) let x: Int
        init() { self.cnt = 0; self.x = 1 }
        access(all) fun getSelf(): Int { return self.x }
        access(all) fun getBase(): Int { return base.id }
        access(all) fun bump(): Int { self.cnt = self.cnt + 1; return self.cnt }
        access(E) fun viaEnt(): Int { return base.secret() }
    }
    access(all) attachment SB for S {
        access(all) var cnt: Int
        access(all) let x: Int
        init() { self.cnt = 0; self.x = 2 }
        access(all) fun getSelf(): Int { return self.x }
        access(all) fun getBase(): Int { return base.id }
        access(all) fun bump(): Int { self.cnt = self.cnt + 1; return self.cnt }
    }
    access(all) fun mkR(_ id: Int): @R { return <- create R(id) }
}
`

var c49Ops = []string{"attachA", "attachB", "removeA", "removeB", "selfA", "baseA", "bumpA", "bumpB", "moveVar", "moveArr", "saveLoad", "viaRef", "forEach", "viaEnt"}

// the ops of the longest sequences in the quick tier
var c49CoreOps = []string{"attachA", "attachB", "removeA", "bumpA", "moveVar", "saveLoad", "viaRef", "forEach"}

type c49Case struct {
	Resource bool     `json:"resource"` // resource base (R) or struct base (S)
	Ops      []string `json:"ops"`
	End      string   `json:"end"` // "destroy" | "commit" (save, then load/probe/destroy in a second transaction)
	VM       bool     `json:"vm"`
}

// c49Model is the reference model.
type c49Model struct {
	has map[string]bool
	cnt map[string]int
}

type c49Expect struct {
	logs    [][]string // per transaction
	events  [][]string // per transaction, sorted tags
	failsAt int        // index of the transaction that must fail (-1 none)
}

// c49Render renders the transactions and computes the expectation.
func c49Render(c c49Case) (txs []string, exp c49Expect) {
	m := c49Model{has: map[string]bool{}, cnt: map[string]int{}}
	exp.failsAt = -1
	ty, atA, atB := "S", "T.SA", "T.SB"
	mv := "="
	if c.Resource {
		ty, atA, atB = "R", "T.A", "T.B"
		mv = "<-"
	}
	at := map[string]string{"A": atA, "B": atB}
	var b strings.Builder
	var logs, events []string
	w := func(f string, a ...any) { fmt.Fprintf(&b, "        "+f+"\n", a...) }
	v := 0
	cur := func() string { return fmt.Sprintf("v%d", v) }
	next := func() string { v++; return fmt.Sprintf("v%d", v) }
	b.WriteString("import T from 0x1\ntransaction {\n    prepare(acct: auth(Storage) &Account) {\n")
	if c.Resource {
		w("var v0 <- T.mkR(10)")
	} else {
		w("var v0 = T.S(10)")
	}
	failed := false
	opt := func(expr string) string { return "log(" + expr + " ?? -1)" }
	for i, op := range c.Ops {
		if failed {
			break
		}
		switch op {
		case "attachA", "attachB":
			k := op[len(op)-1:]
			old := cur()
			if c.Resource {
				w("var %s <- attach %s() to <- %s", next(), at[k], old)
			} else {
				w("var %s = attach %s() to %s", next(), at[k], old)
			}
			if m.has[k] {
				failed = true
				exp.failsAt = 0
			} else {
				m.has[k], m.cnt[k] = true, 0
			}
		case "removeA", "removeB":
			k := op[len(op)-1:]
			w("remove %s from %s", at[k], cur())
			if m.has[k] {
				m.has[k] = false
				if c.Resource {
					events = append(events, k)
				}
			}
		case "selfA":
			w(opt(cur() + "[" + atA + "]?.getSelf()"))
			logs = append(logs, pick(m.has["A"], "1", "-1"))
		case "baseA":
			w(opt(cur() + "[" + atA + "]?.getBase()"))
			logs = append(logs, pick(m.has["A"], "10", "-1"))
		case "bumpA", "bumpB":
			k := op[len(op)-1:]
			w(opt(cur() + "[" + at[k] + "]?.bump()"))
			if m.has[k] {
				m.cnt[k]++
				logs = append(logs, fmt.Sprint(m.cnt[k]))
			} else {
				logs = append(logs, "-1")
			}
		case "moveVar":
			old := cur()
			w("var %s %s %s", next(), mv, old)
		case "moveArr":
			old := cur()
			if c.Resource {
				w("var arr%d <- [<- %s]", i, old)
				w("var %s <- arr%d.remove(at: 0)", next(), i)
				w("destroy arr%d", i)
			} else {
				w("var arr%d = [%s]", i, old)
				w("var %s = arr%d.remove(at: 0)", next(), i)
			}
		case "saveLoad":
			old := cur()
			if c.Resource {
				w("acct.storage.save(<- %s, to: /storage/v)", old)
				w("var %s <- acct.storage.load<@T.R>(from: /storage/v)!", next())
			} else {
				w("acct.storage.save(%s, to: /storage/v)", old)
				w("var %s = acct.storage.load<T.S>(from: /storage/v)!", next())
			}
		case "viaRef":
			w(opt("(&" + cur() + " as &T." + ty + ")[" + atA + "]?.getBase()"))
			logs = append(logs, pick(m.has["A"], "10", "-1"))
		case "viaEnt":
			w(opt("(&" + cur() + " as auth(T.E) &T." + ty + ")[" + atA + "]?.viaEnt()"))
			logs = append(logs, pick(m.has["A"], "42", "-1"))
		case "forEach":
			w("var n%d = 0", i)
			if c.Resource {
				w("%s.forEachAttachment(fun (a: &AnyResourceAttachment) { n%d = n%d + 1 })", cur(), i, i)
			} else {
				w("%s.forEachAttachment(fun (a: &AnyStructAttachment) { n%d = n%d + 1 })", cur(), i, i)
			}
			w("log(n%d)", i)
			logs = append(logs, fmt.Sprint(count(m)))
		}
	}
	destroyEvents := func() []string {
		var ev []string
		if c.Resource {
			for _, k := range []string{"A", "B"} {
				if m.has[k] {
					ev = append(ev, k)
				}
			}
			ev = append(ev, "R")
		}
		return ev
	}
	if c.End == "destroy" {
		if c.Resource {
			w("destroy %s", cur())
		}
		if !failed {
			events = append(events, destroyEvents()...)
		}
	} else {
		if c.Resource {
			w("acct.storage.save(<- %s, to: /storage/final)", cur())
		} else {
			w("acct.storage.save(%s, to: /storage/final)", cur())
		}
	}
	b.WriteString("    }\n}\n")
	txs = append(txs, b.String())
	if failed {
		// everything the failed transaction logged before the failure is still observable; events are not judged
		exp.logs = [][]string{logs}
		exp.events = [][]string{nil}
		return
	}
	sort.Strings(events)
	exp.logs = append(exp.logs, logs)
	exp.events = append(exp.events, events)
	if c.End == "commit" {
		var b2 strings.Builder
		w2 := func(f string, a ...any) { fmt.Fprintf(&b2, "        "+f+"\n", a...) }
		b2.WriteString("import T from 0x1\ntransaction {\n    prepare(acct: auth(Storage) &Account) {\n")
		var l2 []string
		if c.Resource {
			w2("var w <- acct.storage.load<@T.R>(from: /storage/final)!")
		} else {
			w2("var w = acct.storage.load<T.S>(from: /storage/final)!")
		}
		w2("var n = 0")
		if c.Resource {
			w2("w.forEachAttachment(fun (a: &AnyResourceAttachment) { n = n + 1 })")
		} else {
			w2("w.forEachAttachment(fun (a: &AnyStructAttachment) { n = n + 1 })")
		}
		w2("log(n)")
		l2 = append(l2, fmt.Sprint(count(m)))
		w2(opt("w[" + atA + "]?.getBase()"))
		l2 = append(l2, pick(m.has["A"], "10", "-1"))
		w2(opt("w[" + atA + "]?.bump()"))
		l2 = append(l2, pick(m.has["A"], fmt.Sprint(m.cnt["A"]+1), "-1"))
		w2(opt("w[" + atB + "]?.bump()"))
		l2 = append(l2, pick(m.has["B"], fmt.Sprint(m.cnt["B"]+1), "-1"))
		if c.Resource {
			w2("destroy w")
		}
		b2.WriteString("    }\n}\n")
		txs = append(txs, b2.String())
		ev2 := destroyEvents()
		sort.Strings(ev2)
		exp.logs = append(exp.logs, l2)
		exp.events = append(exp.events, ev2)
	}
	return
}

func pick(c bool, a, b string) string {
	if c {
		return a
	}
	return b
}

func count(m c49Model) int {
	n := 0
	for _, h := range m.has {
		if h {
			n++
		}
	}
	return n
}

func c49Base() *rt.Ledger {
	l := rt.NewLedger()
	rt.Deploy(l, rt.Addr(1), "T", c49Contract, false)
	return l
}

// c49Judge runs the case and compares with the model. verdict "" = agreement.
func c49Judge(base *rt.Ledger, c c49Case) (verdict, detail, class string) {
	txs, exp := c49Render(c)
	l := base.Clone()
	for i, src := range txs {
		res := rt.Run(l, rt.Tx{Source: src, Signers: []common.Address{rt.Addr(1)}, UseVM: c.VM})
		if res.Class == "user" && (strings.Contains(res.Kind, "CheckerError") || strings.Contains(res.Kind, "parser")) {
			return "", res.ErrString(), "checker-rejected:" + shortKind(res.Kind)
		}
		var logs []string
		for _, x := range res.Logs {
			logs = append(logs, strings.Trim(x, "\""))
		}
		var evs []string
		for _, e := range res.Events {
			if e.EventType != nil && strings.HasSuffix(e.EventType.QualifiedIdentifier, ".ResourceDestroyed") {
				parts := strings.Split(e.EventType.QualifiedIdentifier, ".")
				evs = append(evs, parts[len(parts)-2])
			}
		}
		sort.Strings(evs)
		show := fmt.Sprintf("tx %d: class=%s kind=%s logs=%v events=%v; expected logs=%v events=%v fails=%v\n%s\n%s", i, res.Class, res.Kind, logs, evs, exp.logs[i], exp.events[i], exp.failsAt == i, res.ErrString(), src)
		if exp.failsAt == i {
			switch {
			case res.OK():
				return "duplicate-attach-succeeded", show, ""
			case res.Class != "user":
				return "duplicate-attach-" + res.Class, show, ""
			case strings.Join(logs, ",") != strings.Join(exp.logs[i], ","):
				return "wrong-logs-before-failure", show, ""
			}
			return "", "", "duplicate-attach-failed:" + shortKind(res.Kind)
		}
		if !res.OK() {
			return "unexpected-failure-" + res.Class + ":" + shortKind(res.Kind), show, ""
		}
		if strings.Join(logs, ",") != strings.Join(exp.logs[i], ",") {
			return "wrong-observation", show, ""
		}
		if strings.Join(evs, ",") != strings.Join(exp.events[i], ",") {
			return "wrong-destruction-events", show, ""
		}
	}
	if len(txs) == 2 {
		return "", "", "ok:across-transactions"
	}
	return "", "", "ok"
}

func c49Cases(thorough bool) []c49Case {
	var seqs [][]string
	var gen func(prefix []string, ops []string, left int)
	gen = func(prefix []string, ops []string, left int) {
		seqs = append(seqs, append([]string(nil), prefix...))
		if left == 0 {
			return
		}
		for _, o := range ops {
			gen(append(prefix, o), ops, left-1)
		}
	}
	if thorough {
		gen(nil, c49Ops, 4)
		// length 5 over the core ops
		var gen5 func(prefix []string)
		gen5 = func(prefix []string) {
			if len(prefix) == 5 {
				seqs = append(seqs, append([]string(nil), prefix...))
				return
			}
			for _, o := range c49CoreOps {
				gen5(append(prefix, o))
			}
		}
		gen5(nil)
	} else {
		gen(nil, c49Ops, 3)
		var gen4 func(prefix []string)
		gen4 = func(prefix []string) {
			if len(prefix) == 4 {
				seqs = append(seqs, append([]string(nil), prefix...))
				return
			}
			for _, o := range c49CoreOps {
				gen4(append(prefix, o))
			}
		}
		gen4(nil)
	}
	// the all-ops enumeration and the core enumeration overlap; drop duplicates
	seen := map[string]bool{}
	var out []c49Case
	for _, s := range seqs {
		k := strings.Join(s, ",")
		if seen[k] {
			continue
		}
		seen[k] = true
		for _, res := range []bool{true, false} {
			for _, end := range []string{"destroy", "commit"} {
				out = append(out, c49Case{Resource: res, Ops: s, End: end})
			}
		}
	}
	return out
}

func c49Sig(c c49Case, verdict string) string {
	eng, base := "interpreter", "struct"
	if c.VM {
		eng = "vm"
	}
	if c.Resource {
		base = "resource"
	}
	// structural class: the set of operation kinds involved, not their order
	set := map[string]bool{}
	for _, o := range c.Ops {
		set[o] = true
	}
	var ks []string
	for k := range set {
		ks = append(ks, k)
	}
	sort.Strings(ks)
	return fmt.Sprintf("%s|%s|%s|end=%s|ops={%s}", verdict, eng, base, c.End, strings.Join(ks, ","))
}

func runC49(env *mc.Env) {
	base := c49Base()
	cases := c49Cases(env.Thorough())
	env.R.Set("sequences_x_base_x_end", len(cases))
	mc.ParallelFor(env, len(cases), func(i int) {
		for _, vm := range []bool{false, true} {
			c := cases[i]
			c.VM = vm
			verdict, detail, class := c49Judge(base, c)
			if strings.HasPrefix(class, "checker-rejected") {
				env.R.Add("checker_rejected", 1)
				env.R.Class(class, func() any { return map[string]any{"case": c, "error": detail} })
				return
			}
			env.R.Eval()
			if verdict != "" {
				env.R.Violation(c49Sig(c, verdict), c, detail)
				continue
			}
			env.R.Class(class, func() any { return c })
			nt := false
			for _, o := range c.Ops {
				if strings.HasPrefix(o, "attach") || strings.HasPrefix(o, "remove") {
					nt = true
				}
			}
			if nt {
				env.R.Nontrivial(fmt.Sprintf("%v|%v|%s", c.Resource, c.Ops, c.End))
			}
		}
	})
}

func replayC49(env *mc.Env, raw json.RawMessage) (bool, string) {
	var c c49Case
	if err := json.Unmarshal(raw, &c); err != nil {
		return false, err.Error()
	}
	verdict, detail, class := c49Judge(c49Base(), c)
	return verdict != "", verdict + class + " " + detail
}

func init() {
	mc.Register(&mc.Check{
		ID: "C49",
		Rule: "every sequence of <= 3 operations from 14 (attach A, attach B, remove A, remove B, attachment method returning self.x / base.id / a counter kept in the attachment, move to a variable, through an array, through storage, access through a reference, through an entitled reference, forEachAttachment) and every sequence of 4 over 8 core operations (thorough: <= 4 and 5), " +
			"x {resource base, struct base} x {destroy at the end, commit to storage and load/probe/destroy in a second transaction} x {interpreter, VM}; a reference model (attachment set + counters per base) predicts every logged value, the failure of a duplicate attach, and the multiset of destruction events; non-trivial = distinct sequence containing an attach or remove",
		Assumptions: []string{
			"removing an attachment that is not present is a no-op (the property does not say it fails); destruction events are compared as multisets per transaction, their order is not judged",
			"the attachments' destruction events use literal default arguments (a self.x default fails on the pinned VM: C01 probe)",
		},
		Run:    runC49,
		Replay: replayC49,
	})
}

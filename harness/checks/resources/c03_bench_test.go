package resources

import (
	"testing"

	"verif/gen/proggen"
)

func BenchmarkC03Judge(b *testing.B) {
	var all [][]proggen.LinTok
	proggen.EnumLinear(proggen.LinOpts{MaxNodes: 4}, func(toks []proggen.LinTok) bool {
		all = append(all, append([]proggen.LinTok(nil), toks...))
		return true
	})
	lc := newLinChecker()
	b.ResetTimer()
	for i := 0; i < b.N; i++ {
		lc.judge(all[(i*7919)%len(all)])
	}
}

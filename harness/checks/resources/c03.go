// Package resources holds the checks of the resource family: C01, C02, C03,
// C04, C49.
package resources

import (
	"encoding/json"
	"fmt"
	"os"
	"reflect"
	"runtime/debug"
	"sort"
	"strings"
	"sync"

	"github.com/onflow/cadence/ast"
	"github.com/onflow/cadence/common"
	"github.com/onflow/cadence/parser"
	"github.com/onflow/cadence/sema"
	"github.com/onflow/cadence/stdlib"

	"verif/gen/proggen"
	"verif/mc"
)

// ---------------------------------------------------------------------------
// C03 — the checker rejects every resource-linearity violation, and accepts
// every linear program of the fragment.
//
// Real code: parser.ParseProgram + sema.Checker.Check on every program of the
// linear fragment (gen/proggen/linear.go). Oracle: linOracle below, an
// independent path-sensitive analysis.

// linVerdict is what the path oracle found.
type linVerdict struct {
	loss, useAfter bool
}

func (v linVerdict) linear() bool { return !v.loss && !v.useAfter }

// --- the oracle (path enumeration) -----------------------------------------
//
// State per variable name: declared?, valid?, depth of the declaring scope.
// Every path is followed with conditions unknown and loops unrolled 0, 1 and
// 2 times (exact for this fragment: variable states only go valid -> gone, so
// any violation reachable in iteration n is reachable with <= 2 iterations).
// A path ending in panic owes nothing. `if let y <- x` consumes x on both
// branches (DESIGN §1.7). A nested function body is analysed on its own with
// only its parameter in scope.

type lvar struct {
	decl, valid bool
	depth       int
}
type lstate [2]lvar

const (
	exFall = iota
	exBreak
	exContinue
	exReturn
	exPanic
)

type lout struct {
	st lstate
	ex int
}

type linOracle struct{ v linVerdict }

func (o *linOracle) use(st *lstate, x uint8) {
	if !st[x].valid {
		o.v.useAfter = true
	}
}

// leave reports loss for every valid variable declared at depth >= d and
// removes those declared at depth >= d when drop is set.
func (o *linOracle) leave(st *lstate, d int, drop bool) {
	for i := range st {
		if st[i].decl && st[i].depth >= d {
			if st[i].valid {
				o.v.loss = true
			}
			if drop {
				st[i] = lvar{}
			}
		}
	}
}

// block runs a statement list in a new scope at depth d; loopDepth is the
// depth of the innermost enclosing loop body (-1 = none), fnDepth the depth
// of the function body.
func (o *linOracle) block(stmts []proggen.LinStmt, st lstate, d, loopDepth, fnDepth int) []lout {
	cur := []lout{{st, exFall}}
	for _, s := range stmts {
		var next []lout
		for _, c := range cur {
			if c.ex != exFall {
				next = append(next, c)
				continue
			}
			next = append(next, o.stmt(s, c.st, d, loopDepth, fnDepth)...)
		}
		cur = dedupOuts(next)
	}
	for i := range cur {
		switch cur[i].ex {
		case exFall:
			o.leave(&cur[i].st, d, true)
		case exBreak, exContinue:
			// leaves every scope down to the loop body; the enclosing
			// blocks are not "fallen out of", so do the whole check here
			o.leave(&cur[i].st, loopDepth, false)
			o.drop(&cur[i].st, d)
		case exReturn:
			o.leave(&cur[i].st, fnDepth, false)
			o.drop(&cur[i].st, d)
		case exPanic:
			o.drop(&cur[i].st, d)
		}
	}
	return dedupOuts(cur)
}

func (o *linOracle) drop(st *lstate, d int) {
	for i := range st {
		if st[i].decl && st[i].depth >= d {
			st[i] = lvar{}
		}
	}
}

func dedupOuts(in []lout) []lout {
	if len(in) < 2 {
		return in
	}
	out := in[:0:0]
	seen := map[lout]bool{}
	for _, x := range in {
		if !seen[x] {
			seen[x] = true
			out = append(out, x)
		}
	}
	return out
}

func (o *linOracle) stmt(s proggen.LinStmt, st lstate, d, loopDepth, fnDepth int) []lout {
	switch s.K {
	case proggen.LCreate, proggen.LCreateO:
		st[s.Y] = lvar{true, true, d}
	case proggen.LMoveVar:
		o.use(&st, s.X)
		st[s.X].valid = false
		st[s.Y] = lvar{true, true, d}
	case proggen.LDestroy, proggen.LArg, proggen.LArr, proggen.LOpt:
		o.use(&st, s.X)
		st[s.X].valid = false
	case proggen.LUse:
		o.use(&st, s.X)
	case proggen.LSwap:
		o.use(&st, s.X)
		o.use(&st, s.Y)
	case proggen.LBreak:
		return []lout{{st, exBreak}}
	case proggen.LContinue:
		return []lout{{st, exContinue}}
	case proggen.LReturn:
		return []lout{{st, exReturn}}
	case proggen.LPanic:
		return []lout{{st, exPanic}}
	case proggen.LIf:
		return append(o.block(s.Body, st, d+1, loopDepth, fnDepth), lout{st, exFall})
	case proggen.LIfElse:
		return append(o.block(s.Body, st, d+1, loopDepth, fnDepth), o.block(s.Else, st, d+1, loopDepth, fnDepth)...)
	case proggen.LIfLet:
		o.use(&st, s.X)
		st[s.X].valid = false
		elseOuts := o.block(s.Else, st, d+1, loopDepth, fnDepth)
		// the bound variable lives in the then-block's scope
		thenSt := st
		thenSt[s.Y] = lvar{true, true, d + 1}
		return append(o.block(s.Body, thenSt, d+1, loopDepth, fnDepth), elseOuts...)
	case proggen.LWhile, proggen.LFor:
		outs := []lout{{st, exFall}} // zero iterations
		entry := []lout{{st, exFall}}
		for iter := 0; iter < 2; iter++ {
			var nextEntry []lout
			for _, e := range entry {
				for _, r := range o.block(s.Body, e.st, d+1, d+1, fnDepth) {
					switch r.ex {
					case exFall, exContinue:
						nextEntry = append(nextEntry, lout{r.st, exFall})
						outs = append(outs, lout{r.st, exFall})
					case exBreak:
						outs = append(outs, lout{r.st, exFall})
					default:
						outs = append(outs, r)
					}
				}
			}
			entry = dedupOuts(nextEntry)
		}
		return dedupOuts(outs)
	case proggen.LFun:
		var fst lstate
		fst[s.Y] = lvar{true, true, 0}
		sub := &linOracle{}
		sub.block(s.Body, fst, 0, -1, 0)
		if sub.v.loss {
			o.v.loss = true
		}
		if sub.v.useAfter {
			o.v.useAfter = true
		}
	}
	return []lout{{st, exFall}}
}

// LinJudge runs the path oracle on a program.
func LinJudge(toks []proggen.LinTok) linVerdict {
	o := &linOracle{}
	o.block(proggen.ParseLin(toks), lstate{}, 0, -1, 0)
	return o.v
}

// --- the real checker ---------------------------------------------------------

var (
	linBaseOnce sync.Once
	linBase     *sema.VariableActivation
)

func linConfig(imp *sema.Elaboration) *sema.Config {
	linBaseOnce.Do(func() {
		linBase = sema.NewVariableActivation(sema.BaseValueActivation)
		linBase.DeclareValue(stdlib.InterpreterPanicFunction)
	})
	cfg := &sema.Config{
		AccessCheckMode:            sema.AccessCheckModeStrict,
		BaseValueActivationHandler: func(common.Location) *sema.VariableActivation { return linBase },
	}
	if imp != nil {
		cfg.ImportHandler = func(*sema.Checker, common.Location, ast.Range) (sema.Import, error) {
			return sema.ElaborationImport{Elaboration: imp}, nil
		}
	}
	return cfg
}

// linChecker checks linear-fragment programs. To keep the per-program cost
// low the fixed prelude is checked once (per worker) and imported; every
// disagreement is re-checked on the self-contained program text.
type linChecker struct{ prelude *sema.Elaboration }

func newLinChecker() *linChecker {
	prog, err := parser.ParseProgram(nil, []byte(proggen.LinearPrelude), parser.Config{})
	if err != nil {
		panic(err)
	}
	checker, err := sema.NewChecker(prog, common.StringLocation("p"), nil, linConfig(nil))
	if err != nil {
		panic(err)
	}
	if err := checker.Check(); err != nil {
		panic(fmt.Sprintf("linear prelude does not check: %v", err))
	}
	return &linChecker{prelude: checker.Elaboration}
}

// check parses and checks src; it returns the sorted distinct error kinds.
func (lc *linChecker) check(src string, imported bool) (kinds []string, parseErr error) {
	prog, err := parser.ParseProgram(nil, []byte(src), parser.Config{})
	if err != nil {
		return nil, err
	}
	var imp *sema.Elaboration
	if imported {
		imp = lc.prelude
	}
	checker, err := sema.NewChecker(prog, common.StringLocation("c03"), nil, linConfig(imp))
	if err != nil {
		return nil, err
	}
	err = checker.Check()
	if err == nil {
		return nil, nil
	}
	set := map[string]bool{}
	if ce, ok := err.(*sema.CheckerError); ok {
		for _, e := range ce.Errors {
			set[strings.TrimPrefix(reflect.TypeOf(e).String(), "*sema.")] = true
		}
	} else {
		set["?"+reflect.TypeOf(err).String()] = true
	}
	for k := range set {
		kinds = append(kinds, k)
	}
	sort.Strings(kinds)
	return kinds, nil
}

var linearityErrors = map[string]bool{
	"ResourceLossError":                 true,
	"ResourceUseAfterInvalidationError": true,
}

type c03Case struct {
	Toks   []proggen.LinTok `json:"toks"`
	Source string           `json:"source"`
}

// verdict of the real checker on one program: "" = accepted, "rejected", or
// a harness complaint.
func (lc *linChecker) rejects(toks []proggen.LinTok, imported bool) (rejected bool, kinds []string, harness string) {
	var src string
	if imported {
		src = proggen.RenderLinImported(toks)
	} else {
		src = proggen.RenderLin(toks)
	}
	kinds, perr := lc.check(src, imported)
	if perr != nil {
		return false, nil, fmt.Sprintf("generated program does not parse: %v\n%s", perr, src)
	}
	for _, k := range kinds {
		if !linearityErrors[k] {
			return false, kinds, fmt.Sprintf("unexpected checker error kind %s (the fragment promises programs that are type-correct apart from linearity)\n%s", k, src)
		}
		rejected = true
	}
	return rejected, kinds, ""
}

// disagreement returns "" (agree), "rejects-linear" or "accepts-nonlinear".
func (lc *linChecker) disagreement(toks []proggen.LinTok, imported bool) (dir string, v linVerdict, kinds []string, harness string) {
	rejected, kinds, harness := lc.rejects(toks, imported)
	if harness != "" {
		return "", v, kinds, harness
	}
	v = LinJudge(toks)
	switch {
	case v.linear() && rejected:
		return "rejects-linear", v, kinds, ""
	case !v.linear() && !rejected:
		return "accepts-nonlinear", v, kinds, ""
	}
	return "", v, kinds, ""
}

// judge compares the checker with the oracle on one program. sig == ""
// means agreement; harness != "" is a generator defect.
func (lc *linChecker) judge(toks []proggen.LinTok) (sig, detail, class, harness string) {
	dir, v, kinds, harness := lc.disagreement(toks, true)
	if harness != "" {
		return "", "", "", harness
	}
	if dir == "" {
		if v.linear() {
			return "", "", "linear-accepted", ""
		}
		c := "nonlinear-rejected"
		switch {
		case v.loss && !v.useAfter:
			c += ":loss"
		case v.useAfter && !v.loss:
			c += ":use-after"
		default:
			c += ":both"
		}
		return "", "", c, ""
	}
	// confirm on the self-contained text (no import)
	dir2, _, _, h2 := lc.disagreement(toks, false)
	if h2 != "" || dir2 != dir {
		return "", "", "", fmt.Sprintf("verdict with imported prelude (%s) differs from verdict on the self-contained program (%s %s):\n%s", dir, dir2, h2, proggen.RenderLin(toks))
	}
	core := lc.minimizeMemo(toks, dir)
	sig = dir + "|" + proggen.LinSkeleton(core)
	if dir == "rejects-linear" {
		detail = fmt.Sprintf("every path of the program is linear but the checker reports %v:\n%s(reduced core: %s)", kinds, bodyOf(toks), proggen.LinSkeleton(core))
	} else {
		what := "a resource loss"
		if v.useAfter {
			what = "a use / second move after invalidation"
		}
		detail = fmt.Sprintf("some path has %s but the checker accepts:\n%s(reduced core: %s)", what, bodyOf(toks), proggen.LinSkeleton(core))
	}
	return sig, detail, "", ""
}

// linMemo caches reduced cores by canonicalised program (all invalidations as
// destroy, all loops as while): the many leaf-kind variants of one program
// share one reduction. The cache key determines the result, so the outcome
// does not depend on which worker sees a program first.
var linMemo sync.Map

func (lc *linChecker) minimizeMemo(toks []proggen.LinTok, dir string) []proggen.LinTok {
	canon := make([]proggen.LinTok, len(toks))
	for i, t := range toks {
		switch t.K {
		case proggen.LArg, proggen.LArr, proggen.LOpt:
			t.K = proggen.LDestroy
		case proggen.LFor:
			t.K = proggen.LWhile
		}
		canon[i] = t
	}
	if d, _, _, h := lc.disagreement(canon, true); h != "" || d != dir {
		return lc.minimize(toks, dir)
	}
	key := dir + fmt.Sprint(canon)
	if v, ok := linMemo.Load(key); ok {
		return v.([]proggen.LinTok)
	}
	core := lc.minimize(canon, dir)
	linMemo.Store(key, core)
	return core
}

// minimize greedily reduces a disagreeing program to a 1-minimal core that is
// still a member of the fragment and still disagrees in the same direction.
// The skeleton of the core is the structural class used in the signature, so
// that the many embeddings of one checker gap share one signature while a
// different gap reduces to a different core.
func (lc *linChecker) minimize(toks []proggen.LinTok, dir string) []proggen.LinTok {
	cur := proggen.ParseLin(toks)
	still := func(cand []proggen.LinStmt) bool {
		if !proggen.LinValid(cand) {
			return false
		}
		d, _, _, h := lc.disagreement(proggen.FlattenLin(cand), true)
		return h == "" && d == dir
	}
	for changed := true; changed; {
		changed = false
		for _, cand := range linReductions(cur) {
			if still(cand) {
				cur = cand
				changed = true
				break
			}
		}
	}
	return proggen.FlattenLin(cur)
}

// linReductions lists all one-step reductions of a tree, in a fixed order:
// per statement (pre-order) delete it, replace it by one of its blocks,
// simplify its kind.
func linReductions(stmts []proggen.LinStmt) [][]proggen.LinStmt {
	var out [][]proggen.LinStmt
	// rebuild returns a copy of the tree with statement i of this list replaced by repl
	var walk func(list []proggen.LinStmt, rebuild func([]proggen.LinStmt) []proggen.LinStmt)
	walk = func(list []proggen.LinStmt, rebuild func([]proggen.LinStmt) []proggen.LinStmt) {
		// deleting two statements of one block at once (a declaration and its only consumer)
		for i := 0; i < len(list); i++ {
			for j := i + 1; j < len(list); j++ {
				n := make([]proggen.LinStmt, 0, len(list)-2)
				n = append(n, list[:i]...)
				n = append(n, list[i+1:j]...)
				n = append(n, list[j+1:]...)
				out = append(out, rebuild(n))
			}
		}
		for i := range list {
			i := i
			s := list[i]
			splice := func(repl ...proggen.LinStmt) []proggen.LinStmt {
				n := make([]proggen.LinStmt, 0, len(list)-1+len(repl))
				n = append(n, list[:i]...)
				n = append(n, repl...)
				n = append(n, list[i+1:]...)
				return rebuild(n)
			}
			out = append(out, splice())
			switch s.K {
			case proggen.LIf, proggen.LWhile, proggen.LFor:
				out = append(out, splice(s.Body...))
			case proggen.LIfElse:
				out = append(out, splice(s.Body...), splice(s.Else...))
				if len(s.Else) == 0 {
					t := s
					t.K = proggen.LIf
					out = append(out, splice(t))
				}
				if len(s.Body) == 0 {
					// conditions are unknown: `if c {} else {X}` is `if c {X}` for linearity
					out = append(out, splice(proggen.LinStmt{K: proggen.LIf, Body: s.Else}))
				}
			case proggen.LFun:
				// a parameter is a resource declared at the top of the body
				out = append(out, splice(append([]proggen.LinStmt{{K: proggen.LCreate, Y: s.Y}}, s.Body...)...))
			case proggen.LIfLet:
				out = append(out, splice(s.Else...))
				// an optional binding is, for its source, an invalidation
				out = append(out, splice(proggen.LinStmt{K: proggen.LDestroy, X: s.X, T: s.T}))
			case proggen.LMoveVar:
				out = append(out, splice(proggen.LinStmt{K: proggen.LDestroy, X: s.X, T: s.T}))
				// drop the move and let the old name stand for the new one
				out = append(out, renameLin(splice(), s.Y, s.X))
			case proggen.LArg, proggen.LArr, proggen.LOpt:
				out = append(out, splice(proggen.LinStmt{K: proggen.LDestroy, X: s.X, T: s.T}))
			}
			if s.K == proggen.LFor {
				t := s
				t.K = proggen.LWhile
				out = append(out, splice(t))
			}
			if len(s.Body) > 0 {
				walk(s.Body, func(nb []proggen.LinStmt) []proggen.LinStmt {
					t := s
					t.Body = nb
					return splice(t)
				})
			}
			if len(s.Else) > 0 {
				walk(s.Else, func(nb []proggen.LinStmt) []proggen.LinStmt {
					t := s
					t.Else = nb
					return splice(t)
				})
			}
		}
	}
	walk(stmts, func(n []proggen.LinStmt) []proggen.LinStmt { return n })
	return out
}

// renameLin renames variable from to variable to everywhere.
func renameLin(stmts []proggen.LinStmt, from, to uint8) []proggen.LinStmt {
	out := make([]proggen.LinStmt, len(stmts))
	for i, s := range stmts {
		switch s.K {
		case proggen.LCreate, proggen.LCreateO, proggen.LFun:
			// X is unused
		default:
			if s.X == from {
				s.X = to
			}
		}
		switch s.K {
		case proggen.LCreate, proggen.LCreateO, proggen.LFun, proggen.LMoveVar, proggen.LIfLet, proggen.LSwap:
			if s.Y == from {
				s.Y = to
			}
		}
		if s.K != proggen.LFun { // a nested function body has its own names
			s.Body = renameLin(s.Body, from, to)
			s.Else = renameLin(s.Else, from, to)
		}
		out[i] = s
	}
	return out
}

func bodyOf(toks []proggen.LinTok) string {
	var sb strings.Builder
	proggen.RenderLinBody(&sb, toks)
	return sb.String()
}

type c03Slice struct {
	name string
	opts proggen.LinOpts
}

// c03Slices: quick = every program with <= 5 nodes, plus the 6-node programs
// over one variable and the reduced alphabet that contain a break/continue
// (the smallest programs in which a jump follows an invalidation in one
// branch have 6 nodes). thorough = every program with <= 5 nodes plus every
// 6-node program over the reduced alphabet (destroy and array move as the
// invalidations, while as the loop; 23 M programs; the full alphabet at 6
// nodes would be 64 M), the cheap one-variable slice first so that a
// deadline cuts the least informative part.
func c03Slices(thorough bool) []c03Slice {
	if thorough {
		return []c03Slice{
			{"all<=5", proggen.LinOpts{MaxNodes: 5}},
			{"6-nodes/1var/reduced", proggen.LinOpts{MaxNodes: 6, MinNodes: 6, Reduced: true, OneVar: true, NoOptional: true}},
			{"6-nodes/reduced", proggen.LinOpts{MaxNodes: 6, MinNodes: 6, Reduced: true}},
		}
	}
	return []c03Slice{
		{"all<=5", proggen.LinOpts{MaxNodes: 5}},
		{"6-nodes/1var/reduced/with-jump", proggen.LinOpts{MaxNodes: 6, MinNodes: 6, Reduced: true, OneVar: true, NoOptional: true, NeedJump: true}},
		// the smallest programs in which an exiting branch is merged with a partially invalidating one
		{"6-nodes/1var/exit-branch-vs-partial-branch", proggen.LinOpts{MaxNodes: 6, MinNodes: 6, OneVar: true, Filter: proggen.BranchExitVsPartial}},
	}
}

// (7-node members of the exit-branch-vs-partial-branch family are among the seeds.)
// c03Seeds are hand-written programs beyond the exhaustive node bound (7-9
// nodes): nested loops, jumps combined with return/panic in a branch, two
// variables across a loop, optional binding around a loop. They are judged
// exactly like the enumerated programs.
var c03Seeds = strings.Fields(`
D0;loop{if{I0;if{break;}return;}}I0;   D0;loop{if{I0;if{continue;}return;}}I0;   D0;if{I0;if{}return;}I0;
D0;D1;loop{if{I0;I1;return;}}I0;I1;    D0;D1;if{I0;}else{I1;return;}if{}I1;      loop{D0;loop{D1;I1;if{I0;return;}}I0;}
loop{D0;loop{if{I0;return;}break;}I0;} O0;iflet1<0{loop{if{I1;return;}}I1;}else{} D0;loop{loop{if{I0;return;}}}I0;
D0;loop{if{I0;return;}else{continue;}}I0; D0;loop{if{I0;return;}if{break;}}I0;   D0;D1;S;loop{if{I0;I1;return;}}I1;I0;
D0;loop{if{M1<0;I1;return;}}U0;I0;     loop{D0;if{I0;continue;}else{I0;break;}}  loop{D0;if{I0;continue;}else{I0;}}
D0;loop{if{break;}}I0;                 D0;loop{if{I0;panic;}if{break;}}I0;       D0;loop{if{if{break;}I0;return;}}I0;
loop{D0;if{I0;break;}I0;}              loop{D0;loop{if{I0;return;}}if{I0;continue;}I0;}  D0;loop{D1;if{I1;I0;return;}I1;}I0;
D0;loop{D1;if{I1;continue;}A1;}I0;     D0;loop{I0;loop{}}panic;                  D0;D1;loop{if{I0;return;}U1;}I0;I1;
fun0{loop{if{I0;return;}}I0;}D0;for{D1;I1;}I0;   O0;for{iflet1<0{I1;return;}else{return;}}I0;
D0;if{I0;return;}else{if{I0;}}         D0;if{if{I0;}}else{I0;return;}            D0;if{I0;return;}else{loop{I0;break;}}
D0;if{I0;return;}else{if{I0;}}I0;      D0;if{I0;panic;}else{if{I0;}}             loop{D0;if{I0;break;}else{if{I0;}}I0;}
loop{D0;if{I0;continue;}else{if{I0;}}} D0;if{I0;return;}else{if{I0;}else{I0;}}   D0;U0;if{I0;return;}else{if{U0;I0;}}
D0;if{if{I0;}else{}}else{U0;I0;return;}  D0;D1;if{I0;I1;return;}else{if{I0;}I1;}  D0;if{I0;return;}else{loop{if{I0;break;}}}
`)

func runC03(env *mc.Env) {
	// every program is a few short-lived kilobytes: collect less often
	defer debug.SetGCPercent(debug.SetGCPercent(800))
	slices := c03Slices(env.Thorough())
	var coreMu sync.Mutex
	cores := map[string]int{}
	var dis [][]proggen.LinTok
	saveDis := os.Getenv("C03_SAVE") != ""
	defer func() {
		var list []string
		for k, n := range cores {
			list = append(list, fmt.Sprintf("%s (%d programs)", k, n))
		}
		sort.Strings(list)
		env.R.Set("disagreement_cores", list)
		if saveDis {
			b, _ := json.Marshal(dis)
			os.WriteFile(os.Getenv("C03_SAVE"), b, 0o644)
		}
	}()
	const batch = 2048
	slices = append(slices, c03Slice{name: "seeds"})
	if env.Sub != "" { // debugging aid: run only the slices whose name contains --sub
		var sel []c03Slice
		for _, sl := range slices {
			if strings.Contains(sl.name, env.Sub) {
				sel = append(sel, sl)
			}
		}
		slices = sel
		env.R.NotExhaustive("slice selection --sub " + env.Sub)
	}
	for _, sl := range slices {
		ch := make(chan [][]proggen.LinTok, 2*env.Workers)
		var generated int64
		go func() {
			defer close(ch)
			var cur [][]proggen.LinTok
			if sl.name == "seeds" {
				for _, sk := range c03Seeds {
					toks, ok := proggen.ParseSkeleton(sk)
					if !ok {
						env.R.HarnessError("seed %q does not parse", sk)
						continue
					}
					cur = append(cur, toks)
					generated++
				}
				ch <- cur
				return
			}
			proggen.EnumLinear(sl.opts, func(toks []proggen.LinTok) bool {
				cur = append(cur, append([]proggen.LinTok(nil), toks...))
				generated++
				if len(cur) == batch {
					if env.Expired() {
						env.R.NotExhaustive("deadline hit while enumerating slice " + sl.name)
						return false
					}
					ch <- cur
					cur = nil
				}
				return true
			})
			if len(cur) > 0 {
				ch <- cur
			}
		}()
		var wg sync.WaitGroup
		for w := 0; w < env.Workers; w++ {
			wg.Add(1)
			go func() {
				defer wg.Done()
				lc := newLinChecker()
				for b := range ch {
					classes := map[string]int64{}
					for _, toks := range b {
						var sig, detail, class, harness string
						if !proggen.LinValid(proggen.ParseLin(toks)) {
							env.R.HarnessError("generator emitted a program that its own validity rules reject:\n%s", bodyOf(toks))
							continue
						}
						if p, val, stack := mc.Guard(func() { sig, detail, class, harness = lc.judge(toks) }); p {
							// a checker crash on a well-formed program
							env.R.Violation("checker-panic|"+proggen.LinSkeleton(toks), c03Case{toks, proggen.RenderLin(toks)},
								fmt.Sprintf("checker panicked: %v\n%s", val, stack))
							continue
						}
						if harness != "" {
							env.R.HarnessError("%s", harness)
							continue
						}
						if sig != "" {
							coreMu.Lock()
							cores[sig]++
							if saveDis {
								dis = append(dis, toks)
							}
							coreMu.Unlock()
							env.R.Violation(sig, c03Case{toks, proggen.RenderLin(toks)}, detail)
							classes["disagreement:"+strings.SplitN(sig, "|", 2)[0]]++
							continue
						}
						classes[class]++
						if class == "linear-accepted" {
							env.R.Nontrivial(proggen.LinSkeleton(toks))
						}
					}
					env.R.EvalN(int64(len(b)))
					for k, n := range classes {
						kk := k
						first := b[0]
						env.R.Class(kk, func() any { return map[string]any{"class": kk, "first_program_of_batch": bodyOf(first)} })
						env.R.ClassN(kk, n-1)
					}
				}
			}()
		}
		wg.Wait()
		env.R.Add("programs_generated", generated)
		env.R.Set("programs:"+sl.name, generated)
		if env.Expired() {
			break
		}
		env.R.BoundCompleted(sl.name)
	}
}

func replayC03(env *mc.Env, raw json.RawMessage) (bool, string) {
	var c c03Case
	if err := json.Unmarshal(raw, &c); err != nil {
		return false, err.Error()
	}
	if !proggen.LinValid(proggen.ParseLin(c.Toks)) {
		return false, "recorded program is not a member of the fragment"
	}
	lc := newLinChecker()
	var dir string
	var kinds []string
	var harness string
	if p, val, _ := mc.Guard(func() { dir, _, kinds, harness = lc.disagreement(c.Toks, false) }); p {
		return true, fmt.Sprintf("checker panicked: %v", val)
	}
	if harness != "" {
		return false, harness
	}
	return dir != "", fmt.Sprintf("%s (checker errors %v, oracle %+v)\n%s", dir, kinds, LinJudge(c.Toks), bodyOf(c.Toks))
}

func init() {
	mc.Register(&mc.Check{
		ID: "C03",
		Rule: "every statement tree of <= 5 nodes (quick: plus the 6-node one-variable programs containing a jump; thorough: plus every 6-node program over the reduced alphabet; both: plus 26 hand-written deeper seeds) over <= 2 resource variables from the linear fragment " +
			"(create, move to variable/argument/array/optional, destroy, use, swap, if, if-else, while, for, break, continue, return, panic, if-let, nested function; no dead code) " +
			"is parsed and checked by the real checker and judged by an independent path-enumerating linearity analysis; " +
			"required: a linearity error is reported iff some path loses, double-moves or uses-after-move a resource; non-trivial = distinct control skeleton of a linear program that the checker accepted",
		Assumptions: []string{
			"the path oracle (conditions unknown, loops unrolled 0/1/2 times, panic paths owe nothing, optional binding consumes its source on both branches) is the reading of the property's 'every path' clause",
			"only ResourceLossError and ResourceUseAfterInvalidationError count as linearity errors; any other checker error in this fragment is reported as a generator defect (exit 2)",
			"violation signatures are the control skeleton of a greedily reduced (1-minimal) core of the disagreeing program",
		},
		Run:    runC03,
		Replay: replayC03,
	})
}

// checkVerbose parses and checks src and returns the rendered errors (debug aid).
func (lc *linChecker) checkVerbose(src string) ([]string, error) {
	prog, err := parser.ParseProgram(nil, []byte(src), parser.Config{})
	if err != nil {
		return nil, err
	}
	checker, err := sema.NewChecker(prog, common.StringLocation("v"), nil, linConfig(nil))
	if err != nil {
		return nil, err
	}
	err = checker.Check()
	var out []string
	if ce, ok := err.(*sema.CheckerError); ok {
		for _, e := range ce.Errors {
			pos := ""
			if p, ok := e.(ast.HasPosition); ok {
				pos = p.StartPosition().String()
			}
			out = append(out, fmt.Sprintf("%s %T %v", pos, e, e))
		}
	}
	return out, nil
}

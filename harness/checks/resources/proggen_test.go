package resources

import (
	"fmt"
	"os"
	"sort"
	"strings"
	"testing"

	"github.com/onflow/cadence"
	"verif/gen/proggen"
	"verif/rt"
)

// TestTemplates: every template must occur in at least one checker-accepted program.
func TestTemplates(t *testing.T) {
	if os.Getenv("PROGGEN") == "" {
		t.Skip()
	}
	l := rt.NewLedger()
	rt.Deploy(l, rt.Addr(1), "C", proggen.PreludeContract, false)
	kmax := 1
	fmt.Sscan(os.Getenv("PROGGEN"), &kmax)
	f := proggen.New(proggen.Options{MaxStmts: kmax})
	t.Logf("k<=%d: %d programs", kmax, f.Count())
	acc := map[string]int{}
	accT := map[string]int{}
	rejCount := 0
	rej := map[string]string{}
	classes := map[string]int{}
	for i := 0; i < f.Count(); i++ {
		p := f.At(i)
		res := rt.Run(l.Clone(), rt.Tx{Source: p.Script(), Script: true, Args: []cadence.Value{cadence.NewInt(1)}})
		if strings.Contains(res.Kind, "CheckerError") || strings.Contains(res.Kind, "parser") || strings.Contains(res.Kind, "Syntax") {
			rejCount++
			if _, ok := rej[p.Shape]; !ok {
				rej[p.Shape] = strings.Join(p.Stmts, " | ") + "\n" + res.ErrString()
			}
			continue
		}
		acc[p.Shape]++
		for _, n := range strings.Split(p.Shape, ">") {
			accT[n]++
		}
		classes[res.Class+":"+shortKind(res.Kind)]++
	}
	var names []string
	for n := range rej {
		if acc[n] == 0 {
			names = append(names, n)
		}
	}
	sort.Strings(names)
	for _, n := range names {
		fmt.Printf("NEVER ACCEPTED %s\n%s\n\n", n, rej[n])
	}
	fmt.Println(classes, "rejected programs:", rejCount)
	for _, n := range f.TemplateNames() {
		if accT[n] == 0 {
			fmt.Println("TEMPLATE NEVER IN AN ACCEPTED PROGRAM:", n)
		}
	}
}

func TestPreludeChecks(t *testing.T) {
	if os.Getenv("PROGGEN") == "" {
		t.Skip()
	}
	lc := &linChecker{}
	kinds, err := lc.checkVerbose(proggen.PreludeContract)
	fmt.Println(kinds, err)
}

func TestC01Sizes(t *testing.T) {
	if os.Getenv("PROGGEN") == "" {
		t.Skip()
	}
	for _, sl := range c01Slices(false) {
		f := proggen.New(sl.opts)
		n3, st, cond, runs := 0, 0, 0, 0
		for i := 0; i < f.Count(); i++ {
			p := f.At(i)
			if len(p.Stmts) == 3 {
				n3++
			}
			if p.Tags["storage"] {
				st++
			}
			a := 1
			if p.Tags["cond"] {
				cond++
				a = 4
			}
			if sl.name == "k<=2/all" || len(p.Stmts) == 3 {
				runs += 4 * a * len(c01RelevantPre(p))
			}
		}
		fmt.Println(sl.name, f.Count(), "k=3:", n3, "storage:", st, "cond:", cond, "runs:", runs)
	}
}

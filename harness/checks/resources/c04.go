package resources

import (
	"encoding/json"
	"fmt"
	"strconv"
	"strings"

	"verif/mc"
	"verif/rt"
)

// ---------------------------------------------------------------------------
// C04 — references to moved or destroyed resources become unusable; references
// to resources that did not move stay usable; storage references reach the
// value currently stored.
//
// Every case is one straight-line script:
//
//	build the holder  ->  take a reference, launder it  ->  log("t")
//	-> event (move / destroy / swap / removal / inner replacement / nothing) -> log("e")
//	-> use the laundered reference -> log("u:<value>") -> clean up
//
// The generator knows which resource the reference denotes (the referent) and
// which resource the event moved; the reference must fail at the use iff the
// moved resource is the referent or one of its ancestors.

// c04Case is the replayable description of one script.
type c04Case struct {
	Path    string `json:"path"`    // holder path from the root variable to R: letters a(rray) d(ict) o(ptional) f(ield); "" = R is the variable; "S" = R is in storage
	Style   string `json:"style"`   // "chain": &root then steps on references; "direct": &<owned path> as &R
	Ref     string `json:"ref"`     // referent: R child kid mapv optv att
	Launder string `json:"launder"` // array | struct | func
	Event   string `json:"event"`   // see c04Events
	Use     string `json:"use"`
	// Idx is the position of the target inside every array step of the path (arrays hold 3 elements)
	Idx int  `json:"idx"`
	VM  bool `json:"vm"`
}

const c04Prelude = `access(all) resource Child { access(all) let id: Int; init(_ id: Int) { self.id = id }
  access(all) fun get(): Int { return self.id } }
access(all) struct Info { access(all) let n: Int; init() { self.n = 5 } }
access(all) resource R { access(all) let id: Int; access(all) let info: Info
  access(all) var child: @Child; access(all) var kids: @[Child]; access(all) var map: @{String: Child}; access(all) var opt: @Child?
  init(_ id: Int) { self.id = id; self.info = Info(); self.child <- create Child(id+1); self.kids <- [<- create Child(id+2), <- create Child(id+5)]
    self.map <- {"k": <- create Child(id+3)}; self.opt <- create Child(id+4) }
  access(all) fun get(): Int { return self.id }
  access(all) fun swapChild(_ c: @Child): @Child { let old <- self.child <- c; return <- old }
  access(all) fun kidsPop(): @Child { return <- self.kids.remove(at: 0) }
  access(all) fun mapPop(): @Child? { return <- self.map.remove(key: "k") }
  access(all) fun optTake(): @Child? { let old <- self.opt <- nil; return <- old }
}
access(all) attachment A for R { access(all) let id: Int; init() { self.id = 77 }
  access(all) fun get(): Int { return self.id }
  access(all) fun baseId(): Int { return base.id } }
access(all) resource W { access(all) var v: @R; init(_ v: @R) { self.v <- v } }
access(all) resource Wa { access(all) var v: @[R]; init(_ v: @[R]) { self.v <- v } }
access(all) resource Wd { access(all) var v: @{String: R}; init(_ v: @{String: R}) { self.v <- v } }
access(all) resource Wo { access(all) var v: @R?; init(_ v: @R?) { self.v <- v } }
access(all) resource Wf { access(all) var v: @W; init(_ v: @W) { self.v <- v } }
access(all) struct BoxR { access(all) let ref: &R; init(_ r: &R) { self.ref = r } }
access(all) struct BoxChild { access(all) let ref: &Child; init(_ r: &Child) { self.ref = r } }
access(all) struct BoxA { access(all) let ref: &A; init(_ r: &A) { self.ref = r } }
access(all) fun idR(_ r: &R): &R { return r }
access(all) fun idChild(_ r: &Child): &Child { return r }
access(all) fun idA(_ r: &A): &A { return r }
access(all) fun sink(_ x: @AnyResource) { destroy x }
access(all) fun pass(_ x: @AnyResource): @AnyResource { return <- x }
`

func c04Type(p string) string {
	if p == "" {
		return "R"
	}
	switch p[0] {
	case 'a':
		return "[" + c04Type(p[1:]) + "]"
	case 'd':
		return "{String: " + c04Type(p[1:]) + "}"
	case 'o':
		return c04Type(p[1:]) + "?"
	default:
		return "W" + p[1:]
	}
}

// c04Make builds the holder: arrays hold three elements with the target at
// position idx, dictionaries hold a second entry "j" next to the target's "k".
func c04Make(p string, id int, idx int) string {
	if p == "" {
		return fmt.Sprintf("attach A() to <- create R(%d)", id)
	}
	in := c04Make(p[1:], id, idx)
	switch p[0] {
	case 'a':
		var el []string
		for i := 0; i < 3; i++ {
			if i == idx {
				el = append(el, "<- "+in)
			} else {
				el = append(el, "<- "+c04Make(p[1:], id+100+10*i, idx))
			}
		}
		return "[" + strings.Join(el, ", ") + "]"
	case 'd':
		return "{\"j\": <- " + c04Make(p[1:], id+200, idx) + ", \"k\": <- " + in + "}"
	case 'o':
		return in
	default:
		return "create W" + p[1:] + "(<- " + in + ")"
	}
}

var c04Paths = []string{"", "a", "d", "o", "f",
	"aa", "ad", "ao", "af", "da", "dd", "do", "df", "oa", "od", "of", "fa", "fd", "fo", "ff"}

var c04Refs = []string{"R", "child", "kid", "mapv", "optv", "att"}

func c04RefType(ref string) string {
	switch ref {
	case "R":
		return "R"
	case "att":
		return "A"
	}
	return "Child"
}

// uses per referent type; value is computed by c04Expect
var c04Uses = map[string][]string{
	"R":     {"id", "get", "child.id", "kids0.id", "info.n", "att.id"},
	"Child": {"id", "get"},
	"A":     {"id", "get", "baseId"},
}

// events: root-level moves of the variable h; removals along the path; inner
// replacements through a method of R; none.
var c04RootEvents = []string{"none", "toVar", "toArray", "toDict", "toFunc", "pass", "toStorage", "destroy", "swap"}
var c04InnerEvents = []string{"swapChild", "kidsPop", "mapPop", "optTake"}

// step renders one reference step from reference variable prev.
func c04Step(kind byte, prev string, idx int) string {
	switch kind {
	case 'a':
		return prev + fmt.Sprintf("[%d]", idx)
	case 'd':
		return prev + "[\"k\"]!"
	case 'o':
		return prev + "!"
	default:
		return prev + ".v"
	}
}

// owned renders the owned expression of the first n steps (only a and f steps).
func c04Owned(p string, n int, idx int) (string, bool) {
	e := "h"
	for i := 0; i < n; i++ {
		switch p[i] {
		case 'a':
			e += fmt.Sprintf("[%d]", idx)
		case 'f':
			e += ".v"
		default:
			return "", false
		}
	}
	return e, true
}

// c04Render builds the script and says what must happen at the use.
// ok=false: the combination does not exist (e.g. removal at a level the path
// does not have).
func c04Render(c c04Case) (src string, invalid bool, want string, ok bool) {
	var b strings.Builder
	b.WriteString(c04Prelude)
	b.WriteString("access(all) fun main() {\n")
	w := func(f string, a ...any) { fmt.Fprintf(&b, "  "+f+"\n", a...) }
	p := c.Path
	stored := p == "S"
	if stored {
		p = ""
	}
	T0 := c04Type(p)
	if stored {
		w("let acct = getAuthAccount<auth(Storage) &Account>(0x1)")
		w("acct.storage.save(<- %s, to: /storage/h)", c04Make("", 10, 0))
	} else {
		w("var h: @%s <- %s", T0, c04Make(p, 10, c.Idx))
	}
	// reference to R
	switch {
	case stored:
		w("let tR = acct.storage.borrow<&R>(from: /storage/h)!")
	case c.Style == "chain":
		if p != "" && p[0] == 'o' {
			w("let s0 = (&h as &%s)!", T0)
			prev := "s0"
			for i := 1; i < len(p); i++ {
				w("let s%d = %s", i, c04Step(p[i], prev, c.Idx))
				prev = "s" + strconv.Itoa(i)
			}
			w("let tR = %s", prev)
		} else {
			w("let s0 = &h as &%s", T0)
			prev := "s0"
			for i := 0; i < len(p); i++ {
				w("let s%d = %s", i+1, c04Step(p[i], prev, c.Idx))
				prev = "s" + strconv.Itoa(i+1)
			}
			w("let tR = %s", prev)
		}
	case c.Style == "direct":
		// &<owned path> as &R ; the last step may be d or o (optional reference)
		if p == "" {
			w("let tR = &h as &R")
		} else {
			own, okp := c04Owned(p, len(p)-1, c.Idx)
			if !okp {
				return "", false, "", false
			}
			switch p[len(p)-1] {
			case 'a':
				w("let tR = &%s[%d] as &R", own, c.Idx)
			case 'f':
				w("let tR = &%s.v as &R", own)
			case 'd':
				w("let tR = (&%s[\"k\"] as &R?)!", own)
			case 'o':
				w("let tR = (&%s as &R?)!", own)
			}
		}
	default:
		return "", false, "", false
	}
	// referent
	var refExpr string
	switch c.Ref {
	case "R":
		refExpr = "tR"
	case "child":
		refExpr = "tR.child"
	case "kid":
		refExpr = "tR.kids[0]"
	case "mapv":
		w("let tm = tR.map[\"k\"]")
		refExpr = "tm!"
	case "optv":
		w("let to = tR.opt")
		refExpr = "to!"
	case "att":
		w("let ta = tR[A]")
		refExpr = "ta!"
	default:
		return "", false, "", false
	}
	rt := c04RefType(c.Ref)
	var use string
	// two more references to the same referent, one taken before and one after
	// the laundered one ("every reference previously taken" must die, not just
	// the first or the last); they are never used
	w("let decoy1 = %s", refExpr)
	defer func() {
		if ok {
			src = strings.Replace(src, "  log(\"t\")\n", "  let decoy2 = "+refExpr+"\n  log(\"t\")\n", 1)
		}
	}()
	switch c.Launder {
	case "array":
		w("let refs: [&%s] = [%s]", rt, refExpr)
		use = "refs[0]"
	case "struct":
		w("let box = Box%s(%s)", rt, refExpr)
		use = "box.ref"
	case "func":
		w("let lr = id%s(%s)", rt, refExpr)
		use = "lr"
	default:
		return "", false, "", false
	}
	w("log(\"t\")")

	// event
	var cleanup []string
	moved := "" // "", "all" (R or an ancestor moved), or the inner referent that moved
	if !stored {
		cleanup = []string{"destroy h"}
	}
	ev := c.Event
	switch {
	case ev == "none":
	case stored:
		switch ev {
		case "load":
			w("let x <- acct.storage.load<@R>(from: /storage/h)!")
			cleanup = append(cleanup, "destroy x")
			moved = "all"
		default:
			return "", false, "", false
		}
	case ev == "toVar":
		w("let h2 <- h")
		cleanup = []string{"destroy h2"}
		moved = "all"
	case ev == "toArray":
		w("let h2 <- [<- h]")
		cleanup = []string{"destroy h2"}
		moved = "all"
	case ev == "toDict":
		w("let h2 <- {\"z\": <- h}")
		cleanup = []string{"destroy h2"}
		moved = "all"
	case ev == "toFunc":
		w("sink(<- h)")
		cleanup = nil
		moved = "all"
	case ev == "pass":
		w("let h2 <- pass(<- h)")
		cleanup = []string{"destroy h2"}
		moved = "all"
	case ev == "toStorage":
		w("getAuthAccount<auth(Storage) &Account>(0x1).storage.save(<- h, to: /storage/h)")
		cleanup = nil
		moved = "all"
	case ev == "destroy":
		w("destroy h")
		cleanup = nil
		moved = "all"
	case ev == "swap":
		w("var other: @%s <- %s", T0, c04Make(p, 20, c.Idx))
		w("h <-> other")
		cleanup = []string{"destroy h", "destroy other"}
		moved = "all"
	case ev == "rm1" || ev == "rm2":
		n := 1
		if ev == "rm2" {
			n = 2
		}
		if len(p) < n {
			return "", false, "", false
		}
		own, okp := c04Owned(p, n-1, c.Idx)
		if !okp {
			return "", false, "", false
		}
		rest := p[n:]
		switch p[n-1] {
		case 'a':
			w("let m <- %s.remove(at: %d)", own, c.Idx)
		case 'd':
			w("let m <- %s.remove(key: \"k\")!", own)
		case 'o':
			w("let m <- %s <- nil", own)
		case 'f':
			w("let m <- %s.v <- %s", own, c04Make(rest, 30, c.Idx))
		}
		cleanup = append([]string{"destroy m"}, cleanup...)
		moved = "all"
	case ev == "swapElem":
		// swap the target R in its immediate holder (last step a or f) with another R
		if p == "" {
			return "", false, "", false
		}
		own, okp := c04Owned(p, len(p)-1, c.Idx)
		if !okp {
			return "", false, "", false
		}
		w("var other <- create R(40)")
		switch p[len(p)-1] {
		case 'a':
			w("%s[%d] <-> other", own, c.Idx)
		case 'f':
			w("%s.v <-> other", own)
		default:
			return "", false, "", false
		}
		cleanup = append([]string{"destroy other"}, cleanup...)
		moved = "all"
	default:
		// inner events, through a method of R called on a fresh reference
		fresh := "tR"
		switch ev {
		case "swapChild":
			w("let old <- %s.swapChild(<- create Child(99))", fresh)
			moved = "child"
		case "kidsPop":
			w("let old <- %s.kidsPop()", fresh)
			moved = "kid"
		case "mapPop":
			w("let old <- %s.mapPop()", fresh)
			moved = "mapv"
		case "optTake":
			w("let old <- %s.optTake()", fresh)
			moved = "optv"
		default:
			return "", false, "", false
		}
		cleanup = append([]string{"destroy old"}, cleanup...)
	}
	w("log(\"e\")")

	// use
	var expr string
	val := 0
	switch rt {
	case "R":
		switch c.Use {
		case "id":
			expr, val = use+".id", 10
		case "get":
			expr, val = use+".get()", 10
		case "child.id":
			expr, val = use+".child.id", 11
			if moved == "child" {
				val = 99
			}
		case "kids0.id":
			expr, val = use+".kids[0].id", 12
			if moved == "kid" {
				val = 15
			}
		case "info.n":
			expr, val = use+".info.n", 5
		case "att.id":
			expr, val = use+"[A]!.id", 77
		default:
			return "", false, "", false
		}
	case "Child":
		base := map[string]int{"child": 11, "kid": 12, "mapv": 13, "optv": 14}[c.Ref]
		switch c.Use {
		case "id":
			expr, val = use+".id", base
		case "get":
			expr, val = use+".get()", base
		default:
			return "", false, "", false
		}
	case "A":
		switch c.Use {
		case "id":
			expr, val = use+".id", 77
		case "get":
			expr, val = use+".get()", 77
		case "baseId":
			expr, val = use+".baseId()", 10
		default:
			return "", false, "", false
		}
	}
	w("let v = %s", expr)
	w("log(\"u:\".concat(v.toString()))")
	for _, cl := range cleanup {
		w("%s", cl)
	}
	b.WriteString("}\n")
	invalid = moved == "all" || (moved != "" && moved == c.Ref)
	return b.String(), invalid, "u:" + strconv.Itoa(val), true
}

// --- storage references ---------------------------------------------------------

type c04StoreCase struct {
	Event string `json:"event"` // none load replaceSame replaceOther restore
	Use   string `json:"use"`   // id get child.id
	Borrow string `json:"borrow"` // "R" or "AnyResource" (then cast) — only R used
	VM    bool   `json:"vm"`
}

var c04StoreEvents = []string{"none", "load", "replaceSame", "replaceOther", "restore", "loadSaveElsewhere"}

func c04StoreRender(c c04StoreCase) (src string, fails bool, want string) {
	var b strings.Builder
	b.WriteString(c04Prelude)
	b.WriteString("access(all) fun main() {\n")
	w := func(f string, a ...any) { fmt.Fprintf(&b, "  "+f+"\n", a...) }
	w("let acct = getAuthAccount<auth(Storage) &Account>(0x1)")
	w("acct.storage.save(<- create R(10), to: /storage/h)")
	w("let sref = acct.storage.borrow<&R>(from: /storage/h)!")
	w("log(\"t\")")
	val := map[string]int{"id": 10, "get": 10, "child.id": 11}[c.Use]
	switch c.Event {
	case "none":
	case "load":
		w("let x <- acct.storage.load<@R>(from: /storage/h)!")
		w("destroy x")
		fails = true
	case "replaceSame":
		w("let x <- acct.storage.load<@R>(from: /storage/h)!")
		w("destroy x")
		w("acct.storage.save(<- create R(20), to: /storage/h)")
		val += 10
	case "replaceOther":
		w("let x <- acct.storage.load<@R>(from: /storage/h)!")
		w("destroy x")
		w("acct.storage.save(<- create Child(20), to: /storage/h)")
		fails = true
	case "restore":
		w("let x <- acct.storage.load<@R>(from: /storage/h)!")
		w("acct.storage.save(<- x, to: /storage/h)")
	case "loadSaveElsewhere":
		w("let x <- acct.storage.load<@R>(from: /storage/h)!")
		w("acct.storage.save(<- x, to: /storage/other)")
		fails = true
	}
	w("log(\"e\")")
	expr := map[string]string{"id": "sref.id", "get": "sref.get()", "child.id": "sref.child.id"}[c.Use]
	w("let v = %s", expr)
	w("log(\"u:\".concat(v.toString()))")
	b.WriteString("}\n")
	return b.String(), fails, "u:" + strconv.Itoa(val)
}

// --- judging ----------------------------------------------------------------------

// c04Verdict compares one run with the expectation. verdict "" = fine.
func c04Verdict(res *rt.Result, invalid bool, want string) (verdict, class string) {
	hasE, hasU, gotU := false, false, ""
	for _, l := range res.Logs {
		l = strings.Trim(l, "\"")
		if l == "e" {
			hasE = true
		}
		if strings.HasPrefix(l, "u:") {
			hasU, gotU = true, l
		}
	}
	if res.Class == "user" && strings.Contains(res.Kind, "CheckerError") {
		return "", "checker-rejected"
	}
	if !hasE {
		// the event itself did not complete: nothing can be said about the
		// reference (the property speaks about uses after a move that
		// happened). Internal errors here are C01's subject. Don't-care.
		return "", "dontcare:event-failed:" + res.Class + ":" + shortKind(res.Kind)
	}
	if invalid {
		switch {
		case res.OK():
			return "stale-use-succeeded", "x"
		case res.Class != "user":
			return "stale-use-" + res.Class, "x"
		case hasU:
			return "stale-use-failed-late", "x"
		}
		return "", "invalid-use-failed:" + shortKind(res.Kind)
	}
	switch {
	case !res.OK():
		return "valid-use-failed-" + res.Class, "x"
	case !hasU || gotU != want:
		return "valid-use-wrong-value", "x"
	}
	return "", "valid-use-ok"
}

func shortKind(k string) string {
	if i := strings.LastIndex(k, "."); i >= 0 {
		return k[i+1:]
	}
	return k
}

func c04Cases(thorough bool) []c04Case {
	var out []c04Case
	for _, p := range c04Paths {
		styles := []string{"chain", "direct"}
		for _, st := range styles {
			for _, ref := range c04Refs {
				events := append([]string{}, c04RootEvents...)
				events = append(events, "rm1", "rm2", "swapElem")
				events = append(events, c04InnerEvents...)
				for _, ev := range events {
					for li, l := range []string{"array", "struct", "func"} {
						for ui, u := range c04Uses[c04RefType(ref)] {
							// quick: every (path, style, ref, event) with launder x use on a diagonal
							// plus the full launder x use product for the depth <= 1 paths
							idxs := []int{0}
							if strings.Contains(p, "a") {
								idxs = []int{0, 1, 2}
							}
							for _, idx := range idxs {
								// quick: the non-zero positions on a thinner diagonal
								// (depth-2 paths always on the diagonal)
								if !thorough && (idx > 0 || len(p) == 2) && (li+ui+idx)%3 != 0 {
									continue
								}
								c := c04Case{Path: p, Style: st, Ref: ref, Launder: l, Event: ev, Use: u, Idx: idx}
								if _, _, _, ok := c04Render(c); ok {
									out = append(out, c)
								}
							}
						}
					}
				}
			}
		}
	}
	// ephemeral references into a stored resource
	for _, ref := range c04Refs {
		for _, ev := range []string{"none", "load"} {
			for _, l := range []string{"array", "struct", "func"} {
				for _, u := range c04Uses[c04RefType(ref)] {
					out = append(out, c04Case{Path: "S", Style: "borrow", Ref: ref, Launder: l, Event: ev, Use: u})
				}
			}
		}
	}
	return out
}

func c04Sig(c c04Case, verdict string) string {
	eng := "interpreter"
	if c.VM {
		eng = "vm"
	}
	pos := ""
	if c.Idx > 0 {
		pos = "@nonfirst"
	}
	return fmt.Sprintf("%s|event=%s|path=%s%s/%s|ref=%s|%s", verdict, c.Event, c.Path, pos, c.Style, c.Ref, eng)
}

func runC04(env *mc.Env) {
	cases := c04Cases(env.Thorough())
	env.R.Set("cases_generated", len(cases))
	var rejected, accepted int64
	type rej struct{}
	mc.ParallelFor(env, len(cases), func(i int) {
		c := cases[i]
		src, invalid, want, _ := c04Render(c)
		var verdicts [2]string
		for e, vm := range []bool{false, true} {
			c.VM = vm
			res := rt.Run(rt.NewLedger(), rt.Tx{Source: src, Script: true, UseVM: vm})
			v, class := c04Verdict(res, invalid, want)
			if class == "checker-rejected" {
				env.R.Add("checker_rejected", 1)
				env.R.Class("checker-rejected:"+shortKind(res.Kind), func() any { return map[string]any{"case": c, "error": res.ErrString()} })
				return
			}
			env.R.Eval()
			verdicts[e] = v
			if strings.HasPrefix(class, "dontcare:") {
				env.R.DontCare.Add(1)
				env.R.Class(class, func() any { return c })
				continue
			}
			if v != "" {
				env.R.Violation(c04Sig(c, v), c, fmt.Sprintf("expected invalid=%v want=%s; got class=%s kind=%s logs=%v err=%s\n%s", invalid, want, res.Class, res.Kind, res.Logs, res.ErrString(), src))
				continue
			}
			env.R.Class(class, func() any { return c })
			if invalid {
				env.R.Nontrivial(fmt.Sprintf("%s@%d|%s|%s|%s", c.Path, c.Idx, c.Style, c.Ref, c.Event))
			}
		}
	})
	_ = rejected
	_ = accepted
	// storage references
	var sc []c04StoreCase
	for _, ev := range c04StoreEvents {
		for _, u := range []string{"id", "get", "child.id"} {
			sc = append(sc, c04StoreCase{Event: ev, Use: u})
		}
	}
	mc.ParallelFor(env, len(sc), func(i int) {
		c := sc[i]
		src, fails, want := c04StoreRender(c)
		for _, vm := range []bool{false, true} {
			c.VM = vm
			res := rt.Run(rt.NewLedger(), rt.Tx{Source: src, Script: true, UseVM: vm})
			v, class := c04Verdict(res, fails, want)
			env.R.Eval()
			if class == "checker-rejected" {
				env.R.HarnessError("storage-reference script rejected by the checker: %s\n%s", res.ErrString(), src)
				continue
			}
			if v != "" {
				eng := "interpreter"
				if vm {
					eng = "vm"
				}
				env.R.Violation(fmt.Sprintf("storage-ref:%s|event=%s|%s", v, c.Event, eng), map[string]any{"store": c},
					fmt.Sprintf("expected fails=%v want=%s; got class=%s kind=%s logs=%v err=%s\n%s", fails, want, res.Class, res.Kind, res.Logs, res.ErrString(), src))
				continue
			}
			env.R.Class("storage-ref:"+class, func() any { return c })
			if fails || c.Event != "none" {
				env.R.Nontrivial("store|" + c.Event + "|" + c.Use)
			}
		}
	})
}

func replayC04(env *mc.Env, raw json.RawMessage) (bool, string) {
	var wrap struct {
		Store *c04StoreCase `json:"store"`
	}
	if json.Unmarshal(raw, &wrap) == nil && wrap.Store != nil {
		src, fails, want := c04StoreRender(*wrap.Store)
		res := rt.Run(rt.NewLedger(), rt.Tx{Source: src, Script: true, UseVM: wrap.Store.VM})
		v, _ := c04Verdict(res, fails, want)
		return v != "", fmt.Sprintf("%s class=%s kind=%s logs=%v", v, res.Class, res.Kind, res.Logs)
	}
	var c c04Case
	if err := json.Unmarshal(raw, &c); err != nil {
		return false, err.Error()
	}
	src, invalid, want, ok := c04Render(c)
	if !ok {
		return false, "case does not render"
	}
	res := rt.Run(rt.NewLedger(), rt.Tx{Source: src, Script: true, UseVM: c.VM})
	v, _ := c04Verdict(res, invalid, want)
	return v != "", fmt.Sprintf("%s (invalid=%v want=%s) class=%s kind=%s logs=%v", v, invalid, want, res.Class, res.Kind, res.Logs)
}

func init() {
	mc.Register(&mc.Check{
		ID: "C04",
		Rule: "every straight-line script {holder path of depth <= 2 over array (3 elements, target at position 0, 1 or 2) / dictionary (2 entries) / optional / field, or storage} x {reference taken by chained steps or directly} x {referent: the resource, its child field, array element, dictionary value, optional field, attachment} x " +
			"{laundered through array element / struct field / identity function} x {event: none, move of the root to variable/array/dictionary/function/identity function/storage, destroy, swap, removal at path level 1 or 2, element swap, replacement or removal of each inner resource} x {use: field read, call, nested member, index, struct field, attachment access}, on both engines; " +
			"oracle: the use must fail with a non-internal error raised at the use iff the referent or an ancestor moved since the reference was taken, else it must succeed with the expected value; plus storage references after load / replace by same type / replace by other type / re-store; non-trivial = distinct (path, style, referent, event) whose reference had to be invalid and failed at the use",
		Assumptions: []string{
			"the checker is the arbiter of well-formedness: scripts it rejects (static reference invalidation, unsupported reference forms) are counted and skipped",
			"a failure at the use is recognised by the log protocol (log before the use present, log after absent) and res.Class == user; the error type is recorded but not required by name",
		},
		Run:    runC04,
		Replay: replayC04,
	})
}

package lang

import (
	"encoding/json"
	"errors"
	"fmt"
	"regexp"
	"sort"
	"strconv"
	"strings"
	"sync"
	"sync/atomic"

	"github.com/onflow/cadence/ast"
	"github.com/onflow/cadence/common"
	"github.com/onflow/cadence/sema"

	"verif/mc"
	"verif/rt"
)

// ---------------------------------------------------------------------------
// C07: view contexts have no observable side effects — dynamic oracle.
//
// A candidate = view context x access path to a value that exists before the
// call x possibly-impure operation. The checker decides which candidates are
// accepted; every accepted one is executed and the whole world (script
// globals, the values behind every argument / self / captured variable,
// account storage, capabilities, contracts, keys) is dumped before and after.

const c07Contract = `access(all) contract W {
  access(all) struct T { access(all) var a: [Int]; view init() { self.a = [1,2] } }
  access(all) struct S {
    access(all) var n: Int
    access(all) var a: [Int]
    access(all) var d: {String: Int}
    access(all) var t: T
    view init() { self.n = 5; self.a = [1,2,3]; self.d = {"a": 1}; self.t = T() }
    access(all) fun setN(_ v: Int) { self.n = v }
    access(all) view fun getN(): Int { return self.n }
  }
  access(all) resource R {
    access(all) var n: Int
    access(all) var a: [Int]
    access(all) var rs: @[R]
    view init() { self.n = 5; self.a = [1,2,3]; self.rs <- [] }
    access(all) fun inc() { self.n = self.n + 1 }
    access(all) view fun getN(): Int { return self.n }
  }
  access(all) fun mkR(): @R { return <- create R() }
  access(all) view fun mkRv(): @R { return <- create R() }
}`

const c07Setup = `import W from 0x1
transaction { prepare(acct: auth(Storage, Capabilities, Inbox) &Account) {
  acct.storage.save([1,2,3], to: /storage/a)
  acct.storage.save(5, to: /storage/n)
  acct.storage.save(W.S(), to: /storage/s)
  acct.storage.save(<- W.mkR(), to: /storage/r)
  let c = acct.capabilities.storage.issue<auth(Mutate) &[Int]>(/storage/a)
  acct.storage.save(c, to: /storage/cap)
  acct.capabilities.publish(acct.capabilities.storage.issue<&[Int]>(/storage/a), at: /public/a)
  acct.capabilities.account.issue<&Account>()
  acct.inbox.publish(c, name: "gift", recipient: 0x2)
}}`

const c07AcctType = `auth(Storage, Contracts, Keys, Inbox, Capabilities) &Account`

// c07Prelude: globals, helpers and the world dump. snap() is impure and only
// reads.
const c07Prelude = `import W from 0x1
access(all) event E(x: Int)
access(all) var GN: Int = 5
access(all) var GM: Int = 6
access(all) var GA: [Int] = [1,2,3]
access(all) var GC: [Int; 3] = [1,2,3]
access(all) var GD: {String: Int} = {"a": 1, "b": 2}
access(all) var GS: W.S = W.S()
access(all) var GO: W.S? = W.S()
access(all) var GAA: [[Int]] = [[1,2],[3]]
access(all) fun impure(): Bool { GN = GN + 1; return true }
access(all) view fun pure(): Bool { return true }
access(all) view fun ig(_ x: AnyStruct?): Bool { return true }
access(all) view fun refGA(): auth(Mutate) &[Int] { return &GA }
access(all) fun reset() { GN = 5; GM = 6; GA = [1,2,3]; GC = [1,2,3]; GD = {"a": 1, "b": 2}; GS = W.S(); GO = W.S(); GAA = [[1,2],[3]] }
access(all) fun snap(_ acct: ` + c07AcctType + `) {
  log(GN); log(GM); log(GA); log(GC); log(GD); log(GS); log(GO); log(GAA)
  log(acct.storage.storagePaths); log(acct.storage.publicPaths)
  for p in acct.storage.storagePaths {
    log(p); let t = acct.storage.type(at: p)!; log(t)
    if t.isSubtype(of: Type<AnyStruct>()) { log(acct.storage.copy<AnyStruct>(from: p)) }
    else if let r = acct.storage.borrow<&W.R>(from: p) { log(r) }
  }
  for p in acct.storage.storagePaths {
    for c in acct.capabilities.storage.getControllers(forPath: p) { log(c.capabilityID); log(c.tag); log(c.target()); log(c.borrowType) }
  }
  for c in acct.capabilities.account.getControllers() { log(c.capabilityID); log(c.tag); log(c.borrowType) }
  for p in acct.storage.publicPaths { log(acct.capabilities.exists(p)); log(acct.capabilities.get<&AnyStruct>(p)) }
  log(acct.contracts.names); log(acct.keys.count)
}
`

// ---------------------------------------------------------------------------
// alphabet

type c07Path struct {
	Name   string
	Type   string   // arr | carr | dict | int | struct | res | acct | ctl | cap
	Params []string // extra parameters of the view function
	Args   []string // matching arguments at the call site
	Setup  []string // statements run first inside the view body (function contexts only)
	Place  string   // expression denoting the value
	Needs  string   // "" | self-struct | self-res | captured
	Var    bool     // the place is an assignable variable
}

type c07Op struct {
	Name string
	Type string
	Text string // statement or call expression with $ for the place
	Stmt bool   // true = statement only (not usable inside a condition)
	Var  bool   // needs an assignable place
	Ret  string // the operation ends with `return <- ...` of this type (resource moved out of the target)
}

func c07Paths() []c07Path {
	aref := "auth(Mutate) &[Int]"
	return []c07Path{
		// arrays
		{Name: "global", Type: "arr", Place: "GA", Var: true},
		{Name: "param-auth-ref", Type: "arr", Params: []string{"p: " + aref}, Args: []string{"&GA as " + aref}, Place: "p"},
		{Name: "param-copy", Type: "arr", Params: []string{"p: [Int]"}, Args: []string{"GA"}, Place: "p", Var: false},
		{Name: "self-field", Type: "arr", Place: "self.a", Needs: "self", Var: true},
		{Name: "captured", Type: "arr", Place: "cap", Needs: "captured", Var: true},
		{Name: "local-ref", Type: "arr", Setup: []string{"let r = &GA as " + aref}, Place: "r"},
		{Name: "inline-ref", Type: "arr", Place: "(&GA as " + aref + ")"},
		{Name: "global-struct-field", Type: "arr", Place: "GS.a"},
		{Name: "global-optional-force-field", Type: "arr", Place: "GO!.a"},
		{Name: "nested-element", Type: "arr", Place: "GAA[0]"},
		{Name: "deref-copy-local", Type: "arr", Params: []string{"p: " + aref}, Args: []string{"&GA as " + aref}, Setup: []string{"var c = *p"}, Place: "c", Var: true},
		{Name: "deref-inline", Type: "arr", Params: []string{"p: " + aref}, Args: []string{"&GA as " + aref}, Place: "(*p)"},
		{Name: "fresh-local", Type: "arr", Setup: []string{"var l = [1,2,3]"}, Place: "l", Var: true},
		{Name: "storage-borrow", Type: "arr", Params: []string{"acct: " + c07AcctType}, Args: []string{"acct"}, Place: "acct.storage.borrow<" + aref + ">(from: /storage/a)!"},
		{Name: "reference-downcast", Type: "arr", Params: []string{"anyp: auth(Mutate) &AnyStruct"}, Args: []string{"&GA as " + aref}, Place: "(anyp as! " + aref + ")"},
		{Name: "capability-borrow", Type: "arr", Params: []string{"acct: " + c07AcctType}, Args: []string{"acct"}, Place: "acct.storage.copy<Capability<" + aref + ">>(from: /storage/cap)!.borrow()!"},
		{Name: "view-function-result", Type: "arr", Place: "refGA()"},
		{Name: "get-auth-account", Type: "arr", Place: "getAuthAccount<auth(Storage) &Account>(0x1).storage.borrow<" + aref + ">(from: /storage/a)!"},
		{Name: "struct-param-ref-field", Type: "arr", Params: []string{"ps: &W.S"}, Args: []string{"&GS as &W.S"}, Place: "ps.a"},
		{Name: "optional-ref-chain", Type: "arr", Params: []string{"po: " + aref + "?"}, Args: []string{"&GA as " + aref}, Place: "po!"},
		// constant-sized array
		{Name: "global", Type: "carr", Place: "GC", Var: true},
		// dictionaries
		{Name: "global", Type: "dict", Place: "GD", Var: true},
		{Name: "param-auth-ref", Type: "dict", Params: []string{"p: auth(Mutate) &{String: Int}"}, Args: []string{"&GD as auth(Mutate) &{String: Int}"}, Place: "p"},
		{Name: "self-field", Type: "dict", Place: "self.d", Needs: "self", Var: true},
		{Name: "captured", Type: "dict", Place: "capD", Needs: "captured", Var: true},
		{Name: "global-struct-field", Type: "dict", Place: "GS.d"},
		// integers
		{Name: "global", Type: "int", Place: "GN", Var: true},
		{Name: "self-field", Type: "int", Place: "self.n", Needs: "self", Var: true},
		{Name: "captured", Type: "int", Place: "capN", Needs: "captured", Var: true},
		{Name: "fresh-local", Type: "int", Setup: []string{"var l = 1"}, Place: "l", Var: true},
		{Name: "param", Type: "int", Params: []string{"p: Int"}, Args: []string{"GN"}, Place: "p"},
		// structs
		{Name: "global", Type: "struct", Place: "GS", Var: true},
		{Name: "global-optional-chain", Type: "struct", Place: "GO?"},
		{Name: "param-ref", Type: "struct", Params: []string{"ps: &W.S"}, Args: []string{"&GS as &W.S"}, Place: "ps"},
		{Name: "self-field", Type: "struct", Place: "self.s", Needs: "self", Var: true},
		{Name: "captured", Type: "struct", Place: "capS", Needs: "captured", Var: true},
		{Name: "storage-borrow", Type: "struct", Params: []string{"acct: " + c07AcctType}, Args: []string{"acct"}, Place: "acct.storage.borrow<&W.S>(from: /storage/s)!"},
		// resources
		{Name: "param-ref", Type: "res", Params: []string{"pr: &W.R"}, Args: []string{"&res as &W.R"}, Place: "pr"},
		{Name: "storage-borrow", Type: "res", Params: []string{"acct: " + c07AcctType}, Args: []string{"acct"}, Place: "acct.storage.borrow<&W.R>(from: /storage/r)!"},
		{Name: "self", Type: "res", Place: "self", Needs: "self-res"},
		// resource-typed places (targets of moves: second-value transfer, force-assignment, swap)
		{Name: "self-resource-field", Type: "rplace", Place: "self.r", Needs: "self-res", Var: true},
		{Name: "self-resource-array-element", Type: "rplace", Place: "self.rs[0]", Needs: "self-res"},
		{Name: "resource-ref-param-array-element", Type: "rplace", Params: []string{"pr: &W.R"}, Args: []string{"&res as &W.R"}, Place: "pr.rs[0]"},
		{Name: "auth-ref-to-resource-array-element", Type: "rplace", Params: []string{"pa: auth(Mutate) &[W.R]"}, Args: []string{"&resarr as auth(Mutate) &[W.R]"}, Place: "pa[0]"},
		{Name: "self-optional-resource-field", Type: "roplace", Place: "self.ro", Needs: "self-res", Var: true},
		{Name: "self-resource-dictionary-element", Type: "roplace", Place: `self.rd["k"]`, Needs: "self-res"},
		{Name: "self-resource-dictionary-new-key", Type: "roplace", Place: `self.rd["new"]`, Needs: "self-res"},
		{Name: "auth-ref-to-resource-dictionary-element", Type: "roplace", Params: []string{"pd: auth(Mutate) &{String: W.R}"}, Args: []string{"&resdict as auth(Mutate) &{String: W.R}"}, Place: `pd["k"]`},
		// account and capability controllers
		{Name: "param", Type: "acct", Params: []string{"acct: " + c07AcctType}, Args: []string{"acct"}, Place: "acct"},
		{Name: "get-auth-account", Type: "acct", Place: "getAuthAccount<" + c07AcctType + ">(0x1)"},
		{Name: "getController", Type: "ctl", Params: []string{"acct: " + c07AcctType}, Args: []string{"acct"}, Place: "acct.capabilities.storage.getController(byCapabilityID: 1)!"},
		{Name: "getController", Type: "actl", Params: []string{"acct: " + c07AcctType}, Args: []string{"acct"}, Place: "acct.capabilities.account.getController(byCapabilityID: 3)!"},
		{Name: "stored-capability", Type: "cap", Params: []string{"acct: " + c07AcctType}, Args: []string{"acct"}, Place: "acct.storage.copy<Capability<auth(Mutate) &[Int]>>(from: /storage/cap)!"},
		// no place at all
		{Name: "none", Type: "none", Place: ""},
	}
}

// c07Member describes how to call one built-in member function.
// Key: "<receiver sema type>.<member>". Every function member of the
// receiver types must have an entry (checked against sema at run time).
var c07Members = map[string]string{
	"[Int].append": "$.append(9)", "[Int].appendAll": "$.appendAll([9])", "[Int].concat": "$.concat([9])",
	"[Int].contains": "$.contains(1)", "[Int].filter": "$.filter(view fun (e: Int): Bool { return true })",
	"[Int].firstIndex": "$.firstIndex(of: 1)", "[Int].getType": "$.getType()", "[Int].insert": "$.insert(at: 0, 9)",
	"[Int].isInstance": "$.isInstance(Type<[Int]>())", "[Int].map": "$.map(fun (e: Int): Int { return e })",
	"[Int].remove": "$.remove(at: 0)", "[Int].removeFirst": "$.removeFirst()", "[Int].removeLast": "$.removeLast()",
	"[Int].reverse": "$.reverse()", "[Int].slice": "$.slice(from: 0, upTo: 1)", "[Int].toConstantSized": "$.toConstantSized<[Int; 3]>()",

	"[Int; 3].contains": "$.contains(1)", "[Int; 3].filter": "$.filter(view fun (e: Int): Bool { return true })",
	"[Int; 3].firstIndex": "$.firstIndex(of: 1)", "[Int; 3].getType": "$.getType()", "[Int; 3].isInstance": "$.isInstance(Type<[Int; 3]>())",
	"[Int; 3].map": "$.map(fun (e: Int): Int { return e })", "[Int; 3].reverse": "$.reverse()", "[Int; 3].toVariableSized": "$.toVariableSized()",

	"{String: Int}.containsKey": `$.containsKey("a")`, "{String: Int}.forEachKey": "$.forEachKey(fun (k: String): Bool { return true })",
	"{String: Int}.getType": "$.getType()", "{String: Int}.insert": `$.insert(key: "z", 9)`, "{String: Int}.isInstance": "$.isInstance(Type<{String: Int}>())",
	"{String: Int}.remove": `$.remove(key: "a")`,

	"Account.forEachAttachment": "", "Account.getType": "$.getType()", "Account.isInstance": "$.isInstance(Type<Account>())",

	"Account.Storage.borrow": "$.storage.borrow<&[Int]>(from: /storage/a)", "Account.Storage.check": "$.storage.check<[Int]>(from: /storage/a)",
	"Account.Storage.copy": "$.storage.copy<[Int]>(from: /storage/a)", "Account.Storage.forEachAttachment": "",
	"Account.Storage.forEachPublic": "$.storage.forEachPublic(fun (p: PublicPath, t: Type): Bool { return true })",
	"Account.Storage.forEachStored": "$.storage.forEachStored(fun (p: StoragePath, t: Type): Bool { return true })",
	"Account.Storage.getType":       "$.storage.getType()",
	"Account.Storage.isInstance":    "$.storage.isInstance(Type<Account.Storage>())",
	"Account.Storage.load":          "$.storage.load<Int>(from: /storage/n)",
	"Account.Storage.save":          "$.storage.save(7, to: /storage/fresh)",
	"Account.Storage.type":          "$.storage.type(at: /storage/a)",

	"Account.Capabilities.borrow": "$.capabilities.borrow<&[Int]>(/public/a)", "Account.Capabilities.exists": "$.capabilities.exists(/public/a)",
	"Account.Capabilities.forEachAttachment": "", "Account.Capabilities.get": "$.capabilities.get<&[Int]>(/public/a)",
	"Account.Capabilities.getType": "$.capabilities.getType()", "Account.Capabilities.isInstance": "$.capabilities.isInstance(Type<Account.Capabilities>())",
	"Account.Capabilities.publish":   "$.capabilities.publish($.capabilities.get<&[Int]>(/public/a), at: /public/b)",
	"Account.Capabilities.unpublish": "$.capabilities.unpublish(/public/a)",

	"Account.StorageCapabilities.forEachAttachment": "",
	"Account.StorageCapabilities.forEachController": "$.capabilities.storage.forEachController(forPath: /storage/a, fun (c: &StorageCapabilityController): Bool { return true })",
	"Account.StorageCapabilities.getController":     "$.capabilities.storage.getController(byCapabilityID: 1)",
	"Account.StorageCapabilities.getControllers":    "$.capabilities.storage.getControllers(forPath: /storage/a)",
	"Account.StorageCapabilities.getType":           "$.capabilities.storage.getType()",
	"Account.StorageCapabilities.isInstance":        "$.capabilities.storage.isInstance(Type<Account.StorageCapabilities>())",
	"Account.StorageCapabilities.issue":             "$.capabilities.storage.issue<&[Int]>(/storage/a)",
	"Account.StorageCapabilities.issueWithType":     "$.capabilities.storage.issueWithType(/storage/a, type: Type<&[Int]>())",

	"Account.AccountCapabilities.forEachAttachment": "",
	"Account.AccountCapabilities.forEachController": "$.capabilities.account.forEachController(fun (c: &AccountCapabilityController): Bool { return true })",
	"Account.AccountCapabilities.getController":     "$.capabilities.account.getController(byCapabilityID: 3)",
	"Account.AccountCapabilities.getControllers":    "$.capabilities.account.getControllers()",
	"Account.AccountCapabilities.getType":           "$.capabilities.account.getType()",
	"Account.AccountCapabilities.isInstance":        "$.capabilities.account.isInstance(Type<Account.AccountCapabilities>())",
	"Account.AccountCapabilities.issue":             "$.capabilities.account.issue<&Account>()",
	"Account.AccountCapabilities.issueWithType":     "$.capabilities.account.issueWithType(Type<&Account>())",

	"Account.Contracts.add": `$.contracts.add(name: "N", code: "access(all) contract N {}".utf8)`, "Account.Contracts.borrow": `$.contracts.borrow<&W>(name: "W")`,
	"Account.Contracts.forEachAttachment": "", "Account.Contracts.get": `$.contracts.get(name: "W")`, "Account.Contracts.getType": "$.contracts.getType()",
	"Account.Contracts.isInstance": "$.contracts.isInstance(Type<Account.Contracts>())", "Account.Contracts.remove": `$.contracts.remove(name: "Q")`,
	"Account.Contracts.tryUpdate": `$.contracts.tryUpdate(name: "Q", code: "".utf8)`, "Account.Contracts.update": `$.contracts.update(name: "W", code: "".utf8)`,

	"Account.Keys.add":     `$.keys.add(publicKey: PublicKey(publicKey: "0102".decodeHex(), signatureAlgorithm: SignatureAlgorithm.ECDSA_P256), hashAlgorithm: HashAlgorithm.SHA3_256, weight: 1.0)`,
	"Account.Keys.forEach": "$.keys.forEach(fun (k: AccountKey): Bool { return true })", "Account.Keys.forEachAttachment": "",
	"Account.Keys.get": "$.keys.get(keyIndex: 0)", "Account.Keys.getType": "$.keys.getType()", "Account.Keys.isInstance": "$.keys.isInstance(Type<Account.Keys>())",
	"Account.Keys.revoke": "$.keys.revoke(keyIndex: 0)",

	"Account.Inbox.claim": `$.inbox.claim<&[Int]>("nothing", provider: 0x2)`, "Account.Inbox.forEachAttachment": "", "Account.Inbox.getType": "$.inbox.getType()",
	"Account.Inbox.isInstance": "$.inbox.isInstance(Type<Account.Inbox>())",
	"Account.Inbox.publish":    `$.inbox.publish($.capabilities.get<&[Int]>(/public/a), name: "g2", recipient: 0x2)`,
	"Account.Inbox.unpublish":  `$.inbox.unpublish<auth(Mutate) &[Int]>("gift")`,

	"StorageCapabilityController.delete": "$.delete()", "StorageCapabilityController.getType": "$.getType()",
	"StorageCapabilityController.isInstance": "$.isInstance(Type<StorageCapabilityController>())", "StorageCapabilityController.retarget": "$.retarget(/storage/n)",
	"StorageCapabilityController.setTag": `$.setTag("t")`, "StorageCapabilityController.target": "$.target()",

	"AccountCapabilityController.delete": "$.delete()", "AccountCapabilityController.getType": "$.getType()",
	"AccountCapabilityController.isInstance": "$.isInstance(Type<AccountCapabilityController>())", "AccountCapabilityController.setTag": `$.setTag("t")`,

	"Capability.borrow": "$.borrow()", "Capability.check": "$.check()", "Capability.getType": "$.getType()",
	"Capability.isInstance": "$.isInstance(Type<Capability<auth(Mutate) &[Int]>>())",
}

// receiver sema types by path type
func c07Receivers() map[string][]sema.Type {
	return map[string][]sema.Type{
		"arr":  {&sema.VariableSizedType{Type: sema.IntType}},
		"carr": {&sema.ConstantSizedType{Type: sema.IntType, Size: 3}},
		"dict": {&sema.DictionaryType{KeyType: sema.StringType, ValueType: sema.IntType}},
		"acct": {sema.AccountType, sema.Account_StorageType, sema.Account_CapabilitiesType, sema.Account_StorageCapabilitiesType,
			sema.Account_AccountCapabilitiesType, sema.Account_ContractsType, sema.Account_KeysType, sema.Account_InboxType},
		"ctl":  {sema.StorageCapabilityControllerType},
		"actl": {sema.AccountCapabilityControllerType},
		"cap":  {&sema.CapabilityType{BorrowType: &sema.ReferenceType{Type: &sema.VariableSizedType{Type: sema.IntType}, Authorization: sema.UnauthorizedAccess}}},
	}
}

// c07Ops builds the operation alphabet; uncovered lists built-in function
// members that have no call template (reported, never silently dropped).
func c07Ops() (out []c07Op, uncovered []string) {
	recv := c07Receivers()
	types := make([]string, 0, len(recv))
	for t := range recv {
		types = append(types, t)
	}
	sort.Strings(types)
	for _, pt := range types {
		for _, ty := range recv[pt] {
			members := ty.GetMembers()
			names := make([]string, 0, len(members))
			for n := range members {
				names = append(names, n)
			}
			sort.Strings(names)
			tn := ty.QualifiedString()
			if pt == "cap" {
				tn = "Capability"
			}
			for _, n := range names {
				m := members[n].Resolve(nil, n, ast.EmptyRange, func(error) {})
				if m == nil {
					continue
				}
				if _, ok := m.TypeAnnotation.Type.(*sema.FunctionType); !ok {
					continue
				}
				tmpl, ok := c07Members[tn+"."+n]
				if !ok {
					uncovered = append(uncovered, tn+"."+n)
					continue
				}
				if tmpl == "" {
					continue // deliberately skipped (attachment iteration on built-in account objects)
				}
				out = append(out, c07Op{Name: strings.TrimPrefix(tn, "Account.") + "." + n, Type: pt, Text: tmpl})
			}
		}
	}
	// statements and non-member operations
	out = append(out,
		c07Op{Name: "index-assign", Type: "arr", Text: "$[0] = 9", Stmt: true},
		c07Op{Name: "index-swap", Type: "arr", Text: "$[0] <-> $[1]", Stmt: true},
		c07Op{Name: "swap-with-global", Type: "arr", Text: "$[0] <-> GN", Stmt: true},
		c07Op{Name: "assign", Type: "arr", Text: "$ = [9]", Stmt: true, Var: true},
		c07Op{Name: "swap-whole", Type: "arr", Text: "$ <-> GA", Stmt: true, Var: true},
		c07Op{Name: "index-assign", Type: "carr", Text: "$[0] = 9", Stmt: true},
		c07Op{Name: "assign", Type: "carr", Text: "$ = [9,9,9]", Stmt: true, Var: true},
		c07Op{Name: "index-assign", Type: "dict", Text: `$["a"] = 9`, Stmt: true},
		c07Op{Name: "index-assign-nil", Type: "dict", Text: `$["a"] = nil`, Stmt: true},
		c07Op{Name: "assign", Type: "dict", Text: "$ = {}", Stmt: true, Var: true},
		c07Op{Name: "assign", Type: "int", Text: "$ = 9", Stmt: true, Var: true},
		c07Op{Name: "swap", Type: "int", Text: "$ <-> GM", Stmt: true, Var: true},
		c07Op{Name: "read", Type: "int", Text: "ig($)"},
		c07Op{Name: "impure-method", Type: "struct", Text: "$.setN(9)"},
		c07Op{Name: "view-method", Type: "struct", Text: "$.getN()"},
		c07Op{Name: "assign", Type: "struct", Text: "$ = W.S()", Stmt: true, Var: true},
		c07Op{Name: "field-index-assign", Type: "struct", Text: "$.a[0] = 9", Stmt: true},
		c07Op{Name: "nested-field-append", Type: "struct", Text: "$.t.a.append(9)"},
		c07Op{Name: "impure-method", Type: "res", Text: "$.inc()"},
		c07Op{Name: "view-method", Type: "res", Text: "$.getN()"},
		c07Op{Name: "field-assign", Type: "res", Text: "$.n = 9", Stmt: true},
		c07Op{Name: "field-index-assign", Type: "res", Text: "$.a[0] = 9", Stmt: true},
		c07Op{Name: "nested-resource-append", Type: "res", Text: "$.rs.append(<- W.mkR())"},
		c07Op{Name: "second-value-transfer", Type: "rplace", Text: "let old <- $ <- W.mkRv(); return <- old", Stmt: true, Ret: "@W.R"},
		c07Op{Name: "swap-with-fresh", Type: "rplace", Text: "var tmp <- W.mkRv(); $ <-> tmp; return <- tmp", Stmt: true, Ret: "@W.R"},
		c07Op{Name: "move-assign", Type: "rplace", Text: "$ <- W.mkRv()", Stmt: true},
		c07Op{Name: "force-assign", Type: "rplace", Text: "$ <-! W.mkRv()", Stmt: true},
		c07Op{Name: "second-value-transfer", Type: "roplace", Text: "let old <- $ <- W.mkRv(); return <- old", Stmt: true, Ret: "@W.R?"},
		c07Op{Name: "second-value-transfer-nil", Type: "roplace", Text: "let old <- $ <- nil; return <- old", Stmt: true, Ret: "@W.R?"},
		c07Op{Name: "swap-with-fresh", Type: "roplace", Text: "var tmp: @W.R? <- W.mkRv(); $ <-> tmp; return <- tmp", Stmt: true, Ret: "@W.R?"},
		c07Op{Name: "move-assign", Type: "roplace", Text: "$ <- W.mkRv()", Stmt: true},
		c07Op{Name: "force-assign", Type: "roplace", Text: "$ <-! W.mkRv()", Stmt: true},
		c07Op{Name: "key-swap", Type: "dict", Text: `$["a"] <-> $["b"]`, Stmt: true},
		c07Op{Name: "swap-whole", Type: "dict", Text: "$ <-> GD", Stmt: true, Var: true},
		c07Op{Name: "swap-whole", Type: "struct", Text: "$ <-> GS", Stmt: true, Var: true},
		c07Op{Name: "field-swap", Type: "struct", Text: "$.a <-> GA", Stmt: true},
		c07Op{Name: "field-swap", Type: "res", Text: "$.a <-> GA", Stmt: true},
		c07Op{Name: "call-impure", Type: "none", Text: "impure()"},
		c07Op{Name: "call-view", Type: "none", Text: "pure()"},
		c07Op{Name: "emit", Type: "none", Text: "emit E(x: 1)", Stmt: true},
		c07Op{Name: "log", Type: "none", Text: `log("x")`},
		c07Op{Name: "create-destroy", Type: "none", Text: "destroy W.mkR()", Stmt: true},
		c07Op{Name: "nested-impure-function", Type: "none", Text: "fun inner() { GA.append(9) }; inner()", Stmt: true},
		c07Op{Name: "impure-closure-call", Type: "none", Text: "let f = fun () { GN = 9 }; f()", Stmt: true},
		c07Op{Name: "optional-chain-impure", Type: "none", Text: "GO?.setN(9)"},
		c07Op{Name: "account-storage-save-inline", Type: "none", Text: "getAuthAccount<auth(Storage) &Account>(0x1).storage.save(7, to: /storage/fresh)"},
	)
	return out, uncovered
}

var c07Contexts = []string{"fun", "method-struct", "method-resource", "init", "closure", "pre", "post", "pre-method", "emit-condition"}

// c07Cand is one candidate (replayable by names).
type c07Cand struct {
	Ctx   string `json:"ctx"`
	PType string `json:"place_type"`
	Path  string `json:"path"`
	Op    string `json:"op"`
	Op2   string `json:"op2,omitempty"` // second statement (thorough): "<ptype>/<path>/<op>"
}

func (c c07Cand) id() string {
	s := c.Ctx + "|" + c.PType + "/" + c.Path + "|" + c.Op
	if c.Op2 != "" {
		s += "|+" + c.Op2
	}
	return s
}

type c07Alphabet struct {
	paths []c07Path
	ops   []c07Op
}

var c07AlphaOnce sync.Once
var c07Alpha c07Alphabet
var c07Uncovered []string

func c07GetAlphabet() *c07Alphabet {
	c07AlphaOnce.Do(func() {
		c07Alpha.paths = c07Paths()
		c07Alpha.ops, c07Uncovered = c07Ops()
	})
	return &c07Alpha
}

func (a *c07Alphabet) path(pt, name string) *c07Path {
	for i := range a.paths {
		if a.paths[i].Type == pt && a.paths[i].Name == name {
			return &a.paths[i]
		}
	}
	return nil
}

func (a *c07Alphabet) op(pt, name string) *c07Op {
	for i := range a.ops {
		if a.ops[i].Type == pt && a.ops[i].Name == name {
			return &a.ops[i]
		}
	}
	return nil
}

// compatible says whether (ctx, path, op) can be rendered.
func c07Compatible(ctx string, p *c07Path, o *c07Op) bool {
	cond := ctx == "pre" || ctx == "post" || ctx == "pre-method" || ctx == "emit-condition"
	if cond && (o.Stmt || len(p.Setup) > 0) {
		return false
	}
	if o.Var && !p.Var {
		return false
	}
	if o.Ret != "" && ctx != "fun" && ctx != "method-resource" && ctx != "closure" {
		return false
	}
	switch p.Needs {
	case "self":
		if ctx != "method-struct" && ctx != "method-resource" && ctx != "init" && ctx != "pre-method" {
			return false
		}
	case "self-res":
		if ctx != "method-resource" {
			return false
		}
	case "captured":
		if ctx != "closure" {
			return false
		}
	}
	if ctx == "emit-condition" {
		return p.Type == "none" && o.Name == "call-view"
	}
	return true
}

// render produces the declarations (with # for the candidate number) and
// the wrapper call. The wrapper w#(acct) logs "@L" local-dump "@C", calls the
// view context, logs "@L" local-dump "@E".
func (a *c07Alphabet) render(c c07Cand, n int) (decl string, ok bool) {
	p := a.path(c.PType, c.Path)
	o := a.op(c.PType, c.Op)
	if p == nil || o == nil || !c07Compatible(c.Ctx, p, o) {
		return "", false
	}
	params := append([]string(nil), p.Params...)
	args := append([]string(nil), p.Args...)
	body := append([]string(nil), p.Setup...)
	text := strings.ReplaceAll(o.Text, "$", p.Place)
	body = append(body, text)
	if c.Op2 != "" {
		parts := strings.Split(c.Op2, "/")
		p2, o2 := a.path(parts[0], parts[1]), a.op(parts[0], parts[2])
		if p2 == nil || o2 == nil || !c07Compatible(c.Ctx, p2, o2) {
			return "", false
		}
		for i, prm := range p2.Params {
			dup := false
			for _, q := range params {
				dup = dup || q == prm
			}
			if !dup {
				params = append(params, prm)
				args = append(args, p2.Args[i])
			}
		}
		for _, s := range p2.Setup {
			dup := false
			for _, q := range body {
				dup = dup || q == s
			}
			if !dup {
				body = append(body[:len(body)-1], s, body[len(body)-1])
			}
		}
		body = append(body, strings.ReplaceAll(o2.Text, "$", p2.Place))
	}
	N := strconv.Itoa(n)
	ps := strings.Join(params, ", ")
	// unlabeled call: parameters are declared as `name: T`, so pass labels
	labeled := make([]string, len(args))
	for i, prm := range params {
		labeled[i] = strings.SplitN(prm, ":", 2)[0] + ": " + args[i]
	}
	as := strings.Join(labeled, ", ")
	bs := strings.Join(body, "; ")
	resSetup, resDump, resEnd := "", "", ""
	if strings.Contains(as, "&res ") {
		resSetup, resDump, resEnd = "let res <- W.mkR(); res.rs.append(<- W.mkR()); ", "log(&res as &W.R); ", "destroy res; "
	}
	if strings.Contains(as, "&resarr ") {
		resSetup, resDump, resEnd = resSetup+"let resarr <- [<- W.mkR()]; ", resDump+"log(&resarr as &[W.R]); ", resEnd+"destroy resarr; "
	}
	if strings.Contains(as, "&resdict ") {
		resSetup, resDump, resEnd = resSetup+"let resdict <- {\"k\": <- W.mkR()}; ", resDump+"log(&resdict as &{String: W.R}); ", resEnd+"destroy resdict; "
	}
	// operations that move a resource out of their target return it; the wrapper destroys the result
	ret, retSig, consume := o.Ret, "", ""
	if ret != "" {
		retSig, consume = ": "+ret, "destroy "
	}
	fields := "access(all) var a: [Int]; access(all) var n: Int; access(all) var d: {String: Int}; access(all) var s: W.S"
	inits := `self.a = [1,2,3]; self.n = 5; self.d = {"a": 1}; self.s = W.S()`
	var sb strings.Builder
	w := func(pre, call, dump, post string) {
		fmt.Fprintf(&sb, "access(all) fun w%s(_ acct: %s) { %s%s log(\"@L\"); %s%s log(\"@C\"); %s; log(\"@L\"); %s%s log(\"@E\"); %s%s }\n",
			N, c07AcctType, resSetup, pre, resDump, dump, call, resDump, dump, post, resEnd)
	}
	switch c.Ctx {
	case "fun":
		fmt.Fprintf(&sb, "access(all) view fun v%s(%s)%s { %s }\n", N, ps, retSig, bs)
		w("", consume+"v"+N+"("+as+")", "", "")
	case "method-struct":
		fmt.Fprintf(&sb, "access(all) struct X%s { %s\n  init() { %s }\n  access(all) view fun m(%s) { %s } }\n", N, fields, inits, ps, bs)
		w("let x = X"+N+"();", "x.m("+as+")", "log(x);", "")
	case "method-resource":
		fmt.Fprintf(&sb, "access(all) resource X%s { %s; access(all) var rs: @[W.R]; access(all) var r: @W.R; access(all) var ro: @W.R?; access(all) var rd: @{String: W.R}\n  init() { %s; self.rs <- [<- W.mkR()]; self.r <- W.mkR(); self.ro <- nil; self.rd <- {\"k\": <- W.mkR()} }\n  access(all) view fun m(%s)%s { %s } }\n", N, fields, inits, ps, retSig, bs)
		w("let x <- create X"+N+"();", consume+"x.m("+as+")", "log(&x as &X"+N+");", "destroy x;")
	case "init":
		fmt.Fprintf(&sb, "access(all) struct X%s { %s\n  view init(%s) { %s; %s } }\n", N, fields, ps, inits, bs)
		w("", "let x = X"+N+"("+as+")", "", "")
	case "closure":
		closureSig, closureTail := ": Int", "; return 0"
		if ret != "" {
			closureSig, closureTail = retSig, ""
		}
		fmt.Fprintf(&sb, "access(all) fun w%s(_ acct: %s) { %svar cap = [1,2,3]; var capN = 5; var capD = {\"a\": 1}; var capS = W.S()\n  let fn = view fun (%s)%s { %s%s }\n  log(\"@L\"); %slog(cap); log(capN); log(capD); log(capS); log(\"@C\"); %sfn(%s); log(\"@L\"); %slog(cap); log(capN); log(capD); log(capS); log(\"@E\"); %s}\n",
			N, c07AcctType, resSetup, unlabel(params), closureSig, bs, closureTail, resDump, consume, strings.Join(args, ", "), resDump, resEnd)
	case "pre", "post":
		fmt.Fprintf(&sb, "access(all) fun v%s(%s): Int { %s { ig(%s) } return 1 }\n", N, ps, c.Ctx, bs)
		w("", "v"+N+"("+as+")", "", "")
	case "pre-method":
		fmt.Fprintf(&sb, "access(all) struct X%s { %s\n  init() { %s }\n  access(all) fun m(%s): Int { pre { ig(%s) } return 1 } }\n", N, fields, inits, ps, bs)
		w("let x = X"+N+"();", "x.m("+as+")", "log(x);", "")
	case "emit-condition":
		fmt.Fprintf(&sb, "access(all) fun v%s(): Int { pre { emit E(x: 7) } post { emit E(x: 8) } return 1 }\n", N)
		w("", "v"+N+"()", "", "")
	default:
		return "", false
	}
	return sb.String(), true
}

// unlabel turns `p: T` parameter lists into `_ p: T` for closures (called without labels).
func unlabel(params []string) string {
	parts := make([]string, len(params))
	for i := range params {
		parts[i] = "_ " + params[i]
	}
	return strings.Join(parts, ", ")
}

// ---------------------------------------------------------------------------
// running

var c07Base struct {
	once sync.Once
	l    *rt.Ledger
}

func c07Ledger() *rt.Ledger {
	c07Base.once.Do(func() {
		l := rt.NewLedger()
		rt.Deploy(l, rt.Addr(1), "W", c07Contract, false)
		r := rt.Run(l, rt.Tx{Source: c07Setup, Signers: []common.Address{rt.Addr(1)}})
		if !r.OK() {
			panic("C07 setup failed: " + r.ErrString())
		}
		c07Base.l = l
	})
	return c07Base.l
}

type c07Script struct {
	src   string
	lines [][2]int // line range (1-based, inclusive) of candidate i
}

func c07Build(a *c07Alphabet, cands []c07Cand) c07Script {
	var sb strings.Builder
	sb.WriteString(c07Prelude)
	line := strings.Count(c07Prelude, "\n") + 1
	s := c07Script{lines: make([][2]int, len(cands))}
	for i, c := range cands {
		d, ok := a.render(c, i)
		if !ok {
			panic("unrenderable candidate " + c.id())
		}
		sb.WriteString(d)
		n := strings.Count(d, "\n")
		s.lines[i] = [2]int{line, line + n - 1}
		line += n
	}
	sb.WriteString("access(all) fun main() {\n  let acct = getAuthAccount<" + c07AcctType + ">(0x1)\n")
	for i := range cands {
		fmt.Fprintf(&sb, "  reset(); log(\"#%d\"); snap(acct); w%d(acct); log(\"@G\"); snap(acct)\n", i, i)
	}
	sb.WriteString("}\n")
	s.src = sb.String()
	return s
}

// c07Rejected maps checker errors to candidates. ok=false: an error outside every candidate.
func c07RejectedSet(s c07Script, err error) (rej map[int]string, ok bool) {
	var ce *sema.CheckerError
	if !errors.As(err, &ce) {
		return nil, false
	}
	rej = map[int]string{}
	for _, e := range ce.Errors {
		hp, has := e.(ast.HasPosition)
		if !has {
			return nil, false
		}
		ln := hp.StartPosition().Line
		found := false
		for i, r := range s.lines {
			if ln >= r[0] && ln <= r[1] {
				if _, dup := rej[i]; !dup {
					rej[i] = fmt.Sprintf("%T", e)
				}
				found = true
			}
		}
		if !found {
			return nil, false
		}
	}
	return rej, true
}

// c07Verdict is the judgement of one accepted candidate on one engine.
type c07Verdict struct {
	Class  string // "" fine | state-changed | local-state-changed | unexpected-event | not-reached | aborted
	Detail string
}

func diffLines(a, b []string) string {
	for i := 0; i < len(a) || i < len(b); i++ {
		var x, y string
		if i < len(a) {
			x = a[i]
		}
		if i < len(b) {
			y = b[i]
		}
		if x != y {
			return fmt.Sprintf("dump line %d: before %s, after %s", i, x, y)
		}
	}
	return ""
}

// c07Judge runs the accepted candidates in one script on one engine.
func c07Judge(a *c07Alphabet, cands []c07Cand, vm bool) (verdicts []c07Verdict, res *rt.Result) {
	s := c07Build(a, cands)
	res = rt.Run(c07Ledger(), rt.Tx{Source: s.src, Script: true, UseVM: vm})
	verdicts = make([]c07Verdict, len(cands))
	// split logs per candidate
	type seg struct{ g1, l1, l2, g2 []string }
	segs := make([]seg, len(cands))
	reached := make([]int, len(cands)) // 0 none, 1 #, 2 @L, 3 @C, 4 @L, 5 @E, 6 @G
	cur := -1
	for _, l := range res.Logs {
		s, err := strconv.Unquote(l)
		if err != nil {
			s = ""
		}
		switch {
		case strings.HasPrefix(s, "#"):
			cur, _ = strconv.Atoi(s[1:])
			reached[cur] = 1
			continue
		case cur < 0:
			continue
		case s == "@L" && reached[cur] == 1:
			reached[cur] = 2
			continue
		case s == "@C" && reached[cur] == 2:
			reached[cur] = 3
			continue
		case s == "@L" && reached[cur] == 3:
			reached[cur] = 4
			continue
		case s == "@E" && reached[cur] == 4:
			reached[cur] = 5
			continue
		case s == "@G" && reached[cur] == 5:
			reached[cur] = 6
			continue
		}
		sg := &segs[cur]
		switch reached[cur] {
		case 1:
			sg.g1 = append(sg.g1, l)
		case 2:
			sg.l1 = append(sg.l1, l)
		case 4:
			sg.l2 = append(sg.l2, l)
		case 6:
			sg.g2 = append(sg.g2, l)
		}
	}
	for i, c := range cands {
		switch {
		case reached[i] == 0:
			verdicts[i] = c07Verdict{"not-reached", firstLine(res.ErrString())}
		case reached[i] < 6 || (i == len(cands)-1 && !res.OK()) || (i < len(cands)-1 && reached[i+1] == 0 && !res.OK()):
			verdicts[i] = c07Verdict{"aborted", res.Class + " " + firstLine(res.ErrString())}
		default:
			if d := diffLines(segs[i].g1, segs[i].g2); d != "" {
				verdicts[i] = c07Verdict{"state-changed", d}
			} else if d := diffLines(segs[i].l1, segs[i].l2); d != "" {
				verdicts[i] = c07Verdict{"local-state-changed", d}
			}
		}
		_ = c
	}
	// events: only the emit-condition candidates may emit, E(x: 7) then E(x: 8)
	want := 0
	for _, c := range cands {
		if c.Ctx == "emit-condition" {
			want += 2
		}
	}
	if len(res.Events) != want && res.OK() {
		// attribute by re-running singly is done by the caller; mark all as suspicious
		for i := range verdicts {
			if verdicts[i].Class == "" {
				verdicts[i] = c07Verdict{"unexpected-event?", fmt.Sprintf("%d events, %d declared by emit conditions: %v", len(res.Events), want, rt.EventStrings(res.Events))}
			}
		}
	}
	return verdicts, res
}

var c07Gen, c07Acc atomic.Int64

var c07Globals = regexp.MustCompile(`\b(GN|GM|GA|GC|GD|GS|GO|GAA|refGA|impure|reset)\b`)

// c07Process handles one batch: find the accepted candidates, run them on
// both engines, attribute anything suspicious by single runs.
func c07Process(env *mc.Env, a *c07Alphabet, cands []c07Cand) {
	s := c07Build(a, cands)
	probe := rt.Run(c07Ledger(), rt.Tx{Source: s.src, Script: true, UseVM: false})
	env.R.Eval()
	accepted := cands
	if strings.Contains(probe.Kind, "parser.Error") {
		env.R.HarnessError("C07 generator produced a script that does not parse: %s\n%s", probe.ErrString(), s.src)
		return
	}
	if strings.Contains(probe.Kind, "CheckerError") {
		rej, ok := c07RejectedSet(s, probe.Err)
		if !ok {
			env.R.HarnessError("C07: checker error outside every candidate: %s", probe.ErrString())
			return
		}
		accepted = nil
		for i, c := range cands {
			if why, r := rej[i]; r {
				cc := c
				env.R.Class("rejected/"+why, func() any { return cc.id() })
			} else {
				accepted = append(accepted, c)
			}
		}
	}
	c07Gen.Add(int64(len(cands)))
	c07Acc.Add(int64(len(accepted)))
	if len(accepted) == 0 {
		return
	}
	bad := false
	for _, vm := range []bool{false, true} {
		vs, res := c07Judge(a, accepted, vm)
		env.R.EvalN(int64(len(accepted)))
		if strings.Contains(res.Kind, "CheckerError") {
			env.R.HarnessError("C07: accepted candidates rejected together (%s): %s", engineName(vm), res.ErrString())
			return
		}
		for _, v := range vs {
			bad = bad || v.Class != ""
		}
	}
	if !bad {
		for _, c := range accepted {
			cc := c
			env.R.Nontrivial(c.id())
			env.R.Class("accepted-and-pure/"+c.Ctx, func() any { return cc.id() })
		}
		return
	}
	for _, c := range accepted {
		cc := c
		cls, detail := c07JudgeSingle(a, c)
		env.R.EvalN(2)
		if cls == "" {
			env.R.Nontrivial(c.id())
			env.R.Class("accepted-and-pure/"+c.Ctx, func() any { return cc.id() })
			continue
		}
		if strings.HasPrefix(cls, "aborted") {
			// the operation failed at run time in both engines for a reason of its own: nothing was mutated that we can see, nothing to judge
			env.R.Class("accepted-but-"+cls, func() any { return cc.id() + ": " + detail })
			continue
		}
		d, _ := a.render(c, 0)
		env.R.Violation(c07Sig(c, cls), c, detail+"\n"+d)
	}
}

// c07JudgeSingle runs one candidate alone on both engines.
func c07JudgeSingle(a *c07Alphabet, c c07Cand) (class, detail string) {
	var cls [2]string
	for i, vm := range []bool{false, true} {
		vs, res := c07Judge(a, []c07Cand{c}, vm)
		if strings.Contains(res.Kind, "CheckerError") {
			return "", "rejected"
		}
		cls[i] = strings.TrimSuffix(vs[0].Class, "?")
		if vs[0].Class != "" {
			detail += engineName(vm) + ": " + vs[0].Detail + " || "
		}
	}
	// an engine on which the candidate fails at run time (its own abort, or the VM cannot link a
	// built-in member) shows no effect of the view context: not judged on that engine
	judged := false
	for i := range cls {
		if cls[i] == "aborted" || cls[i] == "not-reached" {
			cls[i] = "aborts"
		} else if cls[i] != "" {
			judged = true
		}
	}
	if !judged {
		if cls[0] == "" && cls[1] == "" {
			return "", ""
		}
		return "aborted:interp:" + orOK(cls[0]) + ",vm:" + orOK(cls[1]), detail
	}
	return "interp:" + orOK(cls[0]) + ",vm:" + orOK(cls[1]), detail
}

// c07Sig: context | access path | operation | failure class. An event that
// comes from an emit *statement* accepted inside a view context is one
// structural class whatever the context.
func c07Sig(c c07Cand, cls string) string {
	if strings.Contains(cls, "unexpected-event") && (c.Op == "emit" || strings.HasSuffix(c.Op2, "/emit")) {
		if strings.HasPrefix(cls, "tx-") {
			return "emit-statement-accepted-in-view-context|" + cls
		}
		return "emit-statement-accepted-in-view-context|unexpected-event" // whichever engines got as far as the emit
	}
	return c.Ctx + "|" + c.PType + "/" + c.Path + "|" + c.Op + "|" + cls
}

func orOK(s string) string {
	if s == "" {
		return "ok"
	}
	return s
}

// c07LedgerWrites runs accepted account candidates as transactions and
// requires that nothing is written.
func c07TxSource(a *c07Alphabet, c c07Cand) (string, bool) {
	d, ok := a.render(c, 0)
	if !ok || c07Globals.MatchString(d) {
		return "", false // uses script globals, which a transaction cannot declare
	}
	src := "import W from 0x1\naccess(all) view fun ig(_ x: AnyStruct?): Bool { return true }\naccess(all) view fun pure(): Bool { return true }\n" + d +
		"transaction { prepare(acct: " + c07AcctType + ") { w0(acct) } }\n"
	return src, true
}

func runC07(env *mc.Env) {
	a := c07GetAlphabet()
	if len(c07Uncovered) > 0 {
		env.R.Set("builtin_function_members_without_call_template", c07Uncovered)
		env.R.NotExhaustive(fmt.Sprintf("%d built-in function members have no call template (new members?): %v", len(c07Uncovered), c07Uncovered))
	}
	var cands []c07Cand
	for _, ctx := range c07Contexts {
		for pi := range a.paths {
			p := &a.paths[pi]
			for oi := range a.ops {
				o := &a.ops[oi]
				if o.Type != p.Type || !c07Compatible(ctx, p, o) {
					continue
				}
				cands = append(cands, c07Cand{Ctx: ctx, PType: p.Type, Path: p.Name, Op: o.Name})
			}
		}
	}
	single := len(cands)
	if env.Thorough() {
		// two-statement bodies in the plain function context: every ordered pair (first op may be anything, e.g. a local declaration that the second exploits)
		var firsts []c07Cand
		for _, c := range cands {
			if c.Ctx == "fun" {
				firsts = append(firsts, c)
			}
		}
		for _, f := range firsts {
			for _, s := range firsts {
				c := f
				c.Op2 = s.PType + "/" + s.Path + "/" + s.Op
				if _, ok := a.render(c, 0); ok {
					cands = append(cands, c)
				}
			}
		}
	}
	env.R.Set("candidates", int64(len(cands)))
	env.R.Set("single_operation_candidates", int64(single))
	const batch = 40
	nb := (len(cands) + batch - 1) / batch
	mc.ParallelFor(env, nb, func(bi int) {
		lo, hi := bi*batch, min((bi+1)*batch, len(cands))
		c07Process(env, a, cands[lo:hi])
	})
	// ledger-write clause: every accepted candidate that can be phrased without script globals, as a transaction
	var txc []c07Cand
	for _, c := range cands[:single] {
		if _, ok := c07TxSource(a, c); ok {
			txc = append(txc, c)
		}
	}
	var txRun atomic.Int64
	mc.ParallelFor(env, len(txc), func(i int) {
		c := txc[i]
		src, _ := c07TxSource(a, c)
		for _, vm := range []bool{false, true} {
			l := c07Ledger().Clone()
			before := l.Bytes()
			res := rt.Run(l, rt.Tx{Source: src, Signers: []common.Address{rt.Addr(1)}, UseVM: vm})
			env.R.Eval()
			if strings.Contains(res.Kind, "CheckerError") || strings.Contains(res.Kind, "parser.Error") {
				return
			}
			if !res.OK() {
				env.R.Class("tx-accepted-but-aborts", func() any { return c.id() + ": " + firstLine(res.ErrString()) })
				return
			}
			txRun.Add(1)
			after := l.Bytes()
			// only emit conditions may produce events
			nev := 0
			if c.Ctx == "emit-condition" {
				nev = 2
			}
			switch {
			case len(res.Writes) > 0 || before != after:
				env.R.Violation(c.Ctx+"|"+c.PType+"/"+c.Path+"|"+c.Op+"|ledger-write-"+engineName(vm), c07TxCase{c}, fmt.Sprintf("%d SetValue calls by a transaction that only runs the view context: %v\n%s", len(res.Writes), writeKeys(res.Writes), src))
			case len(res.Events) != nev:
				env.R.Violation(c07Sig(c, "tx-unexpected-event"), c07TxCase{c}, fmt.Sprintf("%s: events %v\n%s", engineName(vm), rt.EventStrings(res.Events), src))
			default:
				env.R.Class("tx-no-ledger-write/"+c.Ctx, func() any { return c.id() })
				env.R.Nontrivial("tx|" + c.id())
			}
		}
	})
	env.R.Set("transactions_run_for_ledger_write_clause", txRun.Load())
	env.R.Set("candidates_accepted_by_checker", c07Acc.Load())
	env.R.Set("candidates_generated", c07Gen.Load())
	if c07Acc.Load()*20 < c07Gen.Load() {
		env.R.HarnessError("only %d of %d candidates accepted by the checker (< 5%%): vacuous", c07Acc.Load(), c07Gen.Load())
	}
	env.R.BoundCompleted(fmt.Sprintf("%d contexts x %d access paths x %d operations, compatible combinations: %d single-operation candidates, %d with a second statement", len(c07Contexts), len(a.paths), len(a.ops), single, len(cands)-single))
}

type c07TxCase struct {
	Tx c07Cand `json:"tx"`
}

func writeKeys(ws []rt.Write) []string {
	var out []string
	for _, w := range ws {
		out = append(out, fmt.Sprintf("%x|%q", w.Owner, w.Key))
	}
	return out
}

func replayC07(env *mc.Env, raw json.RawMessage) (bool, string) {
	a := c07GetAlphabet()
	var tc struct {
		Tx *c07Cand `json:"tx"`
	}
	if err := json.Unmarshal(raw, &tc); err == nil && tc.Tx != nil {
		src, ok := c07TxSource(a, *tc.Tx)
		if !ok {
			return false, "not a transaction candidate"
		}
		for _, vm := range []bool{false, true} {
			l := c07Ledger().Clone()
			before := l.Bytes()
			res := rt.Run(l, rt.Tx{Source: src, Signers: []common.Address{rt.Addr(1)}, UseVM: vm})
			nev := 0
			if tc.Tx.Ctx == "emit-condition" {
				nev = 2
			}
			if res.OK() && (len(res.Writes) > 0 || before != l.Bytes() || len(res.Events) != nev) {
				return true, fmt.Sprintf("%s: writes=%d events=%v", engineName(vm), len(res.Writes), rt.EventStrings(res.Events))
			}
		}
		return false, "no write, no event"
	}
	var c c07Cand
	if err := json.Unmarshal(raw, &c); err != nil {
		return false, err.Error()
	}
	cls, detail := c07JudgeSingle(a, c)
	return cls != "" && !strings.HasPrefix(cls, "aborted"), cls + ": " + detail
}

func init() {
	mc.Register(&mc.Check{
		ID:   "C07",
		Rule: "every compatible combination of view context (view fun, view method of struct/resource, view init, view closure, pre-/post-condition of a function or method, emit conditions) x access path to a pre-existing value (global, authorized reference parameter, copy parameter, self field, captured variable, local/inline reference, struct field, optional force/chain, nested element, dereferenced copy, storage borrow, capability borrow, cast from AnyStruct, result of a view function, getAuthAccount, account objects, capability controllers) x operation (every function member of [Int], [Int;3], {String:Int}, Account.*, capability controllers and Capability as enumerated from sema, plus assignment, index/member write, swap, resource moves (second-value transfer, move- and force-assignment, swap with a fresh resource) on resource fields / array and dictionary elements / through authorized references, impure/view calls, emit, nested impure functions, create/destroy); the checker decides acceptance; every accepted candidate is run on both engines with a full dump of globals, argument/self/captured values and account storage/capabilities/contracts/keys before and after, and (where expressible) as a transaction that must issue no SetValue and no event; thorough adds every ordered pair of operations in a view fun body; non-trivial = distinct accepted candidate that ran",
		Assumptions: []string{
			"the dump (log of every global, reference-reachable argument, storage path value, capability controller, contract name, key count) shows every value that existed before the call",
			"an accepted candidate that aborts at run time in both engines has no observable effect and is not judged",
			"the checker's rejection of a candidate is never an alarm (the property does not ask the checker to accept all pure code)",
		},
		Run:    runC07,
		Replay: replayC07,
	})
}

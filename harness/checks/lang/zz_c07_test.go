package lang

import (
	"fmt"
	"testing"

	"github.com/onflow/cadence/common"
	"verif/rt"
)

func TestC07Dbg(t *testing.T) {
	a := c07GetAlphabet()
	for _, c := range []c07Cand{
		{Ctx: "init", PType: "arr", Path: "global", Op: "[Int].contains"},
		{Ctx: "fun", PType: "acct", Path: "param", Op: "Storage.type"},
	} {
		d, ok := a.render(c, 0)
		fmt.Println(ok, d)
		cls, det := c07JudgeSingle(a, c)
		fmt.Println("single:", cls, det)
		vs, res := c07Judge(a, []c07Cand{c}, false)
		fmt.Println(vs, res.ErrString())
		src, ok := c07TxSource(a, c)
		fmt.Println("tx:", ok)
		if ok {
			l := c07Ledger().Clone()
			r := rt.Run(l, rt.Tx{Source: src, Signers: []common.Address{rt.Addr(1)}})
			fmt.Println(r.Class, r.Kind, r.ErrString(), len(r.Writes))
		}
	}
}

package lang

import (
	"encoding/json"
	"fmt"
	"sort"
	"strconv"
	"strings"
	"sync/atomic"

	"github.com/onflow/cadence"

	"verif/mc"
	"verif/rt"
)

// c52Batch is the replayable unit: one script with one function per case.
type c52Batch struct {
	Cases []*c52Case `json:"cases"`
}

func (b *c52Batch) script() string {
	var sb strings.Builder
	sb.WriteString(c52Prelude)
	sb.WriteString(c52StmtPrelude)
	for i, c := range b.Cases {
		sb.WriteString(c.decl("c" + strconv.Itoa(i)))
		sb.WriteByte('\n')
	}
	sb.WriteString("access(all) fun main() {\n")
	for i := range b.Cases {
		fmt.Fprintf(&sb, "  log(-1); let v%d: AnyStruct = c%d(); log(-2); log(v%d)\n", i, i, i)
	}
	sb.WriteString("}\n")
	return sb.String()
}

// mismatch is one disagreement between an engine and the oracle.
type mismatch struct {
	Case   int
	Class  string
	Detail string
}

func engineName(vm bool) string {
	if vm {
		return "vm"
	}
	return "interp"
}

func intsEq(a, b []int) bool {
	if len(a) != len(b) {
		return false
	}
	for i := range a {
		if a[i] != b[i] {
			return false
		}
	}
	return true
}

// logClass says how an observed log differs from the predicted one.
func logClass(got, want []int) string {
	g := append([]int(nil), got...)
	w := append([]int(nil), want...)
	sort.Ints(g)
	sort.Ints(w)
	if intsEq(g, w) {
		return "order"
	}
	seen := map[int]bool{}
	for _, x := range got {
		if seen[x] {
			return "evaluated-twice"
		}
		seen[x] = true
	}
	if len(got) > len(want) {
		return "evaluated-too-much"
	}
	return "evaluated-too-little"
}

func eventShort(e cadence.Event) string {
	s := e.String()
	// drop the location prefix of the type ID: s.<hex>.E(a: 1, b: 2)
	if i := strings.Index(s, "("); i > 0 {
		if j := strings.LastIndex(s[:i], "."); j >= 0 {
			return s[j+1:]
		}
	}
	return s
}

// judgeEngine runs the batch on one engine and compares every case with the
// predicted outcomes; alt[i] is the index of the outcome alternative the
// engine took for case i.
func judgeEngine(b *c52Batch, preds [][]outcome, vm bool) (mm []mismatch, alt []int, res *rt.Result) {
	res = rt.Run(rt.NewLedger(), rt.Tx{Source: b.script(), Script: true, UseVM: vm})
	alt = make([]int, len(b.Cases))
	// split the log at the -1 markers
	var segs [][]int
	var vals []string // value of case i, logged after the -2 marker
	expectValue := false
	for _, l := range res.Logs {
		if expectValue {
			vals = append(vals, l)
			expectValue = false
			continue
		}
		k, err := strconv.Atoi(l)
		if err != nil {
			return []mismatch{{-1, "log-unparsable", l}}, alt, res
		}
		if k == -2 && len(segs) > 0 {
			expectValue = true
			continue
		}
		if k == -1 {
			segs = append(segs, []int{})
			continue
		}
		if len(segs) == 0 {
			return []mismatch{{-1, "log-before-marker", l}}, alt, res
		}
		segs[len(segs)-1] = append(segs[len(segs)-1], k)
	}
	if res.Class != "ok" && res.Class != "user" {
		return []mismatch{{len(segs) - 1, "failure-class-" + res.Class, res.ErrString()}}, alt, res
	}
	if strings.Contains(res.Kind, "CheckerError") || strings.Contains(res.Kind, "parser.Error") {
		return []mismatch{{-1, "rejected", res.ErrString()}}, alt, res
	}
	evPos := 0
	for i := range b.Cases {
		if i >= len(segs) {
			mm = append(mm, mismatch{i, "not-reached", fmt.Sprintf("script stopped in case %d: %s", len(segs)-1, res.ErrString())})
			break
		}
		last := i == len(segs)-1
		aborted := last && !res.OK()
		var value string
		if !aborted {
			if i >= len(vals) {
				mm = append(mm, mismatch{i, "no-value", ""})
				break
			}
			value = vals[i]
		}
		// events of this case: predicted count decides how many to take
		found := -1
		var firstWhy string
		for ai, o := range preds[i] {
			why := ""
			switch {
			case o.Abort != aborted:
				why = "abort"
			case !intsEq(o.Log, segs[i]):
				why = "log-" + logClass(segs[i], o.Log)
			case !aborted && o.Value != value:
				why = "value"
			default:
				ne := len(o.Events)
				if evPos+ne > len(res.Events) {
					why = "event-missing"
				} else {
					for k := 0; k < ne; k++ {
						if eventShort(res.Events[evPos+k]) != o.Events[k] {
							why = "event-value"
						}
					}
				}
			}
			if why == "" {
				found = ai
				break
			}
			if firstWhy == "" {
				firstWhy = why
			}
		}
		if found < 0 {
			o := preds[i][0]
			mm = append(mm, mismatch{i, firstWhy, fmt.Sprintf("%s: predicted log=%v abort=%v value=%s events=%v; observed log=%v abort=%v value=%s err=%s",
				engineName(vm), o.Log, o.Abort, o.Value, o.Events, segs[i], aborted, value, firstLine(res.ErrString()))})
			// keep the event cursor aligned as well as possible
			evPos += len(o.Events)
			if aborted {
				break
			}
			continue
		}
		alt[i] = found
		evPos += len(preds[i][found].Events)
		if aborted {
			if i != len(b.Cases)-1 {
				mm = append(mm, mismatch{i + 1, "not-reached", "an earlier case aborted as predicted (batching defect)"})
			}
			break
		}
	}
	if len(mm) == 0 && evPos != len(res.Events) {
		mm = append(mm, mismatch{-1, "event-extra", fmt.Sprintf("%d events observed, %d predicted", len(res.Events), evPos)})
	}
	return mm, alt, res
}

func firstLine(s string) string {
	s = strings.TrimPrefix(s, "Execution failed:\n")
	if i := strings.Index(s, "\n"); i >= 0 {
		return s[:i]
	}
	return s
}

// judgeBatch runs both engines; the returned map is case index -> failure
// class ("interp:<cls>,vm:<cls>" or "engines-differ").
func judgeBatch(b *c52Batch) (fails map[int]string, detail string) {
	preds := make([][]outcome, len(b.Cases))
	for i, c := range b.Cases {
		preds[i] = c.predict()
	}
	mi, ai, _ := judgeEngine(b, preds, false)
	mv, av, _ := judgeEngine(b, preds, true)
	fails = map[int]string{}
	per := map[int][2]string{}
	for _, m := range mi {
		p := per[m.Case]
		if p[0] == "" {
			p[0] = m.Class
			per[m.Case] = p
			detail += m.Detail + " || "
		}
	}
	for _, m := range mv {
		p := per[m.Case]
		if p[1] == "" {
			p[1] = m.Class
			per[m.Case] = p
			detail += m.Detail + " || "
		}
	}
	for i, p := range per {
		a, v := p[0], p[1]
		if a == "" {
			a = "ok"
		}
		if v == "" {
			v = "ok"
		}
		fails[i] = "interp:" + a + ",vm:" + v
	}
	if len(fails) == 0 {
		for i := range b.Cases {
			if ai[i] != av[i] {
				fails[i] = "engines-differ-on-unspecified-moment"
				detail += fmt.Sprintf("interpreter took alternative %d (%v), VM alternative %d (%v) || ", ai[i], preds[i][ai[i]], av[i], preds[i][av[i]])
			}
		}
	}
	return fails, detail
}

// c52Space enumerates the cases of a tier.
func c52Space(env *mc.Env) (cases []*c52Case, desc string) {
	add := func(n *node) { cases = append(cases, &c52Case{Form: "expr", Slots: []*node{n}}) }
	all1 := depth1(false)
	rep1 := depth1(true)
	n1 := 0
	for _, t := range []ty{tB, tI, tO, tStr} { // S? values are not roots (only receivers)
		for _, n := range all1[t] {
			add(n)
			n1++
		}
	}
	// depth 2: representative operators over representative depth-1 operands
	n2 := 0
	maxInner := mc.Pick(env, 2, 0)
	nested(rep1, maxInner, func(n *node) {
		if n.T != tQ { // S? values are receivers only, never roots
			add(n)
			n2++
		}
	})
	n3 := 0
	if env.Thorough() {
		// depth 3: a depth-2 "spine" (one operator child) under one more operator, one operator child per node
		spine := map[ty][]*node{}
		nested(rep1, 1, func(n *node) { spine[n.T] = append(spine[n.T], n) })
		nested(spine, 1, func(n *node) {
			if n.T != tQ {
				add(n)
				n3++
			}
		})
	}
	// statement forms: slots from leaves + a few depth-1 trees
	slotOps := map[string]bool{"I/": true, "??I": true, "force": true}
	if env.Thorough() {
		for _, o := range []string{"I+", "?:I", "call2", "arr", "as!"} {
			slotOps[o] = true
		}
	}
	slotSet := map[ty][]*node{}
	smallSlotSet := map[ty][]*node{}
	for _, t := range []ty{tI, tO} {
		slotSet[t] = leavesOf(t)
	}
	smallSlotSet[tI] = append(append([]*node(nil), slotSet[tI]...), leaf(tI, 3))
	slotSet[tI] = append(slotSet[tI], leaf(tI, 2), leaf(tI, 3)) // 3 is out of range for the 3-element targets
	for _, n := range rep1[tI] {
		if slotOps[n.Op] {
			slotSet[tI] = append(slotSet[tI], n)
		}
		if n.Op == "I/" || n.Op == "??I" {
			smallSlotSet[tI] = append(smallSlotSet[tI], n)
		}
	}
	for _, n := range rep1[tO] {
		if n.Op == "??O" || n.Op == "?.m" || (env.Thorough() && (n.Op == "?:O" || n.Op == "dict1")) {
			slotSet[tO] = append(slotSet[tO], n)
		}
	}
	ns := 0
	for i := range stmtForms {
		f := &stmtForms[i]
		sets := make([][]*node, len(f.Slots))
		for j, t := range f.Slots {
			sets[j] = slotSet[t]
			if len(f.Slots) >= 4 {
				sets[j] = smallSlotSet[t] // four slots: the quick fillers in both tiers
			}
		}
		product(sets, func(kids []*node) { cases = append(cases, &c52Case{Form: f.Name, Slots: kids}); ns++ })
	}
	desc = fmt.Sprintf("depth-1 trees (all %d operator forms x leaf values): %d; depth-2 trees (class representatives, <=%d operator children per node; 0 = unlimited): %d; depth-3 spine trees: %d; statement-form cases (%d forms, %d/%d slot fillers of type Int/Int?): %d",
		len(ops), n1, maxInner, n2, n3, len(stmtForms), len(slotSet[tI]), len(slotSet[tO]), ns)
	return cases, desc
}

func runC52(env *mc.Env) {
	cases, desc := c52Space(env)
	env.R.Set("space", desc)
	// partition: a batch = up to batchSize non-aborting cases followed by at most one aborting case
	var okCases, abortCases []*c52Case
	outOfModelCases := 0
	for _, c := range cases {
		if c.predict() == nil {
			outOfModelCases++ // a value exceeds the evaluator's int64 model (huge shifts at depth 3): dropped, counted
			continue
		}
		mayAbort := false
		for _, o := range c.predict() {
			mayAbort = mayAbort || o.Abort
		}
		if mayAbort {
			abortCases = append(abortCases, c)
		} else {
			okCases = append(okCases, c)
		}
	}
	env.R.Set("cases_predicted_to_abort", int64(len(abortCases)))
	env.R.Set("cases_total", int64(len(cases)))
	env.R.Set("cases_dropped_out_of_evaluator_model", int64(outOfModelCases))
	batchSize := 64
	if len(abortCases) > 0 && len(okCases)/len(abortCases) < batchSize {
		batchSize = len(okCases)/len(abortCases) + 1
	}
	var batches []*c52Batch
	ai := 0
	for lo := 0; lo < len(okCases); lo += batchSize {
		hi := min(lo+batchSize, len(okCases))
		b := &c52Batch{Cases: append([]*c52Case(nil), okCases[lo:hi]...)}
		if ai < len(abortCases) {
			b.Cases = append(b.Cases, abortCases[ai])
			ai++
		}
		batches = append(batches, b)
	}
	for ; ai < len(abortCases); ai++ {
		batches = append(batches, &c52Batch{Cases: []*c52Case{abortCases[ai]}})
	}
	env.R.Set("batches", int64(len(batches)))
	mc.ParallelFor(env, len(batches), func(bi int) {
		b := batches[bi]
		fails, detail := judgeBatch(b)
		env.R.EvalN(int64(2 * len(b.Cases)))
		classes := map[string]int64{}
		for _, c := range b.Cases {
			p := c.predict()[0]
			cls := "all-operands"
			switch {
			case p.Abort:
				cls = "abort-midway"
			case len(p.Log) < c.leaves():
				cls = "short-circuit-skip"
			}
			form := c.Form
			if form == "expr" {
				form = "expr:" + opByName[c.Slots[0].Op].Class
			}
			classes[form+"/"+cls]++
			if len(p.Log) >= 2 || cls != "all-operands" {
				env.R.Nontrivial(c.decl("c"))
			}
			if len(c.predict()) > 1 {
				env.R.DontCare.Add(1) // moment of the bounds failure is not fixed by the property (see sx.late)
			}
		}
		for k, v := range classes {
			kk := k
			env.R.Class(kk, func() any { return b.Cases[0].decl("c0") })
			env.R.ClassN(kk, v-1)
		}
		if len(fails) == 0 {
			return
		}
		// attribute: re-run every case alone
		attributed := false
		for _, c := range b.Cases {
			sb := &c52Batch{Cases: []*c52Case{c}}
			f, d := judgeBatch(sb)
			env.R.EvalN(2)
			if cls, bad := f[0]; bad {
				attributed = true
				reportC52(env, sb, c.sig()+"|"+cls, d)
			} else if cls, bad := f[-1]; bad {
				attributed = true
				reportC52(env, sb, c.sig()+"|"+cls, d)
			}
		}
		if !attributed {
			keys := make([]int, 0, len(fails))
			for i := range fails {
				keys = append(keys, i)
			}
			sort.Ints(keys)
			i := keys[0]
			sig := "batch-only|" + fails[i]
			if i >= 0 {
				sig = "batch-only:" + b.Cases[i].sig() + "|" + fails[i]
			}
			reportC52(env, b, sig, detail)
		}
	})
	env.R.BoundCompleted(desc)
	if n := c52Rejected.Load(); n*100 > int64(len(cases)) {
		env.R.HarnessError("%d of %d generated cases are rejected by the checker: the generator is mis-designed", n, len(cases))
	}
}

var c52Rejected atomic.Int64

func reportC52(env *mc.Env, b *c52Batch, sig, detail string) {
	if strings.Contains(sig, "interp:rejected") || strings.Contains(sig, "vm:rejected") {
		if strings.Contains(sig, "interp:rejected,vm:rejected") {
			// the checker is the arbiter of the space: a case it refuses is not in it (counted; > 1% is a generator defect)
			env.R.Add("checker_rejected_cases", 1)
			c52Rejected.Add(1)
			env.R.Class("rejected-by-checker", func() any { return detail })
			return
		}
	}
	env.R.Violation(sig, b, detail+"\n"+b.script())
}

func replayC52(env *mc.Env, raw json.RawMessage) (bool, string) {
	var b c52Batch
	if err := json.Unmarshal(raw, &b); err != nil {
		return false, err.Error()
	}
	for _, c := range b.Cases {
		for _, s := range c.Slots {
			fixNL(s)
		}
	}
	fails, detail := judgeBatch(&b)
	return len(fails) > 0, fmt.Sprintf("%v %s", fails, detail)
}

func init() {
	mc.Register(&mc.Check{
		ID:   "C52",
		Rule: "every expression tree of the stated space (all operator forms over logging leaves t(k,v) with every leaf value at depth 1; every nesting of class-representative operators at depth 2; depth-3 spines in the thorough tier) and every statement form (assignment to a[i][j] / a[i].f / d[k] / through a reference, swap, if-let, create, emit, call with a moved create) with every slot filler is run in a script on the interpreter and on the VM; a definitional evaluator (left to right, exactly once, short-circuit, targets before value) predicts the log of leaf keys, the value, the events and whether the case aborts; non-trivial = distinct case whose predicted log has >= 2 entries, skips an operand, or aborts midway",
		Assumptions: []string{
			"the host's ProgramLog order is the evaluation order of the log calls",
			"cases are batched one function per case into scripts (an aborting case last); a batch that disagrees is re-run case by case for attribution",
			"the moment an out-of-range index of an assignment/swap target is reported is not fixed by the property: both moments are accepted, but interpreter and VM must agree",
		},
		Run:    runC52,
		Replay: replayC52,
	})
}

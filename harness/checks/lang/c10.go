package lang

import (
	"encoding/json"
	"errors"
	"fmt"
	"sort"
	"strconv"
	"strings"
	"sync/atomic"

	"github.com/onflow/cadence"
	"github.com/onflow/cadence/interpreter"

	"verif/mc"
	"verif/rt"
)

// ---------------------------------------------------------------------------
// C10: pre/post conditions over interface graphs.
//
// A program = interface graph (<= 3 interfaces) x per-interface declaration
// variant of `fun f(_ x: Int): Int` x implementing composite variant x
// struct/resource. Every condition is `x != k` with a unique k, so the
// argument chooses exactly which condition is false.

type c10Shape struct {
	Name     string
	N        int
	Parents  [][]int // Parents[i] = interfaces (0-based) interface i inherits from
	Conforms []int   // interfaces the composite lists
}

var c10Shapes = []c10Shape{
	{"single", 1, [][]int{{}}, []int{0}},
	{"chain2", 2, [][]int{{}, {0}}, []int{1}},
	{"fork2", 2, [][]int{{}, {}}, []int{0, 1}},
	{"redundant", 2, [][]int{{}, {0}}, []int{0, 1}}, // I1 is reached directly and through I2
	{"chain3", 3, [][]int{{}, {0}, {1}}, []int{2}},
	{"fork3", 3, [][]int{{}, {}, {}}, []int{0, 1, 2}},
	{"diamond", 3, [][]int{{}, {0}, {0}}, []int{1, 2}},
	{"vee", 3, [][]int{{}, {}, {0, 1}}, []int{2}},
	{"chain-side", 3, [][]int{{}, {0}, {}}, []int{1, 2}},
}

// ifaceVariant says how one interface declares f.
type ifaceVariant struct {
	Name    string
	Absent  bool
	Pre     bool
	Post    bool
	Emit    bool
	Default bool
}

var c10Variants = []ifaceVariant{
	{Name: "absent", Absent: true},
	{Name: "P", Pre: true},
	{Name: "Q", Post: true},
	{Name: "PQE", Pre: true, Post: true, Emit: true},
	{Name: "PQE+D", Pre: true, Post: true, Emit: true, Default: true},
	{Name: "N+D", Default: true},
	// thorough only from here
	{Name: "N"},
	{Name: "PQ", Pre: true, Post: true},
	{Name: "P+D", Pre: true, Default: true},
	{Name: "PQ+D", Pre: true, Post: true, Default: true},
}

const c10QuickVariants = 6

var c10Comps = []string{"inherit", "override", "override+conds"}
var c10Kinds = []string{"struct", "resource"}
var c10Sites = []string{"direct", "ref", "nested", "bound"}

// c10Case is one script: a program, the success calls through every call
// site, and optionally one call whose argument falsifies condition Arg.
type c10Case struct {
	Shape    string `json:"shape"`
	Variants []int  `json:"variants"`
	Comp     string `json:"comp"`
	Kind     string `json:"kind"`
	Body     int    `json:"body,omitempty"` // index into c10Bodies
	FailSite string `json:"fail_site,omitempty"`
	Arg      int    `json:"arg,omitempty"` // 0 = no failing call
}

func shapeByName(n string) *c10Shape {
	for i := range c10Shapes {
		if c10Shapes[i].Name == n {
			return &c10Shapes[i]
		}
	}
	panic("shape " + n)
}

// cond is one applicable condition.
type c10Cond struct {
	K      int
	Label  string
	Post   bool
	Origin string // own | direct | indirect | two-paths
	Emit   bool
}

// model is everything the oracle knows about a program.
type c10Model struct {
	conds     []c10Cond
	emitIDs   []int  // ids of the applicable emit conditions
	body      string // marker logged by the body that runs ("" = none available or ambiguous)
	hasF      bool
	nDefaults int
}

func (c *c10Case) model() c10Model {
	sh := shapeByName(c.Shape)
	// closure of conformances, counting paths
	paths := make([]int, sh.N)
	depth := make([]int, sh.N)
	var walk func(i, d int)
	walk = func(i, d int) {
		paths[i]++
		if depth[i] == 0 || d < depth[i] {
			depth[i] = d
		}
		for _, p := range sh.Parents[i] {
			walk(p, d+1)
		}
	}
	for _, i := range sh.Conforms {
		walk(i, 1)
	}
	var m c10Model
	for i := 0; i < sh.N; i++ {
		if paths[i] == 0 {
			continue
		}
		v := c10Variants[c.Variants[i]]
		if v.Absent {
			continue
		}
		m.hasF = true
		origin := "direct"
		if depth[i] > 1 {
			origin = "indirect"
		}
		if paths[i] > 1 {
			origin = "two-paths"
		}
		if v.Pre {
			m.conds = append(m.conds, c10Cond{K: 11 + i, Label: fmt.Sprintf("pre_%d", i+1), Origin: origin, Emit: v.Emit})
			if v.Emit {
				m.emitIDs = append(m.emitIDs, 11+i)
			}
		}
		if v.Post {
			m.conds = append(m.conds, c10Cond{K: 21 + i, Label: fmt.Sprintf("post_%d", i+1), Post: true, Origin: origin, Emit: v.Emit})
			if v.Emit {
				m.emitIDs = append(m.emitIDs, 21+i)
			}
		}
		if v.Default {
			m.nDefaults++
			m.body = fmt.Sprintf("body_%d", i+1)
		}
	}
	switch c.Comp {
	case "override":
		m.body, m.hasF = "body_c", true
	case "override+conds":
		m.body, m.hasF = "body_c", true
		m.conds = append(m.conds, c10Cond{K: 30, Label: "pre_c", Origin: "own", Emit: true}, c10Cond{K: 31, Label: "post_c", Post: true, Origin: "own", Emit: true})
		m.emitIDs = append(m.emitIDs, 30, 31)
	default:
		if m.nDefaults != 1 {
			m.body = "" // the checker will refuse (no or ambiguous implementation)
		}
	}
	sort.Ints(m.emitIDs)
	return m
}

func (c *c10Case) sites() []string {
	if c.Kind == "resource" {
		return c10Sites[:3] // a bound method of a resource is not a first-class value
	}
	return c10Sites
}

// c10Bodies: what stands between the entry of a body and its return. Every
// body of the program (default bodies, the override, the nesting function g)
// uses the same variant; the value returned is always the same.
var c10Bodies = []string{"plain", "closure-local", "inner-function", "closure-called", "early-return", "inner-function-with-conditions"}

// c10BodyText renders a body: incr is the state change (may be empty), val the returned expression.
func c10BodyText(variant int, incr, val string) string {
	switch c10Bodies[variant] {
	case "closure-local":
		return incr + "let k = fun (_ y: Int): Int { return y }; return " + val
	case "inner-function":
		return incr + "fun inner(_ y: Int): Int { return y }; return " + val
	case "closure-called":
		return incr + "let k = fun (_ y: Int): Int { return y }; return k(" + val + ")"
	case "early-return":
		return incr + "if x % 2 == 1 { return " + val + " }; return " + val
	case "inner-function-with-conditions":
		return incr + "fun inner(_ y: Int): Int { pre { y != 50: \"pre_inner\" } post { result == y: \"post_inner\" } return y }; return inner(" + val + ")"
	}
	return incr + "return " + val
}

const c10Incr = "self.n = self.n + 1; "

func c10Block(kw string, k int, label string, emit, post bool) string {
	var sb strings.Builder
	fmt.Fprintf(&sb, "    %s { x != %d: %q", kw, k, label)
	if post {
		// before(...) must be captured at entry (the body increments n), result must be bound
		fmt.Fprintf(&sb, "; before(self.n) + 1 == self.n: \"before_%s\"; result == x + 100: \"result_%s\"", label, label)
	}
	if emit {
		fmt.Fprintf(&sb, "; emit Ev(id: %d, x: x)", k)
	}
	sb.WriteString(" }\n")
	return sb.String()
}

// script renders the whole script.
func (c *c10Case) script() string {
	sh := shapeByName(c.Shape)
	var sb strings.Builder
	sb.WriteString("access(all) event Ev(id: Int, x: Int)\n")
	for i := 0; i < sh.N; i++ {
		v := c10Variants[c.Variants[i]]
		fmt.Fprintf(&sb, "access(all) %s interface I%d", c.Kind, i+1)
		for j, p := range sh.Parents[i] {
			if j == 0 {
				sb.WriteString(": ")
			} else {
				sb.WriteString(", ")
			}
			fmt.Fprintf(&sb, "I%d", p+1)
		}
		sb.WriteString(" {\n  access(all) var n: Int\n")
		if !v.Absent {
			sb.WriteString("  access(all) fun f(_ x: Int): Int {\n")
			if v.Pre {
				sb.WriteString(c10Block("pre", 11+i, fmt.Sprintf("pre_%d", i+1), v.Emit, false))
			}
			if v.Post {
				sb.WriteString(c10Block("post", 21+i, fmt.Sprintf("post_%d", i+1), v.Emit, true))
			}
			if v.Default {
				fmt.Fprintf(&sb, "    log(\"body_%d\"); %s\n", i+1, c10BodyText(c.Body, c10Incr, "x + 100"))
			}
			sb.WriteString("  }\n")
		}
		sb.WriteString("}\n")
	}
	fmt.Fprintf(&sb, "access(all) %s C: ", c.Kind)
	for j, i := range sh.Conforms {
		if j > 0 {
			sb.WriteString(", ")
		}
		fmt.Fprintf(&sb, "I%d", i+1)
	}
	sb.WriteString(" {\n  access(all) var n: Int\n  init() { self.n = 0 }\n")
	switch c.Comp {
	case "override":
		fmt.Fprintf(&sb, "  access(all) fun f(_ x: Int): Int {\n    log(\"body_c\"); %s\n  }\n", c10BodyText(c.Body, c10Incr, "x + 100"))
	case "override+conds":
		sb.WriteString("  access(all) fun f(_ x: Int): Int {\n")
		sb.WriteString(c10Block("pre", 30, "pre_c", true, false))
		sb.WriteString(c10Block("post", 31, "post_c", true, true))
		fmt.Fprintf(&sb, "    log(\"body_c\"); %s\n  }\n", c10BodyText(c.Body, c10Incr, "x + 100"))
	}
	// nested call: g has its own conditions and its own before/result
	sb.WriteString("  access(all) fun g(_ x: Int): Int {\n    pre { x != 40: \"pre_g\" }\n" +
		"    post { x != 41: \"post_g\"; before(self.n) + 1 == self.n: \"before_g\"; result == x + 100: \"result_g\" }\n" +
		"    log(\"body_g\"); " + c10BodyText(c.Body, "", "self.f(x)") + "\n  }\n}\n")
	sb.WriteString("access(all) fun main(): [Int] {\n  let out: [Int] = []\n")
	if c.Kind == "resource" {
		sb.WriteString("  let c <- create C()\n")
	} else {
		sb.WriteString("  let c = C()\n")
	}
	// the reference is typed by the first listed interface that (transitively) declares f; by C itself if none does
	refType := "C"
	var declares func(i int) bool
	declares = func(i int) bool {
		if !c10Variants[c.Variants[i]].Absent {
			return true
		}
		for _, p := range sh.Parents[i] {
			if declares(p) {
				return true
			}
		}
		return false
	}
	for _, i := range sh.Conforms {
		if declares(i) {
			refType = fmt.Sprintf("{I%d}", i+1)
			break
		}
	}
	fmt.Fprintf(&sb, "  let r = &c as &%s\n", refType)
	call := func(site string, arg int) {
		fmt.Fprintf(&sb, "  log(\"site:%s:%d\"); ", site, arg)
		switch site {
		case "direct":
			fmt.Fprintf(&sb, "out.append(c.f(%d))\n", arg)
		case "ref":
			fmt.Fprintf(&sb, "out.append(r.f(%d))\n", arg)
		case "nested":
			fmt.Fprintf(&sb, "out.append(c.g(%d))\n", arg)
		case "bound":
			fmt.Fprintf(&sb, "let fn%d = c.f; out.append(fn%d(%d))\n", arg, arg, arg)
		}
	}
	for i, s := range c.sites() {
		call(s, i+1)
	}
	if c.Arg != 0 {
		call(c.FailSite, c.Arg)
	}
	sb.WriteString("  out.append(c.n)\n")
	if c.Kind == "resource" {
		sb.WriteString("  destroy c\n")
	}
	sb.WriteString("  return out\n}\n")
	return sb.String()
}

// c10Obs is what one engine showed.
type c10Obs struct {
	rejected bool
	class    string
	kind     string
	message  string
	condKind string
	calls    []c10Call
	value    string
}

type c10Call struct {
	site   string
	arg    int
	bodies []string
	events []int // ids of the events whose x is this call's argument, in order
}

func c10Observe(c *c10Case, vm bool) c10Obs {
	res := rt.Run(rt.NewLedger(), rt.Tx{Source: c.script(), Script: true, UseVM: vm})
	o := c10Obs{class: res.Class, kind: res.Kind}
	if strings.Contains(res.Kind, "CheckerError") || strings.Contains(res.Kind, "parser.Error") {
		o.rejected = true
		o.message = firstLine(res.ErrString())
		return o
	}
	var ce *interpreter.ConditionError
	if res.Err != nil && errors.As(res.Err, &ce) {
		o.message = ce.Message
		o.condKind = ce.ConditionKind.Name()
	} else if res.Err != nil {
		o.message = firstLine(res.ErrString())
	}
	for _, l := range res.Logs {
		s, _ := strconv.Unquote(l)
		if strings.HasPrefix(s, "site:") {
			p := strings.Split(s, ":")
			a, _ := strconv.Atoi(p[2])
			o.calls = append(o.calls, c10Call{site: p[1], arg: a})
			continue
		}
		if len(o.calls) > 0 {
			cl := &o.calls[len(o.calls)-1]
			cl.bodies = append(cl.bodies, s)
		}
	}
	for _, e := range res.Events {
		f := cadence.FieldsMappedByName(e)
		id, _ := strconv.Atoi(f["id"].String())
		x, _ := strconv.Atoi(f["x"].String())
		for i := range o.calls {
			if o.calls[i].arg == x {
				o.calls[i].events = append(o.calls[i].events, id)
			}
		}
	}
	if res.Value != nil {
		o.value = res.Value.String()
	}
	return o
}

// judgeC10 compares one engine's observation with the model. Returns the
// failure class ("" = fine) and a detail string.
func judgeC10One(c *c10Case, m c10Model, o c10Obs) (string, string) {
	sites := c.sites()
	want := len(sites)
	if c.Arg != 0 {
		want++
	}
	if len(o.calls) != want {
		if o.class != "ok" && len(o.calls) <= len(sites) && len(o.calls) > 0 {
			cl := o.calls[len(o.calls)-1]
			return "spurious-failure@" + cl.site, fmt.Sprintf("success call %s(%d) failed: %s %s", cl.site, cl.arg, o.kind, o.message)
		}
		return "calls-not-reached", fmt.Sprintf("%d of %d calls reached: %s %s", len(o.calls), want, o.kind, o.message)
	}
	bodyOf := func(site string) []string {
		if site == "nested" {
			return []string{"body_g", m.body}
		}
		return []string{m.body}
	}
	emits := func(got []int) string {
		g := append([]int(nil), got...)
		sort.Ints(g)
		return fmt.Sprint(g)
	}
	for i, s := range sites {
		cl := o.calls[i]
		if o.class != "ok" && i == len(o.calls)-1 {
			return "spurious-failure@" + s, fmt.Sprintf("success call %s(%d) failed: %s %s", s, cl.arg, o.kind, o.message)
		}
		if fmt.Sprint(cl.bodies) != fmt.Sprint(bodyOf(s)) {
			return "wrong-body@" + s, fmt.Sprintf("call %s: bodies run %v, expected %v", s, cl.bodies, bodyOf(s))
		}
		if emits(cl.events) != fmt.Sprint(m.emitIDs) {
			return "emit-conditions@" + s, fmt.Sprintf("call %s: events of emit conditions %v, expected each of %v exactly once", s, cl.events, m.emitIDs)
		}
	}
	if c.Arg == 0 {
		if o.class != "ok" {
			return "spurious-failure", o.kind + " " + o.message
		}
		// values: x+100 per call, then n = number of calls
		exp := make([]string, 0, len(sites)+1)
		for i := range sites {
			exp = append(exp, strconv.Itoa(i+1+100))
		}
		exp = append(exp, strconv.Itoa(len(sites)))
		if w := "[" + strings.Join(exp, ", ") + "]"; o.value != w {
			return "wrong-result", fmt.Sprintf("returned %s, expected %s", o.value, w)
		}
		return "", ""
	}
	// the failing call
	var cond *c10Cond
	for i := range m.conds {
		if m.conds[i].K == c.Arg {
			cond = &m.conds[i]
		}
	}
	gCond := c.FailSite == "nested" && (c.Arg == 40 || c.Arg == 41)
	label, post, origin := "", false, "own-nested"
	switch {
	case gCond:
		label, post = map[int]string{40: "pre_g", 41: "post_g"}[c.Arg], c.Arg == 41
	case cond != nil:
		label, post, origin = cond.Label, cond.Post, cond.Origin
	default:
		return "harness", "argument does not name an applicable condition"
	}
	kindName := "pre"
	if post {
		kindName = "post"
	}
	tag := kindName + "-" + origin + "@" + c.FailSite
	cl := o.calls[len(o.calls)-1]
	if o.class == "ok" {
		return "condition-not-enforced:" + tag, fmt.Sprintf("call %s(%d) returned normally although %s is false", c.FailSite, c.Arg, label)
	}
	if o.class != "user" || !strings.HasSuffix(o.kind, "ConditionError") {
		return "not-a-condition-error:" + tag, fmt.Sprintf("%s %s %s", o.class, o.kind, o.message)
	}
	if o.message != label {
		return "wrong-condition-reported:" + tag, fmt.Sprintf("the only false condition is %s, the error names %q", label, o.message)
	}
	// entry/exit discipline: a false pre-condition is detected on entry (no body ran);
	// a false post-condition after the body ran exactly once.
	var expBodies []string
	switch {
	case gCond && !post:
		expBodies = nil
	case gCond:
		expBodies = []string{"body_g", m.body}
	case c.FailSite == "nested" && !post:
		expBodies = []string{"body_g"}
	case c.FailSite == "nested":
		expBodies = []string{"body_g", m.body}
	case post:
		expBodies = []string{m.body}
	}
	if fmt.Sprint(cl.bodies) != fmt.Sprint(expBodies) {
		return "body-vs-condition:" + tag, fmt.Sprintf("bodies run %v, expected %v for a false %s-condition", cl.bodies, expBodies, kindName)
	}
	// events of the failing call: each applicable emit at most once
	seen := map[int]bool{}
	for _, id := range cl.events {
		ok := false
		for _, e := range m.emitIDs {
			ok = ok || e == id
		}
		if !ok || seen[id] {
			return "emit-conditions-on-failure:" + tag, fmt.Sprintf("events %v, applicable %v", cl.events, m.emitIDs)
		}
		seen[id] = true
	}
	return "", ""
}

var c10Rejected, c10Accepted atomic.Int64

// judgeC10 runs both engines. status: "rejected" (checker refused in both), "ok", or a failure class.
func judgeC10(c *c10Case) (status, detail string) {
	m := c.model()
	oi := c10Observe(c, false)
	ov := c10Observe(c, true)
	if oi.rejected != ov.rejected {
		return "acceptance-differs", fmt.Sprintf("interpreter rejected=%v (%s), VM rejected=%v (%s)", oi.rejected, oi.message, ov.rejected, ov.message)
	}
	if oi.rejected {
		return "rejected", oi.message
	}
	fi, di := judgeC10One(c, m, oi)
	fv, dv := judgeC10One(c, m, ov)
	if fi != "" || fv != "" {
		if fi == "" {
			fi = "ok"
		}
		if fv == "" {
			fv = "ok"
		}
		return "interp:" + fi + ",vm:" + fv, di + " || " + dv
	}
	// differential: same order of emit-condition events and of bodies in both engines
	for i := range oi.calls {
		if fmt.Sprint(oi.calls[i]) != fmt.Sprint(ov.calls[i]) {
			return "engines-differ-in-order@" + oi.calls[i].site, fmt.Sprintf("interpreter %v, VM %v", oi.calls[i], ov.calls[i])
		}
	}
	return "ok", ""
}

// vsig is the structural class used in violation signatures: graph shape and
// composite variant (the per-interface declaration variants are in the case).
func (c *c10Case) vsig() string { return c.Shape + "|" + c.Comp + "|body:" + c10Bodies[c.Body] }

func (c *c10Case) sig() string {
	vs := make([]string, len(c.Variants))
	for i, v := range c.Variants {
		vs[i] = c10Variants[v].Name
	}
	return fmt.Sprintf("%s[%s]|%s|%s|body:%s", c.Shape, strings.Join(vs, ","), c.Comp, c.Kind, c10Bodies[c.Body])
}

func runC10(env *mc.Env) {
	nv := mc.Pick(env, c10QuickVariants, len(c10Variants))
	var progs []*c10Case
	for _, sh := range c10Shapes {
		total := 1
		for i := 0; i < sh.N; i++ {
			total *= nv
		}
		for idx := 0; idx < total; idx++ {
			vs := make([]int, sh.N)
			x := idx
			anyF := false
			for i := range vs {
				vs[i] = x % nv
				x /= nv
				anyF = anyF || !c10Variants[vs[i]].Absent
			}
			for ci, comp := range c10Comps {
				if !anyF && comp == "inherit" {
					continue // no f anywhere: nothing to call
				}
				for ki, kind := range c10Kinds {
					// body variants: the full cross for graphs on <= 2 interfaces and in the thorough tier;
					// in the quick tier a 3-interface program gets one variant, rotating over all six
					bodies := []int{0, 1, 2, 3, 4, 5}
					if !env.Thorough() && sh.N == 3 {
						bodies = []int{(idx + ci*2 + ki) % 6}
					}
					for _, b := range bodies {
						progs = append(progs, &c10Case{Shape: sh.Name, Variants: vs, Comp: comp, Kind: kind, Body: b})
					}
				}
			}
		}
	}
	env.R.Set("programs_generated", int64(len(progs)))
	mc.ParallelFor(env, len(progs), func(pi int) {
		p := progs[pi]
		st, detail := judgeC10(p)
		env.R.EvalN(2)
		if st == "rejected" {
			c10Rejected.Add(1)
			env.R.Class("rejected-by-checker", func() any { return p.sig() + ": " + detail })
			return
		}
		c10Accepted.Add(1)
		m := p.model()
		if st != "ok" {
			env.R.Violation(p.vsig()+"|"+st, p, p.sig()+": "+detail+"\n"+p.script())
			return
		}
		env.R.Class(fmt.Sprintf("success/%s/%s/%s/%d-conditions", p.Comp, p.Kind, c10Bodies[p.Body], len(m.conds)), func() any { return p.sig() })
		if len(m.conds) > 0 {
			env.R.Nontrivial(p.sig())
		}
		// one failing call per applicable condition; the call site rotates in the
		// quick tier and ranges over every site in the thorough tier
		type fail struct {
			k    int
			site string
		}
		var fails []fail
		sites := p.sites()
		for j, cd := range m.conds {
			if env.Thorough() {
				for _, s := range sites {
					fails = append(fails, fail{cd.K, s})
				}
			} else {
				fails = append(fails, fail{cd.K, sites[(j+pi)%len(sites)]})
			}
		}
		fails = append(fails, fail{40, "nested"}, fail{41, "nested"})
		for _, f := range fails {
			fc := &c10Case{Shape: p.Shape, Variants: p.Variants, Comp: p.Comp, Kind: p.Kind, Body: p.Body, FailSite: f.site, Arg: f.k}
			st, detail := judgeC10(fc)
			env.R.EvalN(2)
			if st != "ok" {
				env.R.Violation(fc.vsig()+"|"+st, fc, fc.sig()+": "+detail+"\n"+fc.script())
				continue
			}
			origin := "g"
			for _, cd := range m.conds {
				if cd.K == f.k {
					origin = cd.Origin
				}
			}
			kind := "pre"
			if f.k/10 == 2 || f.k == 31 || f.k == 41 {
				kind = "post"
			}
			env.R.Class(fmt.Sprintf("condition-error/%s-%s/%s", kind, origin, f.site), func() any { return fmt.Sprintf("%s arg=%d", fc.sig(), f.k) })
			env.R.Nontrivial(fmt.Sprintf("%s|%s|%d", fc.sig(), f.site, f.k))
		}
	})
	acc, rej := c10Accepted.Load(), c10Rejected.Load()
	env.R.Set("programs_accepted", acc)
	env.R.Set("programs_rejected_by_checker", rej)
	if acc*5 < acc+rej {
		env.R.HarnessError("only %d of %d generated programs are accepted by the checker (< 20%%): the generator is mis-designed", acc, acc+rej)
	}
	env.R.BoundCompleted(fmt.Sprintf("%d shapes on <= 3 interfaces x %d declaration variants per interface x 3 composite variants x struct/resource", len(c10Shapes), nv))
}

func replayC10(env *mc.Env, raw json.RawMessage) (bool, string) {
	var c c10Case
	if err := json.Unmarshal(raw, &c); err != nil {
		return false, err.Error()
	}
	st, detail := judgeC10(&c)
	return st != "ok" && st != "rejected", st + ": " + detail
}

func init() {
	mc.Register(&mc.Check{
		ID:   "C10",
		Rule: "every program of: 9 interface graphs on <= 3 interfaces (single, chains, forks, diamond, vee, redundant conformance) x per-interface declaration variant of f (absent / pre / post / both with emit conditions / with or without default body; 6 variants quick, 10 thorough) x composite (inherits the default / overrides / overrides with own conditions and emits) x struct/resource x body variant (plain, closure bound to a local, inner function, called closure, early return, inner function with own conditions; full cross for <= 2 interfaces and in thorough, rotating for 3 interfaces in quick), accepted by the checker; each is called with a non-falsifying argument through every call site (direct, interface-typed reference, nested inside another conditioned function, bound function) and once per applicable condition with the argument that falsifies exactly that condition (x != k, unique k); non-trivial = distinct (program, site, falsified condition) that produced the condition error, and accepted programs with >= 1 condition",
		Assumptions: []string{
			"oracle: applicable conditions = own + those of every interface in the transitive conformance closure; success iff none is false; a failure must be a ConditionError carrying the message of the only false condition; post blocks also assert before(self.n)+1 == self.n (body increments n) and result == x+100",
			"a false pre-condition must be detected before the body logs, a false post-condition after it logged exactly once; on success every applicable emit condition's event appears exactly once",
			"the order of condition evaluation is not specified: it is only compared between the engines",
			"programs the checker rejects (conflicting defaults, missing implementation) are outside the space and counted",
		},
		Run:    runC10,
		Replay: replayC10,
	})
}

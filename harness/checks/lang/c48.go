package lang

import (
	"encoding/json"
	"fmt"
	"math/big"
	"sort"
	"strconv"
	"strings"

	"github.com/onflow/cadence"
	"github.com/onflow/cadence/common"
	jsoncdc "github.com/onflow/cadence/encoding/json"

	"verif/mc"
	"verif/num"
	"verif/rt"
)

// ---------------------------------------------------------------------------
// C48 part A: declared events with 1-2 parameters over the exportable types.

type evVal struct {
	Expr string
	Want string // expected String() of the exported value; $P = location prefix; "" = only conformance + differential
}

type evType struct {
	T     string // type annotation; user types S, S2, En
	Class string // signature class
	Vals  []evVal
}

func fixedString(raw *big.Int, scale int) string {
	neg := raw.Sign() < 0
	s := new(big.Int).Abs(raw).String()
	for len(s) <= scale {
		s = "0" + s
	}
	out := s[:len(s)-scale] + "." + s[len(s)-scale:]
	if neg {
		out = "-" + out
	}
	return out
}

func c48Types() []evType {
	var out []evType
	for _, t := range num.Types {
		et := evType{T: t.Name, Class: "integer"}
		if t.IsFixed() {
			et.Class = "fixed-point"
			et.Vals = []evVal{{t.Name + ".max", fixedString(t.Max, t.Scale)}, {t.Name + ".min", fixedString(t.Min, t.Scale)}}
		} else if t.Bits == 0 {
			et.Vals = []evVal{{"123456789012345678901234567890", "123456789012345678901234567890"}}
			if t.Signed() {
				et.Vals = append(et.Vals, evVal{"-123456789012345678901234567890", "-123456789012345678901234567890"})
			}
		} else {
			et.Vals = []evVal{{t.Name + ".max", t.Max.String()}, {t.Name + ".min", t.Min.String()}}
		}
		out = append(out, et)
	}
	out = append(out,
		evType{"Bool", "simple", []evVal{{"true", "true"}}},
		evType{"String", "simple", []evVal{{`"a\u{e9}"`, `"a\u{e9}"`}, {`""`, `""`}}},
		evType{"Character", "simple", []evVal{{`"x"`, `"x"`}}},
		evType{"Address", "simple", []evVal{{"0x2", "0x0000000000000002"}}},
		evType{"StoragePath", "path", []evVal{{"/storage/p", "/storage/p"}}},
		evType{"PublicPath", "path", []evVal{{"/public/p", "/public/p"}}},
		evType{"Path", "path", []evVal{{"/storage/q", "/storage/q"}, {"/public/q", "/public/q"}}},
		evType{"CapabilityPath", "path", []evVal{{"/public/r", "/public/r"}}},
		evType{"Type", "type-value", []evVal{{"Type<Int>()", "Type<Int>()"}, {"Type<S>()", "Type<$P.S>()"}, {"Type<&[Int?]>()", "Type<&[(Int)?]>()"}}},
		evType{"Int?", "optional", []evVal{{"nil", "nil"}, {"3", "3"}}},
		evType{"Int??", "optional", []evVal{{"nil", "nil"}, {"3", "3"}}},
		evType{"String?", "optional", []evVal{{"nil", "nil"}, {`"s"`, `"s"`}}},
		evType{"[Int]", "array", []evVal{{"[]", "[]"}, {"[1, 2]", "[1, 2]"}}},
		evType{"[Int; 2]", "array", []evVal{{"[1, 2]", "[1, 2]"}}},
		evType{"[Int?]", "array", []evVal{{"[nil, 2]", "[nil, 2]"}}},
		evType{"[[UInt8]]", "array", []evVal{{"[[1], []]", "[[1], []]"}}},
		evType{"{String: Int}", "dictionary", []evVal{{"{}", "{}"}, {`{"k": 1}`, `{"k": 1}`}}},
		evType{"{Int: [String]}", "dictionary", []evVal{{`{1: ["a"]}`, `{1: ["a"]}`}}},
		evType{"{String: S}", "dictionary", []evVal{{`{"k": S(x: 1)}`, `{"k": $P.S(x: 1)}`}}},
		evType{"S", "struct", []evVal{{"S(x: 1)", "$P.S(x: 1)"}}},
		evType{"S?", "struct", []evVal{{"S(x: 2)", "$P.S(x: 2)"}, {"nil", "nil"}}},
		evType{"S2", "struct", []evVal{{"S2(s: S(x: 1), o: nil)", "$P.S2(s: $P.S(x: 1), o: nil)"}}},
		evType{"[S]", "struct", []evVal{{"[S(x: 1)]", "[$P.S(x: 1)]"}}},
		evType{"En", "enum", []evVal{{"En.b", "$P.En(rawValue: 1)"}}},
		evType{"AnyStruct", "any", []evVal{{"1", "1"}, {`"a"`, `"a"`}, {"S(x: 1)", "$P.S(x: 1)"}, {"[1, \"a\"] as [AnyStruct]", `[1, "a"]`}, {"nil as Int?", "nil"}, {"UInt8(5)", "5"}}},
		evType{"AnyStruct?", "any", []evVal{{"nil", "nil"}, {"1", "1"}}},
		evType{"[AnyStruct]", "any", []evVal{{"[1, true]", "[1, true]"}}},
		evType{"{String: AnyStruct}", "any", []evVal{{`{"k": 1}`, `{"k": 1}`}}},
		evType{"&Int", "reference", []evVal{{"$GrefI()", "5"}}},
		evType{"&S", "reference", []evVal{{"$GrefS()", "$P.S(x: 9)"}}},
		evType{"&[Int]", "reference", []evVal{{"$GrefA()", "[1, 2]"}}},
		evType{"auth(Mutate) &[Int]", "reference", []evVal{{"$GrefAM()", "[1, 2]"}}},
		evType{"&Int?", "reference", []evVal{{"$GrefI()", "5"}, {"nil", "nil"}}},
		evType{"[&Int]", "shared-reference", []evVal{{"$GtwoRefs()", "[5, 5]"}, {"[$GrefI(), $GrefI()]", "[5, 5]"}}},
		evType{"{String: &Int}", "shared-reference", []evVal{{"$GrefDict()", ""}}},
		evType{"SR", "shared-reference", []evVal{{"$GrefStruct()", "$P.SR(a: 5, b: 5)"}}},
		evType{"Capability<&Int>", "capability", []evVal{{"getAccount(0x1).capabilities.get<&Int>(/public/nothing)", ""}}},
		evType{"Capability", "capability", []evVal{{"getAccount(0x1).capabilities.get<&Int>(/public/nothing)", ""}}},
		evType{"InclusiveRange<Int>", "range", []evVal{{"InclusiveRange(1, 5, step: 2)", ""}}},
		evType{"{I}", "intersection", []evVal{{"S(x: 4)", "$P.S(x: 4)"}}},
		evType{"Integer", "abstract-number", []evVal{{"Int8(1)", "1"}, {"UInt256(2)", "2"}}},
		evType{"Number", "abstract-number", []evVal{{"1.5 as UFix64", "1.50000000"}}},
		evType{"SignedInteger", "abstract-number", []evVal{{"Int64(-1)", "-1"}}},
		evType{"FixedPoint", "abstract-number", []evVal{{"-1.5 as Fix64", "-1.50000000"}}},
		evType{"HashAlgorithm", "enum", []evVal{{"HashAlgorithm.SHA3_256", ""}}},
		evType{"PublicKey", "struct", []evVal{{`PublicKey(publicKey: "0102".decodeHex(), signatureAlgorithm: SignatureAlgorithm.ECDSA_P256)`, ""}}},
	)
	return out
}

const c48UserTypes = `  access(all) struct interface I {}
  access(all) struct S: I { access(all) let x: Int; init(x: Int) { self.x = x } }
  access(all) struct S2 { access(all) let s: S; access(all) let o: Int?; init(s: S, o: Int?) { self.s = s; self.o = o } }
  access(all) enum En: UInt8 { access(all) case a; access(all) case b }
  access(all) struct SR { access(all) let a: &Int; access(all) let b: &Int; view init(a: &Int, b: &Int) { self.a = a; self.b = b } }
`

// referents of the reference-typed event arguments and helpers that build values sharing one reference;
// $D = declaration of the three variables (script globals or contract fields + init), $G = access prefix.
const c48Referents = `$D
  access(all) view fun refI(): &Int { return &$GGI }
  access(all) view fun refA(): &[Int] { return &$GGArr }
  access(all) view fun refAM(): auth(Mutate) &[Int] { return &$GGArr }
  access(all) view fun refS(): &S { return &$GGSv }
  access(all) view fun twoRefs(): [&Int] { let r = &$GGI as &Int; return [r, r] }
  access(all) view fun refDict(): {String: &Int} { let r = &$GGI as &Int; return {"x": r, "y": r} }
  access(all) view fun refStruct(): SR { let r = &$GGI as &Int; return SR(a: r, b: r) }
`

func c48UserDecls(contract bool) string {
	d, g := "  access(all) var GI: Int = 5\n  access(all) var GArr: [Int] = [1, 2]\n  access(all) var GSv: S = S(x: 9)", ""
	if contract {
		d = "  access(all) var GI: Int\n  access(all) var GArr: [Int]\n  access(all) var GSv: S\n  init() { self.GI = 5; self.GArr = [1, 2]; self.GSv = S(x: 9) }"
		g = "self."
	}
	return c48UserTypes + strings.ReplaceAll(strings.ReplaceAll(c48Referents, "$D", d), "$G", g)
}

var c48UserNames = []string{"S2", "SR", "S", "En", "I"}

// evField / evDecl: one event of the enumeration.
type evField struct {
	Name string `json:"name"`
	T    string `json:"type"`
	Expr string `json:"expr"`
	Want string `json:"want"`
	Cls  string `json:"class"`
	Pre  string `json:"pre,omitempty"` // statement run before the emit (binds a local shared by several fields); statement contexts only
}

type evDecl struct {
	Fields []evField `json:"fields"`
}

func (e evDecl) decl(name string) string {
	ps := make([]string, len(e.Fields))
	for i, f := range e.Fields {
		ps[i] = f.Name + ": " + f.T
	}
	return fmt.Sprintf("access(all) event %s(%s)", name, strings.Join(ps, ", "))
}

func (e evDecl) emit(name string) string {
	as := make([]string, len(e.Fields))
	for i, f := range e.Fields {
		as[i] = f.Name + ": " + f.Expr
	}
	pre := ""
	for _, f := range e.Fields {
		if f.Pre != "" && !strings.Contains(pre, f.Pre) {
			pre += f.Pre + "; "
		}
	}
	if pre != "" {
		return fmt.Sprintf("if true { %semit %s(%s) }", pre, name, strings.Join(as, ", "))
	}
	return fmt.Sprintf("emit %s(%s)", name, strings.Join(as, ", "))
}

func (e evDecl) hasPre() bool {
	for _, f := range e.Fields {
		if f.Pre != "" {
			return true
		}
	}
	return false
}

func (e evDecl) class() string {
	cs := make([]string, len(e.Fields))
	for i, f := range e.Fields {
		cs[i] = f.Cls
	}
	return strings.Join(cs, "+")
}

// c48SharedEvents: events whose fields are given one and the same value, one and the same reference, or
// containers that share a reference. Judged by the ordinary conformance oracle.
func c48SharedEvents() []evDecl {
	f := func(name, t, expr, want, pre string) evField {
		return evField{Name: name, T: t, Expr: expr, Want: want, Cls: "shared", Pre: pre}
	}
	bind := map[string]string{
		"&Int": "let r = $GrefI()", "&S": "let r = $GrefS()", "&[Int]": "let r = $GrefA()", "auth(Mutate) &[Int]": "let r = $GrefAM()",
		"[Int]": "let r = [1, 2]", "S": "let r = S(x: 1)", "String": `let r = "s"`, "{String: Int}": `let r = {"k": 1}`,
	}
	want := map[string]string{"&Int": "5", "&S": "$P.S(x: 9)", "&[Int]": "[1, 2]", "auth(Mutate) &[Int]": "[1, 2]",
		"[Int]": "[1, 2]", "S": "$P.S(x: 1)", "String": `"s"`, "{String: Int}": `{"k": 1}`}
	var out []evDecl
	for _, t := range []string{"&Int", "&S", "&[Int]", "auth(Mutate) &[Int]", "[Int]", "S", "String", "{String: Int}"} {
		pre, w := bind[t], want[t]
		// twice, three times (with an unrelated field in between and at the end), and once plain + once optional
		out = append(out,
			evDecl{Fields: []evField{f("a", t, "r", w, pre), f("b", t, "r", w, pre)}},
			evDecl{Fields: []evField{f("a", t, "r", w, pre), f("n", "Int", "1", "1", ""), f("b", t, "r", w, pre), f("c", t, "r", w, pre)}},
			evDecl{Fields: []evField{f("a", t, "r", w, pre), f("b", t+"?", "r", w, pre), f("c", "Int", "1", "1", "")}},
			evDecl{Fields: []evField{f("a", "["+t+"]", "[r, r]", "["+w+", "+w+"]", pre), f("b", t, "r", w, pre)}},
		)
	}
	// a reference next to containers that hold the same reference
	pre := "let r = $GrefI()"
	out = append(out,
		evDecl{Fields: []evField{f("a", "&Int", "r", "5", pre), f("b", "SR", "SR(a: r, b: r)", "$P.SR(a: 5, b: 5)", pre)}},
		evDecl{Fields: []evField{f("a", "{String: &Int}", `{"x": r, "y": r}`, "", pre), f("b", "&Int", "r", "5", pre)}},
		evDecl{Fields: []evField{f("a", "[[&Int]]", "[[r], [r, r]]", "[[5], [5, 5]]", pre)}},
		evDecl{Fields: []evField{f("a", "&Int?", "r", "5", pre), f("b", "&Int?", "r", "5", pre), f("c", "&Int?", "nil", "nil", "")}},
	)
	return out
}

// c48Chunk is the replayable unit: a list of events emitted from one context.
type c48Chunk struct {
	Ctx    string   `json:"ctx"` // function | pre-condition | post-condition | contract
	Events []evDecl `json:"events"`
}

const c48ScriptPrefix = "s.0100000000000000000000000000000000000000000000000000000000000000"
const c48ContractPrefix = "A.0000000000000001.CX"

func (c *c48Chunk) prefix() string {
	if c.Ctx == "contract" {
		return c48ContractPrefix
	}
	return c48ScriptPrefix
}

// sources returns (contract code or "", script).
func (c *c48Chunk) sources() (contract, script string) {
	var decls, body strings.Builder
	for i, e := range c.Events {
		name := "Ev" + strconv.Itoa(i)
		decls.WriteString("  " + e.decl(name) + "\n")
		switch c.Ctx {
		case "pre-condition":
			fmt.Fprintf(&decls, "  access(all) fun c%d() { pre { %s } }\n", i, e.emit(name))
			fmt.Fprintf(&body, "    c%d()\n", i)
		case "post-condition":
			fmt.Fprintf(&decls, "  access(all) fun c%d() { post { %s } }\n", i, e.emit(name))
			fmt.Fprintf(&body, "    c%d()\n", i)
		default:
			fmt.Fprintf(&body, "    %s\n", e.emit(name))
		}
	}
	g := ""
	if c.Ctx == "contract" {
		g = "self."
	}
	declText, bodyText := strings.ReplaceAll(decls.String(), "$G", g), strings.ReplaceAll(body.String(), "$G", g)
	if c.Ctx == "contract" {
		contract = "access(all) contract CX {\n" + c48UserDecls(true) + declText + "  access(all) fun go() {\n" + bodyText + "  }\n}\n"
		script = "import CX from 0x1\naccess(all) fun main() { CX.go() }\n"
		return
	}
	script = c48UserDecls(false) + declText + "access(all) fun main() {\n" + bodyText + "}\n"
	return "", script
}

// normType turns a declared annotation into the expected cadence type ID
// (optional = "(T)?", arrays "[T]" / "[T;n]", dictionaries "{K:V}", user types
// qualified by the declaring location).
func normType(t, prefix string) string {
	t = strings.TrimSpace(t)
	if strings.HasSuffix(t, "?") {
		return "(" + normType(t[:len(t)-1], prefix) + ")?"
	}
	splitTop := func(s string, sep byte) (string, string, bool) {
		depth := 0
		for i := 0; i < len(s); i++ {
			switch s[i] {
			case '[', '{', '<', '(':
				depth++
			case ']', '}', '>', ')':
				depth--
			default:
				if s[i] == sep && depth == 0 {
					return s[:i], s[i+1:], true
				}
			}
		}
		return s, "", false
	}
	if strings.HasPrefix(t, "[") && strings.HasSuffix(t, "]") {
		inner := t[1 : len(t)-1]
		if el, n, ok := splitTop(inner, ';'); ok {
			return "[" + normType(el, prefix) + ";" + strings.TrimSpace(n) + "]"
		}
		return "[" + normType(inner, prefix) + "]"
	}
	if strings.HasPrefix(t, "{") && strings.HasSuffix(t, "}") {
		inner := t[1 : len(t)-1]
		if k, v, ok := splitTop(inner, ':'); ok {
			return "{" + normType(k, prefix) + ":" + normType(v, prefix) + "}"
		}
		return "{" + normType(inner, prefix) + "}"
	}
	if strings.HasPrefix(t, "&") {
		return "&" + normType(t[1:], prefix)
	}
	if strings.HasPrefix(t, "auth(") {
		if i := strings.Index(t, ")"); i > 0 {
			return stripSpaces(t[:i+1]) + normType(t[i+1:], prefix)
		}
	}
	for _, u := range c48UserNames {
		if t == u {
			return prefix + "." + u
		}
	}
	return stripSpaces(t)
}

func stripSpaces(s string) string { return strings.ReplaceAll(s, " ", "") }

// conforms checks value v against cadence type t; "" = conforms.
func conforms(v cadence.Value, t cadence.Type) string {
	if v == nil {
		return "nil Go value"
	}
	switch tt := t.(type) {
	case *cadence.OptionalType:
		o, ok := v.(cadence.Optional)
		if !ok {
			// a non-optional value where an optional is declared
			return fmt.Sprintf("%T where %s is declared", v, t.ID())
		}
		if o.Value == nil {
			return ""
		}
		return conforms(o.Value, tt.Type)
	case *cadence.VariableSizedArrayType:
		a, ok := v.(cadence.Array)
		if !ok {
			return fmt.Sprintf("%T where %s is declared", v, t.ID())
		}
		for _, e := range a.Values {
			if s := conforms(e, tt.ElementType); s != "" {
				return s
			}
		}
		return ""
	case *cadence.ConstantSizedArrayType:
		a, ok := v.(cadence.Array)
		if !ok || len(a.Values) != int(tt.Size) {
			return fmt.Sprintf("%v where %s is declared", v, t.ID())
		}
		for _, e := range a.Values {
			if s := conforms(e, tt.ElementType); s != "" {
				return s
			}
		}
		return ""
	case *cadence.DictionaryType:
		d, ok := v.(cadence.Dictionary)
		if !ok {
			return fmt.Sprintf("%T where %s is declared", v, t.ID())
		}
		for _, p := range d.Pairs {
			if s := conforms(p.Key, tt.KeyType); s != "" {
				return s
			}
			if s := conforms(p.Value, tt.ElementType); s != "" {
				return s
			}
		}
		return ""
	case *cadence.StructType:
		s, ok := v.(cadence.Struct)
		if !ok || s.StructType.ID() != tt.ID() {
			return fmt.Sprintf("%v where %s is declared", v, t.ID())
		}
		fv := s.FieldsMappedByName()
		ft := tt.FieldsMappedByName()
		if len(fv) != len(ft) {
			return "struct field count"
		}
		for name, typ := range ft {
			if m := conforms(fv[name], typ); m != "" {
				return m
			}
		}
		return ""
	case *cadence.ReferenceType:
		// a reference is delivered as the value it points to; a non-optional reference field can never be empty
		return conforms(v, tt.Type)
	case *cadence.EnumType:
		e, ok := v.(cadence.Enum)
		if !ok || e.EnumType.ID() != tt.ID() {
			return fmt.Sprintf("%v where %s is declared", v, t.ID())
		}
		return ""
	}
	vt := v.Type()
	if vt == nil {
		return fmt.Sprintf("value %v has no type", v)
	}
	id := t.ID()
	switch id {
	case "AnyStruct":
		// any non-resource value, itself well-formed
		if _, isRes := v.(cadence.Resource); isRes {
			return "resource where AnyStruct is declared"
		}
		if o, ok := v.(cadence.Optional); ok {
			if o.Value == nil {
				return ""
			}
			return conforms(o.Value, t)
		}
		return conforms(v, vt)
	case "Path":
		if _, ok := v.(cadence.Path); ok {
			return ""
		}
	case "CapabilityPath":
		if p, ok := v.(cadence.Path); ok && (p.Domain == common.PathDomainPublic || p.Domain == common.PathDomainPrivate) {
			return ""
		}
	case "Integer", "Number", "SignedInteger", "FixedPoint", "SignedNumber", "FixedSizeUnsignedInteger", "SignedFixedPoint":
		if _, ok := v.(cadence.NumberValue); ok {
			return ""
		}
	case "Capability":
		if _, ok := v.(cadence.Capability); ok {
			return ""
		}
	}
	if strings.HasPrefix(id, "{") && !strings.Contains(id, ":") {
		// intersection type: the value must be a composite (conformance is the checker's business)
		if _, ok := v.(cadence.Struct); ok {
			return ""
		}
	}
	if vt.ID() == id {
		return ""
	}
	return fmt.Sprintf("value %s of type %s where %s is declared", v.String(), vt.ID(), id)
}

// c48JudgeEvent checks one delivered event against its declaration.
func c48JudgeEvent(ev cadence.Event, e evDecl, name, prefix string) (string, string) {
	if ev.EventType == nil {
		return "no-event-type", ""
	}
	if got, want := ev.EventType.ID(), prefix+"."+name; got != want {
		return "type-id", fmt.Sprintf("event type ID %s, declared %s", got, want)
	}
	// conformance first: a payload with an empty (Go nil) field cannot even be encoded by a host
	for name, typ := range ev.EventType.FieldsMappedByName() {
		if m := conforms(ev.FieldsMappedByName()[name], typ); m != "" {
			return "value-does-not-conform", fmt.Sprintf("field %s: %s", name, m)
		}
	}
	order, err := eventFieldOrder(ev)
	if err != nil {
		return "event-not-encodable", err.Error()
	}
	types := ev.EventType.FieldsMappedByName()
	if len(order) != len(e.Fields) || len(types) != len(e.Fields) {
		return "field-count", fmt.Sprintf("%d fields in the payload, %d in the type, %d declared", len(order), len(types), len(e.Fields))
	}
	vals := ev.FieldsMappedByName()
	if len(vals) != len(e.Fields) {
		return "field-count", fmt.Sprintf("%d field values, %d declared", len(vals), len(e.Fields))
	}
	for i, f := range e.Fields {
		if order[i] != f.Name {
			return "field-order", fmt.Sprintf("field %d is %s, declared %s", i, order[i], f.Name)
		}
		ft, ok := types[f.Name]
		if !ok {
			return "field-names", fmt.Sprintf("no field %s in the event type", f.Name)
		}
		if got, want := stripSpaces(ft.ID()), normType(f.T, prefix); got != want {
			return "field-type", fmt.Sprintf("field %s has type %s, declared %s", f.Name, got, want)
		}
		v := vals[f.Name]
		if m := conforms(v, ft); m != "" {
			return "value-does-not-conform", fmt.Sprintf("field %s: %s", f.Name, m)
		}
		if f.Want != "" {
			if got, want := v.String(), strings.ReplaceAll(f.Want, "$P", prefix); got != want {
				return "value", fmt.Sprintf("field %s = %s, emitted %s (expected %s)", f.Name, got, f.Expr, want)
			}
		}
	}
	return "", ""
}

// eventFieldOrder returns the field names in payload order, as a host sees
// them when it encodes the event (JSON-Cadence keeps the payload order).
func eventFieldOrder(ev cadence.Event) (names []string, err error) {
	defer func() {
		if p := recover(); p != nil {
			names, err = nil, fmt.Errorf("encoding the event panicked: %v", p)
		}
	}()
	b, err := jsoncdc.Encode(ev)
	if err != nil {
		return nil, err
	}
	var doc struct {
		Value struct {
			Fields []struct {
				Name string `json:"name"`
			} `json:"fields"`
		} `json:"value"`
	}
	if err := json.Unmarshal(b, &doc); err != nil {
		return nil, err
	}
	out := make([]string, len(doc.Value.Fields))
	for i, f := range doc.Value.Fields {
		out[i] = f.Name
	}
	return out, nil
}

// eventWire is the event as a host would put it on the wire (JSON-Cadence); used for the engine differential.
func eventWire(ev cadence.Event) (wire string) {
	defer func() {
		if p := recover(); p != nil {
			wire = fmt.Sprintf("unencodable (panic: %v)", p)
		}
	}()
	b, err := jsoncdc.Encode(ev)
	if err != nil {
		return "unencodable: " + ev.String()
	}
	return string(b)
}

// c48RunChunk runs the chunk on one engine: rejected, or per-event failure classes.
func c48RunChunk(c *c48Chunk, vm bool) (rejected bool, rejMsg string, fails map[int][2]string, evStrings []string, whole string) {
	l := rt.NewLedger()
	contract, script := c.sources()
	if contract != "" {
		src := fmt.Sprintf(`transaction { prepare(signer: auth(Contracts) &Account) { signer.contracts.add(name: "CX", code: "%x".decodeHex()) } }`, contract)
		r := rt.Run(l, rt.Tx{Source: src, Signers: []common.Address{rt.Addr(1)}, UseVM: vm})
		if !r.OK() {
			return true, firstLine(r.ErrString()) + " :: " + errLineOf(r.ErrString()), nil, nil, ""
		}
	}
	res := rt.Run(l, rt.Tx{Source: script, Script: true, UseVM: vm})
	if strings.Contains(res.Kind, "CheckerError") || strings.Contains(res.Kind, "parser.Error") {
		return true, firstLine(res.ErrString()) + " :: " + errLineOf(res.ErrString()), nil, nil, ""
	}
	fails = map[int][2]string{}
	if !res.OK() {
		return false, "", fails, nil, "run-failed: " + res.Class + " " + firstLine(res.ErrString())
	}
	if len(res.Events) != len(c.Events) {
		return false, "", fails, nil, fmt.Sprintf("event-count: %d delivered, %d emitted", len(res.Events), len(c.Events))
	}
	for i, ev := range res.Events {
		cls, d := c48JudgeEvent(ev, c.Events[i], "Ev"+strconv.Itoa(i), c.prefix())
		if cls != "" {
			fails[i] = [2]string{cls, d}
		}
		evStrings = append(evStrings, eventWire(ev))
	}
	return false, "", fails, evStrings, ""
}

func errLineOf(s string) string {
	for _, l := range strings.Split(s, "\n") {
		if strings.Contains(l, " | ") && !strings.Contains(l, "^") && strings.TrimSpace(l) != "|" {
			return strings.TrimSpace(l)
		}
	}
	return ""
}

// c48JudgeChunk: both engines. Returns failure signature classes per event index (-1 = whole chunk).
func c48JudgeChunk(c *c48Chunk) (rejected bool, rejMsg string, fails map[int]string, detail string) {
	ri, mi, fi, si, wi := c48RunChunk(c, false)
	rv, mv, fv, sv, wv := c48RunChunk(c, true)
	fails = map[int]string{}
	if ri != rv {
		fails[-1] = "acceptance-differs"
		return false, "", fails, fmt.Sprintf("interpreter rejected=%v %s; VM rejected=%v %s", ri, mi, rv, mv)
	}
	if ri {
		return true, mi, nil, ""
	}
	if wi != "" || wv != "" {
		fails[-1] = "interp:" + orOK(strings.SplitN(wi, ":", 2)[0]) + ",vm:" + orOK(strings.SplitN(wv, ":", 2)[0])
		return false, "", fails, wi + " || " + wv
	}
	for i := range c.Events {
		a, b := fi[i], fv[i]
		if a[0] != "" || b[0] != "" {
			fails[i] = "interp:" + orOK(a[0]) + ",vm:" + orOK(b[0])
			detail += a[1] + " || " + b[1] + " ;; "
			continue
		}
		if si[i] != sv[i] {
			fails[i] = "engines-differ"
			detail += fmt.Sprintf("interpreter %s, VM %s ;; ", si[i], sv[i])
		}
	}
	return false, "", fails, detail
}

// c48Process judges a chunk; on rejection or chunk-level failure it falls back to single events.
func c48Process(env *mc.Env, c *c48Chunk) {
	rej, msg, fails, detail := c48JudgeChunk(c)
	env.R.EvalN(int64(2 * len(c.Events)))
	single := len(c.Events) == 1
	if rej {
		if single {
			e := c.Events[0]
			env.R.Class("rejected-by-checker/"+e.class(), func() any { return e.decl("Ev") + ": " + msg })
			env.R.Add("events_rejected_by_checker", 1)
			return
		}
		for _, e := range c.Events {
			c48Process(env, &c48Chunk{Ctx: c.Ctx, Events: []evDecl{e}})
		}
		return
	}
	if _, whole := fails[-1]; whole && !single {
		for _, e := range c.Events {
			c48Process(env, &c48Chunk{Ctx: c.Ctx, Events: []evDecl{e}})
		}
		return
	}
	for i, e := range c.Events {
		cls, bad := fails[i]
		if !bad && single {
			cls, bad = fails[-1]
		}
		if bad {
			sc := &c48Chunk{Ctx: c.Ctx, Events: []evDecl{e}}
			_, s := sc.sources()
			env.R.Violation(c.Ctx+"|"+e.class()+"|"+cls, sc, detail+"\n"+e.decl("Ev0")+"\n"+e.emit("Ev0")+"\n"+s)
			continue
		}
		ee := e
		env.R.Class("conforms/"+c.Ctx+"/"+e.class(), func() any { return ee.decl("Ev") + " <- " + ee.emit("Ev") })
		env.R.Nontrivial(c.Ctx + "|" + e.decl("Ev") + "|" + e.emit("Ev"))
	}
}

func replayC48(env *mc.Env, raw json.RawMessage) (bool, string) {
	var probe struct {
		Ctx   string `json:"ctx"`
		Shape string `json:"shape"`
	}
	json.Unmarshal(raw, &probe)
	if probe.Shape != "" {
		var d c48Destroy
		if err := json.Unmarshal(raw, &d); err != nil {
			return false, err.Error()
		}
		cls, detail := d.judge()
		return cls != "" && cls != "rejected", cls + ": " + detail
	}
	var c c48Chunk
	if err := json.Unmarshal(raw, &c); err != nil {
		return false, err.Error()
	}
	rej, _, fails, detail := c48JudgeChunk(&c)
	return !rej && len(fails) > 0, fmt.Sprintf("%v %s", fails, detail)
}

func runC48(env *mc.Env) {
	types := c48Types()
	// single-parameter events: every (type, value); two-parameter: every ordered pair of types (first value each;
	// thorough: every value pair)
	var singles, pairs []evDecl
	for _, t := range types {
		for _, v := range t.Vals {
			singles = append(singles, evDecl{Fields: []evField{{"a", t.T, v.Expr, v.Want, t.Class, ""}}})
		}
	}
	// the checker decides which types are event parameter types: one probe per type; pairs only over the accepted ones
	accepted := make([]bool, len(types))
	mc.ParallelFor(env, len(types), func(i int) {
		t := types[i]
		c := &c48Chunk{Ctx: "function", Events: []evDecl{{Fields: []evField{{"a", t.T, t.Vals[0].Expr, "", t.Class, ""}}}}}
		rej, _, _, _, _ := c48RunChunk(c, false)
		accepted[i] = !rej
	})
	var accTypes []evType
	var rejNames []string
	for i, t := range types {
		if accepted[i] {
			accTypes = append(accTypes, t)
		} else {
			rejNames = append(rejNames, t.T)
		}
	}
	env.R.Set("types_refused_as_event_parameters_by_the_checker", rejNames)
	if len(accTypes)*2 < len(types) {
		env.R.HarnessError("the checker refuses %d of %d candidate field types: the prelude or the generator is broken (%v)", len(rejNames), len(types), rejNames)
	}
	for _, t1 := range accTypes {
		for _, t2 := range accTypes {
			v1s, v2s := t1.Vals[:1], t2.Vals[:1]
			if env.Thorough() {
				v1s, v2s = t1.Vals, t2.Vals
			}
			for _, v1 := range v1s {
				for _, v2 := range v2s {
					pairs = append(pairs, evDecl{Fields: []evField{{"b", t1.T, v1.Expr, v1.Want, t1.Class, ""}, {"a", t2.T, v2.Expr, v2.Want, t2.Class, ""}}})
				}
			}
		}
	}
	var chunks []*c48Chunk
	add := func(ctx string, evs []evDecl) {
		const n = 60
		for lo := 0; lo < len(evs); lo += n {
			chunks = append(chunks, &c48Chunk{Ctx: ctx, Events: evs[lo:min(lo+n, len(evs))]})
		}
	}
	for _, ctx := range []string{"function", "pre-condition", "post-condition", "contract"} {
		add(ctx, singles)
	}
	add("function", pairs)
	add("contract", pairs)
	// the same value / the same reference in several fields (a local bound before the emit: statement contexts)
	shared := c48SharedEvents()
	add("function", shared)
	add("contract", shared)
	if env.Thorough() {
		add("pre-condition", pairs)
		add("post-condition", pairs)
	}
	env.R.Set("declared_event_cases", int64(len(singles)*4+len(pairs)*mc.Pick(env, 2, 4)))
	mc.ParallelFor(env, len(chunks), func(i int) { c48Process(env, chunks[i]) })

	// part B: default destruction events
	ds := c48DestroyCases(env)
	env.R.Set("destruction_cases", int64(len(ds)))
	mc.ParallelFor(env, len(ds), func(i int) {
		d := ds[i]
		cls, detail := d.judge()
		env.R.EvalN(2)
		switch cls {
		case "":
			env.R.Class("destroy-conforms/"+d.Kind, func() any { return d.Shape })
			env.R.Nontrivial("destroy|" + d.Kind + "|" + d.Shape)
		case "rejected":
			env.R.Class("destroy-rejected-by-checker/"+d.Kind, func() any { return d.Shape + ": " + detail })
		default:
			sig := "destroy:" + d.Kind + "|" + d.sigShape() + "|" + cls
			if d.Kind == "forms" {
				sig = "destroy:forms|" + cls // the class names the failing default-argument form
			}
			env.R.Violation(sig, d, detail+"\n"+d.script())
		}
	})
	env.R.BoundCompleted(fmt.Sprintf("%d field types (%d single-parameter events x 4 contexts, %d two-parameter events); %d destruction cases", len(types), len(singles), len(pairs), len(ds)))
}

// ---------------------------------------------------------------------------
// C48 part B: default ResourceDestroyed events.

// A destruction case is either "forms" (one resource, 1-2 default-argument
// forms) or "nest" (a containment tree of resources with uuid/tag events).
type c48Destroy struct {
	Kind  string   `json:"kind"`  // forms | nest
	Shape string   `json:"shape"` // forms: "f1,f2"; nest: tree text
	Forms []string `json:"forms,omitempty"`
}

// default-argument forms: name -> (param type, default expression, expected value after the mutation below)
type ddForm struct {
	Name, T, Expr, Want string
}

var c48Forms = []ddForm{
	{"lit-int", "Int", "7", "7"},
	{"lit-string", "String", `"lit"`, `"lit"`},
	{"lit-bool", "Bool", "true", "true"},
	{"lit-nil", "Int?", "nil", "nil"},
	{"lit-fixed", "UFix64", "1.5", "1.50000000"},
	{"lit-path", "StoragePath", "/storage/x", "/storage/x"},
	{"self-uuid", "UInt64", "self.uuid", "$UUID"},
	{"self-field", "Int", "self.f", "11"},
	{"self-string-field", "String", "self.s", `"changed"`},
	{"self-optional-field", "Int?", "self.o", "12"},
	{"self-struct-field", "Int", "self.st.b", "13"},
	{"self-struct-struct-field", "Int", "self.st.c.b", "14"},
	{"self-dict-index", "Int?", `self.d["k"]`, "15"},
	{"self-dict-index-missing", "Int?", `self.d["none"]`, "nil"},
	{"self-field-widened", "Int?", "self.f", "11"},
	{"self-address-field", "Address", "self.addr", "0x0000000000000003"},
	{"lit-int-widened", "Int?", "7", "7"},
	{"lit-int-sized", "UInt8", "7", "7"},
	{"lit-string-widened", "String?", `"lit"`, `"lit"`},
	{"self-optional-field-widened", "Int??", "self.o", "12"},
	{"base-field", "Int", "base.f", "11"},            // only valid inside an attachment
	{"attachment-self-field", "Int", "self.g", "21"}, // attachment's own field
}

func formByName(n string) *ddForm {
	for i := range c48Forms {
		if c48Forms[i].Name == n {
			return &c48Forms[i]
		}
	}
	return nil
}

func (d *c48Destroy) sigShape() string {
	if d.Kind == "forms" {
		return d.Shape
	}
	// nest: replace tags by nothing: keep container kinds only
	return d.Shape
}

// nest shapes: a tree written as kind(child child ...) where kinds are
// root / field / array / dict / opt / optnil / att. Tags are assigned in
// pre-order.
type nestNode struct {
	Kind string
	Kids []*nestNode
	Tag  int
}

func parseNest(s string) *nestNode {
	pos := 0
	var parse func() *nestNode
	parse = func() *nestNode {
		j := pos
		for j < len(s) && s[j] != '(' && s[j] != ')' && s[j] != ' ' {
			j++
		}
		n := &nestNode{Kind: s[pos:j]}
		pos = j
		if pos < len(s) && s[pos] == '(' {
			pos++
			for pos < len(s) && s[pos] != ')' {
				if s[pos] == ' ' {
					pos++
					continue
				}
				n.Kids = append(n.Kids, parse())
			}
			pos++
		}
		return n
	}
	return parse()
}

func (n *nestNode) String() string {
	if len(n.Kids) == 0 {
		return n.Kind
	}
	ks := make([]string, len(n.Kids))
	for i, k := range n.Kids {
		ks[i] = k.String()
	}
	return n.Kind + "(" + strings.Join(ks, " ") + ")"
}

func (d *c48Destroy) script() string {
	if d.Kind == "forms" {
		return d.formsScript()
	}
	return d.nestScript()
}

const c48DestroyTypes = `access(all) struct C2 { access(all) var b: Int; init() { self.b = 4 }; access(all) fun set() { self.b = 14 } }
access(all) struct St { access(all) var b: Int; access(all) var c: C2; init() { self.b = 3; self.c = C2() }; access(all) fun set() { self.b = 13; self.c.set() } }
`

// formsScript: resource R with the event; an attachment A carries the event when a form needs base / attachment self.
func (d *c48Destroy) formsScript() string {
	inAttachment := false
	for _, f := range d.Forms {
		if f == "base-field" || f == "attachment-self-field" {
			inAttachment = true
		}
	}
	ps := make([]string, len(d.Forms))
	for i, fn := range d.Forms {
		f := formByName(fn)
		ps[i] = fmt.Sprintf("p%d: %s = %s", i, f.T, f.Expr)
	}
	ev := "access(all) event ResourceDestroyed(" + strings.Join(ps, ", ") + ")"
	var sb strings.Builder
	sb.WriteString(c48DestroyTypes)
	fields := `  access(all) var f: Int; access(all) var s: String; access(all) var o: Int?; access(all) var st: St; access(all) var d: {String: Int}; access(all) var addr: Address
  init() { self.f = 1; self.s = "initial"; self.o = nil; self.st = St(); self.d = {}; self.addr = 0x2 }
  access(all) fun mutate() { self.f = 11; self.s = "changed"; self.o = 12; self.st.set(); self.d["k"] = 15; self.addr = 0x3 }
`
	if inAttachment {
		sb.WriteString("access(all) resource R {\n" + fields + "}\n")
		sb.WriteString("access(all) attachment A for R {\n  " + ev + "\n  access(all) var g: Int\n  init() { self.g = 2 }\n  access(all) fun mutate() { self.g = 21 }\n}\n")
		sb.WriteString("access(all) fun main() {\n  let r <- attach A() to <- create R()\n  log(r.uuid); log(r.uuid)\n  r.mutate(); r[A]!.mutate()\n  destroy r\n}\n")
	} else {
		sb.WriteString("access(all) resource R {\n  " + ev + "\n" + fields + "}\n")
		sb.WriteString("access(all) fun main() {\n  let r <- create R()\n  log(r.uuid); log(r.uuid)\n  r.mutate()\n  destroy r\n}\n")
	}
	return sb.String()
}

// nestScript: one resource type per node, each with event ResourceDestroyed(uuid: UInt64 = self.uuid, tag: Int = self.tag).
func (d *c48Destroy) nestScript() string {
	root := parseNest(d.Shape)
	var nodes []*nestNode
	var number func(n *nestNode)
	number = func(n *nestNode) {
		n.Tag = len(nodes)
		nodes = append(nodes, n)
		for _, k := range n.Kids {
			number(k)
		}
	}
	number(root)
	var sb strings.Builder
	// createExpr: the creation of node n including its attachments
	createExpr := func(n *nestNode) string {
		e := fmt.Sprintf("create N%d()", n.Tag)
		for _, k := range n.Kids {
			if k.Kind == "att" {
				e = fmt.Sprintf("attach N%d() to <- %s", k.Tag, e)
			}
		}
		return e
	}
	for _, n := range nodes {
		if n.Kind == "att" {
			continue
		}
		fmt.Fprintf(&sb, "access(all) resource N%d {\n  access(all) event ResourceDestroyed(uuid: UInt64 = self.uuid, tag: Int = self.tag)\n  access(all) var tag: Int\n", n.Tag)
		var inits, bumps []string
		for _, k := range n.Kids {
			switch k.Kind {
			case "field":
				fmt.Fprintf(&sb, "  access(all) var c%d: @N%d\n", k.Tag, k.Tag)
				inits = append(inits, fmt.Sprintf("self.c%d <- %s", k.Tag, createExpr(k)))
				bumps = append(bumps, fmt.Sprintf("self.c%d.bump()", k.Tag))
			case "array":
				fmt.Fprintf(&sb, "  access(all) var c%d: @[N%d]\n", k.Tag, k.Tag)
				inits = append(inits, fmt.Sprintf("self.c%d <- [<- %s]", k.Tag, createExpr(k)))
				bumps = append(bumps, fmt.Sprintf("self.c%d[0].bump()", k.Tag))
			case "dict":
				fmt.Fprintf(&sb, "  access(all) var c%d: @{String: N%d}\n", k.Tag, k.Tag)
				inits = append(inits, fmt.Sprintf("self.c%d <- {\"k\": <- %s}", k.Tag, createExpr(k)))
				bumps = append(bumps, fmt.Sprintf("self.c%d[\"k\"]?.bump()", k.Tag))
			case "opt":
				fmt.Fprintf(&sb, "  access(all) var c%d: @N%d?\n", k.Tag, k.Tag)
				inits = append(inits, fmt.Sprintf("self.c%d <- %s", k.Tag, createExpr(k)))
				bumps = append(bumps, fmt.Sprintf("self.c%d?.bump()", k.Tag))
			case "optnil":
				fmt.Fprintf(&sb, "  access(all) var c%d: @N%d?\n", k.Tag, k.Tag)
				inits = append(inits, fmt.Sprintf("self.c%d <- nil", k.Tag))
			case "att":
				bumps = append(bumps, fmt.Sprintf("self[N%d]?.bump()", k.Tag))
			}
		}
		fmt.Fprintf(&sb, "  init() { self.tag = %d; log(self.uuid); log(%d); %s }\n", n.Tag*10, n.Tag, strings.Join(inits, "; "))
		fmt.Fprintf(&sb, "  access(all) fun bump() { self.tag = self.tag + 1; %s }\n}\n", strings.Join(bumps, "; "))
	}
	for _, n := range nodes {
		if n.Kind != "att" {
			continue
		}
		// attachment on its parent
		parent := 0
		for _, p := range nodes {
			for _, k := range p.Kids {
				if k == n {
					parent = p.Tag
				}
			}
		}
		// attachments have no uuid of their own: their event carries the base's
		fmt.Fprintf(&sb, "access(all) attachment N%d for N%d {\n  access(all) event ResourceDestroyed(uuid: UInt64 = base.uuid, tag: Int = self.tag)\n  access(all) var tag: Int\n  init() { self.tag = %d }\n  access(all) fun bump() { self.tag = self.tag + 1 }\n}\n",
			n.Tag, parent, n.Tag*10+1)
	}
	sb.WriteString("access(all) fun main() {\n")
	fmt.Fprintf(&sb, "  let r <- %s\n  r.bump()\n  log(\"destroy\")\n", createExpr(root))
	switch root.Kind {
	case "root":
		sb.WriteString("  destroy r\n")
	case "root-in-array":
		sb.WriteString("  let arr <- [<- r]\n  destroy arr\n")
	case "root-in-optional":
		sb.WriteString("  let o: @N0? <- r\n  destroy o\n")
	case "root-via-function":
		sb.WriteString("  sink(<- r)\n")
	}
	sb.WriteString("}\naccess(all) fun sink(_ r: @AnyResource) { destroy r }\n")
	return sb.String()
}

// judge runs the case on both engines.
func (d *c48Destroy) judge() (class, detail string) {
	src := d.script()
	type obs struct {
		evs  []string
		fail string
	}
	var o [2]obs
	for i, vm := range []bool{false, true} {
		res := rt.Run(rt.NewLedger(), rt.Tx{Source: src, Script: true, UseVM: vm})
		if strings.Contains(res.Kind, "CheckerError") || strings.Contains(res.Kind, "parser.Error") {
			if i == 0 {
				o[0].fail = "rejected:" + firstLine(res.ErrString()) + " :: " + errLineOf(res.ErrString())
				continue
			}
			o[1].fail = "rejected:" + firstLine(res.ErrString())
			continue
		}
		if !res.OK() {
			o[i].fail = "run-failed-" + res.Class + ":" + firstLine(res.ErrString())
			continue
		}
		cls, det := d.judgeRun(res)
		if cls != "" {
			o[i].fail = cls + ":" + det
		}
		for _, e := range res.Events {
			o[i].evs = append(o[i].evs, eventWire(e))
		}
	}
	ri, rv := strings.HasPrefix(o[0].fail, "rejected:"), strings.HasPrefix(o[1].fail, "rejected:")
	if ri && rv {
		return "rejected", strings.TrimPrefix(o[0].fail, "rejected:")
	}
	if ri != rv {
		return "acceptance-differs", o[0].fail + " || " + o[1].fail
	}
	if o[0].fail != "" || o[1].fail != "" {
		c0, c1 := strings.SplitN(o[0].fail, ":", 2)[0], strings.SplitN(o[1].fail, ":", 2)[0]
		return "interp:" + orOK(c0) + ",vm:" + orOK(c1), o[0].fail + " || " + o[1].fail
	}
	if fmt.Sprint(o[0].evs) != fmt.Sprint(o[1].evs) {
		return "engines-differ-in-order-or-value", fmt.Sprintf("interpreter %v || VM %v", o[0].evs, o[1].evs)
	}
	return "", ""
}

func (d *c48Destroy) judgeRun(res *rt.Result) (string, string) {
	if d.Kind == "forms" {
		// logs: uuid of R, uuid of the event's container (R or A)
		if len(res.Logs) != 2 {
			return "harness-logs", fmt.Sprint(res.Logs)
		}
		inAttachment := false
		for _, f := range d.Forms {
			inAttachment = inAttachment || f == "base-field" || f == "attachment-self-field"
		}
		container := "R"
		if inAttachment {
			container = "A"
		}
		var mine []cadence.Event
		for _, e := range res.Events {
			if strings.HasSuffix(e.EventType.ID(), ".ResourceDestroyed") {
				mine = append(mine, e)
			}
		}
		if len(mine) != 1 {
			return "destroy-event-count", fmt.Sprintf("%d ResourceDestroyed events for one destroyed %s: %v", len(mine), container, rt.EventStrings(res.Events))
		}
		ev := mine[0]
		if got, want := ev.EventType.ID(), c48ScriptPrefix+"."+container+".ResourceDestroyed"; got != want {
			return "type-id", got + " vs " + want
		}
		order, err := eventFieldOrder(ev)
		if err != nil {
			return "event-not-encodable", err.Error()
		}
		types := ev.EventType.FieldsMappedByName()
		if len(order) != len(d.Forms) || len(types) != len(d.Forms) {
			return "field-count", fmt.Sprint(order)
		}
		vals := ev.FieldsMappedByName()
		for i, fn := range d.Forms {
			f := formByName(fn)
			name := "p" + strconv.Itoa(i)
			if order[i] != name {
				return "field-order", fmt.Sprintf("field %d is %s", i, order[i])
			}
			ft := types[name]
			if ft == nil {
				return "field-names", name
			}
			if got, want := stripSpaces(ft.ID()), normType(f.T, c48ScriptPrefix); got != want {
				return "field-type", got + " vs " + want
			}
			v := vals[name]
			if m := conforms(v, ft); m != "" {
				if strings.HasSuffix(fn, "widened") {
					fn = "default-argument-widened-to-optional" // one structural class: the argument's type is a proper subtype of the parameter's optional type
				}
				return "value-does-not-conform@" + fn, m
			}
			want := strings.ReplaceAll(f.Want, "$UUID", res.Logs[1])
			if v.String() != want {
				return "default-argument-value@" + fn, fmt.Sprintf("%s = %s carries %s, the resource being destroyed has %s", name, f.Expr, v.String(), want)
			}
		}
		return "", ""
	}
	// nest: logs are (uuid, node) pairs until "destroy"
	uuidOf := map[int]string{}
	i := 0
	for ; i+1 < len(res.Logs); i += 2 {
		if res.Logs[i] == `"destroy"` {
			break
		}
		n, _ := strconv.Atoi(res.Logs[i+1])
		uuidOf[n] = res.Logs[i]
	}
	root := parseNest(d.Shape)
	var nodes []*nestNode
	var number func(n *nestNode)
	number = func(n *nestNode) {
		n.Tag = len(nodes)
		nodes = append(nodes, n)
		for _, k := range n.Kids {
			number(k)
		}
	}
	number(root)
	want := map[string]int{} // "uuid/tag/typeSuffix" -> count
	for _, n := range nodes {
		if n.Kind == "optnil" {
			continue
		}
		tag := n.Tag*10 + 1
		if n.Kind == "att" {
			tag = n.Tag*10 + 2
		}
		uuid := uuidOf[n.Tag]
		if n.Kind == "att" {
			for _, p := range nodes {
				for _, k := range p.Kids {
					if k == n {
						uuid = uuidOf[p.Tag]
					}
				}
			}
		}
		want[fmt.Sprintf("%s.N%d.ResourceDestroyed(uuid: %s, tag: %d)", c48ScriptPrefix, n.Tag, uuid, tag)]++
	}
	got := map[string]int{}
	for _, e := range res.Events {
		got[e.String()]++
		if order, err := eventFieldOrder(e); err != nil || len(order) != 2 || order[0] != "uuid" || order[1] != "tag" {
			return "field-order", e.String()
		}
	}
	keys := func(m map[string]int) []string {
		var ks []string
		for k, v := range m {
			ks = append(ks, fmt.Sprintf("%dx %s", v, k))
		}
		sort.Strings(ks)
		return ks
	}
	if fmt.Sprint(keys(got)) != fmt.Sprint(keys(want)) {
		return "destroy-events-set", fmt.Sprintf("delivered %v, expected one per destroyed resource with its final values: %v", keys(got), keys(want))
	}
	return "", ""
}

func c48DestroyCases(env *mc.Env) []*c48Destroy {
	var out []*c48Destroy
	for _, f := range c48Forms {
		out = append(out, &c48Destroy{Kind: "forms", Shape: f.Name, Forms: []string{f.Name}})
	}
	attOnly := func(n string) bool { return n == "base-field" || n == "attachment-self-field" }
	attOK := func(n string) bool { return attOnly(n) || strings.HasPrefix(n, "lit-") }
	for _, f := range c48Forms {
		for _, g := range c48Forms {
			if (attOnly(f.Name) && !attOK(g.Name)) || (attOnly(g.Name) && !attOK(f.Name)) {
				continue // inside an attachment, self.* denotes the attachment's own fields
			}
			out = append(out, &c48Destroy{Kind: "forms", Shape: f.Name + "," + g.Name, Forms: []string{f.Name, g.Name}})
		}
	}
	// containment trees: root with <= 2 children, each child with <= 1 (quick) / <= 2 (thorough) grandchildren
	kinds := []string{"field", "array", "dict", "opt", "optnil"}
	var leafKids, midKids []string
	for _, k := range kinds {
		leafKids = append(leafKids, k)
	}
	for _, k := range kinds {
		if k == "optnil" {
			midKids = append(midKids, k)
			continue
		}
		midKids = append(midKids, k)
		for _, g := range leafKids {
			midKids = append(midKids, k+"("+g+")")
		}
		midKids = append(midKids, k+"(att)")
		if env.Thorough() {
			for _, g := range leafKids {
				for _, h := range leafKids {
					midKids = append(midKids, k+"("+g+" "+h+")")
				}
			}
		}
	}
	midKids = append(midKids, "att")
	var shapes []string
	for _, rk := range []string{"root", "root-in-array", "root-in-optional", "root-via-function"} {
		shapes = append(shapes, rk)
		for _, a := range midKids {
			shapes = append(shapes, rk+"("+a+")")
		}
		if rk == "root" || env.Thorough() {
			for _, a := range midKids {
				for _, b := range midKids {
					if a == "att" && b == "att" {
						continue // one attachment type per base in this generator
					}
					shapes = append(shapes, rk+"("+a+" "+b+")")
				}
			}
		}
	}
	for _, s := range shapes {
		out = append(out, &c48Destroy{Kind: "nest", Shape: s})
	}
	return out
}

func init() {
	mc.Register(&mc.Check{
		ID:   "C48",
		Rule: "part A: every event with one parameter (every listed type x every listed value) emitted from a function, a pre-condition, a post-condition and an imported contract, and every event with two parameters over all ordered type pairs (function and contract contexts; all four in thorough), including reference-typed parameters (&Int, &S, &[Int], auth refs, optional refs, containers and structs of references) and events whose 2-4 fields are given the same value / the same reference / containers sharing it, run on both engines; each delivered event must carry the declared type ID, the declared field names in declaration order, field types equal to the declared ones, values that conform to the declared field type (recursive conformance check on the exported value) and, where stated, the exact value. Part B: every default ResourceDestroyed event with 1-2 default arguments over the allowed forms (literals, self.uuid, self.f, self.st.b, self.st.c.b, self.d[k], widened optional, base.f and attachment fields) on a resource whose fields are mutated after creation, and every containment tree (root destroyed directly / inside an array / inside an optional / by a callee; children in field, array, dictionary, optional, nil optional, attachment; grandchildren) where every resource has ResourceDestroyed(uuid, tag): exactly one event per destroyed resource with the values at destruction time, same order in both engines; non-trivial = distinct accepted case",
		Assumptions: []string{
			"cadence.Value.String() of exported values is the comparison format for expected values",
			"field-type identity is compared through cadence type IDs with user types qualified by the declaring location",
			"relative order of inner and outer destruction events is not specified: only compared between engines",
		},
		Run:    runC48,
		Replay: replayC48,
	})
}

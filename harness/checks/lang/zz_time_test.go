package lang

import (
	"fmt"
	"os"
	"testing"
	"time"

	"verif/mc"
)

func TestTimeC52(t *testing.T) {
	env := &mc.Env{Tier: os.Getenv("TIER"), R: mc.NewReport("C52")}
	cases, desc := c52Space(env)
	fmt.Println(desc, len(cases))
	var ok []*c52Case
	for i := 0; i < len(cases); i += 37 {
		c := cases[i]
		if !c.predict()[0].Abort {
			ok = append(ok, c)
		}
	}
	st := time.Now()
	n := 0
	for lo := 0; lo+64 <= len(ok) && lo < 64*40; lo += 64 {
		b := &c52Batch{Cases: ok[lo : lo+64]}
		f, d := judgeBatch(b)
		if len(f) > 0 {
			t.Log(f, d)
		}
		n += 64
	}
	fmt.Println("per case", time.Since(st)/time.Duration(n))
}

package lang

import (
	"fmt"
	"strconv"
	"strings"
)

// ---------------------------------------------------------------------------
// C52: expression trees whose leaves are logging calls.
//
// Types of the little language: B(ool), I(nt), O = Int?, Q = S? (optional
// struct, receiver of optional chaining), Str (string templates).

type ty int

const (
	tB ty = iota
	tI
	tO
	tQ
	tStr
)

func (t ty) String() string { return [...]string{"B", "I", "O", "Q", "Str"}[t] }

// node is one expression. Leaves have Op "leaf" and a value V (B: 0/1, I: the
// integer, O/Q: -1 = nil, otherwise the integer). Trees are shared DAGs while
// enumerating; the leaf's log key is its pre-order index among the leaves of
// the whole case, computed from NL (number of leaves below a node) on the fly.
type node struct {
	Op   string  `json:"op"`
	T    ty      `json:"t"`
	V    int64   `json:"v,omitempty"`
	Kids []*node `json:"kids,omitempty"`
	NL   int     `json:"-"`
}

func fixNL(n *node) int {
	if n.Op == "leaf" {
		n.NL = 1
		return 1
	}
	n.NL = 0
	for _, k := range n.Kids {
		n.NL += fixNL(k)
	}
	return n.NL
}

func mk(op string, t ty, kids ...*node) *node {
	n := &node{Op: op, T: t, Kids: kids}
	for _, k := range kids {
		n.NL += k.NL
	}
	return n
}

func leaf(t ty, v int64) *node { return &node{Op: "leaf", T: t, V: v, NL: 1} }

// opDef is one operator form.
type opDef struct {
	Name  string // unique name, used in signatures
	Class string // operator class (one representative per class is nested at depth >= 2)
	Res   ty
	Args  []ty
	Rep   bool   // representative of its class (used as a non-root / at depth >= 2)
	Fmt   string // rendering with %s per operand
}

var ops []opDef
var opByName = map[string]*opDef{}

func addOp(name, class string, rep bool, res ty, format string, args ...ty) {
	ops = append(ops, opDef{Name: name, Class: class, Res: res, Args: args, Rep: rep, Fmt: format})
}

func init() {
	for i, o := range []string{"+", "-", "*", "/", "%"} {
		class := "arith"
		if o == "/" || o == "%" {
			class = "divmod" // may abort on a zero divisor after both operands were evaluated
		}
		addOp("I"+o, class, i == 0 || o == "/", tI, "(%s "+strings.ReplaceAll(o, "%", "%%")+" %s)", tI, tI)
	}
	for i, o := range []string{"|", "&", "^"} {
		addOp("I"+o, "bitwise", i == 0, tI, "(%s "+o+" %s)", tI, tI)
	}
	for i, o := range []string{"<<", ">>"} {
		addOp("I"+o, "shift", i == 0, tI, "(%s "+o+" %s)", tI, tI)
	}
	for i, o := range []string{"<", "<=", ">", ">="} {
		addOp("I"+o, "compare", i == 0, tB, "(%s "+o+" %s)", tI, tI)
	}
	for i, o := range []string{"==", "!="} {
		addOp("I"+o, "equal", i == 0, tB, "(%s "+o+" %s)", tI, tI)
		addOp("B"+o, "equal-bool", i == 0, tB, "(%s "+o+" %s)", tB, tB)
		addOp("O"+o, "equal-opt", i == 0, tB, "(%s "+o+" %s)", tO, tO)
	}
	addOp("Str==", "equal-str", true, tB, "(%s == %s)", tStr, tStr)
	addOp("&&", "and", true, tB, "(%s && %s)", tB, tB)
	addOp("||", "or", true, tB, "(%s || %s)", tB, tB)
	addOp("??I", "coalesce", true, tI, "(%s ?? %s)", tO, tI)
	addOp("??O", "coalesce-opt", true, tO, "(%s ?? %s)", tO, tO)
	addOp("?:B", "cond", true, tB, "(%s ? %s : %s)", tB, tB, tB)
	addOp("?:I", "cond", true, tI, "(%s ? %s : %s)", tB, tI, tI)
	addOp("?:O", "cond", true, tO, "(%s ? %s : %s)", tB, tO, tO)
	addOp("force", "force", true, tI, "%s!", tO)
	addOp("neg", "unary", true, tI, "(-%s)", tI)
	addOp("not", "unary", false, tB, "(!%s)", tB)
	addOp("call2", "call", true, tI, "f2(%s, %s)", tI, tI)
	addOp("call3", "call", true, tI, "f3(%s, y: %s, z: %s)", tI, tI, tI)
	addOp("arr", "array-literal-index", true, tI, "[%s, %s][%s]", tI, tI, tI)
	addOp("dict1", "dict-literal-index", true, tO, "{%s: %s}[%s]", tI, tI, tI)
	addOp("dict2", "dict-literal-index", false, tO, "{%s: %s, %s: %s}[%s]", tI, tI, tI, tI, tI)
	addOp("member", "member", true, tI, "S(%s).f", tI)
	addOp("method", "method-call", true, tI, "S(%s).m(%s)", tI, tI)
	addOp("?.f", "optional-chain-member", true, tO, "%s?.f", tQ)
	addOp("?.m", "optional-chain-call", true, tO, "%s?.m(%s)", tQ, tI)
	addOp("mkq", "call", true, tQ, "mkq(%s)", tO)
	addOp("as?", "cast", false, tO, "(%s as? Int)", tO)
	addOp("as", "cast", false, tO, "(%s as Int?)", tI)
	addOp("as!", "cast", true, tI, "(%s as! Int)", tO)
	addOp("tmpl", "string-template", true, tStr, `"\(%s)-\(%s)"`, tI, tI)
	for i := range ops {
		opByName[ops[i].Name] = &ops[i]
	}
}

// c52Prelude declares the logging leaves and helpers used by every case.
const c52Prelude = `
access(all) struct S {
  access(all) let f: Int
  init(_ f: Int) { self.f = f }
  access(all) fun m(_ a: Int): Int { log(900); return a * 2 + self.f }
}
access(all) fun tb(_ k: Int, _ v: Bool): Bool { log(k); return v }
access(all) fun ti(_ k: Int, _ v: Int): Int { log(k); return v }
access(all) fun to(_ k: Int, _ v: Int?): Int? { log(k); return v }
access(all) fun tq(_ k: Int, _ v: Int?): S? { log(k); if let x = v { return S(x) }; return nil }
access(all) fun mkq(_ v: Int?): S? { log(903); if let x = v { return S(x) }; return nil }
access(all) fun f2(_ a: Int, _ b: Int): Int { log(902); return a * 2 + b }
access(all) fun f3(_ a: Int, y: Int, z: Int): Int { log(902); return a * 4 + y * 2 + z }
`

// render prints the expression; base is the number of leaves to the left.
func render(n *node, base int, sb *strings.Builder) {
	if n.Op == "leaf" {
		k := base + 1
		switch n.T {
		case tB:
			fmt.Fprintf(sb, "tb(%d, %v)", k, n.V != 0)
		case tI:
			fmt.Fprintf(sb, "ti(%d, %d)", k, n.V)
		case tO, tQ:
			f := "to"
			if n.T == tQ {
				f = "tq"
			}
			if n.V < 0 {
				fmt.Fprintf(sb, "%s(%d, nil)", f, k)
			} else {
				fmt.Fprintf(sb, "%s(%d, %d)", f, k, n.V)
			}
		}
		return
	}
	def := opByName[n.Op]
	parts := make([]any, len(n.Kids))
	for i, kid := range n.Kids {
		var s strings.Builder
		render(kid, base, &s)
		base += kid.NL
		parts[i] = s.String()
	}
	fmt.Fprintf(sb, def.Fmt, parts...)
}

func renderExpr(n *node, base int) string {
	var sb strings.Builder
	render(n, base, &sb)
	return sb.String()
}

// ---------------------------------------------------------------------------
// The definitional evaluator: left to right, exactly once, short-circuit.

type val struct {
	t   ty
	i   int64 // B: 0/1; I: value; O/Q: value when !nil
	nil bool
	s   string
}

type abortEval struct{ why string }

// outOfModel: the definitional evaluator (int64) cannot represent a value of this case.
type outOfModel struct{}

type evaluator struct{ log []int }

func (e *evaluator) abort(why string) { panic(abortEval{why}) }

func vI(i int64) val { return val{t: tI, i: i} }
func vB(b bool) val {
	if b {
		return val{t: tB, i: 1}
	}
	return val{t: tB}
}

func (v val) String() string {
	switch v.t {
	case tB:
		return strconv.FormatBool(v.i != 0)
	case tI:
		return strconv.FormatInt(v.i, 10)
	case tO:
		if v.nil {
			return "nil"
		}
		return strconv.FormatInt(v.i, 10)
	case tStr:
		return strconv.Quote(v.s)
	}
	return "?"
}

func sameVal(a, b val) bool { return a.nil == b.nil && (a.nil || a.i == b.i) && a.s == b.s }

// eval evaluates n; base is the number of leaves textually before n.
func (e *evaluator) eval(n *node, base int) val {
	if n.Op == "leaf" {
		e.log = append(e.log, base+1)
		switch n.T {
		case tO, tQ:
			return val{t: n.T, i: n.V, nil: n.V < 0}
		}
		return val{t: n.T, i: n.V}
	}
	kid := func(i int) val { // operand i, evaluated now
		b := base
		for _, k := range n.Kids[:i] {
			b += k.NL
		}
		return e.eval(n.Kids[i], b)
	}
	def := opByName[n.Op]
	switch n.Op {
	case "&&":
		if l := kid(0); l.i == 0 {
			return l
		}
		return kid(1)
	case "||":
		if l := kid(0); l.i != 0 {
			return l
		}
		return kid(1)
	case "??I", "??O":
		if l := kid(0); !l.nil {
			l.t = def.Res
			return l
		}
		return kid(1)
	case "?:B", "?:I", "?:O":
		if kid(0).i != 0 {
			return kid(1)
		}
		return kid(2)
	case "?.f":
		r := kid(0)
		return val{t: tO, i: r.i, nil: r.nil}
	case "?.m":
		r := kid(0)
		if r.nil {
			return val{t: tO, nil: true}
		}
		a := kid(1)
		e.log = append(e.log, 900)
		return val{t: tO, i: a.i*2 + r.i}
	}
	// every other form is strict: all operands, left to right, exactly once
	a := make([]val, len(n.Kids))
	for i := range n.Kids {
		a[i] = kid(i)
	}
	switch n.Op {
	case "I+":
		return vI(a[0].i + a[1].i)
	case "I-":
		return vI(a[0].i - a[1].i)
	case "I*":
		return vI(a[0].i * a[1].i)
	case "I/", "I%":
		if a[1].i == 0 {
			e.abort("division by zero")
		}
		if n.Op == "I/" {
			return vI(a[0].i / a[1].i) // truncated
		}
		return vI(a[0].i % a[1].i) // sign of the dividend
	case "I|":
		return vI(a[0].i | a[1].i)
	case "I&":
		return vI(a[0].i & a[1].i)
	case "I^":
		return vI(a[0].i ^ a[1].i)
	case "I<<", "I>>":
		if a[1].i < 0 {
			e.abort("negative shift")
		}
		if a[0].i != 0 && (a[1].i > 40 || a[0].i > 1<<20 || a[0].i < -(1<<20)) {
			panic(outOfModel{}) // the int64 model cannot represent the result: the case is dropped from the space
		}
		if a[1].i > 62 {
			return vI(0) // 0 << n, 0 >> n
		}
		if n.Op == "I<<" {
			return vI(a[0].i << uint(a[1].i))
		}
		return vI(a[0].i >> uint(a[1].i))
	case "I<":
		return vB(a[0].i < a[1].i)
	case "I<=":
		return vB(a[0].i <= a[1].i)
	case "I>":
		return vB(a[0].i > a[1].i)
	case "I>=":
		return vB(a[0].i >= a[1].i)
	case "I==", "B==", "O==", "Str==":
		return vB(sameVal(a[0], a[1]))
	case "I!=", "B!=", "O!=":
		return vB(!sameVal(a[0], a[1]))
	case "force", "as!":
		if a[0].nil {
			e.abort("nil")
		}
		return vI(a[0].i)
	case "as?":
		return a[0]
	case "as":
		return val{t: tO, i: a[0].i}
	case "neg":
		return vI(-a[0].i)
	case "not":
		return vB(a[0].i == 0)
	case "call2":
		e.log = append(e.log, 902)
		return vI(a[0].i*2 + a[1].i)
	case "call3":
		e.log = append(e.log, 902)
		return vI(a[0].i*4 + a[1].i*2 + a[2].i)
	case "arr":
		if a[2].i < 0 || a[2].i > 1 {
			e.abort("index out of bounds")
		}
		return a[a[2].i]
	case "dict1", "dict2":
		idx := a[len(a)-1]
		res := val{t: tO, nil: true}
		for i := 0; i+1 < len(a)-1; i += 2 { // a later entry with an equal key replaces the earlier one
			if a[i].i == idx.i {
				res = val{t: tO, i: a[i+1].i}
			}
		}
		return res
	case "member":
		return a[0]
	case "method":
		e.log = append(e.log, 900)
		return vI(a[1].i*2 + a[0].i)
	case "mkq":
		e.log = append(e.log, 903)
		return val{t: tQ, i: a[0].i, nil: a[0].nil}
	case "tmpl":
		return val{t: tStr, s: fmt.Sprintf("%d-%d", a[0].i, a[1].i)}
	}
	panic("evaluator: unknown op " + n.Op)
}

// predictExpr runs the evaluator on one tree.
func predictExpr(n *node, base int, e *evaluator) (v val, aborted bool, why string) {
	defer func() {
		if p := recover(); p != nil {
			if a, ok := p.(abortEval); ok {
				aborted, why = true, a.why
				return
			}
			panic(p)
		}
	}()
	return e.eval(n, base), false, ""
}

// ---------------------------------------------------------------------------
// Enumeration.

var leafVals = map[ty][]int64{tB: {0, 1}, tI: {0, 1}, tO: {-1, 1}, tQ: {-1, 1}}

// treeSet enumerates trees by type and depth.
type treeSet struct {
	byDepth map[int]map[ty][]*node // trees of depth exactly d
}

// genTrees builds all trees of depth <= maxDepth where: the root of a tree of
// depth 1 may be any operator; every operator with operator children (depth
// >= 2) and every non-root operator is a class representative; at most
// maxInner children of a node are non-leaves (0 = no limit).
func leavesOf(t ty) []*node {
	var out []*node
	for _, v := range leafVals[t] {
		out = append(out, leaf(t, v))
	}
	return out
}

// product calls f with every combination of one element per set.
func product(sets [][]*node, f func(kids []*node)) {
	cur := make([]*node, len(sets))
	var rec func(i int)
	rec = func(i int) {
		if i == len(sets) {
			f(append([]*node(nil), cur...))
			return
		}
		for _, n := range sets[i] {
			cur[i] = n
			rec(i + 1)
		}
	}
	rec(0)
}

// depth1 returns every single-operator tree over leaves; reps restricts the
// operators to class representatives.
func depth1(reps bool) map[ty][]*node {
	out := map[ty][]*node{}
	for i := range ops {
		o := &ops[i]
		if reps && !o.Rep {
			continue
		}
		sets := make([][]*node, len(o.Args))
		ok := true
		for j, a := range o.Args {
			sets[j] = leavesOf(a)
			if len(sets[j]) == 0 {
				ok = false
			}
		}
		if !ok {
			continue
		}
		product(sets, func(kids []*node) { out[o.Res] = append(out[o.Res], mk(o.Name, o.Res, kids...)) })
	}
	return out
}

// nested enumerates the trees whose root is a class representative and whose
// children are drawn from sub (the deeper sets) or leaves, with at least one
// child from sub and at most maxInner children from sub (0 = no limit).
func nested(sub map[ty][]*node, maxInner int, emit func(*node)) {
	for i := range ops {
		o := &ops[i]
		if !o.Rep {
			continue
		}
		n := len(o.Args)
		for mask := 1; mask < 1<<n; mask++ {
			inner := 0
			for j := 0; j < n; j++ {
				if mask>>j&1 == 1 {
					inner++
				}
			}
			if maxInner > 0 && inner > maxInner {
				continue
			}
			sets := make([][]*node, n)
			ok := true
			for j, a := range o.Args {
				if mask>>j&1 == 1 {
					sets[j] = sub[a]
				} else {
					sets[j] = leavesOf(a)
				}
				if len(sets[j]) == 0 {
					ok = false
				}
			}
			if !ok {
				continue
			}
			product(sets, func(kids []*node) {
				if illTyped(o.Name, kids) {
					return
				}
				emit(mk(o.Name, o.Res, kids...))
			})
		}
	}
}

// illTyped lists nestings the checker refuses although both operands have
// the right types (contextual typing pushes the non-optional expected type of
// the right operand of `??` into the branches of a conditional). They are not
// in the space.
func illTyped(op string, kids []*node) bool {
	return op == "??O" && kids[1].Op == "?:O"
}

// shape names the operators of a tree down to depth 2 (signature material).
func shape(n *node, depth int) string {
	if n.Op == "leaf" {
		return "_"
	}
	if depth <= 1 {
		return n.Op
	}
	parts := make([]string, len(n.Kids))
	all := true
	for i, k := range n.Kids {
		parts[i] = shape(k, depth-1)
		if parts[i] != "_" {
			all = false
		}
	}
	if all {
		return n.Op
	}
	return n.Op + "(" + strings.Join(parts, ",") + ")"
}

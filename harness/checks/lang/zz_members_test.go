package lang

import (
	"fmt"
	"sort"
	"testing"

	"github.com/onflow/cadence/ast"
	"github.com/onflow/cadence/sema"
)

func TestMembers(t *testing.T) {
	types := []sema.Type{
		&sema.VariableSizedType{Type: sema.IntType},
		&sema.ConstantSizedType{Type: sema.IntType, Size: 3},
		&sema.DictionaryType{KeyType: sema.StringType, ValueType: sema.IntType},
		sema.StringType,
		sema.AccountType, sema.Account_StorageType, sema.Account_CapabilitiesType, sema.Account_StorageCapabilitiesType,
		sema.Account_AccountCapabilitiesType, sema.Account_ContractsType, sema.Account_KeysType, sema.Account_InboxType,
		sema.StorageCapabilityControllerType, sema.AccountCapabilityControllerType,
		&sema.CapabilityType{BorrowType: &sema.ReferenceType{Type: sema.IntType, Authorization: sema.UnauthorizedAccess}},
	}
	for _, ty := range types {
		m := ty.GetMembers()
		var names []string
		for n := range m {
			names = append(names, n)
		}
		sort.Strings(names)
		fmt.Println("==", ty.QualifiedString())
		for _, n := range names {
			mem := m[n].Resolve(nil, n, ast.EmptyRange, func(error) {})
			if mem == nil { continue }
			if ft, ok := mem.TypeAnnotation.Type.(*sema.FunctionType); ok {
				fmt.Printf("   %-28s purity=%v %s\n", n, ft.Purity, ft.QualifiedString())
			}
		}
	}
}

package lang

import (
	"fmt"
	"strings"
)

// Statement forms of C52. Every form has typed slots that are filled with
// small logging expression trees; predict says in which order the slots are
// evaluated and what the statement does.

type outcome struct {
	Log    []int    `json:"log"`
	Abort  bool     `json:"abort"`
	Value  string   `json:"value,omitempty"`
	Events []string `json:"events,omitempty"`
}

func (o outcome) key() string {
	return fmt.Sprintf("%v|%v|%s|%v", o.Log, o.Abort, o.Value, o.Events)
}

// sx is the evaluation context handed to a form's predict function.
type sx struct {
	e     evaluator
	slots []*node
	bases []int
	// late is a bit mask over "bounds check sites": bit i set = the i-th
	// index's bounds failure is detected only when the statement finally reads
	// or writes the element (after all operands were evaluated) instead of
	// when the index has just been evaluated. The property fixes the order of
	// operand evaluation, not the moment an out-of-range index is reported, so
	// every combination is accepted (but both engines must take the same one).
	late    uint
	site    uint
	pending bool
	events  []string
}

func (s *sx) ev(i int) val { return s.e.eval(s.slots[i], s.bases[i]) }
func (s *sx) log(k int)    { s.e.log = append(s.e.log, k) }

// index registers a bounds check of idx against [0,n).
func (s *sx) index(idx int64, n int) {
	site := s.site
	s.site++
	if idx >= 0 && idx < int64(n) {
		return
	}
	if s.late>>site&1 == 1 {
		s.pending = true
		return
	}
	s.e.abort("index out of bounds")
}

// flag consumes one more bit of the alternatives mask (a documented don't-care choice).
func (s *sx) flag() bool {
	site := s.site
	s.site++
	return s.late>>site&1 == 1
}

// access is the point where the element is finally read or written.
func (s *sx) access() {
	if s.pending {
		s.e.abort("index out of bounds (late)")
	}
}

type stmtForm struct {
	Name  string
	Slots []ty
	Sites int    // number of bounds-check sites (2^Sites alternatives are accepted)
	Decl  string // declaration text; %[1]s = case function name, %[2]s.. = slots
	Pred  func(s *sx) string
}

func arr2String(a [][]int64) string {
	rows := make([]string, len(a))
	for i, r := range a {
		rows[i] = arr1String(r)
	}
	return "[" + strings.Join(rows, ", ") + "]"
}

func arr1String(a []int64) string {
	el := make([]string, len(a))
	for i, v := range a {
		el[i] = fmt.Sprint(v)
	}
	return "[" + strings.Join(el, ", ") + "]"
}

const c52StmtPrelude = `
access(all) event E(a: Int, b: Int)
access(all) resource R {
  access(all) let a: Int
  access(all) let b: Int
  init(a: Int, b: Int) { log(901); self.a = a; self.b = b }
}
access(all) fun take(_ r: @R, _ c: Int): Int { log(904); let v = r.a * 4 + r.b * 2 + c; destroy r; return v }
`

var stmtForms = []stmtForm{
	{
		Name: "assign-index-index", Slots: []ty{tI, tI, tI}, Sites: 2,
		Decl: `access(all) fun %[1]s(): AnyStruct { var a = [[1,2,3],[4,5,6],[7,8,9]]; a[%[2]s][%[3]s] = %[4]s; return a }`,
		Pred: func(s *sx) string {
			a := [][]int64{{1, 2, 3}, {4, 5, 6}, {7, 8, 9}}
			i := s.ev(0).i
			s.index(i, 3)
			j := s.ev(1).i
			s.index(j, 3)
			v := s.ev(2).i // the transferred value comes after every target sub-expression
			s.access()
			a[i][j] = v
			return arr2String(a)
		},
	},
	{
		Name: "assign-index-member", Slots: []ty{tI, tI}, Sites: 1,
		Decl: `access(all) struct T%[1]s { access(all) var f: Int; init(_ f: Int) { self.f = f }
  access(all) fun go(): AnyStruct { var hs = [T%[1]s(10), T%[1]s(20)]; hs[%[2]s].f = %[3]s; return [hs[0].f, hs[1].f] } }
access(all) fun %[1]s(): AnyStruct { return T%[1]s(0).go() }`,
		Pred: func(s *sx) string {
			a := []int64{10, 20}
			i := s.ev(0).i
			s.index(i, 2)
			v := s.ev(1).i
			s.access()
			a[i] = v
			return arr1String(a)
		},
	},
	{
		Name: "assign-dict", Slots: []ty{tI, tI},
		Decl: `access(all) fun %[1]s(): AnyStruct { var d: {Int: Int} = {0: 7}; d[%[2]s] = %[3]s; return [d[-1], d[0], d[1], d[2]] }`,
		Pred: func(s *sx) string {
			d := map[int64]int64{0: 7}
			k := s.ev(0).i
			v := s.ev(1).i
			d[k] = v
			el := make([]string, 4)
			for i := range el {
				if x, ok := d[int64(i-1)]; ok {
					el[i] = fmt.Sprint(x)
				} else {
					el[i] = "nil"
				}
			}
			return "[" + strings.Join(el, ", ") + "]"
		},
	},
	{
		Name: "assign-through-reference", Slots: []ty{tI, tI}, Sites: 1,
		Decl: `access(all) fun %[1]s(): AnyStruct { var a = [1,2,3]; let r = &a as auth(Mutate) &[Int]; r[%[2]s] = %[3]s; return a }`,
		Pred: func(s *sx) string {
			a := []int64{1, 2, 3}
			i := s.ev(0).i
			s.index(i, 3)
			v := s.ev(1).i
			s.access()
			a[i] = v
			return arr1String(a)
		},
	},
	{
		Name: "swap-index-index", Slots: []ty{tI, tI, tI, tI}, Sites: 4,
		Decl: `access(all) fun %[1]s(): AnyStruct { var a = [[1,2,3],[4,5,6],[7,8,9]]; a[%[2]s][%[3]s] <-> a[%[4]s][%[5]s]; return a }`,
		Pred: func(s *sx) string {
			a := [][]int64{{1, 2, 3}, {4, 5, 6}, {7, 8, 9}}
			i := s.ev(0).i
			s.index(i, 3)
			j := s.ev(1).i
			s.index(j, 3)
			k := s.ev(2).i
			s.index(k, 3)
			l := s.ev(3).i
			s.index(l, 3)
			s.access()
			a[i][j], a[k][l] = a[k][l], a[i][j]
			return arr2String(a)
		},
	},
	{
		Name: "swap-index-member", Slots: []ty{tI, tI}, Sites: 3,
		Decl: `access(all) struct T%[1]s { access(all) var f: Int; init(_ f: Int) { self.f = f }
  access(all) fun go(): AnyStruct { var hs = [T%[1]s(10), T%[1]s(20)]; hs[%[2]s].f <-> hs[%[3]s].f; return [hs[0].f, hs[1].f] } }
access(all) fun %[1]s(): AnyStruct { return T%[1]s(0).go() }`,
		Pred: func(s *sx) string {
			a := []int64{10, 20}
			i := s.ev(0).i
			s.index(i, 2)
			j := s.ev(1).i
			s.index(j, 2)
			selfSwapFails := s.flag()
			s.access()
			if i == j && selfSwapFails {
				// Don't-care: swapping a field with itself (`x.f <-> x.f`) aborts in both engines at the pinned
				// snapshot ("member f is used before it has been initialized") after all operands were evaluated.
				// The sentence speaks about the order of operand evaluation, not about the effect of a self-swap,
				// so both "no-op" and "abort after the operands" are accepted (engines must agree).
				s.e.abort("self-swap of a member")
			}
			a[i], a[j] = a[j], a[i]
			return arr1String(a)
		},
	},
	{
		Name: "if-let", Slots: []ty{tO, tI, tI},
		Decl: `access(all) fun %[1]s(): AnyStruct { if let x = %[2]s { return [x, %[3]s] }; return [-5, %[4]s] }`,
		Pred: func(s *sx) string {
			o := s.ev(0) // evaluated exactly once, then exactly one branch
			if !o.nil {
				return arr1String([]int64{o.i, s.ev(1).i})
			}
			return arr1String([]int64{-5, s.ev(2).i})
		},
	},
	{
		Name: "create-arguments", Slots: []ty{tI, tI},
		Decl: `access(all) fun %[1]s(): AnyStruct { let r <- create R(a: %[2]s, b: %[3]s); let v = r.a * 2 + r.b; destroy r; return v }`,
		Pred: func(s *sx) string {
			a := s.ev(0).i
			b := s.ev(1).i
			s.log(901)
			return fmt.Sprint(a*2 + b)
		},
	},
	{
		Name: "emit-arguments", Slots: []ty{tI, tI},
		Decl: `access(all) fun %[1]s(): AnyStruct { emit E(a: %[2]s, b: %[3]s); return 0 }`,
		Pred: func(s *sx) string {
			a := s.ev(0).i
			b := s.ev(1).i
			s.events = append(s.events, fmt.Sprintf("E(a: %d, b: %d)", a, b))
			return "0"
		},
	},
	{
		Name: "call-with-moved-create", Slots: []ty{tI, tI, tI},
		Decl: `access(all) fun %[1]s(): AnyStruct { return take(<- create R(a: %[2]s, b: %[3]s), %[4]s) }`,
		Pred: func(s *sx) string {
			a := s.ev(0).i
			b := s.ev(1).i
			s.log(901)
			c := s.ev(2).i
			s.log(904)
			return fmt.Sprint(a*4 + b*2 + c)
		},
	},
}

var cadenceType = map[ty]string{tB: "Bool", tI: "Int", tO: "Int?", tQ: "S?", tStr: "String"}

var stmtFormByName = map[string]*stmtForm{}

func init() {
	for i := range stmtForms {
		stmtFormByName[stmtForms[i].Name] = &stmtForms[i]
	}
}

// c52Case is one judged case: an expression ("expr", one slot) or a statement form.
type c52Case struct {
	Form  string  `json:"form"`
	Slots []*node `json:"slots"`
}

func (c *c52Case) bases() []int {
	b := make([]int, len(c.Slots))
	n := 0
	for i, s := range c.Slots {
		b[i] = n
		n += s.NL
	}
	return b
}

func (c *c52Case) leaves() int {
	n := 0
	for _, s := range c.Slots {
		n += s.NL
	}
	return n
}

// decl renders the declarations of the case; the entry point is fun <fn>(): AnyStruct.
func (c *c52Case) decl(fn string) string {
	bases := c.bases()
	if c.Form == "expr" {
		return fmt.Sprintf("access(all) fun %s(): %s { return %s }", fn, cadenceType[c.Slots[0].T], renderExpr(c.Slots[0], 0))
	}
	f := stmtFormByName[c.Form]
	args := []any{fn}
	for i, s := range c.Slots {
		args = append(args, renderExpr(s, bases[i]))
	}
	return fmt.Sprintf(f.Decl, args...)
}

// predict returns the acceptable outcomes (more than one only where the
// moment of a bounds failure is not fixed by the property).
func (c *c52Case) predict() (res []outcome) {
	run := func(late uint) (o outcome) {
		s := &sx{slots: c.Slots, bases: c.bases(), late: late}
		defer func() {
			if p := recover(); p != nil {
				if _, ok := p.(abortEval); ok {
					o = outcome{Log: s.e.log, Abort: true, Events: s.events}
					return
				}
				panic(p)
			}
		}()
		var v string
		if c.Form == "expr" {
			v = s.e.eval(c.Slots[0], 0).String()
		} else {
			v = stmtFormByName[c.Form].Pred(s)
		}
		return outcome{Log: s.e.log, Value: v, Events: s.events}
	}
	sites := 0
	if c.Form != "expr" {
		sites = stmtFormByName[c.Form].Sites
	}
	var out []outcome
	defer func() {
		if p := recover(); p != nil {
			if _, ok := p.(outOfModel); ok {
				res = nil // not in the space
				return
			}
			panic(p)
		}
	}()
	seen := map[string]bool{}
	for late := uint(0); late < 1<<sites; late++ {
		o := run(late)
		if k := o.key(); !seen[k] {
			seen[k] = true
			out = append(out, o)
		}
	}
	return out
}

// sig is the structural class of the case for violation signatures.
func (c *c52Case) sig() string {
	if c.Form == "expr" {
		return "expr:" + shape(c.Slots[0], 2)
	}
	parts := make([]string, len(c.Slots))
	for i, s := range c.Slots {
		parts[i] = shape(s, 1)
	}
	return c.Form + "[" + strings.Join(parts, ",") + "]"
}

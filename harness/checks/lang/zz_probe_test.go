package lang

import (
	"fmt"
	"os"
	"strings"
	"testing"

	"github.com/onflow/cadence/common"
	"verif/rt"
)

// go test -run Probe with PROBE=file[,file...]; file may start with "//contract Name" lines? no: files named *.contract.cdc deployed first as contract named by first word after "contract".
func TestProbe(t *testing.T) {
	files := strings.Split(os.Getenv("PROBE"), ",")
	for _, vm := range []bool{false, true} {
		l := rt.NewLedger()
		for _, f := range files {
			b, err := os.ReadFile(f)
			if err != nil {
				t.Fatal(err)
			}
			src := string(b)
			if strings.HasSuffix(f, ".contract.cdc") {
				i := strings.Index(src, "contract ")
				name := strings.Fields(src[i+9:])[0]
				name = strings.TrimRight(name, ":{")
				func() {
					defer func() {
						if p := recover(); p != nil {
							fmt.Printf("[vm=%v] DEPLOY %s FAILED: %v\n", vm, name, p)
						}
					}()
					rt.Deploy(l, rt.Addr(1), name, src, vm)
				}()
				continue
			}
			script := !strings.Contains(src, "transaction")
			r := rt.Run(l, rt.Tx{Source: src, Script: script, UseVM: vm, Signers: []common.Address{rt.Addr(1)}})
			fmt.Printf("[vm=%v] %s class=%s kind=%s\n  value=%v\n  logs=%v\n  events=%v\n  writes=%d\n  err=%s\n", vm, f, r.Class, r.Kind, r.Value, r.Logs, rt.EventStrings(r.Events), len(r.Writes), r.ErrString())
		}
	}
}

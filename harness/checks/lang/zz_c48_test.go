package lang

import (
	"fmt"
	"testing"
)

func TestC48Dbg(t *testing.T) {
	for _, d := range []*c48Destroy{
		{Kind: "nest", Shape: "root(att)"},
		{Kind: "nest", Shape: "root(field(att))"},
		{Kind: "forms", Shape: "base-field", Forms: []string{"base-field"}},
	} {
		cls, det := d.judge()
		fmt.Println(d.Shape, "=>", cls, det)
	}
}

// Package lang holds the language-semantics checks C52 (evaluation order),
// C10 (conditions), C07 (view purity, dynamic oracle) and C48 (events).
package lang

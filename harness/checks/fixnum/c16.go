package fixnum

import (
	"encoding/json"
	"fmt"
	"math/big"
	"strings"

	"github.com/onflow/cadence/interpreter"

	"verif/mc"
	"verif/num"
)

// C16 — numeric conversions preserve value or fail.
//
// Property sentence (the law):
//   "Converting any number to an integer or fixed-point type (as in `UInt8(x)` or `Fix64(x)`)
//    yields the same mathematical value when it is representable, truncating excess fractional
//    digits toward zero, or rounding them by the given rounding rule when one is passed.
//    Otherwise it fails with an overflow or underflow error, except that conversion to a Word
//    type reduces the integer part modulo 2^n."
//
// Reference: source value v = rawS / 10^scaleS; at the target's scale y = v * 10^scaleT.
//   Word target:   trunc(v) mod 2^n, never fails.
//   other target:  r = y with its excess fractional digits truncated toward zero (or rounded by
//                  the rule).  min <= y <= max  =>  must return r.
//                  r outside [min,max]        =>  must fail with overflow or underflow.
//   DON'T-CARE cell: y itself lies outside [min,max] but by less than one unit, so that r is
//                  inside (UInt8(-0.5), Fix64(Fix128 just above Fix64.max), UInt(-0.3)).  The
//                  sentence can be read "the value is not representable => fails" as well as
//                  "truncate, then the truncated value is representable => yield it"; both the
//                  value r and an overflow/underflow failure are accepted, and counted.

type c16Case struct {
	Layer  string `json:"layer"` // "direct" | "script"
	Engine string `json:"engine,omitempty"`
	Target string `json:"target"`
	Source string `json:"source"`
	X      string `json:"x"`              // raw (scaled) source value
	Rule   string `json:"rule,omitempty"` // "" = converter called without rounding argument
}

func c16Expect(s *num.Type, x *big.Int, t *num.Type, rule string) (exp expectation, dontCare bool) {
	sOne := pow10(s.Scale)
	tOne := pow10(t.Scale)
	neg := x.Sign() < 0
	sign := func(c string) string {
		if neg {
			return c + "-neg"
		}
		return c + "-pos"
	}
	if t.Kind == num.Word {
		ip, inexact, _ := roundQuo(x, sOne, "") // integer part, toward zero
		want := new(big.Int).Mod(ip, new(big.Int).Lsh(bigOne, uint(t.Bits)))
		class, sig := "word-in-range", "word-exact"
		if !t.InRange(ip) {
			class = "word-reduced"
		}
		if inexact {
			class = sign(class + "-fraction-dropped")
			sig = sign("word-frac")
		}
		return expectation{kind: wantValue, val: want, class: class, sig: sig}, false
	}
	numr := new(big.Int).Mul(x, tOne) // y = numr / sOne
	r, inexact, tie := roundQuo(numr, sOne, rule)
	exactIn := (t.Min == nil || numr.Cmp(new(big.Int).Mul(t.Min, sOne)) >= 0) &&
		(t.Max == nil || numr.Cmp(new(big.Int).Mul(t.Max, sOne)) <= 0)
	switch {
	case exactIn:
		// signature class: sign of the source and whether fractional digits were dropped;
		// "-to-zero" when a non-zero value becomes zero (ties are not distinguished)
		class, sig := "exact", "exact"
		if inexact {
			class = "inexact"
			if tie {
				class = "tie"
			}
			class, sig = sign(class), sign("frac")
			if r.Sign() == 0 {
				class += "-to-zero"
				sig += "-to-zero"
			}
		}
		return expectation{kind: wantValue, val: r, class: class, sig: sig}, false
	case t.InRange(r):
		return expectation{kind: wantValueOrFail, val: r, class: sign("dontcare-outside-by-fraction")}, true
	case t.Max != nil && r.Cmp(t.Max) > 0:
		return expectation{kind: wantRangeFail, val: r, class: "out-of-range-high"}, false
	default:
		return expectation{kind: wantRangeFail, val: r, class: "out-of-range-low"}, false
	}
}

type c16Decl struct {
	t    *num.Type
	decl interpreter.ValueConverterDeclaration
}

// c16Decls: the numeric entries of interpreter.ConverterDeclarations (Address and
// the path converters are not numeric targets).
func c16Decls() (out []c16Decl, skipped []string) {
	for _, d := range interpreter.ConverterDeclarations {
		t := num.ByName[d.Name]
		if t == nil {
			skipped = append(skipped, d.Name)
			continue
		}
		out = append(out, c16Decl{t, d})
	}
	return
}

func c16DeclFor(name string) (c16Decl, bool) {
	ds, _ := c16Decls()
	for _, d := range ds {
		if d.t.Name == name {
			return d, true
		}
	}
	return c16Decl{}, false
}

func c16CallDirect(inter *interpreter.Interpreter, d c16Decl, s *num.Type, x *big.Int, rule string) outcome {
	v := s.Make(x)
	return guard(inter, func() interpreter.Value {
		if rule == "" {
			return d.decl.Convert(inter, v)
		}
		r, ok := ruleByName(rule)
		if !ok {
			panic("unknown rule " + rule)
		}
		return d.decl.ConvertWithRounding(inter, v, r.Mode)
	})
}

func sourceLattice(s *num.Type, thorough bool) []*big.Int {
	if s.IsFixed() {
		return fixedLattice(s, thorough)
	}
	return num.Lattice(s, thorough)
}

// boundaryPoints: source values at and around the bounds of the target: for each
// bound B of t and each k in {-1, -1/2, 0, +1/2, +1} target units, the source raw
// values floor((B + k units) * 10^scaleS) + {-1, 0, +1}; additionally, where the
// source has more fractional digits than the target (U = 10^(scaleS-scaleT) > 1),
// the tie-shaped values (+-)(j*U + {0, 1, U/2-1, U/2, U/2+1, U-1}) for j = 0..3.
func boundaryPoints(s, t *num.Type) []*big.Int {
	set := map[string]*big.Int{}
	put := func(x *big.Int) {
		if s.InRange(x) {
			set[x.String()] = new(big.Int).Set(x)
		}
	}
	sOne, tOne := pow10(s.Scale), pow10(t.Scale)
	for _, b := range []*big.Int{t.Min, t.Max} {
		if b == nil {
			continue
		}
		for _, halfUnits := range []int64{-2, -1, 0, 1, 2} {
			// p = (2b + halfUnits) / (2 * tOne); source raw = floor(p * sOne)
			n := new(big.Int).Lsh(b, 1)
			n.Add(n, big.NewInt(halfUnits))
			n.Mul(n, sOne)
			den := new(big.Int).Lsh(tOne, 1)
			fl := new(big.Int).Div(n, den) // den > 0: Euclidean = floor
			for d := int64(-1); d <= 1; d++ {
				put(new(big.Int).Add(fl, big.NewInt(d)))
			}
		}
	}
	if s.Scale > t.Scale {
		u := pow10(s.Scale - t.Scale)
		h := new(big.Int).Rsh(u, 1)
		offs := []*big.Int{big.NewInt(0), big.NewInt(1), new(big.Int).Sub(h, bigOne), h, new(big.Int).Add(h, bigOne), new(big.Int).Sub(u, bigOne)}
		for j := int64(0); j <= 3; j++ {
			base := new(big.Int).Mul(u, big.NewInt(j))
			for _, o := range offs {
				x := new(big.Int).Add(base, o)
				put(x)
				put(new(big.Int).Neg(x))
			}
		}
	}
	return sortedSet(set)
}

// reducedSource: the handful of generic source values of the script layer.
func reducedSource(s *num.Type) []*big.Int {
	set := map[string]*big.Int{}
	put := func(x *big.Int) {
		if x != nil && s.InRange(x) {
			set[x.String()] = new(big.Int).Set(x)
		}
	}
	one := pow10(s.Scale)
	put(big.NewInt(0))
	put(s.Min)
	put(s.Max)
	for _, k := range []int64{1, 2, 255, 256} {
		v := new(big.Int).Mul(one, big.NewInt(k))
		put(v)
		put(new(big.Int).Neg(v))
	}
	if s.IsFixed() {
		put(big.NewInt(1))
		put(big.NewInt(-1))
		h := new(big.Int).Rsh(one, 1)
		for _, k := range []int64{0, 1, 2} { // 0.5, 1.5, 2.5
			v := new(big.Int).Add(h, new(big.Int).Mul(one, big.NewInt(k)))
			put(v)
			put(new(big.Int).Neg(v))
		}
	}
	if s.Bits == 0 {
		p := new(big.Int).Lsh(bigOne, 256)
		put(p)
		put(new(big.Int).Neg(p))
		put(new(big.Int).Add(p, big.NewInt(255)))
		put(new(big.Int).Neg(new(big.Int).Add(p, bigOne)))
	}
	return sortedSet(set)
}

func union(a, b []*big.Int) []*big.Int {
	set := map[string]*big.Int{}
	for _, x := range a {
		set[x.String()] = x
	}
	for _, x := range b {
		set[x.String()] = x
	}
	return sortedSet(set)
}

func c16Site(cs c16Case) string {
	site := cs.Target + "(" + cs.Source
	if cs.Rule != "" {
		site += ",rounding"
	}
	site += ")"
	if cs.Layer == "script" {
		site = "script/" + cs.Engine + ":" + site
	}
	return site
}

// c16Sig: converter call site, kind of disagreement, structural class of the input.
// "-to-zero" is kept only for spurious failures (a non-zero value that becomes zero
// is a class of its own there); wrong values are keyed by sign and dropped fraction.
func c16Sig(cs c16Case, bad string, exp expectation) string {
	class := exp.sigClass()
	if bad != "spurious-failure" {
		class = strings.TrimSuffix(class, "-to-zero")
	}
	return c16Site(cs) + "|" + bad + "|" + class
}

func c16Detail(cs c16Case, s *num.Type, d string) string {
	x := bi(cs.X)
	shown := x.String()
	if s.IsFixed() {
		shown = fixedLiteral(x, s.Scale)
	}
	where := cs.Layer
	if cs.Engine != "" {
		where += "/" + cs.Engine
	}
	r := ""
	if cs.Rule != "" {
		r = ", rounding: RoundingRule." + cs.Rule
	}
	return fmt.Sprintf("[%s] %s(%s as %s%s): %s", where, cs.Target, shown, cs.Source, r, d)
}

func c16Expr(s *num.Type, x *big.Int, t *num.Type, rule string) string {
	e := t.Name + "(" + literal(s, x)
	if rule != "" {
		e += ", rounding: RoundingRule." + rule
	}
	return e + ")"
}

func c16Rules(d c16Decl) []string {
	rules := []string{""}
	if d.decl.ConvertWithRounding != nil {
		for _, r := range Rules() {
			rules = append(rules, r.Name)
		}
	}
	return rules
}

func runC16(env *mc.Env) {
	sigs := newSigLog()
	defer sigs.publish(env)
	decls, skipped := c16Decls()
	env.R.Set("converter_declarations", map[string]any{"numeric": len(decls), "non_numeric_skipped": skipped, "total": len(interpreter.ConverterDeclarations)})
	if len(decls) != len(num.Types) {
		// a numeric type without converter (or the reverse) is a harness/model mismatch, not a C16 verdict
		env.R.HarnessError("numeric converter declarations: %d, numeric types known to the harness: %d", len(decls), len(num.Types))
	}
	withRounding := 0
	for _, d := range decls {
		if d.decl.ConvertWithRounding != nil {
			withRounding++
		}
	}
	env.R.Set("targets_with_rounding_converter", withRounding)

	// ---- direct layer
	type job struct {
		d c16Decl
		s *num.Type
	}
	var jobs []job
	for _, d := range decls {
		for _, s := range num.Types {
			jobs = append(jobs, job{d, s})
		}
	}
	srcLat := map[string][]*big.Int{}
	for _, s := range num.Types {
		srcLat[s.Name] = sourceLattice(s, env.Thorough())
	}
	mc.ParallelFor(env, len(jobs), func(i int) {
		j := jobs[i]
		inter := newInter()
		xs := union(srcLat[j.s.Name], boundaryPoints(j.s, j.d.t))
		classes := map[string]int64{}
		var n, dc int64
		for _, x := range xs {
			for _, rule := range c16Rules(j.d) {
				exp, dontCare := c16Expect(j.s, x, j.d.t, rule)
				res := c16CallDirect(inter, j.d, j.s, x, rule)
				n++
				cs := c16Case{Layer: "direct", Target: j.d.t.Name, Source: j.s.Name, X: x.String(), Rule: rule}
				bad, detail := judge(exp, j.d.t.Name, obsDirect(res))
				if bad != "" {
					sigs.violation(env, c16Sig(cs, bad, exp), cs, c16Detail(cs, j.s, detail))
					continue
				}
				class := exp.class
				if dontCare {
					dc++
					if res.err == "" {
						class += "(returned)"
					} else {
						class += "(failed)"
					}
				}
				classes[class]++
				if class != "exact" && class != "word-in-range" {
					env.R.Nontrivial(fmt.Sprintf("%s|%s|%s|%s", c16Site(cs), class, x, rule))
				}
			}
		}
		env.R.EvalN(n)
		env.R.DontCare.Add(dc)
		for k, v := range classes {
			kk := k
			jj := j
			env.R.Class(kk, func() any { return fmt.Sprintf("%s <- %s (first pair showing the class)", jj.d.t.Name, jj.s.Name) })
			env.R.ClassN(kk, v-1)
		}
	})

	// ---- script layer (both engines): boundary points + a reduced generic set
	type sjob struct {
		d  c16Decl
		s  *num.Type
		vm bool
	}
	var sjobs []sjob
	for _, d := range decls {
		for _, s := range num.Types {
			for _, vm := range []bool{false, true} {
				sjobs = append(sjobs, sjob{d, s, vm})
			}
		}
	}
	mc.ParallelFor(env, len(sjobs), func(i int) {
		j := sjobs[i]
		xs := union(reducedSource(j.s), boundaryPoints(j.s, j.d.t))
		if len(xs) > 48 && !env.Thorough() {
			// quick tier: keep the script layer small for the 128-bit fixed-point sources
			// (the direct layer has the full set); drop every other tie-shaped value
			var keep []*big.Int
			red := map[string]bool{}
			for _, x := range reducedSource(j.s) {
				red[x.String()] = true
			}
			for k, x := range xs {
				if red[x.String()] || k%2 == 0 {
					keep = append(keep, x)
				}
			}
			xs = keep
		}
		var items []scriptItem
		var cases []c16Case
		var exps []expectation
		var dcs []bool
		for _, x := range xs {
			for _, rule := range c16Rules(j.d) {
				exp, dontCare := c16Expect(j.s, x, j.d.t, rule)
				items = append(items, scriptItem{Expr: c16Expr(j.s, x, j.d.t, rule), ExpectOK: exp.kind == wantValue})
				cases = append(cases, c16Case{Layer: "script", Engine: engineName(j.vm), Target: j.d.t.Name, Source: j.s.Name, X: x.String(), Rule: rule})
				exps = append(exps, exp)
				dcs = append(dcs, dontCare)
			}
		}
		results, scripts := runExprs(j.vm, j.d.t.Name, items)
		env.R.Add("scripts_executed", int64(scripts))
		env.R.EvalN(int64(len(items)))
		for k, cs := range cases {
			bad, detail := judge(exps[k], j.d.t.Name, obsScript(results[k]))
			if bad != "" {
				if r := oneScript(j.vm, j.s.Name, literal(j.s, bi(cs.X))); !r.ok || r.val.Cmp(bi(cs.X)) != 0 {
					env.R.HarnessError("C16 script layer: source literal %s did not evaluate to raw %s: %s", literal(j.s, bi(cs.X)), cs.X, r)
					continue
				}
				sigs.violation(env, c16Sig(cs, bad, exps[k]), cs, c16Detail(cs, j.s, detail+" ; expression: "+items[k].Expr))
				continue
			}
			class := "script/" + cs.Engine + ":" + exps[k].class
			if dcs[k] {
				env.R.DontCare.Add(1)
				if results[k].ok {
					class += "(returned)"
				} else {
					class += "(failed)"
				}
			}
			cc := cs
			env.R.Class(class, func() any { return cc })
			if exps[k].class != "exact" && exps[k].class != "word-in-range" {
				env.R.Nontrivial(fmt.Sprintf("%s|%s|%s|%s", c16Site(cs), class, cs.X, cs.Rule))
			}
		}
	})
}

func replayC16(env *mc.Env, raw json.RawMessage) (bool, string) {
	var cs c16Case
	if err := json.Unmarshal(raw, &cs); err != nil {
		return false, err.Error()
	}
	s, t := num.ByName[cs.Source], num.ByName[cs.Target]
	d, ok := c16DeclFor(cs.Target)
	if s == nil || t == nil || !ok {
		return false, "unknown type in case"
	}
	x := bi(cs.X)
	exp, _ := c16Expect(s, x, t, cs.Rule)
	var o observation
	if cs.Layer == "script" {
		o = obsScript(oneScript(cs.Engine == "vm", t.Name, c16Expr(s, x, t, cs.Rule)))
	} else {
		if cs.Rule != "" && d.decl.ConvertWithRounding == nil {
			return false, "no rounding converter for " + cs.Target
		}
		o = obsDirect(c16CallDirect(newInter(), d, s, x, cs.Rule))
	}
	bad, detail := judge(exp, t.Name, o)
	return bad != "", c16Detail(cs, s, fmt.Sprintf("%s [%s %s]", detail, bad, exp.class))
}

func init() {
	mc.Register(&mc.Check{
		ID: "C16",
		Rule: "direct layer: every numeric entry of interpreter.ConverterDeclarations (all 24 numeric targets; the Address and path entries are skipped) x every source numeric type (24) x source values B(source) (complete for 8-bit sources; fixed-point lattice for fixed-point sources) united with the points at and around each target bound (bound + {-1,-1/2,0,+1/2,+1} target units, floored to the source scale, +-1 source unit) and, where the source has more fractional digits than the target, tie-shaped values +-(j*U + {0,1,U/2-1,U/2,U/2+1,U-1}); each without rounding argument and, where the declaration has ConvertWithRounding, with every rule of sema.RoundingRules; " +
			"script layer: the boundary points plus a reduced generic set as `T(x)` / `T(x, rounding: RoundingRule.r)` scripts in interpreter and VM; " +
			"reference = math/big on raw scaled integers; non-trivial = distinct case that dropped/rounded fractional digits, reduced modulo 2^n, was out of range, or fell in the don't-care cell",
		Assumptions: []string{
			"math/big is the reference arithmetic",
			"don't-care cell: a source value outside the target range by less than one target unit whose truncation/rounding is inside the range may either be returned truncated/rounded or fail with overflow/underflow (the sentence supports both readings); counted in dont_care_cases",
			"direct layer hands fix.RoundingMode(rule.RawValue()) to ConvertWithRounding, as interpreter.extractRoundingRule does; the script layer exercises the real mapping",
			"script layer writes source values as typed literals; a literal that does not evaluate to the intended raw value is reported as a harness error",
		},
		Run:    runC16,
		Replay: replayC16,
	})
}

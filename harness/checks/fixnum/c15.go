package fixnum

import (
	"encoding/json"
	"fmt"
	"math/big"
	"strings"

	"github.com/onflow/cadence/interpreter"

	"verif/mc"
	"verif/num"
)

// C15 — fixed-point arithmetic is exact at the type's scale.
//
// Property sentence (the law):
//   "For Fix64, UFix64 (8 decimal places) and Fix128, UFix128 (24 decimal places), +, - and *
//    return the exact rational result truncated toward zero to the scale, and / returns the
//    exact quotient truncated toward zero; each fails with an overflow or underflow error
//    exactly when that result is out of range. `%` returns a - trunc(a/b)*b and may fail only
//    when the quotient is out of range, division by zero fails, and `multiplyDivide` returns
//    a*b/c rounded by the requested rounding rule, failing exactly when that result is out of
//    range or c is zero."
//
// All arithmetic of the reference is on the raw scaled integers (value = raw / 10^scale).

type c15Case struct {
	Layer  string `json:"layer"` // "direct" | "script"
	Engine string `json:"engine,omitempty"`
	Type   string `json:"type"`
	Op     string `json:"op"`
	A      string `json:"a"`
	B      string `json:"b"`
	C      string `json:"c,omitempty"`
	Rule   string `json:"rule,omitempty"` // "" = no rounding argument
}

var c15BinaryOps = []string{"Plus", "Minus", "Mul", "Div", "Mod"}

var c15Operator = map[string]string{"Plus": "+", "Minus": "-", "Mul": "*", "Div": "/", "Mod": "%"}

const (
	wantValue       = iota // must return exactly val
	wantRangeFail          // must fail with overflow or underflow
	wantFailure            // must fail (division by zero: the sentence names no error)
	wantValueOrFail        // must return val, or may fail with overflow/underflow (`%` with out-of-range quotient)
)

type expectation struct {
	kind  int
	val   *big.Int
	class string // outcome class (statistics)
	sig   string // structural class used in violation signatures ("" = class)
}

func (e expectation) sigClass() string {
	if e.sig != "" {
		return e.sig
	}
	return e.class
}

// c15Expect is the reference model.
func c15Expect(t *num.Type, op string, a, b, c *big.Int, rule string) expectation {
	one := pow10(t.Scale)
	var numr, den *big.Int
	switch op {
	case "Plus":
		numr, den = new(big.Int).Add(a, b), bigOne
	case "Minus":
		numr, den = new(big.Int).Sub(a, b), bigOne
	case "Mul":
		numr, den = new(big.Int).Mul(a, b), one
	case "Div":
		if b.Sign() == 0 {
			return expectation{kind: wantFailure, class: "divzero"}
		}
		numr, den = new(big.Int).Mul(a, one), b
	case "Mod":
		if b.Sign() == 0 {
			return expectation{kind: wantFailure, class: "divzero"}
		}
		// a - trunc(a/b)*b, on raw integers: the remainder with the dividend's sign
		rem := new(big.Int).Rem(a, b)
		// "may fail only when the quotient is out of range": widest reading, the rational
		// quotient a/b itself lies outside [min, max] of the type
		q := new(big.Rat).SetFrac(new(big.Int).Mul(a, one), b)
		if q.Cmp(new(big.Rat).SetInt(t.Max)) > 0 || q.Cmp(new(big.Rat).SetInt(t.Min)) < 0 {
			return expectation{kind: wantValueOrFail, val: rem, class: "mod-quotient-out-of-range"}
		}
		return expectation{kind: wantValue, val: rem, class: "mod"}
	case "MultiplyDivide":
		if c.Sign() == 0 {
			return expectation{kind: wantFailure, class: "divzero"}
		}
		numr, den = new(big.Int).Mul(a, b), c
	default:
		panic("c15: unknown op " + op)
	}
	r, inexact, tie := roundQuo(numr, den, rule)
	class := "exact"
	if inexact {
		class = "inexact"
		if tie {
			class = "tie"
		}
		if (numr.Sign() < 0) != (den.Sign() < 0) {
			class += "-neg"
		} else {
			class += "-pos"
		}
		if r.Sign() == 0 {
			class += "-to-zero"
		}
	}
	if r.Cmp(t.Max) > 0 {
		return expectation{kind: wantRangeFail, val: r, class: "out-of-range-high"}
	}
	if r.Cmp(t.Min) < 0 {
		return expectation{kind: wantRangeFail, val: r, class: "out-of-range-low"}
	}
	return expectation{kind: wantValue, val: r, class: class}
}

// observation is what either layer saw.
type observation struct {
	ok       bool
	val      *big.Int
	typ      string
	rangeErr bool // failed with an overflow or underflow error
	failure  bool // failed in a controlled way (Cadence error / user-level script failure)
	text     string
}

func obsDirect(o outcome) observation {
	return observation{ok: o.err == "", val: o.val, typ: o.typ, rangeErr: o.rangeErr(), failure: o.cadenceFailure(), text: o.String()}
}

func obsScript(r scriptRes) observation {
	return observation{ok: r.ok, val: r.val, typ: r.typ, rangeErr: r.rangeErr(), failure: r.userFailure(), text: r.String()}
}

// judge returns "" or the structural class of the disagreement.
func judge(exp expectation, typeName string, o observation) (bad string, detail string) {
	if !o.ok && !o.failure {
		return "crash", "not a controlled failure: " + o.text
	}
	switch exp.kind {
	case wantFailure:
		if o.ok {
			return "no-failure-divzero", "division by zero must fail, got " + o.text
		}
		return "", ""
	case wantRangeFail:
		if o.ok {
			return "no-failure-out-of-range", fmt.Sprintf("result %s is out of range, got %s", exp.val, o.text)
		}
		if !o.rangeErr {
			return "wrong-error", fmt.Sprintf("result %s is out of range: expected an overflow or underflow error, got %s", exp.val, o.text)
		}
		return "", ""
	case wantValue, wantValueOrFail:
		if !o.ok {
			if exp.kind == wantValueOrFail && o.rangeErr {
				return "", ""
			}
			return "spurious-failure", fmt.Sprintf("expected %s, got %s", exp.val, o.text)
		}
		if o.val.Cmp(exp.val) != 0 {
			return "wrong-value", fmt.Sprintf("expected %s, got %s", exp.val, o.text)
		}
		if o.typ != typeName {
			return "wrong-type", "result type " + o.typ
		}
		return "", ""
	}
	panic("judge: bad expectation")
}

func c15CallDirect(inter *interpreter.Interpreter, t *num.Type, op string, a, b, c *big.Int, rule Rule) outcome {
	av := t.Make(a)
	bv := t.Make(b)
	return guard(inter, func() interpreter.Value {
		switch op {
		case "Plus":
			return av.Plus(inter, bv)
		case "Minus":
			return av.Minus(inter, bv)
		case "Mul":
			return av.Mul(inter, bv)
		case "Div":
			return av.Div(inter, bv)
		case "Mod":
			return av.Mod(inter, bv)
		case "MultiplyDivide":
			cv := t.Make(c)
			return av.(interpreter.FixedPointValue).MultiplyDivide(inter,
				bv.(interpreter.FixedPointValue), cv.(interpreter.FixedPointValue), rule.Mode)
		}
		panic("c15: unknown op " + op)
	})
}

func c15Expr(t *num.Type, op string, a, b, c *big.Int, rule string) string {
	if op == "MultiplyDivide" {
		s := literal(t, a) + ".multiplyDivide(" + literal(t, b) + ", " + literal(t, c)
		if rule != "" {
			s += ", rounding: RoundingRule." + rule
		}
		return s + ")"
	}
	return literal(t, a) + " " + c15Operator[op] + " " + literal(t, b)
}

func c15Detail(cs c15Case, d string) string {
	where := cs.Layer
	if cs.Engine != "" {
		where += "/" + cs.Engine
	}
	if cs.Op == "MultiplyDivide" {
		return fmt.Sprintf("[%s] %s(raw %s).multiplyDivide(raw %s, raw %s, rounding: %q): %s", where, cs.Type, cs.A, cs.B, cs.C, cs.Rule, d)
	}
	return fmt.Sprintf("[%s] %s: raw %s %s raw %s: %s", where, cs.Type, cs.A, c15Operator[cs.Op], cs.B, d)
}

// c15Sig: operation (call site), kind of disagreement, structural class of the exact result:
// exact / frac-pos / frac-neg (digits dropped; ties and results of zero are not distinguished) /
// out-of-range-high|low / divzero / mod..., plus "|wide-divisor" when the divisor needs more than 64 bits
func c15Sig(cs c15Case, bad, class string) string {
	class = strings.TrimSuffix(class, "-to-zero")
	class = strings.Replace(strings.Replace(class, "inexact-", "frac-", 1), "tie-", "frac-", 1)
	// a divisor wider than one 64-bit word takes the multi-word long-division path: its own class
	div := cs.B
	if cs.Op == "MultiplyDivide" {
		div = cs.C
	}
	if (cs.Op == "MultiplyDivide" || cs.Op == "Div" || cs.Op == "Mod") && div != "" && bi(div).BitLen() > 64 {
		class += "|wide-divisor"
	}
	site := cs.Type + "." + cs.Op
	if cs.Layer == "script" {
		site = "script/" + cs.Engine + ":" + site
	}
	return site + "|" + bad + "|" + class
}

func c15Nontrivial(class string) bool { return class != "exact" && class != "mod" }

func runC15(env *mc.Env) {
	sigs := newSigLog()
	defer sigs.publish(env)
	types := num.FixedPoints()
	rules := Rules()
	if len(types) != 4 || len(rules) == 0 {
		env.R.HarnessError("expected 4 fixed-point types and some rounding rules, have %d / %d", len(types), len(rules))
		return
	}

	type job struct {
		t      *num.Type
		op     string
		as     []*big.Int // first operands handled by this job
		bs, cs []*big.Int
		record bool   // record distinct non-trivial keys (kept off for the largest products to bound memory)
		rules  []Rule // rounding rules applied (multiplyDivide only)
	}
	var jobs []job
	jobRules := rules
	chunk := func(t *num.Type, op string, as, bs, cs []*big.Int, n int, record bool) {
		for lo := 0; lo < len(as); lo += n {
			hi := lo + n
			if hi > len(as) {
				hi = len(as)
			}
			jobs = append(jobs, job{t, op, as[lo:hi], bs, cs, record, jobRules})
		}
	}
	towardZero := rules[:0:0]
	for _, r := range rules {
		if r.Name == "towardZero" {
			towardZero = append(towardZero, r)
		}
	}
	sizes := map[string]any{}
	for _, t := range types {
		L := fixedLattice(t, env.Thorough())
		core := coreLattice(t, 2)
		small := coreLattice(t, mc.Pick(env, 0, 1))
		sizes[t.Name] = map[string]int{"lattice": len(L), "core": len(core), "small": len(small), "wide_divisors": len(divisorLattice(t))}
		for _, op := range c15BinaryOps {
			chunk(t, op, L, L, nil, 32, true)
		}
		// multiplyDivide: every triple of the core lattice; every lattice value combined
		// with every pair of "small" (extreme) values in each of the three positions;
		// thorough: every lattice pair with every small value in each position
		chunk(t, "MultiplyDivide", core, core, core, 4, true)
		chunk(t, "MultiplyDivide", L, small, small, 16, true)
		chunk(t, "MultiplyDivide", small, L, small, 1, true)
		chunk(t, "MultiplyDivide", small, small, L, 1, true)
		// wide-divisor stress (128-bit types): every lattice pair over every divisor of
		// divisorLattice (the long division a*b/c with a divisor wider than one machine word);
		// truncation only, the rules are exercised by the products above
		if t.Bits > 64 {
			jobRules = towardZero
			chunk(t, "MultiplyDivide", L, L, divisorLattice(t), 4, false)
			// ... and every (extreme or power of two) x (power of two) pair over the same divisors
			p2 := powersOfTwo(t)
			for _, op := range []string{"Mul", "Div", "Mod"} {
				chunk(t, op, union(L, p2), union(divisorLattice(t), p2), nil, 32, false)
			}
			chunk(t, "MultiplyDivide", union(p2, coreLattice(t, 1)), p2, divisorLattice(t), 4, false)
			jobRules = rules
		}
		if env.Thorough() {
			chunk(t, "MultiplyDivide", L, L, small, 4, false)
			chunk(t, "MultiplyDivide", L, small, L, 4, false)
			chunk(t, "MultiplyDivide", small, L, L, 1, false)
		}
	}
	env.R.Set("lattice_sizes", sizes)

	mc.ParallelFor(env, len(jobs), func(i int) {
		j := jobs[i]
		inter := newInter()
		classes := map[string]int64{}
		var n int64
		one := func(a, b, c *big.Int, rule Rule) {
			res := c15CallDirect(inter, j.t, j.op, a, b, c, rule)
			n++
			exp := c15Expect(j.t, j.op, a, b, c, rule.Name)
			bad, detail := judge(exp, j.t.Name, obsDirect(res))
			cs := c15Case{Layer: "direct", Type: j.t.Name, Op: j.op, A: a.String(), B: b.String(), Rule: rule.Name}
			if c != nil {
				cs.C = c.String()
			}
			if bad != "" {
				sigs.violation(env, c15Sig(cs, bad, exp.class), cs, c15Detail(cs, detail))
				return
			}
			class := exp.class
			if exp.kind == wantValueOrFail && !res.rangeErr() {
				class += "(returned)"
			}
			key := j.t.Name + "." + j.op + ":" + class
			if _, seen := classes[key]; !seen {
				kk, cc := key, cs
				env.R.Class(kk, func() any { return cc })
				classes[key] = 0
			} else {
				classes[key]++
			}
			if j.record && c15Nontrivial(exp.class) {
				env.R.Nontrivial(fmt.Sprintf("%s|%s|%s|%v|%s", key, a, b, c, rule.Name))
			}
		}
		for _, a := range j.as {
			for _, b := range j.bs {
				if j.op != "MultiplyDivide" {
					one(a, b, nil, Rule{})
					continue
				}
				for _, c := range j.cs {
					for _, r := range j.rules {
						one(a, b, c, r)
					}
				}
			}
		}
		env.R.EvalN(n)
		for k, v := range classes {
			if v > 0 {
				env.R.ClassN(k, v)
			}
		}
	})

	// every disagreement of the direct layer is re-executed as a script in both engines
	// (first case of each signature), so that it is shown through the public entry point
	for _, fc := range sigs.firstCases() {
		cs, ok := fc.(c15Case)
		if !ok || cs.Layer != "direct" {
			continue
		}
		t := num.ByName[cs.Type]
		a, b := bi(cs.A), bi(cs.B)
		var c *big.Int
		if cs.C != "" {
			c = bi(cs.C)
		}
		exp := c15Expect(t, cs.Op, a, b, c, cs.Rule)
		for _, vm := range []bool{false, true} {
			sc := cs
			sc.Layer, sc.Engine = "script", engineName(vm)
			res := oneScript(vm, t.Name, c15Expr(t, cs.Op, a, b, c, cs.Rule))
			env.R.Eval()
			env.R.Add("direct_disagreements_rerun_as_scripts", 1)
			if bad, detail := judge(exp, t.Name, obsScript(res)); bad != "" {
				if msg := c15LiteralsMisread(t, vm, sc); msg != "" {
					env.R.HarnessError("C15 script re-run: %s (case %+v)", msg, sc)
					continue
				}
				sigs.violation(env, c15Sig(sc, bad, exp.class), sc, c15Detail(sc, detail+" ; expression: "+c15Expr(t, cs.Op, a, b, c, cs.Rule)))
			}
		}
	}

	runC15Scripts(env, sigs)
}

// runC15Scripts: the reduced lattice through scripts in both engines: every pair
// for the five operators, every triple of the smallest core for multiplyDivide
// with each rounding rule and with the rounding argument omitted.
func runC15Scripts(env *mc.Env, sigs *sigLog) {
	type sjob struct {
		t     *num.Type
		vm    bool
		cases []c15Case
	}
	var jobs []sjob
	ruleNames := []string{""}
	for _, r := range Rules() {
		ruleNames = append(ruleNames, r.Name)
	}
	for _, t := range num.FixedPoints() {
		pairL := coreLattice(t, mc.Pick(env, 1, 2))
		triL := coreLattice(t, mc.Pick(env, 0, 1))
		var all []c15Case
		for _, op := range c15BinaryOps {
			for _, a := range pairL {
				for _, b := range pairL {
					all = append(all, c15Case{Layer: "script", Type: t.Name, Op: op, A: a.String(), B: b.String()})
				}
			}
		}
		for _, a := range triL {
			for _, b := range triL {
				for _, c := range triL {
					for _, r := range ruleNames {
						all = append(all, c15Case{Layer: "script", Type: t.Name, Op: "MultiplyDivide", A: a.String(), B: b.String(), C: c.String(), Rule: r})
					}
				}
			}
		}
		for _, vm := range []bool{false, true} {
			for lo := 0; lo < len(all); lo += 600 {
				hi := lo + 600
				if hi > len(all) {
					hi = len(all)
				}
				cs := make([]c15Case, hi-lo)
				copy(cs, all[lo:hi])
				for k := range cs {
					cs[k].Engine = engineName(vm)
				}
				jobs = append(jobs, sjob{t, vm, cs})
			}
		}
	}
	mc.ParallelFor(env, len(jobs), func(i int) {
		j := jobs[i]
		items := make([]scriptItem, len(j.cases))
		exps := make([]expectation, len(j.cases))
		for k, cs := range j.cases {
			a, b := bi(cs.A), bi(cs.B)
			var c *big.Int
			if cs.C != "" {
				c = bi(cs.C)
			}
			exps[k] = c15Expect(j.t, cs.Op, a, b, c, cs.Rule)
			items[k] = scriptItem{Expr: c15Expr(j.t, cs.Op, a, b, c, cs.Rule), ExpectOK: exps[k].kind == wantValue}
		}
		results, scripts := runExprs(j.vm, j.t.Name, items)
		env.R.Add("scripts_executed", int64(scripts))
		env.R.EvalN(int64(len(items)))
		for k, cs := range j.cases {
			bad, detail := judge(exps[k], j.t.Name, obsScript(results[k]))
			if bad != "" {
				if msg := c15LiteralsMisread(j.t, j.vm, cs); msg != "" {
					env.R.HarnessError("C15 script layer: %s (case %+v)", msg, cs)
					continue
				}
				sigs.violation(env, c15Sig(cs, bad, exps[k].class), cs, c15Detail(cs, detail+" ; expression: "+items[k].Expr))
				continue
			}
			key := "script/" + cs.Engine + ":" + cs.Type + "." + cs.Op + ":" + exps[k].class
			cc := cs
			env.R.Class(key, func() any { return cc })
			if c15Nontrivial(exps[k].class) {
				env.R.Nontrivial(fmt.Sprintf("%s|%s|%s|%s|%s", key, cs.A, cs.B, cs.C, cs.Rule))
			}
		}
	})
}

// c15LiteralsMisread separates a literal problem (another property's business,
// a harness problem here) from an arithmetic disagreement: it evaluates the
// operand literals alone and compares them with the intended raw values.
func c15LiteralsMisread(t *num.Type, vm bool, cs c15Case) string {
	for _, s := range []string{cs.A, cs.B, cs.C} {
		if s == "" {
			continue
		}
		r := oneScript(vm, t.Name, literal(t, bi(s)))
		if !r.ok || r.val.Cmp(bi(s)) != 0 {
			return fmt.Sprintf("operand literal %s did not evaluate to raw %s: %s", literal(t, bi(s)), s, r)
		}
	}
	return ""
}

func replayC15(env *mc.Env, raw json.RawMessage) (bool, string) {
	var cs c15Case
	if err := json.Unmarshal(raw, &cs); err != nil {
		return false, err.Error()
	}
	t := num.ByName[cs.Type]
	if t == nil {
		return false, "unknown type " + cs.Type
	}
	a, b := bi(cs.A), bi(cs.B)
	var c *big.Int
	if cs.C != "" {
		c = bi(cs.C)
	}
	exp := c15Expect(t, cs.Op, a, b, c, cs.Rule)
	var o observation
	if cs.Layer == "script" {
		o = obsScript(oneScript(cs.Engine == "vm", t.Name, c15Expr(t, cs.Op, a, b, c, cs.Rule)))
	} else {
		rule, _ := ruleByName(cs.Rule)
		o = obsDirect(c15CallDirect(newInter(), t, cs.Op, a, b, c, rule))
	}
	bad, detail := judge(exp, t.Name, o)
	return bad != "", c15Detail(cs, fmt.Sprintf("%s [%s %s]", detail, bad, exp.class))
}

func init() {
	mc.Register(&mc.Check{
		ID: "C15",
		Rule: "direct layer: for each of Fix64, UFix64, Fix128, UFix128 every ordered pair of the fixed-point lattice (B(T) on the raw scaled integer plus +-k units, +-k.0, +-k.5, integer parts of the bounds, floor(sqrt(max*10^scale))+-1, max/2, max/3, max/10) for + - * / %; for multiplyDivide every triple of the core lattice (49 signed / 25 unsigned values) and every lattice value combined with every pair of 'small' values (0, +-1 unit, +-3 units, +-1.0, +-2.0, min, max) in each of the three positions (thorough: every lattice pair with every small value), each with every rounding rule of sema.RoundingRules; for Fix128/UFix128 additionally (rule towardZero) every lattice pair and every power-of-two pair over every divisor wider than 64 bits (10^k, 10^k+-1, floor(sqrt(max*10^24))+-2) and * / % on those operands; every direct-layer disagreement is re-run as a script in both engines; " +
			"script layer: every pair of a reduced lattice for the five operators and every triple of the smallest core for multiplyDivide with each rule and with the rounding argument omitted, as scripts in interpreter and VM; " +
			"reference = math/big on raw scaled integers; non-trivial = distinct case whose exact result needed truncation/rounding, was a tie, was out of range, divided by zero, or was a % whose quotient is out of range",
		Assumptions: []string{
			"math/big is the reference arithmetic",
			"direct layer hands fix.RoundingMode(rule.RawValue()) to MultiplyDivide, as interpreter.extractRoundingRule does; the script layer exercises the real mapping",
			"script layer writes operands as typed literals; a literal that does not evaluate to the intended raw value is reported as a harness error, not as a C15 violation",
		},
		Run:    runC15,
		Replay: replayC15,
	})
}

package fixnum

import (
	"fmt"
	"math/big"
	"strings"

	"github.com/onflow/cadence"
	"github.com/onflow/cadence/fixedpoint"
	fix "github.com/onflow/fixed-point"

	"verif/rt"
)

// The script layer: expressions are evaluated by real scripts through rt.Run
// in both engines. A failing expression aborts its script, so expressions the
// reference expects to succeed are batched into one array-returning script
// and everything else (and every member of a batch that failed) runs alone.

type scriptItem struct {
	Expr     string
	ExpectOK bool
}

type scriptRes struct {
	ok    bool
	val   *big.Int
	typ   string
	class string // rt.Result.Class
	err   string // "", overflow, underflow, divzero, other:<text>
}

func (r scriptRes) String() string {
	if r.ok {
		return r.val.String() + ":" + r.typ
	}
	return "error(" + r.class + "/" + r.err + ")"
}

// rangeErr: a user-level failure reported as overflow or underflow.
func (r scriptRes) rangeErr() bool {
	return !r.ok && r.class == "user" && (r.err == "overflow" || r.err == "underflow")
}

// userFailure: any user-level failure.
func (r scriptRes) userFailure() bool { return !r.ok && r.class == "user" }

func scriptErrClass(res *rt.Result) string {
	s := res.ErrString()
	for _, line := range strings.Split(s, "\n") {
		line = strings.TrimSpace(line)
		if strings.HasPrefix(line, "error: ") {
			m := strings.TrimPrefix(line, "error: ")
			switch m {
			case "overflow", "underflow":
				return m
			case "division by zero":
				return "divzero"
			}
			return "other:" + m
		}
	}
	if len(s) > 120 {
		s = s[:120]
	}
	return "other:" + s
}

// cadRaw reads the raw (scaled) integer and the type name of an exported number.
func cadRaw(v cadence.Value) (*big.Int, string, bool) {
	b := func(x int64) *big.Int { return big.NewInt(x) }
	u := func(x uint64) *big.Int { return new(big.Int).SetUint64(x) }
	switch v := v.(type) {
	case cadence.Int:
		return v.Big(), "Int", true
	case cadence.Int8:
		return b(int64(v)), "Int8", true
	case cadence.Int16:
		return b(int64(v)), "Int16", true
	case cadence.Int32:
		return b(int64(v)), "Int32", true
	case cadence.Int64:
		return b(int64(v)), "Int64", true
	case cadence.Int128:
		return v.Big(), "Int128", true
	case cadence.Int256:
		return v.Big(), "Int256", true
	case cadence.UInt:
		return v.Big(), "UInt", true
	case cadence.UInt8:
		return u(uint64(v)), "UInt8", true
	case cadence.UInt16:
		return u(uint64(v)), "UInt16", true
	case cadence.UInt32:
		return u(uint64(v)), "UInt32", true
	case cadence.UInt64:
		return u(uint64(v)), "UInt64", true
	case cadence.UInt128:
		return v.Big(), "UInt128", true
	case cadence.UInt256:
		return v.Big(), "UInt256", true
	case cadence.Word8:
		return u(uint64(v)), "Word8", true
	case cadence.Word16:
		return u(uint64(v)), "Word16", true
	case cadence.Word32:
		return u(uint64(v)), "Word32", true
	case cadence.Word64:
		return u(uint64(v)), "Word64", true
	case cadence.Word128:
		return v.Big(), "Word128", true
	case cadence.Word256:
		return v.Big(), "Word256", true
	case cadence.Fix64:
		return b(int64(v)), "Fix64", true
	case cadence.UFix64:
		return u(uint64(v)), "UFix64", true
	case cadence.Fix128:
		return fixedpoint.Fix128ToBigInt(fix.Fix128(v)), "Fix128", true
	case cadence.UFix128:
		return fixedpoint.UFix128ToBigInt(fix.UFix128(v)), "UFix128", true
	}
	return nil, fmt.Sprintf("%T", v), false
}

func oneScript(useVM bool, retType string, expr string) scriptRes {
	src := "access(all) fun main(): " + retType + " { return " + expr + " }"
	res := rt.Run(rt.NewLedger(), rt.Tx{Source: src, Script: true, UseVM: useVM})
	if !res.OK() {
		return scriptRes{class: res.Class, err: scriptErrClass(res)}
	}
	raw, typ, ok := cadRaw(res.Value)
	if !ok {
		return scriptRes{class: "harness", err: "other:not a number: " + typ}
	}
	return scriptRes{ok: true, val: raw, typ: typ, class: "ok"}
}

const scriptBatch = 120

// runExprs evaluates every item (each an expression of static type retType)
// with one engine and returns the per-item results; scripts counts the
// scripts actually executed.
func runExprs(useVM bool, retType string, items []scriptItem) (out []scriptRes, scripts int) {
	out = make([]scriptRes, len(items))
	var batch []int
	flush := func() {
		if len(batch) == 0 {
			return
		}
		var sb strings.Builder
		sb.WriteString("access(all) fun main(): [" + retType + "] { return [\n")
		for k, i := range batch {
			if k > 0 {
				sb.WriteString(",\n")
			}
			sb.WriteString(items[i].Expr)
		}
		sb.WriteString("\n] }")
		res := rt.Run(rt.NewLedger(), rt.Tx{Source: sb.String(), Script: true, UseVM: useVM})
		scripts++
		done := false
		if res.OK() {
			if arr, ok := res.Value.(cadence.Array); ok && len(arr.Values) == len(batch) {
				done = true
				for k, i := range batch {
					raw, typ, ok := cadRaw(arr.Values[k])
					if !ok {
						out[i] = scriptRes{class: "harness", err: "other:not a number: " + typ}
						continue
					}
					out[i] = scriptRes{ok: true, val: raw, typ: typ, class: "ok"}
				}
			}
		}
		if !done {
			// some member failed (or the batch itself is broken): run each alone
			for _, i := range batch {
				out[i] = oneScript(useVM, retType, items[i].Expr)
				scripts++
			}
		}
		batch = batch[:0]
	}
	for i, it := range items {
		if it.ExpectOK {
			batch = append(batch, i)
			if len(batch) == scriptBatch {
				flush()
			}
		} else {
			out[i] = oneScript(useVM, retType, it.Expr)
			scripts++
		}
	}
	flush()
	return out, scripts
}

func engineName(vm bool) string {
	if vm {
		return "vm"
	}
	return "interpreter"
}

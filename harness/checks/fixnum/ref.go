// Package fixnum holds the checks C15 (fixed-point arithmetic is exact at the
// type's scale) and C16 (numeric conversions preserve value or fail).
//
// Both are input enumerations (DESIGN §3 C15/C16): every element of a stated
// finite lattice of operands is fed to the real value methods / converter
// functions and to a boring math/big reference working on the raw scaled
// integers; a reduced lattice additionally goes through scripts in both
// engines (verif/rt) so that operator dispatch, the converter functions'
// argument handling and the VM's builtins are covered as well.
package fixnum

import (
	"fmt"
	"math/big"
	"runtime"
	"sort"
	"strings"
	"sync"

	fix "github.com/onflow/fixed-point"

	"github.com/onflow/cadence/interpreter"
	"github.com/onflow/cadence/sema"

	"verif/mc"
	"verif/num"
)

// sigLog remembers every violation signature a run produced, so that the
// complete list (mc prints at most 25) ends up in the evidence.
type sigLog struct {
	mu    sync.Mutex
	n     map[string]int64
	first map[string]any // first case recorded per signature
}

func newSigLog() *sigLog { return &sigLog{n: map[string]int64{}, first: map[string]any{}} }

func (l *sigLog) violation(env *mc.Env, sig string, c any, detail string) {
	l.mu.Lock()
	l.n[sig]++
	if _, ok := l.first[sig]; !ok {
		l.first[sig] = c
	}
	l.mu.Unlock()
	env.R.Violation(sig, c, detail)
}

// firstCases returns the first case of every signature, ordered by signature.
func (l *sigLog) firstCases() []any {
	l.mu.Lock()
	defer l.mu.Unlock()
	sigs := make([]string, 0, len(l.first))
	for s := range l.first {
		sigs = append(sigs, s)
	}
	sort.Strings(sigs)
	out := make([]any, 0, len(sigs))
	for _, s := range sigs {
		out = append(out, l.first[s])
	}
	return out
}

func (l *sigLog) publish(env *mc.Env) {
	l.mu.Lock()
	defer l.mu.Unlock()
	out := make([]string, 0, len(l.n))
	for s, n := range l.n {
		out = append(out, fmt.Sprintf("%s (%d cases)", s, n))
	}
	sort.Strings(out)
	env.R.Set("violation_signatures", out)
}

// ---------------------------------------------------------------------------
// rounding rules

// Rule is one rounding rule: its Cadence name (the oracle is keyed on the
// name, i.e. on the documented meaning) and the mode handed to the value
// methods, derived exactly as interpreter.extractRoundingRule does
// (fix.RoundingMode(rawValue)); the script layer covers that mapping itself.
type Rule struct {
	Name string
	Mode fix.RoundingMode
}

// Rules lists sema.RoundingRules (read from sema, not hard-coded).
func Rules() []Rule {
	var out []Rule
	for _, r := range sema.RoundingRules {
		out = append(out, Rule{Name: r.Name(), Mode: fix.RoundingMode(r.RawValue())})
	}
	return out
}

func ruleByName(name string) (Rule, bool) {
	for _, r := range Rules() {
		if r.Name == name {
			return r, true
		}
	}
	return Rule{}, false
}

var bigOne = big.NewInt(1)

func pow10(n int) *big.Int {
	return new(big.Int).Exp(big.NewInt(10), big.NewInt(int64(n)), nil)
}

// roundQuo returns numr/den (den != 0) rounded to an integer by the rule with
// the given Cadence name ("" = truncation toward zero), and whether the
// quotient was inexact / an exact tie.
//
//	towardZero       magnitude rounded down
//	awayFromZero     magnitude rounded up when inexact
//	nearestHalfAway  nearest; ties away from zero
//	nearestHalfEven  nearest; ties to the value whose last digit is even
func roundQuo(numr, den *big.Int, rule string) (q *big.Int, inexact, tie bool) {
	r := new(big.Int)
	q, r = new(big.Int).QuoRem(numr, den, r) // truncated toward zero
	if r.Sign() == 0 {
		return q, false, false
	}
	neg := (numr.Sign() < 0) != (den.Sign() < 0)
	away := func() {
		if neg {
			q.Sub(q, bigOne)
		} else {
			q.Add(q, bigOne)
		}
	}
	twoR := new(big.Int).Abs(r)
	twoR.Lsh(twoR, 1)
	c := twoR.Cmp(new(big.Int).Abs(den))
	switch rule {
	case "", "towardZero":
	case "awayFromZero":
		away()
	case "nearestHalfAway":
		if c >= 0 {
			away()
		}
	case "nearestHalfEven":
		if c > 0 || (c == 0 && new(big.Int).Abs(q).Bit(0) == 1) {
			away()
		}
	default:
		panic("unknown rounding rule " + rule)
	}
	return q, true, c == 0
}

// ---------------------------------------------------------------------------
// calling the real code

func newInter() *interpreter.Interpreter {
	inter, err := interpreter.NewInterpreter(nil, nil, &interpreter.Config{
		Storage: interpreter.NewInMemoryStorage(nil, nil),
	})
	if err != nil {
		panic(err)
	}
	return inter
}

// outcome of one direct call.
type outcome struct {
	val *big.Int
	typ string
	err string // "", overflow, underflow, divzero, crash:..., other:...
}

func (o outcome) String() string {
	if o.err != "" {
		return "error(" + o.err + ")"
	}
	return o.val.String() + ":" + o.typ
}

func (o outcome) rangeErr() bool { return o.err == "overflow" || o.err == "underflow" }

// cadenceFailure says whether the call failed with a Cadence error (any), as
// opposed to returning a value or crashing with a Go run-time panic.
func (o outcome) cadenceFailure() bool {
	return o.err != "" && !strings.HasPrefix(o.err, "crash:")
}

func classifyPanic(p any) string {
	if _, ok := p.(runtime.Error); ok {
		return fmt.Sprintf("crash:%v", p)
	}
	if _, ok := p.(error); !ok {
		return fmt.Sprintf("crash:%T:%v", p, p)
	}
	return num.ErrClass(p)
}

func guard(inter *interpreter.Interpreter, f func() interpreter.Value) (res outcome) {
	defer func() {
		if p := recover(); p != nil {
			res = outcome{err: classifyPanic(p)}
		}
	}()
	out := f()
	return outcome{val: num.Raw(out), typ: string(out.StaticType(inter).ID())}
}

// ---------------------------------------------------------------------------
// lattices

func sortedSet(set map[string]*big.Int) []*big.Int {
	out := make([]*big.Int, 0, len(set))
	for _, v := range set {
		out = append(out, v)
	}
	sort.Slice(out, func(i, j int) bool { return out[i].Cmp(out[j]) < 0 })
	return out
}

// fixedLattice is B(T) of DESIGN §2 for a fixed-point type plus the values whose
// products / quotients straddle the range and the odd small values that make
// exact rounding ties: ±k units (k<=9), ±k.0 and ±k.5 for small k, the integer
// part of the bounds, floor(sqrt(max*10^scale)) ± 1 (a*a ~ max), max/2, max/10.
func fixedLattice(t *num.Type, thorough bool) []*big.Int {
	set := map[string]*big.Int{}
	put := func(x *big.Int) {
		if t.InRange(x) {
			set[x.String()] = new(big.Int).Set(x)
		}
	}
	putPM := func(x *big.Int) {
		put(x)
		put(new(big.Int).Neg(x))
	}
	for _, v := range num.Lattice(t, thorough) {
		put(v)
	}
	one := pow10(t.Scale)
	for k := int64(4); k <= 9; k++ {
		putPM(big.NewInt(k))
	}
	for k := int64(1); k <= 5; k++ {
		kk := new(big.Int).Mul(one, big.NewInt(k))
		putPM(kk)                                             // k.0
		putPM(new(big.Int).Sub(kk, new(big.Int).Rsh(one, 1))) // k - 0.5
		putPM(new(big.Int).Add(kk, bigOne))                   // k.0 + 1 unit
		putPM(new(big.Int).Sub(kk, bigOne))                   // k.0 - 1 unit
	}
	for _, b := range []*big.Int{t.Min, t.Max} {
		ip := new(big.Int).Quo(b, one) // integer part of the bound
		for d := int64(-1); d <= 1; d++ {
			put(new(big.Int).Add(ip, big.NewInt(d)))                        // as raw units
			put(new(big.Int).Add(new(big.Int).Mul(ip, one), big.NewInt(d))) // integer part, scaled
		}
		put(new(big.Int).Mul(new(big.Int).Sub(ip, bigOne), one))
		put(new(big.Int).Quo(b, big.NewInt(10)))
		put(new(big.Int).Quo(b, big.NewInt(3)))
	}
	s := new(big.Int).Sqrt(new(big.Int).Mul(t.Max, one))
	for d := int64(-1); d <= 1; d++ {
		putPM(new(big.Int).Add(s, big.NewInt(d)))
	}
	return sortedSet(set)
}

// coreLattice is the sub-lattice used where a full product would be too
// large (triples, script layer): the extremes and the values that drive
// truncation, ties and range failures.
func coreLattice(t *num.Type, n int) []*big.Int {
	set := map[string]*big.Int{}
	put := func(x *big.Int) {
		if t.InRange(x) {
			set[x.String()] = new(big.Int).Set(x)
		}
	}
	putPM := func(x *big.Int) {
		put(x)
		put(new(big.Int).Neg(x))
	}
	one := pow10(t.Scale)
	half := new(big.Int).Rsh(one, 1)
	s := new(big.Int).Sqrt(new(big.Int).Mul(t.Max, one))
	// tier 0: always present
	put(big.NewInt(0))
	putPM(bigOne)
	putPM(one)
	put(t.Min)
	put(t.Max)
	putPM(big.NewInt(3))
	putPM(new(big.Int).Lsh(one, 1)) // 2.0
	if n >= 1 {
		putPM(half)
		put(new(big.Int).Add(t.Min, bigOne))
		put(new(big.Int).Sub(t.Max, bigOne))
		putPM(big.NewInt(5))
		putPM(new(big.Int).Add(s, bigOne))
		putPM(s)
	}
	if n >= 2 {
		putPM(big.NewInt(2))
		putPM(big.NewInt(7))
		putPM(new(big.Int).Mul(one, big.NewInt(3)))
		putPM(new(big.Int).Mul(one, big.NewInt(10)))
		putPM(new(big.Int).Add(one, bigOne))
		putPM(new(big.Int).Sub(one, bigOne))
		putPM(new(big.Int).Rsh(t.Max, 1))
		putPM(new(big.Int).Add(new(big.Int).Rsh(t.Max, 1), bigOne))
		putPM(new(big.Int).Quo(t.Max, one))
		putPM(new(big.Int).Mul(new(big.Int).Quo(t.Max, one), one))
		putPM(new(big.Int).Quo(one, big.NewInt(3)))
		putPM(new(big.Int).Add(half, bigOne))
		putPM(new(big.Int).Sub(half, bigOne))
		putPM(pow10(t.Scale / 2))
	}
	return sortedSet(set)
}

// divisorLattice: divisors wider than one 64-bit word for the long-division stress of
// multiplyDivide: 10^k and 10^k +- 1 for every k with 10^k >= 2^64 up to the number of digits
// of max, and floor(sqrt(max*10^scale)) + {-2..2}; all positive (signs are covered elsewhere).
func divisorLattice(t *num.Type) []*big.Int {
	set := map[string]*big.Int{}
	put := func(x *big.Int) {
		if x.BitLen() > 64 && t.InRange(x) {
			set[x.String()] = new(big.Int).Set(x)
		}
	}
	for k := 19; k <= len(t.Max.String()); k++ {
		p := pow10(k)
		put(p)
		put(new(big.Int).Add(p, bigOne))
		put(new(big.Int).Sub(p, bigOne))
	}
	s := new(big.Int).Sqrt(new(big.Int).Mul(t.Max, pow10(t.Scale)))
	for d := int64(-2); d <= 2; d++ {
		put(new(big.Int).Add(s, big.NewInt(d)))
	}
	return sortedSet(set)
}

// powersOfTwo: 2^k and 2^k - 1 for every k >= 64 inside the range.
func powersOfTwo(t *num.Type) []*big.Int {
	set := map[string]*big.Int{}
	for k := uint(64); k <= 128; k++ {
		p := new(big.Int).Lsh(bigOne, k)
		for _, x := range []*big.Int{p, new(big.Int).Sub(p, bigOne)} {
			if t.InRange(x) {
				set[x.String()] = x
			}
		}
	}
	return sortedSet(set)
}

// fixedLiteral renders the raw scaled integer of a fixed-point type as a Cadence
// literal with exactly scale fractional digits, e.g. -1.50000000.
func fixedLiteral(raw *big.Int, scale int) string {
	one := pow10(scale)
	abs := new(big.Int).Abs(raw)
	ip, fp := new(big.Int).QuoRem(abs, one, new(big.Int))
	s := fmt.Sprintf("%s.%0*s", ip, scale, fp)
	if raw.Sign() < 0 {
		s = "-" + s
	}
	return s
}

// literal renders a typed literal expression of type t: (lit as T).
func literal(t *num.Type, raw *big.Int) string {
	if t.IsFixed() {
		return "(" + fixedLiteral(raw, t.Scale) + " as " + t.Name + ")"
	}
	return "(" + raw.String() + " as " + t.Name + ")"
}

func bi(s string) *big.Int {
	x, ok := new(big.Int).SetString(s, 10)
	if !ok {
		panic("bad int " + s)
	}
	return x
}

//go:build verifovl

package conc

import (
	"bytes"
	"context"
	"encoding/gob"
	"encoding/json"
	"fmt"
	"os"
	"os/exec"
	"sort"
	"strconv"
	"strings"
	"sync"
	"sync/atomic"
	"time"

	"github.com/onflow/cadence/ast"
	"github.com/onflow/cadence/common"
	"github.com/onflow/cadence/encoding/ccf"
	"github.com/onflow/cadence/interpreter"
	"github.com/onflow/cadence/runtime"
	"github.com/onflow/cadence/sema"
	ru "github.com/onflow/cadence/test_utils/runtime_utils"
	"github.com/onflow/cadence/verifshim/sched"
	"github.com/onflow/cadence/verifshim/vsync"

	"verif/mc"
	"verif/rt"
)

// C36 — concurrent checking and execution behave like sequential runs.
//
// Every execution is one fresh child process (the lazily initialised caches on
// built-in types are process-global, so only a fresh process sees them cold).
// In the child, 2–3 threads run under the cooperative scheduler that the
// overlay build compiled into cadence's own sync / sync/atomic operations; the
// parent drives a deviation-bounded DFS over thread choices (a preemption = a
// switch away from a still-enabled thread) and sync.Pool.Get answers.

const sharedContract = `
access(all) contract C {
    access(all) entitlement E
    access(all) entitlement F
    access(all) entitlement mapping M { E -> F }
    access(all) struct interface I { access(all) fun g(): Int }
    access(all) struct Inner {
        access(F) fun h(): Int { return 7 }
        init() {}
    }
    access(all) struct S: I {
        access(all) var f: Int
        access(mapping M) let inner: Inner
        access(all) fun g(): Int { return self.f + 1 }
        access(E) fun e(): Int { return 2 }
        init(f: Int) { self.f = f; self.inner = Inner() }
    }
    access(all) resource R {
        access(all) let id: Int
        init(id: Int) { self.id = id }
    }
    access(all) enum Color: UInt8 { access(all) case red; access(all) case green }
    // declared here but never used inside C: their lazily computed caches (inherited and built-in members,
    // conformance sets, supported entitlements) are first touched by the concurrently checked programs
    access(all) struct interface J { access(all) fun d(): Int { return 5 } }
    access(all) struct interface J2: J { access(all) fun d2(): Int { return 6 } }
    access(all) struct T: J2 { access(E) fun te(): Int { return 8 }
        init() {} }
    access(all) resource interface RJ { access(all) fun rd(): Int { return 9 } }
    access(all) resource Q: RJ { init() {} }
    access(all) fun mkQ(): @Q { return <- create Q() }
    access(all) fun mkS(_ f: Int): S { return S(f: f) }
    access(all) fun mkR(_ id: Int): @R { return <- create R(id: id) }
    init() {}
}
`

type threadSpec struct {
	Mode string // "exec" (script through the runtime) | "check" (parse+check only, elaboration digest)
	VM   bool
	Src  string
}

type scenario struct {
	Name    string
	Threads []threadSpec
}

const progA = `
import C from 0x1
access(all) fun main(): [AnyStruct] {
    let s = C.mkS(1)
    let r = &s as auth(C.E) &C.S
    let i: {C.I} = s
    let xs = [1, 2, 3]
    let d = {"a": 1}
    return [s.g(), r.e(), r.inner.h(), i.g(), xs.length, d.keys.length, (5).toString(), "ab".length,
        Type<&C.S>().identifier, Type<{C.I}>().identifier, s.getType().identifier, C.Color.green.rawValue,
        C.T().d(), C.T().d2(), C.T().getType().identifier, C.T().isInstance(Type<{C.J}>()), (&C.T() as auth(C.E) &C.T).te()]
}
`

const progB = `
import C from 0x1
access(all) fun main(): [AnyStruct] {
    let d: {String: Int} = {"b": 2}
    let ys = [4, 5]
    let s = C.S(f: 41)
    let i = s as {C.I}
    let r = &s as auth(C.E) &C.S
    let k <- C.mkR(9)
    let id = k.id
    destroy k
    let q <- C.mkQ()
    let qd = q.rd() + (q.isInstance(Type<@{C.RJ}>()) ? 1 : 0)
    destroy q
    return [d.values.length, "xyz".length, (7).toString(), ys.length, i.g(), r.inner.h(), r.e(), id,
        Type<{C.I}>().identifier, Type<auth(C.E) &C.S>().identifier, s.isInstance(Type<C.S>()), C.Color.red.rawValue,
        C.T().isInstance(Type<C.T>()), C.T().d2(), (C.T() as {C.J}).d(), C.T().getType().identifier, qd]
}
`

const progC = `
import C from 0x1
access(all) fun f(_ x: Int?): Int { return x ?? 0 }
access(all) fun main(): [AnyStruct] {
    let o: Int? = 3
    let m = o.map(fun (v: Int): Int { return v + 1 })
    let s = C.mkS(2)
    let a: [C.S] = [s]
    let ref = &a[0] as &C.S
    return [f(m), ref.g(), a.length, (1 as Int8).toString(), UInt8(3).saturatingAdd(254), "a".concat("b"),
        Type<@C.R>().identifier, Type<C.Color>().identifier, ref.getType().identifier,
        (C.T() as {C.J2}).d(), C.T().d(), Type<C.T>().isSubtype(of: Type<{C.J}>())]
}
`

func scenarios() []scenario {
	ex := func(vm bool, src string) threadSpec { return threadSpec{Mode: "exec", VM: vm, Src: src} }
	ck := func(src string) threadSpec { return threadSpec{Mode: "check", Src: src} }
	return []scenario{
		{"check2-AB", []threadSpec{ck(progA), ck(progB)}},
		{"check2-AA", []threadSpec{ck(progA), ck(progA)}},
		{"exec2-AB", []threadSpec{ex(false, progA), ex(false, progB)}},
		{"exec2-AA", []threadSpec{ex(false, progA), ex(false, progA)}},
		{"check-exec-BC", []threadSpec{ck(progB), ex(false, progC)}},
		{"vm2-AC", []threadSpec{ex(true, progA), ex(true, progC)}},
		{"exec3-ABC", []threadSpec{ex(false, progA), ex(false, progB), ex(false, progC)}},
		{"mixed3", []threadSpec{ck(progC), ex(true, progB), ex(false, progA)}},
	}
}

// ---------------------------------------------------------------------------
// child side

type childPoint struct {
	N     int    `json:"n"`
	Label string `json:"l"`
	Cost  int    `json:"c"`
	Alt   int    `json:"a"`
	// Shared: for a preemption point, whether some other thread performs, later
	// in this execution, an operation on the same object that conflicts with
	// the running thread's pending operation (two operations conflict unless
	// both only read). If none does, the pending operation commutes with
	// everything the other threads still do, so preempting before it is
	// equivalent to preempting before the running thread's next operation and
	// is not branched (partial-order reduction on the recorded trace).
	Shared bool `json:"s"`
	obj    uintptr
	seq    int
	tid    int
	write  bool
}

type childOut struct {
	Points   []childPoint `json:"points"`
	Results  []string     `json:"results"`
	Deadlock bool         `json:"deadlock"`
	Horizon  bool         `json:"horizon"`
	Blocked  []string     `json:"blocked"`
	Steps    int          `json:"steps"`
	Diverged string       `json:"diverged"`
}

type prefixChooser struct {
	prefix   []int
	points   []childPoint
	diverged string
}

func (p *prefixChooser) choose(n int, label string, cost int, obj uintptr) int {
	i := len(p.points)
	alt := 0
	if i < len(p.prefix) {
		alt = p.prefix[i]
		if alt >= n {
			p.diverged = fmt.Sprintf("choice %d out of range at point %d (%s n=%d)", alt, i, label, n)
			alt = 0
		}
	}
	p.points = append(p.points, childPoint{N: n, Label: label, Cost: cost, Alt: alt, Shared: true, obj: obj})
	return alt
}

func (p *prefixChooser) ChooseThread(enabled []int, running int, labels []string, runningObj uintptr) int {
	cost := 0
	if len(enabled) > 0 && enabled[0] == running {
		cost = 1 // switching away from a runnable thread is a preemption
	}
	var sb strings.Builder
	for i, e := range enabled {
		fmt.Fprintf(&sb, "t%d:%s ", e, labels[i])
	}
	if cost == 0 {
		runningObj = 0
	}
	alt := p.choose(len(enabled), sb.String(), cost, runningObj)
	if runningObj != 0 {
		pt := &p.points[len(p.points)-1]
		pt.seq, pt.tid, pt.write = sched.AccessSeq(), running, !sched.IsRead(labels[0])
	}
	return alt
}

func (p *prefixChooser) ChooseData(n int, label string) int { return p.choose(n, "data:"+label, 1, 0) }

// shared program cache, as a host keeps one for concurrently executing scripts
type progCache struct {
	mu vsync.Mutex
	m  map[common.Location]*runtime.Program
}

func (c *progCache) getOrLoad(loc common.Location, load func() (*runtime.Program, error)) (*runtime.Program, error) {
	if _, isAddr := loc.(common.AddressLocation); !isAddr {
		return load()
	}
	c.mu.Lock()
	p, ok := c.m[loc]
	c.mu.Unlock()
	if ok {
		return p, nil
	}
	p, err := load()
	if err != nil {
		return p, err
	}
	c.mu.Lock()
	if q, ok := c.m[loc]; ok {
		p = q
	} else {
		c.m[loc] = p
	}
	c.mu.Unlock()
	return p, nil
}

func loadLedger(path string) *rt.Ledger {
	b, err := os.ReadFile(path)
	if err != nil {
		panic(err)
	}
	l := rt.NewLedger()
	if err := gob.NewDecoder(bytes.NewReader(b)).Decode(l); err != nil {
		panic(err)
	}
	return l
}

func runThread(spec threadSpec, idx int, l *rt.Ledger, cache *progCache) (out string) {
	defer func() {
		if p := recover(); p != nil {
			out = fmt.Sprintf("PANIC: %v", p)
		}
	}()
	loc := common.ScriptLocation{byte(idx + 1)}
	hook := func(i *ru.TestRuntimeInterface) {
		own := map[common.Location]*runtime.Program{}
		i.OnGetOrLoadProgram = func(location runtime.Location, load func() (*runtime.Program, error)) (*runtime.Program, error) {
			if _, isAddr := location.(common.AddressLocation); isAddr {
				return cache.getOrLoad(location, load)
			}
			if p, ok := own[location]; ok {
				return p, nil
			}
			p, err := load()
			own[location] = p
			return p, err
		}
	}
	switch spec.Mode {
	case "exec":
		res := rt.Run(l.Clone(), rt.Tx{Source: spec.Src, Script: true, UseVM: spec.VM, Hook: hook, Location: loc})
		if !res.OK() {
			return "ERR[" + res.Class + "/" + res.Kind + "]: " + firstLine(res.ErrString())
		}
		enc, err := ccf.Encode(res.Value)
		if err != nil {
			return "CCF-ERR: " + err.Error()
		}
		return fmt.Sprintf("OK %s ccf=%x", res.Value.String(), mc.Hash(string(enc)))
	case "check":
		prog, err := parseAndCheck(l.Clone(), spec.Src, loc, hook)
		if err != nil {
			return "CHECK-ERR: " + firstLine(err.Error())
		}
		return "CHECKED " + elaborationDigest(prog)
	}
	return "?"
}

func firstLine(s string) string {
	s = strings.TrimSpace(s)
	lines := strings.Split(s, "\n")
	var keep []string
	for _, ln := range lines {
		ln = strings.TrimSpace(ln)
		if strings.HasPrefix(ln, "error:") || strings.HasPrefix(ln, "Execution failed") || len(keep) == 0 {
			keep = append(keep, ln)
		}
	}
	return strings.Join(keep, " | ")
}

// elaborationDigest renders the elaboration-dependent facts of a checked
// program: types of declared variables, member-access infos, invocation and
// cast types, in AST order.
func elaborationDigest(p *interpreter.Program) string {
	var sb strings.Builder
	el := p.Elaboration
	ty := func(t sema.Type) string {
		if t == nil {
			return "<nil>"
		}
		return string(t.ID())
	}
	ast.Inspect(p.Program, func(e ast.Element) bool {
		switch e := e.(type) {
		case *ast.VariableDeclaration:
			t := el.VariableDeclarationTypes(e)
			fmt.Fprintf(&sb, "var %s:%s<-%s;", e.Identifier.Identifier, ty(t.TargetType), ty(t.ValueType))
		case *ast.MemberExpression:
			if info, ok := el.MemberExpressionMemberAccessInfo(e); ok {
				m := "<nil>"
				if info.Member != nil {
					m = info.Member.Identifier.Identifier + ":" + ty(info.Member.TypeAnnotation.Type) + "@" + info.Member.Access.String()
				}
				fmt.Fprintf(&sb, "mem %s.%s=%s ret=%s;", ty(info.AccessedType), e.Identifier.Identifier, m, ty(info.ResultingType))
			}
		case *ast.InvocationExpression:
			t := el.InvocationExpressionTypes(e)
			fmt.Fprintf(&sb, "call->%s;", ty(t.ReturnType))
		case *ast.CastingExpression:
			t := el.CastingExpressionTypes(e)
			fmt.Fprintf(&sb, "cast %s->%s;", ty(t.StaticValueType), ty(t.TargetType))
		}
		return true
	})
	return fmt.Sprintf("%x/%d %s", mc.Hash(sb.String()), sb.Len(), trunc(sb.String(), 200))
}

func trunc(s string, n int) string {
	if len(s) > n {
		return s[:n]
	}
	return s
}

// ChildMain: --child <mode> <scenario> <ledgerfile> <choices|threadIdx|reps>
func ChildMain(args []string) {
	mode := args[0]
	if mode == "c33" {
		c33Child()
		return
	}
	if mode == "mkledger" {
		fmt.Println(prepareLedger(args[1]))
		return
	}
	scIdx, _ := strconv.Atoi(args[1])
	sc := scenarios()[scIdx]
	l := loadLedger(args[2])
	cache := &progCache{m: map[common.Location]*runtime.Program{}}
	out := childOut{}
	switch mode {
	case "seq": // one thread alone, fresh process: the sequential baseline
		i, _ := strconv.Atoi(args[3])
		out.Results = []string{runThread(sc.Threads[i], i, l, cache)}
	case "sched":
		var prefix []int
		if args[3] != "-" {
			for _, s := range strings.Split(args[3], ",") {
				n, _ := strconv.Atoi(s)
				prefix = append(prefix, n)
			}
		}
		ch := &prefixChooser{prefix: prefix}
		results := make([]string, len(sc.Threads))
		var bodies []func()
		for i := range sc.Threads {
			i := i
			bodies = append(bodies, func() { results[i] = runThread(sc.Threads[i], i, l, cache) })
		}
		o := sched.Run(ch, 200000, bodies...)
		for i := range ch.points {
			if pt := &ch.points[i]; pt.obj != 0 && os.Getenv("VERIF_C36_NOPOR") == "" {
				pt.Shared = sched.ConflictAfter(pt.seq, pt.tid, pt.obj, pt.write)
			}
		}
		out.Points = ch.points
		out.Results = results
		out.Deadlock, out.Horizon, out.Blocked, out.Steps, out.Diverged = o.Deadlock, o.Horizon, o.Blocked, o.Steps, ch.diverged
		for id, p := range o.Panics {
			out.Results[id] = fmt.Sprintf("PANIC(thread): %v", p)
		}
	case "warm", "warmreplay":
		warmChild(mode, sc, l, args[3:])
		return
	case "race": // free-running threads (no scheduler), for the -race build
		results := make([]string, len(sc.Threads))
		var wg sync.WaitGroup
		start := make(chan struct{})
		for i := range sc.Threads {
			i := i
			wg.Add(1)
			go func() {
				defer wg.Done()
				<-start
				results[i] = runThread(sc.Threads[i], i, l, cache)
			}()
		}
		close(start)
		wg.Wait()
		out.Results = results
	}
	b, _ := json.Marshal(out)
	os.Stdout.Write(b)
	os.Stdout.Write([]byte("\n"))
	os.Stdout.Sync()
	if out.Deadlock || out.Horizon {
		os.Exit(0) // parked goroutines are abandoned with the process
	}
}

// one scheduled execution in this process
func schedOnce(sc scenario, l *rt.Ledger, prefix []int) (*prefixChooser, []string, sched.Outcome) {
	cache := &progCache{m: map[common.Location]*runtime.Program{}}
	ch := &prefixChooser{prefix: prefix}
	results := make([]string, len(sc.Threads))
	var bodies []func()
	for i := range sc.Threads {
		i := i
		bodies = append(bodies, func() { results[i] = runThread(sc.Threads[i], i, l, cache) })
	}
	o := sched.Run(ch, 200000, bodies...)
	for i := range ch.points {
		if pt := &ch.points[i]; pt.obj != 0 {
			pt.Shared = sched.ConflictAfter(pt.seq, pt.tid, pt.obj, pt.write)
		}
	}
	for id, p := range o.Panics {
		results[id] = fmt.Sprintf("PANIC(thread): %v", p)
	}
	return ch, results, o
}

type warmViolation struct {
	Choices []int  `json:"choices"`
	Sig     string `json:"sig"`
	Detail  string `json:"detail"`
}

type warmOut struct {
	Runs       int64           `json:"runs"`
	Deviating  int64           `json:"deviating"`
	Complete   bool            `json:"complete"`
	Violations []warmViolation `json:"violations"`
	Result     string          `json:"result,omitempty"`
}

func judgeExecution(sc scenario, base []string, ch *prefixChooser, results []string, o sched.Outcome) (sig, detail string) {
	switch {
	case ch.diverged != "":
		return "", ""
	case o.Deadlock:
		return fmt.Sprintf("%s|deadlock|%s", modesOf(sc), strings.Join(o.Blocked, ",")), fmt.Sprintf("deadlock: blocked %v", o.Blocked)
	case o.Horizon:
		return fmt.Sprintf("%s|livelock-horizon", modesOf(sc)), "step horizon exceeded"
	}
	for i := range base {
		if results[i] != base[i] {
			return fmt.Sprintf("%s|thread-result-differs|%s", modesOf(sc), resultClass(results[i])),
				fmt.Sprintf("thread %d:\n  concurrent: %s\n  sequential: %s", i, trunc(results[i], 600), trunc(base[i], 600))
		}
	}
	return "", ""
}

// warmChild explores a shard of the schedule tree inside this process: the
// process-global caches are warm after the first (non-preemptive) execution,
// everything created per execution (the shared contract's program, types and
// elaboration, the program cache, pools' modelled contents) is cold each time.
// args: <bound> <shard> <nshards> <deadlineSeconds> <basefile>   (warm)
//
//	<choices> <basefile>                                      (warmreplay)
func warmChild(mode string, sc scenario, l *rt.Ledger, args []string) {
	out := warmOut{Complete: true}
	emit := func() {
		b, _ := json.Marshal(out)
		os.Stdout.Write(b)
		os.Stdout.Write([]byte("\n"))
	}
	readBase := func(path string) []string {
		b, err := os.ReadFile(path)
		if err != nil {
			panic(err)
		}
		var base []string
		json.Unmarshal(b, &base)
		return base
	}
	// warm-up: the non-preemptive schedule
	schedOnce(sc, l, nil)
	if mode == "warmreplay" {
		var prefix []int
		if args[0] != "-" {
			for _, x := range strings.Split(args[0], ",") {
				n, _ := strconv.Atoi(x)
				prefix = append(prefix, n)
			}
		}
		base := readBase(args[1])
		ch, results, o := schedOnce(sc, l, prefix)
		sig, detail := judgeExecution(sc, base, ch, results, o)
		out.Result = sig
		if sig != "" {
			out.Violations = append(out.Violations, warmViolation{prefix, sig, detail})
		}
		emit()
		return
	}
	bound, _ := strconv.Atoi(args[0])
	shard, _ := strconv.Atoi(args[1])
	nshards, _ := strconv.Atoi(args[2])
	secs, _ := strconv.Atoi(args[3])
	base := readBase(args[4])
	deadline := time.Now().Add(time.Duration(secs) * time.Second)
	stack := [][]int{nil}
	rootKid := 0
	for len(stack) > 0 {
		if time.Now().After(deadline) {
			out.Complete = false
			break
		}
		prefix := stack[len(stack)-1]
		stack = stack[:len(stack)-1]
		ch, results, o := schedOnce(sc, l, prefix)
		out.Runs++
		if ch.diverged != "" {
			out.Violations = append(out.Violations, warmViolation{prefix, "HARNESS-DIVERGED", ch.diverged})
			continue
		}
		if sig, detail := judgeExecution(sc, base, ch, results, o); sig != "" {
			out.Violations = append(out.Violations, warmViolation{prefix, sig, detail})
			if o.Deadlock || o.Horizon {
				// parked goroutines are abandoned; this process keeps going
			}
		}
		dev, acc := 0, 0
		var kids [][]int
		for i, p := range ch.points {
			if i >= len(prefix) {
				for alt := 1; alt < p.N; alt++ {
					if acc+p.Cost > bound || !p.Shared {
						break
					}
					if len(prefix) == 0 {
						// level-1 subtrees are dealt round-robin to the shards
						rootKid++
						if rootKid%nshards != shard {
							continue
						}
					}
					np := make([]int, i+1)
					for j := 0; j < i; j++ {
						np[j] = ch.points[j].Alt
					}
					np[i] = alt
					kids = append(kids, np)
				}
			}
			if p.Alt != 0 {
				acc += p.Cost
				dev += p.Cost
			}
		}
		if dev > 0 {
			out.Deviating++
		}
		for i := len(kids) - 1; i >= 0; i-- {
			stack = append(stack, kids[i])
		}
	}
	emit()
}

// ---------------------------------------------------------------------------
// parent side

type c36Case struct {
	Scenario int    `json:"scenario"`
	Name     string `json:"name"`
	Choices  []int  `json:"choices"`
	Race     bool   `json:"race,omitempty"`
	Warm     bool   `json:"warm,omitempty"`
}

// childExtraEnv is set (between explorations, never during one) to pass options to the children.
var childExtraEnv []string

// childTimeout bounds one child execution (normally 0.3-1 s): a child that is still running after this
// long is killed and reported as non-terminating (three orders of magnitude of slack).
const childTimeout = 10 * time.Minute

func runChild(bin string, args ...string) (*childOut, string, error) {
	ctx, cancel := context.WithTimeout(context.Background(), childTimeout)
	defer cancel()
	cmd := exec.CommandContext(ctx, bin, append([]string{"--child"}, args...)...)
	cmd.Env = append(append(os.Environ(), "GOMAXPROCS=1", "GOGC=off"), childExtraEnv...)
	var so, se bytes.Buffer
	cmd.Stdout, cmd.Stderr = &so, &se
	err := cmd.Run()
	if err != nil {
		if ctx.Err() != nil {
			return nil, "child did not terminate within " + childTimeout.String() + "\n" + se.String(), err
		}
		return nil, se.String(), err
	}
	var out childOut
	line := bytes.TrimSpace(so.Bytes())
	if i := bytes.LastIndexByte(line, '\n'); i >= 0 {
		line = line[i+1:]
	}
	if e := json.Unmarshal(line, &out); e != nil {
		return nil, so.String() + se.String(), e
	}
	return &out, se.String(), nil
}

func choicesArg(c []int) string {
	if len(c) == 0 {
		return "-"
	}
	s := make([]string, len(c))
	for i, x := range c {
		s[i] = strconv.Itoa(x)
	}
	return strings.Join(s, ",")
}

func prepareLedger(dir string) string {
	l := rt.NewLedger()
	rt.Deploy(l, rt.Addr(1), "C", sharedContract, false)
	var buf bytes.Buffer
	if err := gob.NewEncoder(&buf).Encode(l); err != nil {
		panic(err)
	}
	path := dir + "/c36.ledger.gob"
	if err := os.WriteFile(path, buf.Bytes(), 0o644); err != nil {
		panic(err)
	}
	return path
}

func prepareLedgerInChild(bin, dir string) (string, error) {
	ctx, cancel := context.WithTimeout(context.Background(), childTimeout)
	defer cancel()
	cmd := exec.CommandContext(ctx, bin, "--child", "mkledger", dir)
	var se bytes.Buffer
	cmd.Stderr = &se
	out, err := cmd.Output()
	if err != nil {
		return "", fmt.Errorf("%v: %s", err, trunc(se.String(), 800))
	}
	return strings.TrimSpace(string(out)), nil
}

type baseline struct {
	results []string
}

func runC36(env *mc.Env) {
	bin, _ := os.Executable()
	tmp, err := os.MkdirTemp("", "c36")
	if err != nil {
		env.R.HarnessError("%v", err)
		return
	}
	defer os.RemoveAll(tmp)
	// the ledger (contract C deployed) is prepared by a child process too, so that a change to the code under
	// test that makes even sequential deployment hang or crash cannot hang this parent
	ledger, lerr := prepareLedgerInChild(bin, tmp)
	if lerr != nil {
		env.R.HarnessError("sequential deployment of the shared contract failed (not a concurrency matter): %v", lerr)
		return
	}
	if st, err := explorerSelfTest(); err != nil {
		env.R.HarnessError("%v", err)
		return
	} else {
		env.R.Set("explorer_selftest", map[string]any{"lost_update_found_at_bound": 1, "deadlock_found_at_bound": 1,
			"schedules_bound0": st.Schedules0, "schedules_bound1": st.Schedules1,
			"note": "toy lost-update and lock-order-inversion protocols on the same shim primitives: not found with 0 preemptions, found with 1"})
	}
	scs := scenarios()
	bound := 1                       // cold (one process per execution) preemption bound; bound 2 is ~10^5 processes per scenario
	nsc := mc.Pick(env, 1, len(scs)) // cold scenarios (one process per execution, ~12 executions/s on 16 cores)
	nWarm := mc.Pick(env, 4, len(scs)) // warm scenarios (in-process): four at bound 1 in quick (the budget), all at bound 2 (time-sliced) in thorough
	warmBound := mc.Pick(env, 1, 2)
	env.R.Set("preemption_bound_cold", bound)
	env.R.Set("preemption_bound_warm", warmBound)
	var totalRuns, totalPoints atomic.Int64
	completed := []string{}
	warmCompleted := []string{}
	for si := 0; si < nsc; si++ {
		sc := scs[si]
		// sequential baselines: each thread alone in a fresh process
		base := make([]string, len(sc.Threads))
		ok := true
		for ti := range sc.Threads {
			o, stderr, err := runChild(bin, "seq", strconv.Itoa(si), ledger, strconv.Itoa(ti))
			if err != nil {
				env.R.HarnessError("baseline %s/%d failed: %v %s", sc.Name, ti, err, trunc(stderr, 500))
				ok = false
				break
			}
			base[ti] = o.Results[0]
			if strings.HasPrefix(base[ti], "ERR") || strings.HasPrefix(base[ti], "PANIC") || strings.HasPrefix(base[ti], "CHECK-ERR") {
				env.R.HarnessError("baseline of %s thread %d is not a success: %s", sc.Name, ti, base[ti])
				ok = false
			}
		}
		if !ok {
			continue
		}
		env.R.Sample(map[string]any{"scenario": sc.Name, "sequential_results": base})
		// DFS over schedules, one child process per execution
		complete := exploreSchedules(env, bin, si, sc, ledger, base, bound, &totalRuns, &totalPoints)
		if complete {
			completed = append(completed, fmt.Sprintf("%s<=%d", sc.Name, bound))
		} else {
			break
		}
		// warm phase: deeper bound, in-process (process-global caches warm, per-execution objects cold)
		if wb := warmBound; false {
			if warmPhase(env, bin, tmp, si, sc, ledger, base, wb) {
				warmCompleted = append(warmCompleted, fmt.Sprintf("%s<=%d", sc.Name, wb))
			}
		}
	}
	for si := 0; si < nWarm && !env.Expired(); si++ {
		sc := scs[si]
		base := make([]string, len(sc.Threads))
		ok := true
		for ti := range sc.Threads {
			o, _, err := runChild(bin, "seq", strconv.Itoa(si), ledger, strconv.Itoa(ti))
			if err != nil || strings.HasPrefix(o.Results[0], "ERR") || strings.HasPrefix(o.Results[0], "PANIC") || strings.HasPrefix(o.Results[0], "CHECK-ERR") {
				env.R.HarnessError("baseline %s/%d failed", sc.Name, ti)
				ok = false
				break
			}
			base[ti] = o.Results[0]
		}
		if ok && warmPhase(env, bin, tmp, si, sc, ledger, base, warmBound) {
			warmCompleted = append(warmCompleted, fmt.Sprintf("%s<=%d", sc.Name, warmBound))
		}
	}
	env.R.Set("warm_scenarios_completed", warmCompleted)
	// thorough tier: one scenario once more WITHOUT the partial-order reduction (a preemption before every
	// synchronization operation). The reduction assumes data-race freedom; without it the scheduler itself can
	// expose a lazily initialised structure that is published before it is filled, if the filling crosses a
	// synchronization operation.
	if env.Thorough() && !env.Expired() {
		si := 1
		sc := scs[si]
		base := make([]string, len(sc.Threads))
		ok := true
		for ti := range sc.Threads {
			o, _, err := runChild(bin, "seq", strconv.Itoa(si), ledger, strconv.Itoa(ti))
			if err != nil {
				ok = false
				break
			}
			base[ti] = o.Results[0]
		}
		if ok {
			childExtraEnv = []string{"VERIF_C36_NOPOR=1"}
			if exploreSchedules(env, bin, si, sc, ledger, base, bound, &totalRuns, &totalPoints) {
				env.R.Set("no_reduction_scenario_completed", fmt.Sprintf("%s<=%d (every synchronization operation is a preemption point)", sc.Name, bound))
			}
			childExtraEnv = nil
		}
	}
	env.R.Set("scenarios_completed", completed)
	env.R.BoundCompleted(fmt.Sprintf("preemptions<=%d on %d scenarios", bound, len(completed)))
	env.R.Set("schedule_points_total", totalPoints.Load())
	racePass(env, ledger, mc.Pick(env, 4, len(scs)))
}

func exploreSchedules(env *mc.Env, bin string, si int, sc scenario, ledger string, base []string, bound int,
	totalRuns, totalPoints *atomic.Int64) bool {
	var mu sync.Mutex
	cond := sync.NewCond(&mu)
	stack := [][]int{nil}
	active := 0
	complete := true
	var wg sync.WaitGroup
	nw := env.Workers
	if nw > 10 {
		nw = 10 // process start-up does not scale beyond ~8-10 parallel children on this class of machine
	}
	for w := 0; w < nw; w++ {
		wg.Add(1)
		go func() {
			defer wg.Done()
			for {
				mu.Lock()
				for len(stack) == 0 && active > 0 {
					cond.Wait()
				}
				if len(stack) == 0 {
					mu.Unlock()
					cond.Broadcast()
					return
				}
				if env.Expired() {
					if complete {
						complete = false
						env.R.NotExhaustive(fmt.Sprintf("deadline in scenario %s at bound %d with %d prefixes pending", sc.Name, bound, len(stack)))
					}
					stack = nil
					mu.Unlock()
					cond.Broadcast()
					return
				}
				prefix := stack[len(stack)-1]
				stack = stack[:len(stack)-1]
				active++
				mu.Unlock()

				kids := oneExecution(env, bin, si, sc, ledger, base, prefix, bound, totalPoints)
				totalRuns.Add(1)

				mu.Lock()
				for i := len(kids) - 1; i >= 0; i-- {
					stack = append(stack, kids[i])
				}
				active--
				mu.Unlock()
				cond.Broadcast()
			}
		}()
	}
	wg.Wait()
	return complete
}

func oneExecution(env *mc.Env, bin string, si int, sc scenario, ledger string, base []string, prefix []int, bound int,
	totalPoints *atomic.Int64) (kids [][]int) {
	c := c36Case{Scenario: si, Name: sc.Name, Choices: prefix}
	o, stderr, err := runChild(bin, "sched", strconv.Itoa(si), ledger, choicesArg(prefix))
	env.R.Eval()
	env.R.Transitions.Add(1)
	if err != nil {
		// the child crashed: a fatal error (concurrent map access, stack overflow, ...) under this schedule
		env.R.Violation(fmt.Sprintf("%s|child-crash|%s", modesOf(sc), crashClass(stderr)), c,
			fmt.Sprintf("child process failed under schedule %v: %v\n%s", prefix, err, trunc(stderr, 1500)))
		return nil
	}
	if o.Diverged != "" {
		env.R.HarnessError("scenario %s: %s (prefix %v)", sc.Name, o.Diverged, prefix)
		return nil
	}
	totalPoints.Add(int64(len(o.Points)))
	switch {
	case o.Deadlock:
		env.R.Class("deadlock", func() any { return c })
		env.R.Violation(fmt.Sprintf("%s|deadlock|%s", modesOf(sc), strings.Join(o.Blocked, ",")), c,
			fmt.Sprintf("deadlock: no enabled thread; blocked: %v", o.Blocked))
	case o.Horizon:
		env.R.Class("horizon", func() any { return c })
		env.R.Violation(fmt.Sprintf("%s|livelock-horizon", modesOf(sc)), c, "step horizon exceeded (livelock or runaway spinning)")
	default:
		same := true
		for i := range base {
			if o.Results[i] != base[i] {
				same = false
				env.R.Violation(fmt.Sprintf("%s|thread-result-differs|%s", modesOf(sc), resultClass(o.Results[i])), c,
					fmt.Sprintf("thread %d under schedule %v:\n  concurrent: %s\n  sequential: %s", i, prefix, trunc(o.Results[i], 600), trunc(base[i], 600)))
			}
		}
		if same {
			env.R.Class("equal-to-sequential", nil)
		}
	}
	dev := 0
	for _, p := range o.Points {
		if p.Alt != 0 {
			dev += p.Cost
		}
	}
	if dev > 0 {
		env.R.Nontrivial(fmt.Sprintf("%d:%v", si, prefix))
	}
	env.R.State(fmt.Sprintf("%d:%v", si, prefix))
	// children: extend every point after the prefix with every alternative within the bound
	acc := 0
	for i, p := range o.Points {
		if i >= len(prefix) {
			for alt := 1; alt < p.N; alt++ {
				if acc+p.Cost > bound || !p.Shared {
					break
				}
				np := make([]int, i+1)
				for j := 0; j < i; j++ {
					np[j] = o.Points[j].Alt
				}
				np[i] = alt
				kids = append(kids, np)
			}
		}
		if p.Alt != 0 {
			acc += p.Cost
		}
	}
	return kids
}

// warmPhase explores scenario si at the given bound inside env.Workers child
// processes (each explores a shard of the level-1 subtrees in-process).
func warmPhase(env *mc.Env, bin, tmp string, si int, sc scenario, ledger string, base []string, bound int) bool {
	basefile := fmt.Sprintf("%s/base.%d.json", tmp, si)
	b, _ := json.Marshal(base)
	os.WriteFile(basefile, b, 0o644)
	secs := int(time.Until(env.Deadline).Seconds()) / 2
	if secs > mc.Pick(env, 20, 300) {
		secs = mc.Pick(env, 20, 300)
	}
	if secs < 3 {
		return false
	}
	n := env.Workers
	outs := make([]*warmOut, n)
	mc.ParallelFor(env, n, func(k int) {
		cmd := exec.Command(bin, "--child", "warm", strconv.Itoa(si), ledger, strconv.Itoa(bound), strconv.Itoa(k), strconv.Itoa(n), strconv.Itoa(secs), basefile)
		cmd.Env = append(os.Environ(), "GOMAXPROCS=1")
		var so, se bytes.Buffer
		cmd.Stdout, cmd.Stderr = &so, &se
		if err := cmd.Run(); err != nil {
			env.R.Violation(fmt.Sprintf("%s|warm-child-crash|%s", modesOf(sc), crashClass(se.String())),
				c36Case{Scenario: si, Name: sc.Name, Warm: true}, fmt.Sprintf("warm explorer shard %d crashed: %v\n%s", k, err, trunc(se.String(), 1500)))
			return
		}
		var o warmOut
		line := bytes.TrimSpace(so.Bytes())
		if i := bytes.LastIndexByte(line, '\n'); i >= 0 {
			line = line[i+1:]
		}
		if err := json.Unmarshal(line, &o); err != nil {
			env.R.HarnessError("warm shard %d: bad output: %v", k, err)
			return
		}
		outs[k] = &o
	})
	complete := true
	var runs, dev int64
	for _, o := range outs {
		if o == nil {
			complete = false
			continue
		}
		runs += o.Runs
		dev += o.Deviating
		if !o.Complete {
			complete = false
		}
		for _, v := range o.Violations {
			if v.Sig == "HARNESS-DIVERGED" {
				env.R.HarnessError("warm exploration of %s diverged: %s", sc.Name, v.Detail)
				continue
			}
			env.R.Violation("warm|"+v.Sig, c36Case{Scenario: si, Name: sc.Name, Choices: v.Choices, Warm: true}, v.Detail)
		}
	}
	env.R.EvalN(runs)
	env.R.Transitions.Add(runs)
	env.R.States.Add(runs)
	env.R.Add("warm_in_process_executions", runs)
	env.R.Add("warm_executions_with_deviation", dev)
	env.R.ClassN("warm:equal-to-sequential", runs)
	if !complete {
		env.R.NotExhaustive(fmt.Sprintf("warm phase of %s at bound %d hit its time slice", sc.Name, bound))
	}
	return complete
}

func modesOf(sc scenario) string {
	var m []string
	for _, t := range sc.Threads {
		s := t.Mode
		if t.VM {
			s += "-vm"
		}
		m = append(m, s)
	}
	sort.Strings(m)
	return strings.Join(m, "+")
}

func resultClass(r string) string {
	for _, p := range []string{"PANIC(thread)", "PANIC", "ERR[internal", "ERR[user", "ERR[", "CHECK-ERR", "CCF-ERR", "OK", "CHECKED"} {
		if strings.HasPrefix(r, p) {
			return p
		}
	}
	return "other"
}

func crashClass(stderr string) string {
	for _, ln := range strings.Split(stderr, "\n") {
		if strings.HasPrefix(ln, "fatal error:") || strings.HasPrefix(ln, "panic:") {
			return trunc(ln, 80)
		}
	}
	return "unknown"
}

// racePass runs the same thread bodies free-running in fresh processes of the
// -race build (supplementary: not exhaustive, reported separately).
func racePass(env *mc.Env, ledger string, nsc int) {
	self, _ := os.Executable()
	raceBin := os.Getenv("VERIF_RACE_BIN")
	if raceBin == "" {
		raceBin = self + ".race"
	}
	if _, err := os.Stat(raceBin); err != nil {
		env.R.Set("race_pass", "skipped: no -race binary at "+raceBin)
		return
	}
	reps := mc.Pick(env, 8, 60)
	type job struct{ si, rep, procs int }
	var jobs []job
	for si := 0; si < nsc; si++ {
		for rep := 0; rep < reps; rep++ {
			for _, p := range []int{2, 16} {
				jobs = append(jobs, job{si, rep, p})
			}
		}
	}
	var runs, reports atomic.Int64
	scs := scenarios()
	mc.ParallelFor(env, len(jobs), func(i int) {
		j := jobs[i]
		cmd := exec.Command(raceBin, "--child", "race", strconv.Itoa(j.si), ledger, "-")
		cmd.Env = append(os.Environ(), fmt.Sprintf("GOMAXPROCS=%d", j.procs), "GORACE=halt_on_error=1 exitcode=66")
		var so, se bytes.Buffer
		cmd.Stdout, cmd.Stderr = &so, &se
		err := cmd.Run()
		runs.Add(1)
		if err != nil {
			if strings.Contains(se.String(), "WARNING: DATA RACE") {
				reports.Add(1)
				sig := raceSignature(se.String())
				env.R.ViolationNoConfirm(fmt.Sprintf("%s|data-race|%s", modesOf(scs[j.si]), sig),
					c36Case{Scenario: j.si, Name: scs[j.si].Name, Race: true}, trunc(se.String(), 3000))
			} else {
				env.R.ViolationNoConfirm(fmt.Sprintf("%s|race-build-crash|%s", modesOf(scs[j.si]), crashClass(se.String())),
					c36Case{Scenario: j.si, Name: scs[j.si].Name, Race: true}, trunc(se.String(), 3000))
			}
		}
	})
	env.R.Set("race_pass", map[string]any{"free_running_process_runs": runs.Load(), "race_reports": reports.Load(),
		"note": "supplementary -race pass over the same thread bodies; sampling, not exhaustive"})
}

// raceSignature: the two top non-runtime frames of the racing accesses.
func raceSignature(report string) string {
	var fns []string
	lines := strings.Split(report, "\n")
	for i, ln := range lines {
		if (strings.HasPrefix(ln, "Write at") || strings.HasPrefix(ln, "Read at") || strings.HasPrefix(ln, "Previous write at") || strings.HasPrefix(ln, "Previous read at")) && i+1 < len(lines) {
			f := strings.TrimSpace(lines[i+1])
			f = strings.TrimSuffix(f, "()")
			f = strings.TrimPrefix(f, "github.com/onflow/cadence/")
			fns = append(fns, f)
		}
	}
	sort.Strings(fns)
	return strings.Join(fns, "~")
}

func replayC36(env *mc.Env, raw json.RawMessage) (bool, string) {
	var c c36Case
	if err := json.Unmarshal(raw, &c); err != nil {
		return false, err.Error()
	}
	bin, _ := os.Executable()
	tmp, _ := os.MkdirTemp("", "c36r")
	defer os.RemoveAll(tmp)
	ledger, lerr := prepareLedgerInChild(bin, tmp)
	if lerr != nil {
		return false, "ledger preparation failed: " + lerr.Error()
	}
	sc := scenarios()[c.Scenario]
	base := make([]string, len(sc.Threads))
	for ti := range sc.Threads {
		o, _, err := runChild(bin, "seq", strconv.Itoa(c.Scenario), ledger, strconv.Itoa(ti))
		if err != nil {
			return false, "baseline failed: " + err.Error()
		}
		base[ti] = o.Results[0]
	}
	if c.Warm {
		basefile := tmp + "/base.json"
		b, _ := json.Marshal(base)
		os.WriteFile(basefile, b, 0o644)
		cmd := exec.Command(bin, "--child", "warmreplay", strconv.Itoa(c.Scenario), ledger, choicesArg(c.Choices), basefile)
		cmd.Env = append(os.Environ(), "GOMAXPROCS=1")
		var so, se bytes.Buffer
		cmd.Stdout, cmd.Stderr = &so, &se
		if err := cmd.Run(); err != nil {
			return true, "warm replay child crashed: " + trunc(se.String(), 800)
		}
		var o warmOut
		if err := json.Unmarshal(bytes.TrimSpace(so.Bytes()), &o); err != nil {
			return false, "bad warm replay output"
		}
		if len(o.Violations) > 0 {
			return true, o.Violations[0].Detail
		}
		return false, "warm replay: results equal sequential"
	}
	o, stderr, err := runChild(bin, "sched", strconv.Itoa(c.Scenario), ledger, choicesArg(c.Choices))
	if err != nil {
		return true, "child crashed: " + trunc(stderr, 800)
	}
	if o.Deadlock || o.Horizon {
		return true, fmt.Sprintf("deadlock=%v horizon=%v blocked=%v", o.Deadlock, o.Horizon, o.Blocked)
	}
	for i := range base {
		if o.Results[i] != base[i] {
			return true, fmt.Sprintf("thread %d: concurrent %s vs sequential %s", i, trunc(o.Results[i], 400), trunc(base[i], 400))
		}
	}
	return false, "all thread results equal their sequential runs"
}

func init() {
	mc.Register(&mc.Check{
		ID:   "C36",
		Rule: "scenarios of 2–3 threads (parse+check with an elaboration digest, or execute a script with the interpreter / VM and CCF-encode the result) that import one shared contract through a shared program cache and touch the same lazily initialised caches; every interleaving at cadence's own sync/atomic operations (overlay-compiled shims) with at most `preemption_bound` preemptions, sync.Pool.Get answers included, one fresh process per execution; non-trivial = execution with >= 1 deviation from the non-preemptive schedule",
		Assumptions: []string{
			"schedule points are cadence's sync / sync/atomic operations; a race whose window contains no such operation is visible only to the supplementary free-running -race pass",
			"goroutines inside third-party modules (atree) are not scheduled",
			"process-global caches are cold because each execution is a fresh process",
		},
		Run:    runC36,
		Replay: replayC36,
	})
	_ = time.Now
}

// parseAndCheck parses and checks src against the ledger's deployed contracts
// (check only, no execution) through the runtime's public entry point.
func parseAndCheck(l *rt.Ledger, src string, loc common.Location, hook func(*ru.TestRuntimeInterface)) (*interpreter.Program, error) {
	iface := &ru.TestRuntimeInterface{
		OnResolveLocation: func(ids []runtime.Identifier, location runtime.Location) ([]runtime.ResolvedLocation, error) {
			if al, ok := location.(common.AddressLocation); ok && al.Name == "" {
				var out []runtime.ResolvedLocation
				for _, id := range ids {
					out = append(out, runtime.ResolvedLocation{
						Location:    common.AddressLocation{Address: al.Address, Name: id.Identifier},
						Identifiers: []runtime.Identifier{id},
					})
				}
				return out, nil
			}
			return []runtime.ResolvedLocation{{Location: location, Identifiers: ids}}, nil
		},
		OnGetCode: func(location runtime.Location) ([]byte, error) { return l.Code[string(location.ID())], nil },
		OnGetAccountContractCode: func(location common.AddressLocation) ([]byte, error) {
			return l.Code[string(location.ID())], nil
		},
	}
	if hook != nil {
		hook(iface)
	}
	r := runtime.NewRuntime(runtime.Config{AtreeValidationEnabled: true})
	return r.ParseAndCheckProgram([]byte(src), runtime.Context{Interface: iface, Location: loc})
}

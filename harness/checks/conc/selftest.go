//go:build verifovl

package conc

import (
	"fmt"

	"github.com/onflow/cadence/verifshim/sched"
	"github.com/onflow/cadence/verifshim/vatomic"
	"github.com/onflow/cadence/verifshim/vsync"
)

// Explorer self-test: two toy protocols written with the same shim primitives that
// the overlay compiles into cadence, with a known answer. It runs inside the check
// process on every run; a wrong answer is a harness defect (exit 2), never a VIOLATION.
//
//  1. lost update: two threads do `v := x.Load(); x.Store(v+1)` — every
//     non-preemptive schedule ends with x == 2, and exactly the schedules with a
//     preemption between a thread's Load and Store can end with x == 1;
//  2. lock-order inversion: thread 0 locks a then b, thread 1 locks b then a —
//     deadlock is reachable with one preemption and not with zero.

type selftestResult struct {
	Schedules0, Schedules1 int
	LostUpdateAt0          bool
	LostUpdateAt1          bool
	DeadlockAt0            bool
	DeadlockAt1            bool
}

func exploreToy(bound int, mk func() (bodies []func(), bad func(o sched.Outcome) bool)) (runs int, found bool) {
	stack := [][]int{nil}
	for len(stack) > 0 {
		prefix := stack[len(stack)-1]
		stack = stack[:len(stack)-1]
		ch := &prefixChooser{prefix: prefix}
		bodies, bad := mk()
		o := sched.Run(ch, 10000, bodies...)
		runs++
		if bad(o) {
			found = true
		}
		acc := 0
		for i, p := range ch.points {
			if i >= len(prefix) {
				for alt := 1; alt < p.N; alt++ {
					if acc+p.Cost > bound {
						break
					}
					np := make([]int, i+1)
					for j := 0; j < i; j++ {
						np[j] = ch.points[j].Alt
					}
					np[i] = alt
					stack = append(stack, np)
				}
			}
			if p.Alt != 0 {
				acc += p.Cost
			}
		}
		if runs > 100000 {
			break
		}
	}
	return
}

func explorerSelfTest() (selftestResult, error) {
	var r selftestResult
	lost := func() ([]func(), func(sched.Outcome) bool) {
		var x vatomic.Int64
		inc := func() {
			v := x.Load()
			x.Store(v + 1)
		}
		return []func(){inc, inc}, func(o sched.Outcome) bool { return !o.Deadlock && x.Load() != 2 }
	}
	dead := func() ([]func(), func(sched.Outcome) bool) {
		var a, b vsync.Mutex
		t0 := func() { a.Lock(); b.Lock(); b.Unlock(); a.Unlock() }
		t1 := func() { b.Lock(); a.Lock(); a.Unlock(); b.Unlock() }
		return []func(){t0, t1}, func(o sched.Outcome) bool { return o.Deadlock }
	}
	r.Schedules0, r.LostUpdateAt0 = exploreToy(0, lost)
	r.Schedules1, r.LostUpdateAt1 = exploreToy(1, lost)
	_, r.DeadlockAt0 = exploreToy(0, dead)
	_, r.DeadlockAt1 = exploreToy(1, dead)
	if r.LostUpdateAt0 || !r.LostUpdateAt1 || r.DeadlockAt0 || !r.DeadlockAt1 {
		return r, fmt.Errorf("explorer self-test gave the wrong answer: %+v", r)
	}
	return r, nil
}

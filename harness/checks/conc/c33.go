//go:build verifovl

package conc

import (
	"bytes"
	"context"
	"encoding/json"
	"fmt"
	"os"
	"os/exec"
	goruntime "runtime"
	"sort"
	"strings"
	"time"

	"github.com/onflow/cadence/common"
	"github.com/onflow/cadence/verifshim/vmaprange"

	"verif/mc"
	"verif/rt"
)

// C33 — execution outcomes are deterministic.
//
// A corpus of short transaction histories is executed in child processes under
// every configuration of a finite menu: CPU affinity (runtime.NumCPU feeds the
// commit worker count) x GOMAXPROCS x process restarts, and — through the
// map-range overlay — every canonical order policy for Go map iteration
// (ascending, descending, rotations; then one deviating site at a time for
// every map-range site the corpus executes). Every observation (results,
// errors, events, logs, SetValue sequence with keys, values and order, code
// updates) must be byte-identical to the reference run.

const c33Contract = `
access(all) contract K {
    access(all) event Made(id: UInt64, tag: String)
    access(all) event Note(key: String, value: Int)
    access(all) entitlement E
    access(all) struct P { access(all) var xs: [Int]; access(all) var m: {String: Int}
        init() { self.xs = [1, 2, 3]; self.m = {"a": 1, "b": 2, "c": 3} } }
    access(all) resource R {
        access(all) let tag: String
        access(all) var inner: @{String: R}
        access(all) event ResourceDestroyed(uuid: UInt64 = self.uuid, tag: String = self.tag)
        init(tag: String) { self.tag = tag; self.inner <- {}; emit Made(id: self.uuid, tag: tag) }
        access(all) fun add(_ k: String) { let old <- self.inner[k] <- create R(tag: self.tag.concat("/").concat(k)); destroy old }
    }
    access(all) attachment A1 for R { access(all) fun n(): Int { return 1 } }
    access(all) attachment A2 for R { access(all) fun n(): Int { return 2 } }
    access(all) fun mk(_ tag: String): @R { return <- create R(tag: tag) }
    access(all) var counter: Int
    access(all) fun bump(): Int { self.counter = self.counter + 1; return self.counter }
    init() { self.counter = 0 }
}
`

type c33Step struct {
	Script  bool
	Signers []byte
	Src     string
}

type c33Item struct {
	Name  string
	Steps []c33Step
}

func c33Corpus() []c33Item {
	tx := func(signers []byte, src string) c33Step {
		return c33Step{Signers: signers, Src: "import K from 0x1\n" + src}
	}
	sc := func(src string) c33Step { return c33Step{Script: true, Src: "import K from 0x1\n" + src} }
	one, two, both := []byte{1}, []byte{2}, []byte{1, 2}
	return []c33Item{
		{"dict-events", []c33Step{tx(one, `transaction { prepare(a: auth(Storage) &Account) {
			let d: {String: Int} = {"z": 26, "a": 1, "m": 13, "q": 17, "b": 2}
			for k in d.keys { emit K.Note(key: k, value: d[k]!) ; log(k) }
			a.storage.save(d, to: /storage/d) } }`),
			sc(`access(all) fun main(): [String] { return getAuthAccount<auth(Storage) &Account>(0x1).storage.borrow<&{String: Int}>(from: /storage/d)!.keys }`)}},
		{"two-accounts-many-slabs", []c33Step{tx(both, `transaction { prepare(a: auth(Storage) &Account, b: auth(Storage) &Account) {
			var i = 0
			let xs: [String] = []
			while i < 120 { xs.append("element-number-".concat(i.toString()).concat("-padding-padding-padding")); i = i + 1 }
			a.storage.save(xs, to: /storage/xs); b.storage.save(xs, to: /storage/xs)
			a.storage.save(K.P(), to: /storage/p); b.storage.save({1: "one", 2: "two", 3: "three"}, to: /storage/m)
			let r <- K.mk("top"); r.add("x"); r.add("y"); r.add("z"); b.storage.save(<- r, to: /storage/r) } }`),
			tx(two, `transaction { prepare(b: auth(Storage) &Account) {
			let r <- b.storage.load<@K.R>(from: /storage/r)!; destroy r
			let xs = b.storage.borrow<auth(Mutate) &[String]>(from: /storage/xs)!
			var i = 0; while i < 60 { xs.removeLast(); i = i + 1 } } }`)}},
		{"three-new-accounts", []c33Step{tx([]byte{4, 3, 2}, `transaction { prepare(a: auth(Storage, Capabilities) &Account, b: auth(Storage, Capabilities) &Account, c: auth(Storage, Capabilities) &Account) {
			c.storage.save("c", to: /storage/v); a.storage.save([1, 2, 3], to: /storage/v); b.storage.save({"k": 1}, to: /storage/v)
			let cap = b.capabilities.storage.issue<&{String: Int}>(/storage/v); c.capabilities.publish(c.capabilities.storage.issue<&String>(/storage/v), at: /public/v)
			log(cap.id) } }`),
			tx([]byte{3, 2, 4}, `transaction { prepare(a: auth(Storage) &Account, b: auth(Storage) &Account, c: auth(Storage) &Account) {
			let x = a.storage.load<{String: Int}>(from: /storage/v)!; b.storage.save(x, to: /storage/w); c.storage.save(x, to: /storage/w) } }`)}},
		{"contracts-multi-deploy", []c33Step{tx(both, `transaction { prepare(a: auth(Contracts) &Account, b: auth(Contracts) &Account) {
			b.contracts.add(name: "Z", code: "access(all) contract Z { access(all) let v: Int; init() { self.v = 1 } }".utf8)
			a.contracts.add(name: "Y", code: "access(all) contract Y { access(all) let v: Int; init() { self.v = 2 } }".utf8)
			b.contracts.add(name: "B", code: "access(all) contract B { access(all) let v: Int; init() { self.v = 3 } }".utf8)
			a.contracts.add(name: "A", code: "access(all) contract A { access(all) let v: Int; init() { self.v = 4 } }".utf8) } }`),
			tx(both, `transaction { prepare(a: auth(Contracts) &Account, b: auth(Contracts) &Account) {
			a.contracts.update(name: "Y", code: "access(all) contract Y { access(all) let v: Int; access(all) fun f(): Int { return 1 }; init() { self.v = 2 } }".utf8)
			b.contracts.remove(name: "Z")
			log(a.contracts.names); log(b.contracts.names) } }`)}},
		{"attachments-iteration", []c33Step{tx(one, `transaction { prepare(a: auth(Storage) &Account) {
			let r <- K.mk("att")
			let r1 <- attach K.A1() to <- r
			let r2 <- attach K.A2() to <- r1
			r2.forEachAttachment(fun (att: &AnyResourceAttachment) { log(att.getType().identifier) })
			a.storage.save(<- r2, to: /storage/att) } }`),
			tx(one, `transaction { prepare(a: auth(Storage) &Account) { let r <- a.storage.load<@K.R>(from: /storage/att)!; destroy r } }`)}},
		{"storage-iteration", []c33Step{tx(one, `transaction { prepare(a: auth(Storage, Capabilities) &Account) {
			a.storage.save(1, to: /storage/s1); a.storage.save("two", to: /storage/s2); a.storage.save([3], to: /storage/s3); a.storage.save({4: 4}, to: /storage/s4)
			let c1 = a.capabilities.storage.issue<&Int>(/storage/s1); let c2 = a.capabilities.storage.issue<&String>(/storage/s2)
			a.capabilities.publish(c1, at: /public/p1); a.capabilities.publish(c2, at: /public/p2)
			a.storage.forEachStored(fun (path: StoragePath, type: Type): Bool { log(path.toString().concat(":").concat(type.identifier)); return true })
			a.storage.forEachPublic(fun (path: PublicPath, type: Type): Bool { log(path.toString()); return true })
			log(a.storage.storagePaths); log(a.storage.publicPaths)
			a.capabilities.storage.forEachController(forPath: /storage/s1, fun (c: &StorageCapabilityController): Bool { log(c.capabilityID); return true }) } }`),
			sc(`access(all) fun main(): [StoragePath] { return getAuthAccount<auth(Storage) &Account>(0x1).storage.storagePaths }`)}},
		{"contract-state-and-inbox", []c33Step{tx(both, `transaction { prepare(a: auth(Storage, Capabilities, Inbox) &Account, b: auth(Inbox) &Account) {
			log(K.bump()); log(K.bump())
			a.storage.save(K.P(), to: /storage/pp)
			let cap = a.capabilities.storage.issue<&K.P>(/storage/pp)
			a.inbox.publish(cap, name: "c1", recipient: 0x2); a.inbox.publish(cap, name: "c0", recipient: 0x2)
			let got = b.inbox.claim<&K.P>("c0", provider: 0x1)!
			log(got.borrow()!.m.keys) } }`),
			tx(one, `transaction { prepare(a: auth(Storage) &Account) { log(K.bump()); panic("abort after bump") } }`),
			sc(`access(all) fun main(): Int { return K.counter }`)}},
		{"failing-and-types", []c33Step{sc(`access(all) fun main(): [AnyStruct] {
			let t: [Type] = [Type<Int>(), Type<{String: [Int?]}>(), Type<&K.P>(), Type<auth(K.E) &K.P>(), Type<@K.R>(), Type<Capability<&K.P>>()]
			let ids: [String] = []
			for x in t { ids.append(x.identifier) }
			return [ids, K.P().m, {"k": {"n": [1, 2]}}, 1.5, 0x1 as Address, /public/a, "é"] }`),
			sc(`access(all) fun main(): Int { let xs: [Int] = []; return xs[3] }`),
			sc(`access(all) fun main(): Int { let x: Int? = nil; return x! }`),
			tx(one, `transaction { prepare(a: auth(Storage) &Account) { a.storage.save(1, to: /storage/dup); a.storage.save(2, to: /storage/dup) } }`)}},
	}
}

type c33Obs struct {
	Item   string   `json:"item"`
	Engine string   `json:"engine"`
	Lines  []string `json:"lines"`
}

type c33ChildOut struct {
	Obs        []c33Obs       `json:"obs"`
	Sites      map[string]int `json:"sites"`
	Unsortable []string       `json:"unsortable"`
	NumCPU     int            `json:"numcpu"`
}

func c33RunCorpus() []c33Obs {
	var out []c33Obs
	for _, vm := range []bool{false, true} {
		eng := "interpreter"
		if vm {
			eng = "vm"
		}
		for _, it := range c33Corpus() {
			l := rt.NewLedger()
			rt.Deploy(l, rt.Addr(1), "K", c33Contract, vm)
			o := c33Obs{Item: it.Name, Engine: eng}
			for si, st := range it.Steps {
				var signers []common.Address
				for _, s := range st.Signers {
					signers = append(signers, rt.Addr(s))
				}
				res := rt.Run(l, rt.Tx{Source: st.Src, Script: st.Script, Signers: signers, UseVM: vm})
				p := fmt.Sprintf("step%d ", si)
				o.Lines = append(o.Lines, p+"class="+res.Class+" kind="+res.Kind)
				if res.Err != nil {
					o.Lines = append(o.Lines, p+"err="+firstLine(res.ErrString()))
				}
				if res.Value != nil {
					o.Lines = append(o.Lines, p+"value="+res.Value.String())
				}
				for _, e := range res.Events {
					o.Lines = append(o.Lines, p+"event="+e.String())
				}
				for _, lg := range res.Logs {
					o.Lines = append(o.Lines, p+"log="+lg)
				}
				for _, w := range res.Writes {
					o.Lines = append(o.Lines, fmt.Sprintf("%swrite %x/%x=%x", p, w.Owner, w.Key, w.Value))
				}
				for _, c := range res.CodeOps {
					o.Lines = append(o.Lines, p+"code "+c)
				}
			}
			out = append(out, o)
		}
	}
	return out
}

func c33Child() {
	out := c33ChildOut{Obs: c33RunCorpus(), Sites: vmaprange.Sites(), Unsortable: vmaprange.Unsortable(), NumCPU: goruntime.NumCPU()}
	b, _ := json.Marshal(out)
	os.Stdout.Write(b)
	os.Stdout.Write([]byte("\n"))
}

type c33Variant struct {
	Kind     string `json:"kind"` // "config" | "maporder"
	CPUs     int    `json:"cpus,omitempty"`
	GoMax    int    `json:"gomaxprocs,omitempty"`
	MapOrder string `json:"maporder,omitempty"`
	Rep      int    `json:"rep,omitempty"`
}

type c33Case struct {
	Variant c33Variant `json:"variant"`
	Item    string     `json:"item"`
	Engine  string     `json:"engine"`
}

func c33RunVariant(bin string, v c33Variant) (*c33ChildOut, error) {
	args := []string{bin, "--child", "c33"}
	if v.CPUs > 0 {
		args = append([]string{"taskset", "-c", fmt.Sprintf("0-%d", v.CPUs-1)}, args...)
	}
	// a corpus run takes seconds; a child still running after 5 minutes is killed and reported (e.g. a commit
	// that never completes under one CPU configuration)
	ctx, cancel := context.WithTimeout(context.Background(), 5*time.Minute)
	defer cancel()
	cmd := exec.CommandContext(ctx, args[0], args[1:]...)
	env := os.Environ()
	if v.GoMax > 0 {
		env = append(env, fmt.Sprintf("GOMAXPROCS=%d", v.GoMax))
	}
	env = append(env, "VERIF_MAPORDER="+v.MapOrder)
	cmd.Env = env
	var so, se bytes.Buffer
	cmd.Stdout, cmd.Stderr = &so, &se
	if err := cmd.Run(); err != nil {
		if ctx.Err() != nil {
			return nil, fmt.Errorf("child did not terminate within 5 minutes (variant %+v): %s", v, trunc(se.String(), 800))
		}
		return nil, fmt.Errorf("%v: %s", err, trunc(se.String(), 1500))
	}
	var out c33ChildOut
	line := bytes.TrimSpace(so.Bytes())
	if i := bytes.LastIndexByte(line, '\n'); i >= 0 {
		line = line[i+1:]
	}
	if err := json.Unmarshal(line, &out); err != nil {
		return nil, err
	}
	return &out, nil
}

// firstDiff names the first differing observation line's field.
func firstDiff(a, b []string) (string, string) {
	n := len(a)
	if len(b) < n {
		n = len(b)
	}
	field := func(s string) string {
		f := strings.Fields(s)
		if len(f) < 2 {
			return "?"
		}
		x := f[1]
		if i := strings.IndexAny(x, "= "); i > 0 {
			x = x[:i]
		}
		return x
	}
	for i := 0; i < n; i++ {
		if a[i] != b[i] {
			return field(a[i]), fmt.Sprintf("line %d:\n  reference: %s\n  variant:   %s", i, trunc(a[i], 300), trunc(b[i], 300))
		}
	}
	if len(a) != len(b) {
		return "length", fmt.Sprintf("reference has %d observation lines, variant %d", len(a), len(b))
	}
	return "", ""
}

func runC33(env *mc.Env) {
	bin, _ := os.Executable()
	ref, err := c33RunVariant(bin, c33Variant{Kind: "config"})
	if err != nil {
		env.R.HarnessError("reference run failed: %v", err)
		return
	}
	okRuns := 0
	for _, o := range ref.Obs {
		for _, ln := range o.Lines {
			if strings.Contains(ln, "class=ok") {
				okRuns++
			}
		}
	}
	if okRuns < 20 {
		env.R.HarnessError("corpus mostly fails (%d ok steps): harness defect", okRuns)
		return
	}
	env.R.Sample(map[string]any{"item": ref.Obs[0].Item, "engine": ref.Obs[0].Engine, "observation_lines": len(ref.Obs[0].Lines), "first_lines": ref.Obs[0].Lines[:min(6, len(ref.Obs[0].Lines))]})
	// the menu of variants
	var variants []c33Variant
	cpus := mc.Pick(env, []int{1, 2, 4, 16}, []int{1, 2, 3, 4, 8, 16})
	gmp := mc.Pick(env, []int{1, 16}, []int{1, 4, 16})
	for _, c := range cpus {
		for _, g := range gmp {
			variants = append(variants, c33Variant{Kind: "config", CPUs: c, GoMax: g})
		}
	}
	for rep := 1; rep <= mc.Pick(env, 2, 5); rep++ {
		variants = append(variants, c33Variant{Kind: "config", Rep: rep})
	}
	for _, p := range []string{"asc", "desc", "rot:1", "rot:2", "rot:3"} {
		variants = append(variants, c33Variant{Kind: "maporder", MapOrder: p})
	}
	// one deviating site at a time, for every site the corpus executes with >= 2 keys
	asc, err := c33RunVariant(bin, c33Variant{Kind: "maporder", MapOrder: "asc"})
	if err != nil {
		env.R.HarnessError("asc run failed: %v", err)
		return
	}
	var sites []string
	for s := range asc.Sites {
		sites = append(sites, s)
	}
	sort.Strings(sites)
	for _, s := range sites {
		for _, p := range mc.Pick(env, []string{"desc"}, []string{"desc", "rot:1", "rot:2"}) {
			variants = append(variants, c33Variant{Kind: "maporder", MapOrder: "site:" + s + ":" + p})
		}
	}
	env.R.Set("map_range_sites_executed_with_2plus_keys", asc.Sites)
	env.R.Set("unsortable_sites_native_order_kept", asc.Unsortable)
	env.R.Set("variants", len(variants))
	refBy := map[string][]string{}
	for _, o := range ref.Obs {
		refBy[o.Engine+"/"+o.Item] = o.Lines
	}
	mc.ParallelFor(env, len(variants), func(i int) {
		v := variants[i]
		out, err := c33RunVariant(bin, v)
		if err != nil {
			class := "child-failed"
			if strings.Contains(err.Error(), "did not terminate") {
				class = "child-did-not-terminate"
			}
			env.R.Violation(fmt.Sprintf("%s|cpus=%d|maporder=%s|%s", v.Kind, v.CPUs, v.MapOrder, class), c33Case{Variant: v}, err.Error())
			return
		}
		if v.CPUs > 0 && out.NumCPU != 0 && out.NumCPU != v.CPUs {
			env.R.HarnessError("taskset did not take effect: wanted %d CPUs, child saw %d", v.CPUs, out.NumCPU)
		}
		for _, o := range out.Obs {
			env.R.Eval()
			key := o.Engine + "/" + o.Item
			field, detail := firstDiff(refBy[key], o.Lines)
			vkey, _ := json.Marshal(v)
			env.R.State(string(vkey) + key)
			if v.Kind == "maporder" || v.CPUs > 0 {
				env.R.Nontrivial(string(vkey) + key)
			}
			if field != "" {
				site := v.MapOrder
				if strings.HasPrefix(site, "site:") {
					site = site[:strings.LastIndex(site, ":")]
				}
				env.R.Class("differs", nil)
				env.R.Violation(fmt.Sprintf("%s|%s|%s|%s differs", v.Kind, site, o.Item, field),
					c33Case{Variant: v, Item: o.Item, Engine: o.Engine}, detail)
			} else {
				env.R.Class("identical:"+v.Kind, nil)
			}
		}
	})
}

func replayC33(env *mc.Env, raw json.RawMessage) (bool, string) {
	var c c33Case
	if err := json.Unmarshal(raw, &c); err != nil {
		return false, err.Error()
	}
	bin, _ := os.Executable()
	ref, err := c33RunVariant(bin, c33Variant{Kind: "config"})
	if err != nil {
		return false, "reference failed: " + err.Error()
	}
	out, err := c33RunVariant(bin, c.Variant)
	if err != nil {
		return true, "variant child failed: " + err.Error()
	}
	for _, o := range out.Obs {
		if c.Item != "" && (o.Item != c.Item || o.Engine != c.Engine) {
			continue
		}
		for _, r := range ref.Obs {
			if r.Item == o.Item && r.Engine == o.Engine {
				if f, d := firstDiff(r.Lines, o.Lines); f != "" {
					return true, d
				}
			}
		}
	}
	return false, "identical observations"
}

func init() {
	mc.Register(&mc.Check{
		ID:   "C33",
		Rule: "corpus of transaction histories (dictionary iteration with events, two accounts with multi-slab containers, several contract deployments/updates/removals in one transaction, attachments, storage/capability iteration, contract state and inbox, failing programs; both engines) executed in fresh processes under every variant of a finite menu: CPU affinity x GOMAXPROCS, restarts, every canonical Go-map order policy (asc, desc, rotations) and one deviating site at a time for every executed map-range site; all observation lines compared with the reference run; non-trivial = variant with a non-default CPU count or map order",
		Assumptions: []string{
			"map ranges inside third-party modules (atree) are not rewritten; goroutine interleavings inside atree's FastCommit are not permuted (its result application is exercised under every worker count)",
			"sites whose keys have no canonical order (pointer keys without an ID) keep Go's native order and are listed in the evidence",
		},
		Run:    runC33,
		Replay: replayC33,
	})
}

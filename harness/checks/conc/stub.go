//go:build !verifovl

// Package conc holds the checks that need the overlay build (C36 scheduler
// exploration, C33 map-order exploration); see the verifovl-tagged files.
package conc

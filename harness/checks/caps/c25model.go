package caps

import (
	"fmt"
	"sort"
	"strconv"
	"strings"
)

// ---------------------------------------------------------------------------
// C25 reference model: the controller model of the property sentence.
//
//   - issued IDs are fresh (unique per account, never reused);
//   - live controllers per target path (getController(s), forEachController);
//   - borrow<T>/check<T> on a capability succeed exactly when
//       its controller is live,
//       T's authorization is no stronger than the controller's and the capability's,
//       T's referenced type is a subtype or supertype of theirs,
//       and the target path stores a value whose type is a subtype of T's referenced type;
//   - capabilities.get / capabilities.borrow see only currently published capabilities and
//     apply the same rule;
//   - an inbox claim returns only a value published by that provider for that claimer under that name.

// referenced types of the universe
const (
	refR = iota
	refRI
	refS
	refRI2
	refAccount
)

// bt is a borrow (reference) type: an authorization (the single entitlement
// that makes sense for the referenced type: T.E, or Storage for Account) and a
// referenced type.
type bt struct {
	Auth bool
	Ref  int
}

// wanted is the type universe, in the order of wantedSrc (c25src.go).
var wanted = []bt{
	{false, refR},       // &T.R
	{false, refRI},      // &{T.RI}
	{true, refR},        // auth(T.E) &T.R
	{false, refS},       // &T.S
	{false, refRI2},     // &{T.RI2}
	{true, refRI},       // auth(T.E) &{T.RI}
	{false, refAccount}, // &Account
	{true, refAccount},  // auth(Storage) &Account
}

// wantedIdent is the type identifier Cadence prints for each wanted type.
var wantedIdent = []string{
	"&A.0000000000000001.T.R",
	"&{A.0000000000000001.T.RI}",
	"auth(A.0000000000000001.T.E)&A.0000000000000001.T.R",
	"&A.0000000000000001.T.S",
	"&{A.0000000000000001.T.RI2}",
	"auth(A.0000000000000001.T.E)&{A.0000000000000001.T.RI}",
	"&Account",
	"auth(Storage)&Account",
}

func typeIndex(ident string) int {
	for i, s := range wantedIdent {
		if s == ident {
			return i
		}
	}
	return -1
}

// subRef: declared subtyping between referenced types (R: RI, RI2).
func subRef(a, b int) bool {
	return a == b || (a == refR && (b == refRI || b == refRI2))
}

// canBorrow: "T's authorization is no stronger than [x's] ... T's referenced
// type is a subtype or supertype of [x's]".
func canBorrow(w, x bt) bool {
	if w.Auth && !x.Auth {
		return false
	}
	return subRef(w.Ref, x.Ref) || subRef(x.Ref, w.Ref)
}

// capSub: Capability<x> is a subtype of Capability<t> (covariant in the reference type).
func capSub(x, t bt) bool {
	if t.Auth && !x.Auth {
		return false
	}
	return subRef(x.Ref, t.Ref)
}

// stored value kinds
const (
	stNone = iota
	stR
	stS
)

var storedIdent = []string{"-", "A.0000000000000001.T.R", "A.0000000000000001.T.S"}

func storedSub(kind int, ref int) bool {
	switch kind {
	case stR:
		return subRef(refR, ref)
	case stS:
		return ref == refS
	}
	return false
}

type capv struct {
	Addr int
	ID   uint64
	T    int
}

func addrStr(a int) string { return fmt.Sprintf("0x%016x", a) }

func (c capv) key() string {
	return fmt.Sprintf("%s/%d/Capability<%s>", addrStr(c.Addr), c.ID, wantedIdent[c.T])
}

// short form used in operation labels
func (c capv) short() string { return fmt.Sprintf("%d/%d/%d", c.Addr, c.ID, c.T) }

func parseShortCap(s string) (capv, bool) {
	p := strings.Split(s, "/")
	if len(p) != 3 {
		return capv{}, false
	}
	a, e1 := strconv.Atoi(p[0])
	id, e2 := strconv.ParseUint(p[1], 10, 64)
	t, e3 := strconv.Atoi(p[2])
	if e1 != nil || e2 != nil || e3 != nil || t < 0 || t >= len(wanted) {
		return capv{}, false
	}
	return capv{a, id, t}, true
}

// parseCapKey parses the rendering produced by T.key.
func parseCapKey(s string) (capv, bool) {
	i := strings.Index(s, "/")
	if i < 0 {
		return capv{}, false
	}
	j := strings.Index(s[i+1:], "/")
	if j < 0 {
		return capv{}, false
	}
	j += i + 1
	a, err := strconv.ParseUint(strings.TrimPrefix(s[:i], "0x"), 16, 64)
	if err != nil {
		return capv{}, false
	}
	id, err := strconv.ParseUint(s[i+1:j], 10, 64)
	if err != nil {
		return capv{}, false
	}
	t := s[j+1:]
	if !strings.HasPrefix(t, "Capability<") || !strings.HasSuffix(t, ">") {
		return capv{}, false
	}
	ti := typeIndex(t[len("Capability<") : len(t)-1])
	if ti < 0 {
		return capv{}, false
	}
	return capv{int(a), id, ti}, true
}

type ctrl struct {
	ID      uint64
	Account bool // account capability controller
	T       int
	Target  int // storage path index (storage controllers)
	Tag     string
}

type inboxEntry struct {
	Rcpt int
	Cap  capv
	// Definite: this is the latest value published under (provider, name) and nothing
	// happened to the name since. Entries published earlier for *other* recipients under
	// the same name are kept as not definite: the sentence keys the inbox by
	// (provider, claimer, name) but does not say whether a later publish for another
	// claimer displaces them (don't-care: a claim of such an entry may return it or nil).
	Definite bool
}

type acct struct {
	Used   []uint64 // every ID ever issued by a committed transaction
	Ctrls  map[uint64]*ctrl
	Stored [2]int
	Pub    [2]*capv
	Wallet map[capv]bool
	Inbox  map[string][]inboxEntry
}

type model struct {
	A [3]*acct // 1, 2
}

func newModel() *model {
	m := &model{}
	for i := 1; i <= 2; i++ {
		m.A[i] = &acct{Ctrls: map[uint64]*ctrl{}, Wallet: map[capv]bool{}, Inbox: map[string][]inboxEntry{}}
	}
	return m
}

func (m *model) clone() *model {
	n := &model{}
	for i := 1; i <= 2; i++ {
		a := m.A[i]
		b := &acct{Used: append([]uint64(nil), a.Used...), Ctrls: map[uint64]*ctrl{}, Stored: a.Stored,
			Wallet: map[capv]bool{}, Inbox: map[string][]inboxEntry{}}
		for k, v := range a.Ctrls {
			c := *v
			b.Ctrls[k] = &c
		}
		for q := range a.Pub {
			if a.Pub[q] != nil {
				c := *a.Pub[q]
				b.Pub[q] = &c
			}
		}
		for k := range a.Wallet {
			b.Wallet[k] = true
		}
		for k, v := range a.Inbox {
			b.Inbox[k] = append([]inboxEntry(nil), v...)
		}
		n.A[i] = b
	}
	return n
}

func (a *acct) ctrlIDs() []uint64 {
	ids := make([]uint64, 0, len(a.Ctrls))
	for id := range a.Ctrls {
		ids = append(ids, id)
	}
	sort.Slice(ids, func(i, j int) bool { return ids[i] < ids[j] })
	return ids
}

func (a *acct) walletCaps() []capv {
	out := make([]capv, 0, len(a.Wallet))
	for c := range a.Wallet {
		out = append(out, c)
	}
	sort.Slice(out, func(i, j int) bool {
		x, y := out[i], out[j]
		if x.Addr != y.Addr {
			return x.Addr < y.Addr
		}
		if x.ID != y.ID {
			return x.ID < y.ID
		}
		return x.T < y.T
	})
	return out
}

func (a *acct) used(id uint64) bool {
	for _, u := range a.Used {
		if u == id {
			return true
		}
	}
	return false
}

// key is the canonical rendering of the model state (dedup key of the search).
func (m *model) key() string {
	var sb strings.Builder
	for i := 1; i <= 2; i++ {
		a := m.A[i]
		fmt.Fprintf(&sb, "A%d used=%v st=%v", i, a.Used, a.Stored)
		for _, id := range a.ctrlIDs() {
			c := a.Ctrls[id]
			fmt.Fprintf(&sb, " c(%d,%v,%d,%d,%q)", c.ID, c.Account, c.T, c.Target, c.Tag)
		}
		for q, p := range a.Pub {
			if p != nil {
				fmt.Fprintf(&sb, " pub%d=%s", q, p.short())
			}
		}
		for _, c := range a.walletCaps() {
			fmt.Fprintf(&sb, " w=%s", c.short())
		}
		names := make([]string, 0, len(a.Inbox))
		for n := range a.Inbox {
			names = append(names, n)
		}
		sort.Strings(names)
		for _, n := range names {
			for _, e := range a.Inbox[n] {
				fmt.Fprintf(&sb, " in(%s,%d,%s,%v)", n, e.Rcpt, e.Cap.short(), e.Definite)
			}
		}
		sb.WriteString("\n")
	}
	return sb.String()
}

// clause results of the borrow rule
type ruleEval struct {
	live, authType, value bool
}

// evalRule evaluates the borrow/check rule for wanted type w on capability c.
func (m *model) evalRule(c capv, w bt) ruleEval {
	var r ruleEval
	if c.Addr < 1 || c.Addr > 2 || c.ID == 0 {
		return r
	}
	a := m.A[c.Addr]
	ct := a.Ctrls[c.ID]
	if ct == nil {
		return r
	}
	r.live = true
	r.authType = canBorrow(w, wanted[c.T]) && canBorrow(w, wanted[ct.T])
	if ct.Account {
		r.value = w.Ref == refAccount
	} else {
		r.value = storedSub(a.Stored[ct.Target], w.Ref)
	}
	return r
}

func (m *model) borrowOK(c capv, w bt) bool {
	r := m.evalRule(c, w)
	return r.live && r.authType && r.value
}

// probe is the expected result of the observer's probe(c): bit 2i = borrow<W_i>() != nil, bit 2i+1 = check<W_i>().
func (m *model) probe(c capv) uint64 {
	var r uint64
	for i, w := range wanted {
		if m.borrowOK(c, w) {
			r |= 3 << (2 * i)
		}
	}
	return r
}

func (m *model) sctl(addr int, c *ctrl) string {
	return fmt.Sprintf("%d,%s,%s,/storage/p%d,%s", c.ID, wantedIdent[c.T], c.Tag, c.Target, capv{addr, c.ID, c.T}.key())
}

func (m *model) actl(addr int, c *ctrl) string {
	return fmt.Sprintf("%d,%s,%s,%s", c.ID, wantedIdent[c.T], c.Tag, capv{addr, c.ID, c.T}.key())
}

// stateClass is a coarse structural description of the part of the state a
// capability depends on (used in violation signatures).
func (m *model) capClass(c capv) string {
	if c.Addr < 1 || c.Addr > 2 {
		return "foreign"
	}
	if c.ID == 0 {
		return "invalid-cap"
	}
	a := m.A[c.Addr]
	ct := a.Ctrls[c.ID]
	if ct == nil {
		if a.used(c.ID) {
			return "deleted-ctrl|cap=" + wantedSrc[c.T]
		}
		return "never-issued"
	}
	if ct.Account {
		return "account-ctrl=" + wantedSrc[ct.T] + "|cap=" + wantedSrc[c.T]
	}
	return "ctrl=" + wantedSrc[ct.T] + "|cap=" + wantedSrc[c.T] + "|stored=" + storedIdent[a.Stored[ct.Target]]
}

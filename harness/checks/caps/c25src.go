package caps

import (
	"fmt"
	"strings"
)

// Cadence sources of C25.

// c25Prelude is deployed at 0x1 before the search starts. It declares the
// nominal types of the universe and helpers that only compose public API
// calls (wallet bookkeeping, rendering of a controller).
//
// Subtyping facts the Go model relies on (stated by the declarations below):
// R <: {RI}, R <: {RI2}, {RI} and {RI2} unrelated, S unrelated to all of them.
var c25Prelude = `
access(all) contract T {
    access(all) entitlement E
    access(all) resource interface RI { access(all) fun f(): Int }
    access(all) resource interface RI2 { access(all) fun h(): Int }
    access(all) resource R: RI, RI2 {
        access(all) fun f(): Int { return 1 }
        access(all) fun h(): Int { return 3 }
        access(E) fun g(): Int { return 2 }
    }
    access(all) struct S { access(all) let x: Int; init() { self.x = 1 } }
    access(all) fun mkR(): @R { return <- create R() }

    access(all) view fun key(_ c: Capability): String {
        return c.address.toString().concat("/").concat(c.id.toString()).concat("/").concat(c.getType().identifier)
    }

    access(all) fun keep(_ s: auth(Storage) &Account, _ c: Capability) {
        let k = T.key(c)
        if let w = s.storage.borrow<auth(Mutate) &{String: Capability}>(from: /storage/wallet) {
            w[k] = c
        } else {
            s.storage.save({k: c}, to: /storage/wallet)
        }
    }

    access(all) fun take(_ s: auth(Storage) &Account, _ k: String): Capability {
        let w = s.storage.borrow<&{String: Capability}>(from: /storage/wallet)!
        return w[k]!
    }

    access(all) fun sctl(_ c: &StorageCapabilityController): String {
        return c.capabilityID.toString().concat(",").concat(c.borrowType.identifier).concat(",")
            .concat(c.tag).concat(",").concat(c.target().toString()).concat(",").concat(T.key(c.capability))
    }

    access(all) fun actl(_ c: &AccountCapabilityController): String {
        return c.capabilityID.toString().concat(",").concat(c.borrowType.identifier).concat(",")
            .concat(c.tag).concat(",").concat(T.key(c.capability))
    }

    // after: what the signer's controller API reports, inside the transaction that changed it
    access(all) fun after(_ s: auth(Capabilities) &Account) {
        for p in [/storage/p0, /storage/p1] {
            for c in s.capabilities.storage.getControllers(forPath: p) {
                log("gcs ".concat(p.toString()).concat(" ").concat(T.sctl(c)))
            }
        }
        for c in s.capabilities.account.getControllers() {
            log("agcs ".concat(T.actl(c)))
        }
    }
}
`

// wanted types in the order used by probe and by the observer's get/borrow loop
var wantedSrc = []string{
	"&T.R",
	"&{T.RI}",
	"auth(T.E) &T.R",
	"&T.S",
	"&{T.RI2}",
	"auth(T.E) &{T.RI}",
	"&Account",
	"auth(Storage) &Account",
}

func c25PreludeSource() string { return c25Prelude }

// c25Observer reads everything observable about capabilities in both
// accounts in a fresh runtime. Fixed source: the ID range and the wallet are
// iterated dynamically.
func c25ObserverSource() string {
	var sb strings.Builder
	sb.WriteString(`import T from 0x1

// probe: for every wanted type W (fixed order, see wanted in the Go model)
// bit 2i = borrow<W>() != nil, bit 2i+1 = check<W>().
access(all) fun probe(_ c: Capability): UInt64 {
    var r: UInt64 = 0
`)
	for i, w := range wantedSrc {
		fmt.Fprintf(&sb, "    if c.borrow<%s>() != nil { r = r | %d }\n    if c.check<%s>() { r = r | %d }\n", w, 1<<(2*i), w, 1<<(2*i+1))
	}
	sb.WriteString(`    return r
}

// maxID: getController is asked for every ID in 0...maxID (the caller passes the largest ID ever issued + 1);
// all: run the 8 get<T> queries on unpublished paths too (otherwise only get<W0>).
access(all) fun main(maxID: UInt64, all: Bool) {
    var slot: UInt64 = 0
    for addr in [0x1 as Address, 0x2 as Address] {
        let a = getAuthAccount<auth(Storage, Capabilities) &Account>(addr)
        let pa = getAccount(addr)
        let an = addr.toString()
        for p in [/storage/p0, /storage/p1] {
            log("st ".concat(an).concat(" ").concat(p.toString()).concat(" ").concat(a.storage.type(at: p)?.identifier ?? "-"))
            for c in a.capabilities.storage.getControllers(forPath: p) {
                log("gcs ".concat(an).concat(" ").concat(p.toString()).concat(" ").concat(T.sctl(c)))
            }
            a.capabilities.storage.forEachController(forPath: p, fun (c: &StorageCapabilityController): Bool {
                log("fec ".concat(an).concat(" ").concat(p.toString()).concat(" ").concat(T.sctl(c)))
                return true
            })
        }
        for c in a.capabilities.account.getControllers() {
            log("agcs ".concat(an).concat(" ").concat(T.actl(c)))
        }
        a.capabilities.account.forEachController(fun (c: &AccountCapabilityController): Bool {
            log("afec ".concat(an).concat(" ").concat(T.actl(c)))
            return true
        })
        var id: UInt64 = 0
`)
	sb.WriteString(`        while id <= maxID {
            if let c = a.capabilities.storage.getController(byCapabilityID: id) {
                log("gc ".concat(an).concat(" ").concat(T.sctl(c)))
            }
            if let c = a.capabilities.account.getController(byCapabilityID: id) {
                log("agc ".concat(an).concat(" ").concat(T.actl(c)))
            }
            id = id + 1
        }
        for q in [/public/q0, /public/q1] {
            // one packed UInt64 per (account, public path, wanted type), see c25GetLine
            let base: UInt64 = slot << 60
            slot = slot + 1
            var ex: UInt64 = 0
            if pa.capabilities.exists(q) { ex = 1 }
            log((base | (15 << 56)) | ex)
`)
	for i, w := range wantedSrc {
		// an invalid capability (id 0) is probed once per observation (first path, index 0);
		// otherwise its probe is skipped: it cannot differ, and probes dominate the cost
		cond := "c.id != 0"
		guard := "ex == 1 || all"
		if i == 0 {
			cond = "c.id != 0 || base == 0"
			guard = "true"
		}
		fmt.Fprintf(&sb, `            if %s {
                let c = pa.capabilities.get<%s>(q)
                var v: UInt64 = (base | (%d << 56)) | (c.id << 21)
                if c.address == addr { v = v | (1 << 55) }
                if c.getType() == Type<Capability<%s>>() { v = v | (1 << 54) }
                if %s { v = (v | (1 << 53)) | (probe(c) << 5) }
                if pa.capabilities.borrow<%s>(q) != nil { v = v | 1 }
                log(v)
            }
`, guard, w, i, w, cond, w)
	}
	sb.WriteString(`        }
        if let w = a.storage.borrow<&{String: Capability}>(from: /storage/wallet) {
            for k in w.keys {
                let c = w[k]!
                log("w ".concat(an).concat(" ").concat(k).concat(" ").concat(T.key(c)).concat(" ").concat(probe(c).toString()))
            }
        }
    }
}
`)
	return sb.String()
}

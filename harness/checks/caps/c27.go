package caps

import (
	"encoding/hex"
	"encoding/json"
	"fmt"
	"sort"
	"strings"

	"github.com/onflow/cadence/common"

	"verif/mc"
	"verif/rt"
)

// C27: accepted contract updates keep existing stored data usable.
//
// Enumerated: old contract from a small grammar (struct S: I with two fields over seven
// types, nested struct T, resource R, enum En{a,b,c}, struct interfaces I and J, struct
// S2: I, J) x all single and all unordered pairs of mutations. Values of every declared kind
// are stored under the old version; then `update` is called with the mutated source.
// Oracle (only when the update is accepted): probe scripts in a fresh runtime must succeed:
// load every stored value; read every field the new version declares at its declared type
// (and use it at that type); the stored enum equals the same-named case; old conformances
// still cast.

// --- contract representation -------------------------------------------------------

type c27Field struct{ Name, Type string }

type c27Contract struct {
	Pragmas   []string
	HasI      bool
	HasJ      bool
	HasEnum   bool
	EnumRaw   string
	EnumCases []string
	HasT      bool
	TName     string
	TField    string // type of T.n
	SKind     string // struct | resource
	SConf     []string
	SFields   []c27Field
	HasS2     bool
	S2Conf    []string
	HasR      bool
	RName     string
	RKind     string
	Extra     []string
}

func (c *c27Contract) clone() *c27Contract {
	n := *c
	n.Pragmas = append([]string(nil), c.Pragmas...)
	n.EnumCases = append([]string(nil), c.EnumCases...)
	n.SConf = append([]string(nil), c.SConf...)
	n.SFields = append([]c27Field(nil), c.SFields...)
	n.S2Conf = append([]string(nil), c.S2Conf...)
	n.Extra = append([]string(nil), c.Extra...)
	return &n
}

// the seven field types of the grammar, and the wider set a field may be retyped to
// Cap* are capability-typed fields whose borrow type carries an authorization:
// CapI auth(Insert), CapIR auth(Insert, Remove), CapRI the same set written in the other order,
// CapIoR auth(Insert | Remove), CapR auth(Remove), CapU unauthorized; all `Capability<... &[Int]>?`,
// and [CapI] / [CapIR] arrays of the non-optional capability.
var c27BaseTypes = []string{"Int", "String", "Int?", "[Int]", "{I}", "En", "T", "CapI", "CapIR", "CapIoR", "[CapI]"}
var c27RetypeTargets = []string{"Int", "String", "Int?", "String?", "[Int]", "[String]", "{I}", "{J}", "En", "T",
	"CapI", "CapIR", "CapRI", "CapIoR", "CapR", "CapU", "[CapIR]"}

var c27CapAuth = map[string]string{
	"CapI": "auth(Insert) ", "CapIR": "auth(Insert, Remove) ", "CapRI": "auth(Remove, Insert) ",
	"CapIoR": "auth(Insert | Remove) ", "CapR": "auth(Remove) ", "CapU": "",
}

// c27CapType renders a Cap* grammar type; ok=false for the other types.
func c27CapType(t string) (src string, ok bool) {
	if a, ok := c27CapAuth[t]; ok {
		return "Capability<" + a + "&[Int]>?", true
	}
	if strings.HasPrefix(t, "[Cap") {
		if a, ok := c27CapAuth[t[1:len(t)-1]]; ok {
			return "[Capability<" + a + "&[Int]>]", true
		}
	}
	return "", false
}

func c27Old(t0, t1 string) *c27Contract {
	return &c27Contract{
		HasI: true, HasJ: true, HasEnum: true, EnumRaw: "UInt8", EnumCases: []string{"a", "b", "c"},
		HasT: true, TName: "T", TField: "Int",
		SKind: "struct", SConf: []string{"I"}, SFields: []c27Field{{"f0", t0}, {"f1", t1}},
		HasS2: true, S2Conf: []string{"I", "J"}, HasR: true, RName: "R", RKind: "resource",
	}
}

// typeName resolves the grammar's type names against the contract's current declaration names.
func (c *c27Contract) typeName(t string) string {
	if t == "T" {
		return c.TName
	}
	if ct, ok := c27CapType(t); ok {
		return ct
	}
	return t
}

func (c *c27Contract) valueExpr(t string) string {
	switch t {
	case "Int", "Int?":
		return "5"
	case "String", "String?":
		return "\"x\""
	case "[Int]":
		return "[1, 2]"
	case "[String]":
		return "[\"p\"]"
	case "{I}", "{J}":
		return "S2()"
	case "En":
		return "En.b"
	case "T":
		return c.TName + "()"
	}
	if _, ok := c27CapAuth[t]; ok {
		return "C.mk" + t + "()"
	}
	if strings.HasPrefix(t, "[Cap") {
		return "[C.mk" + t[1:len(t)-1] + "()]"
	}
	panic("c27: type " + t)
}

func (c *c27Contract) source() string {
	var sb strings.Builder
	for _, p := range c.Pragmas {
		sb.WriteString(p + "\n")
	}
	sb.WriteString("access(all) contract C {\n")
	for _, p := range c.Pragmas {
		_ = p
	}
	if c.HasI {
		sb.WriteString("    access(all) struct interface I { access(all) fun id(): Int }\n")
	}
	if c.HasJ {
		sb.WriteString("    access(all) struct interface J {}\n")
	}
	if c.HasEnum {
		fmt.Fprintf(&sb, "    access(all) enum En: %s {\n", c.EnumRaw)
		for _, k := range c.EnumCases {
			fmt.Fprintf(&sb, "        access(all) case %s\n", k)
		}
		sb.WriteString("    }\n")
	}
	if c.HasT {
		fmt.Fprintf(&sb, "    access(all) struct %s {\n        access(all) let n: %s\n        init() { self.n = %s }\n    }\n", c.TName, c.TField, c.valueExpr(c.TField))
	}
	conf := func(cs []string) string {
		if len(cs) == 0 {
			return ""
		}
		return ": " + strings.Join(cs, ", ")
	}
	// S
	fmt.Fprintf(&sb, "    access(all) %s S%s {\n", c.SKind, conf(c.SConf))
	for _, f := range c.SFields {
		fmt.Fprintf(&sb, "        access(all) let %s: %s\n", f.Name, c.typeName(f.Type))
	}
	sb.WriteString("        access(all) fun id(): Int { return 1 }\n        init() {\n")
	for _, f := range c.SFields {
		fmt.Fprintf(&sb, "            self.%s = %s\n", f.Name, c.valueExpr(f.Type))
	}
	sb.WriteString("        }\n    }\n")
	if c.SKind == "struct" {
		sb.WriteString("    access(all) fun mkS(): S { return S() }\n")
	} else {
		sb.WriteString("    access(all) fun mkS(): @S { return <- create S() }\n")
	}
	if c.HasS2 {
		fmt.Fprintf(&sb, "    access(all) struct S2%s {\n        access(all) fun id(): Int { return 2 }\n    }\n", conf(c.S2Conf))
	}
	if c.HasR {
		fmt.Fprintf(&sb, "    access(all) %s %s {\n        access(all) let g: Int\n        init() { self.g = 9 }\n    }\n", c.RKind, c.RName)
		if c.RKind == "resource" {
			fmt.Fprintf(&sb, "    access(all) fun mkR(): @%s { return <- create %s() }\n", c.RName, c.RName)
		} else {
			fmt.Fprintf(&sb, "    access(all) fun mkR(): %s { return %s() }\n", c.RName, c.RName)
		}
	}
	for _, e := range c.Extra {
		sb.WriteString("    " + e + "\n")
	}
	// issuers of the capability values stored in Cap* fields (same in every version)
	for _, k := range []string{"CapI", "CapIR", "CapRI", "CapIoR", "CapR", "CapU"} {
		a := c27CapAuth[k]
		fmt.Fprintf(&sb, "    access(all) fun mk%s(): Capability<%s&[Int]> { return self.account.capabilities.storage.issue<%s&[Int]>(/storage/ints) }\n", k, a, a)
	}
	sb.WriteString("}\n")
	return sb.String()
}

// --- mutations ---------------------------------------------------------------------

type c27Mut struct {
	ID    string // replayable identifier
	Class string // structural class used in signatures
	Apply func(c *c27Contract) bool
	Touch string // what it edits (two mutations with the same Touch are not combined)
}

func c27Mutations(old *c27Contract, thorough bool) []c27Mut {
	var ms []c27Mut
	add := func(id, class, touch string, f func(c *c27Contract) bool) {
		ms = append(ms, c27Mut{ID: id, Class: class, Touch: touch, Apply: f})
	}
	add("field-add", "field-add", "S.f2", func(c *c27Contract) bool {
		c.SFields = append(c.SFields, c27Field{"f2", "Int"})
		return true
	})
	for i := 0; i < 2; i++ {
		i := i
		name := fmt.Sprintf("f%d", i)
		add("field-remove:"+name, "field-remove", "S."+name, func(c *c27Contract) bool {
			for k, f := range c.SFields {
				if f.Name == name {
					c.SFields = append(c.SFields[:k:k], c.SFields[k+1:]...)
					return true
				}
			}
			return false
		})
		targets := c27RetypeTargets
		if i == 1 && !thorough {
			targets = []string{"Int", "String?", "[String]", "{J}", "CapIR", "CapIoR", "CapU"}
		}
		for _, nt := range targets {
			nt := nt
			if old.SFields[i].Type == nt {
				continue
			}
			add("field-retype:"+name+":"+nt, c27RetypeClass(old.SFields[i].Type, nt), "S."+name, func(c *c27Contract) bool {
				for k, f := range c.SFields {
					if f.Name == name {
						c.SFields[k].Type = nt
						return true
					}
				}
				return false
			})
		}
	}
	add("field-reorder", "field-reorder", "S.order", func(c *c27Contract) bool {
		if len(c.SFields) < 2 {
			return false
		}
		c.SFields[0], c.SFields[1] = c.SFields[1], c.SFields[0]
		return true
	})
	add("nested-add", "nested-add", "N", func(c *c27Contract) bool {
		c.Extra = append(c.Extra, "access(all) struct N { access(all) let k: Int; init() { self.k = 0 } }")
		return true
	})
	add("nested-remove:T", "nested-remove(struct)", "T", func(c *c27Contract) bool { c.HasT = false; return true })
	add("nested-remove:R", "nested-remove(resource)", "R", func(c *c27Contract) bool { c.HasR = false; return true })
	add("nested-remove:En", "nested-remove(enum)", "En", func(c *c27Contract) bool { c.HasEnum = false; return true })
	// removing an interface together with the conformances that name it (as an author would)
	add("nested-remove:I", "nested-remove(interface)", "I", func(c *c27Contract) bool {
		c.HasI = false
		c.SConf = without(c.SConf, "I")
		c.S2Conf = without(c.S2Conf, "I")
		return true
	})
	add("nested-remove:J", "nested-remove(interface)", "J", func(c *c27Contract) bool {
		c.HasJ = false
		c.SConf = without(c.SConf, "J")
		c.S2Conf = without(c.S2Conf, "J")
		return true
	})
	add("nested-remove:S2", "nested-remove(struct)", "S2", func(c *c27Contract) bool { c.HasS2 = false; return true })
	add("nested-rename:T", "nested-rename(struct)", "T", func(c *c27Contract) bool { c.TName = "T9"; return true })
	add("nested-rename:R", "nested-rename(resource)", "R", func(c *c27Contract) bool { c.RName = "R9"; return true })
	add("nested-retype-field:T", "nested-field-retype(Int->String)", "T.n", func(c *c27Contract) bool { c.TField = "String"; return true })
	add("conformance-add:S:J", "conformance-add", "S.conf", func(c *c27Contract) bool { c.SConf = append(c.SConf, "J"); return true })
	add("conformance-remove:S:I", "conformance-remove", "S.conf", func(c *c27Contract) bool { c.SConf = nil; return true })
	add("conformance-remove:S2:I", "conformance-remove", "S2.conf", func(c *c27Contract) bool { c.S2Conf = []string{"J"}; return true })
	add("enum-case-add-end", "enum-case-add(end)", "En.cases", func(c *c27Contract) bool { c.EnumCases = append(c.EnumCases, "d"); return true })
	add("enum-case-add-front", "enum-case-add(front)", "En.cases", func(c *c27Contract) bool {
		c.EnumCases = append([]string{"z"}, c.EnumCases...)
		return true
	})
	add("enum-case-remove:b", "enum-case-remove(middle)", "En.cases", func(c *c27Contract) bool { c.EnumCases = []string{"a", "c"}; return true })
	add("enum-case-remove:c", "enum-case-remove(last)", "En.cases", func(c *c27Contract) bool { c.EnumCases = []string{"a", "b"}; return true })
	add("enum-case-reorder", "enum-case-reorder", "En.cases", func(c *c27Contract) bool { c.EnumCases = []string{"a", "c", "b"}; return true })
	add("enum-rawtype", "enum-rawtype(UInt8->UInt16)", "En.raw", func(c *c27Contract) bool { c.EnumRaw = "UInt16"; return true })
	add("kind-change:S", "kind-change(struct->resource)", "S.kind", func(c *c27Contract) bool { c.SKind = "resource"; return true })
	add("kind-change:R", "kind-change(resource->struct)", "R.kind", func(c *c27Contract) bool { c.RKind = "struct"; return true })
	add("removed-type:T", "removedType-pragma+remove(struct)", "T", func(c *c27Contract) bool {
		c.HasT = false
		c.Pragmas = append(c.Pragmas, "#removedType(T)")
		return true
	})
	add("removed-type-pragma-only:R", "removedType-pragma-only", "pragma", func(c *c27Contract) bool {
		c.Pragmas = append(c.Pragmas, "#removedType(R)")
		return true
	})
	return ms
}

// c27RetypeClass names a field retype; between two capability types it names the authorization edit.
func c27RetypeClass(from, to string) string {
	base := fmt.Sprintf("field-retype(%s->%s)", from, to)
	strip := func(t string) (string, bool) {
		arr := strings.HasPrefix(t, "[")
		if arr {
			t = t[1 : len(t)-1]
		}
		_, ok := c27CapAuth[t]
		return t, ok && !arr || ok
	}
	f, ok1 := strip(from)
	t, ok2 := strip(to)
	if !ok1 || !ok2 || strings.HasPrefix(from, "[") != strings.HasPrefix(to, "[") {
		return base
	}
	edit := map[[2]string]string{
		{"CapI", "CapIR"}: "entitlement-added", {"CapI", "CapRI"}: "entitlement-added", {"CapR", "CapIR"}: "entitlement-added",
		{"CapIR", "CapI"}: "entitlement-removed", {"CapIR", "CapR"}: "entitlement-removed", {"CapRI", "CapI"}: "entitlement-removed",
		{"CapI", "CapR"}: "entitlement-replaced", {"CapR", "CapI"}: "entitlement-replaced",
		{"CapIR", "CapRI"}: "entitlements-reordered", {"CapRI", "CapIR"}: "entitlements-reordered",
		{"CapIR", "CapIoR"}: "conjunction->disjunction", {"CapIoR", "CapIR"}: "disjunction->conjunction", {"CapIoR", "CapRI"}: "disjunction->conjunction",
		{"CapI", "CapIoR"}: "single->disjunction", {"CapIoR", "CapI"}: "disjunction->single", {"CapIoR", "CapR"}: "disjunction->single",
	}[[2]string{f, t}]
	switch {
	case edit != "":
	case t == "CapU":
		edit = "authorization-dropped"
	case f == "CapU":
		edit = "authorization-added"
	default:
		return base
	}
	return "field-retype(capability:" + edit + ")"
}

func without(xs []string, x string) []string {
	var out []string
	for _, y := range xs {
		if y != x {
			out = append(out, y)
		}
	}
	return out
}

// --- the run -----------------------------------------------------------------------

const c27Setup = `import C from 0x1
transaction {
    prepare(s: auth(Storage) &Account) {
        s.storage.save([1, 2], to: /storage/ints)
        s.storage.save(C.mkS(), to: /storage/s)
        s.storage.save(<- C.mkR(), to: /storage/r)
        s.storage.save(C.En.b, to: /storage/e)
        s.storage.save([C.mkS(), C.mkS()], to: /storage/arr)
        s.storage.save({"k": C.mkS()}, to: /storage/dict)
        s.storage.save(C.T(), to: /storage/t)
        s.storage.save(C.S2(), to: /storage/s2)
        s.storage.save([C.S2() as {C.I}], to: /storage/is)
    }
}
`

type c27Case struct {
	VM   bool     `json:"vm"`
	T0   string   `json:"f0"`
	T1   string   `json:"f1"`
	Muts []string `json:"mutations"`
	Sig  string   `json:"signature"`
}

func c27Base(vm bool, t0, t1 string) (*rt.Ledger, *c27Contract) {
	old := c27Old(t0, t1)
	l := rt.NewLedger()
	rt.Deploy(l, rt.Addr(1), "C", old.source(), vm)
	r := rt.Run(l, rt.Tx{Source: c27Setup, Signers: []common.Address{rt.Addr(1)}, UseVM: vm})
	if !r.OK() {
		panic("c27: setup failed: " + r.ErrString() + "\n" + old.source())
	}
	return l, old
}

type c27Outcome struct {
	Accepted bool
	Class    string // outcome class for the evidence
	Viols    []viol
	Harness  string
}

// useExpr uses expression e (of declared type t) at that type.
func c27Use(c *c27Contract, e, t string) string {
	switch t {
	case "Int":
		return fmt.Sprintf("let u = %s + 1", e)
	case "String":
		return fmt.Sprintf("let u = %s.length", e)
	case "Int?":
		return fmt.Sprintf("let u = (%s ?? 0) + 1", e)
	case "String?":
		return fmt.Sprintf("let u = (%s ?? \"\").length", e)
	case "[Int]":
		return fmt.Sprintf("let u = %s[0] + %s.length", e, e)
	case "[String]":
		return fmt.Sprintf("let u = %s[0].length + %s.length", e, e)
	case "{I}":
		return fmt.Sprintf("let u = %s.id() + 1", e)
	case "{J}":
		return fmt.Sprintf("let u = %s.isInstance(Type<{C.J}>())", e)
	case "En":
		return fmt.Sprintf("let u = %s.rawValue", e)
	case "T":
		return "let u = " + c27UseT(c, e+".n")
	}
	// capability-typed: borrow at the declared type and use the reference at the declared authorization
	k, sel := t, e+"!"
	if strings.HasPrefix(t, "[Cap") {
		k, sel = t[1:len(t)-1], e+"[0]"
	}
	if _, ok := c27CapAuth[k]; ok {
		use := "let u = r.length"
		switch k {
		case "CapI":
			use = "r.append(7)"
		case "CapIR", "CapRI":
			use = "r.append(7); let u = r.removeLast()"
		case "CapR":
			use = "let u = r.removeLast()"
		}
		return fmt.Sprintf("let r = %s.borrow()!; %s", sel, use)
	}
	panic("c27: use " + t)
}

func c27UseT(c *c27Contract, e string) string {
	if c.TField == "Int" {
		return e + " + 1"
	}
	return e + ".length"
}

func c27Qual(c *c27Contract, t string) string {
	switch t {
	case "{I}":
		return "{C.I}"
	case "{J}":
		return "{C.J}"
	case "En":
		return "C.En"
	case "T":
		return "C." + c.TName
	}
	if ct, ok := c27CapType(t); ok {
		return ct
	}
	return t
}

func c27HasPragma(c *c27Contract, name string) bool {
	for _, p := range c.Pragmas {
		if p == "#removedType("+name+")" {
			return true
		}
	}
	return false
}

// c27RunCase: update the contract of the base ledger (cloned) to the mutated
// source and, if accepted, run the probes.
func c27RunCase(base *rt.Ledger, old *c27Contract, muts []c27Mut, vm bool, count func()) (out c27Outcome) {
	nw := old.clone()
	var classes []string
	for _, m := range muts {
		if !m.Apply(nw) {
			out.Class = "mutation-not-applicable"
			return
		}
		classes = append(classes, m.Class)
	}
	sort.Strings(classes)
	mutClass := strings.Join(classes, "+")
	l := base.Clone()
	src := nw.source()
	upd := fmt.Sprintf("transaction {\n    prepare(s: auth(Contracts) &Account) {\n        s.contracts.update(name: \"C\", code: %q.decodeHex())\n    }\n}\n", hex.EncodeToString([]byte(src)))
	r := rt.Run(l, rt.Tx{Source: upd, Signers: []common.Address{rt.Addr(1)}, UseVM: vm})
	count()
	if !r.OK() {
		// who rejected it: the checker (the mutated source is ill-typed: the case never reaches the
		// update validator) or the validator (by which rule)
		k := r.Kind
		if i := strings.LastIndex(k, ">"); i >= 0 {
			k = k[i+1:]
		}
		who := "validator"
		if strings.Contains(r.Kind, "sema.CheckerError") {
			who = "checker"
			k = "ill-typed"
		}
		out.Class = "rejected:" + r.Class + ":" + who + ":" + k
		return
	}
	out.Accepted = true
	out.Class = "accepted"
	bad := func(aspect, cls, detail string) {
		out.Viols = append(out.Viols, viol{mutClass + "|" + aspect + "|" + cls, fmt.Sprintf("update accepted (old fields %v; mutations %s) but %s\nnew source:\n%s", old.SFields, mutClass, detail, src)})
	}
	run := func(aspect, body string) bool {
		script := "import C from 0x1\naccess(all) fun main() {\n    let a = getAuthAccount<auth(Storage) &Account>(0x1)\n" + body + "}\n"
		pr := rt.Run(l, rt.Tx{Source: script, Script: true, UseVM: vm})
		count()
		if pr.OK() {
			return true
		}
		if strings.Contains(pr.Kind, "CheckerError") || strings.Contains(pr.Kind, "ParsingCheckingError") || strings.Contains(pr.Kind, "parser.Error") {
			// the probe must type-check against the accepted new version: it only names what that version declares
			out.Harness = fmt.Sprintf("probe %q does not check (%s): %s\nprobe:\n%s\nnew source:\n%s", aspect, pr.Kind, pr.ErrString(), script, src)
			return false
		}
		bad(aspect, pr.Class, fmt.Sprintf("the %s probe fails: %s %s: %s\nprobe:\n%s", aspect, pr.Class, pr.Kind, pr.ErrString(), script))
		return false
	}

	// 1. every stored value can still be loaded (values of a type named in an accepted
	//    #removedType pragma are excused: the pragma is the author's explicit consent)
	tGone := c27HasPragma(nw, "T") && !nw.HasT
	var b strings.Builder
	structPaths := []string{"s", "e", "arr", "dict", "s2", "is"}
	if !tGone {
		structPaths = append(structPaths, "t")
	}
	for i, p := range structPaths {
		fmt.Fprintf(&b, "    let v%d = a.storage.copy<AnyStruct>(from: /storage/%s)!\n", i, p)
	}
	b.WriteString("    let r = a.storage.borrow<&AnyResource>(from: /storage/r)!\n")
	if !run("load", b.String()) {
		return
	}

	// 2. every field the new version declares reads at its declared type
	if nw.SKind != "struct" {
		bad("fields", "kind-changed", "S became a resource while struct values of it are stored")
		return
	}
	b.Reset()
	b.WriteString("    let s = a.storage.copy<C.S>(from: /storage/s)!\n    let s1 = a.storage.copy<[C.S]>(from: /storage/arr)![1]\n    let s2 = a.storage.copy<{String: C.S}>(from: /storage/dict)![\"k\"]!\n")
	n := 0
	for _, holder := range []string{"s", "s1", "s2"} {
		for _, f := range nw.SFields {
			if f.Type == "T" && tGone {
				continue
			}
			fmt.Fprintf(&b, "    if true { let x: %s = %s.%s; %s }\n", c27Qual(nw, f.Type), holder, f.Name, c27Use(nw, "x", f.Type))
			n++
		}
	}
	if nw.HasT {
		fmt.Fprintf(&b, "    if true { let t = a.storage.copy<C.%s>(from: /storage/t)!; let x: %s = t.n; let u = %s }\n", nw.TName, nw.TField, c27UseT(nw, "x"))
	}
	if nw.HasR && nw.RKind == "resource" {
		fmt.Fprintf(&b, "    if true { let r = a.storage.borrow<&C.%s>(from: /storage/r)!; let x: Int = r.g; let u = x + 1 }\n", nw.RName)
	}
	if !run("fields", b.String()) {
		return
	}

	// 3. the stored enum keeps its meaning: it equals the same-named case
	hasB := false
	for _, k := range nw.EnumCases {
		if k == "b" {
			hasB = true
		}
	}
	if !nw.HasEnum || !hasB {
		bad("enum", "case-gone", "the stored enum value was case b, which the new version no longer declares")
		return
	}
	b.Reset()
	b.WriteString("    let e = a.storage.copy<C.En>(from: /storage/e)!\n    assert(e == C.En.b, message: \"stored enum is no longer case b\")\n    assert(e.rawValue == C.En.b.rawValue, message: \"raw value differs\")\n")
	for i, f := range old.SFields {
		if f.Type != "En" {
			continue
		}
		for _, g := range nw.SFields {
			if g.Name == f.Name && g.Type == "En" {
				fmt.Fprintf(&b, "    let s%d = a.storage.copy<C.S>(from: /storage/s)!\n    assert(s%d.%s == C.En.b, message: \"stored enum field is no longer case b\")\n", i, i, g.Name)
			}
		}
	}
	if !run("enum", b.String()) {
		return
	}

	// 4. stored values remain instances of every interface they conformed to
	if !nw.HasI || !nw.HasJ {
		bad("conformance", "interface-gone", "a stored value conformed to an interface the new version no longer declares")
		return
	}
	b.Reset()
	b.WriteString(`    let s = a.storage.copy<AnyStruct>(from: /storage/s)!
    assert(s as? {C.I} != nil, message: "stored S no longer casts to {I}")
    assert(s.isInstance(Type<{C.I}>()), message: "stored S is no longer an instance of {I}")
    let s2 = a.storage.copy<AnyStruct>(from: /storage/s2)!
    assert(s2 as? {C.I} != nil, message: "stored S2 no longer casts to {I}")
    assert(s2 as? {C.J} != nil, message: "stored S2 no longer casts to {J}")
    let arr = a.storage.copy<[AnyStruct]>(from: /storage/arr)!
    assert(arr[0] as? {C.I} != nil, message: "S in a container no longer casts to {I}")
    let xs = a.storage.copy<[{C.I}]>(from: /storage/is)!
    assert(xs[0].id() == 2, message: "interface-typed element unusable")
`)
	for i, f := range old.SFields {
		if f.Type != "{I}" {
			continue
		}
		for _, g := range nw.SFields {
			if g.Name == f.Name {
				fmt.Fprintf(&b, "    let h%d = a.storage.copy<C.S>(from: /storage/s)!\n    assert((h%d.%s as AnyStruct) as? {C.I} != nil, message: \"interface-typed field no longer casts to {I}\")\n", i, i, g.Name)
			}
		}
	}
	run("conformance", b.String())
	return
}

func c27OldContracts(thorough bool) [][2]string {
	var out [][2]string
	n := len(c27BaseTypes)
	if thorough {
		for _, a := range c27BaseTypes {
			for _, b := range c27BaseTypes {
				out = append(out, [2]string{a, b})
			}
		}
		return out
	}
	// quick: every type once in each field position
	for i, a := range c27BaseTypes {
		out = append(out, [2]string{a, c27BaseTypes[(i+1)%n]})
	}
	return out
}

func runC27(env *mc.Env) {
	type job struct {
		vm   bool
		t    [2]string
		muts []int
	}
	olds := c27OldContracts(env.Thorough())
	type baseKey struct {
		vm bool
		t  [2]string
	}
	bases := map[baseKey]*rt.Ledger{}
	var jobs []job
	for _, vm := range []bool{false, true} {
		for _, t := range olds {
			l, old := c27Base(vm, t[0], t[1])
			bases[baseKey{vm, t}] = l
			ms := c27Mutations(old, env.Thorough())
			for i := range ms {
				jobs = append(jobs, job{vm, t, []int{i}})
			}
			for i := range ms {
				for j := i + 1; j < len(ms); j++ {
					if ms[i].Touch == ms[j].Touch {
						continue
					}
					jobs = append(jobs, job{vm, t, []int{i, j}})
				}
			}
		}
	}
	env.R.Set("old_contracts", len(olds))
	env.R.Set("cases", len(jobs))
	mc.ParallelFor(env, len(jobs), func(i int) {
		j := jobs[i]
		old := c27Old(j.t[0], j.t[1])
		all := c27Mutations(old, env.Thorough())
		var ms []c27Mut
		var ids []string
		for _, k := range j.muts {
			ms = append(ms, all[k])
			ids = append(ids, all[k].ID)
		}
		out := c27RunCase(bases[baseKey{j.vm, j.t}], old, ms, j.vm, env.R.Eval)
		if out.Harness != "" {
			env.R.HarnessError("%s", out.Harness)
			return
		}
		env.R.Class(out.Class, func() any { return fmt.Sprintf("vm=%v fields=%v mutations=%v", j.vm, j.t, ids) })
		if out.Accepted {
			var cl []string
			for _, m := range ms {
				cl = append(cl, m.Class)
			}
			sort.Strings(cl)
			env.R.Nontrivial("accepted|" + strings.Join(cl, "+"))
			env.R.Add("accepted_updates", 1)
		}
		for _, v := range out.Viols {
			env.R.Violation(v.Sig, c27Case{VM: j.vm, T0: j.t[0], T1: j.t[1], Muts: ids, Sig: v.Sig}, v.Detail)
		}
	})
	if !env.Expired() {
		env.R.BoundCompleted(fmt.Sprintf("%d old contracts x all single and pair mutations, interpreter and VM", len(olds)))
	}
}

func replayC27(env *mc.Env, raw json.RawMessage) (bool, string) {
	var c c27Case
	if err := json.Unmarshal(raw, &c); err != nil {
		return false, err.Error()
	}
	base, old := c27Base(c.VM, c.T0, c.T1)
	var ms []c27Mut
	for _, id := range c.Muts {
		found := false
		for _, m := range c27Mutations(old, true) {
			if m.ID == id {
				ms = append(ms, m)
				found = true
				break
			}
		}
		if !found {
			return false, "unknown mutation " + id
		}
	}
	out := c27RunCase(base, old, ms, c.VM, func() {})
	for _, v := range out.Viols {
		if v.Sig == c.Sig {
			return true, v.Detail
		}
	}
	return false, fmt.Sprintf("outcome %s, complaints %v %s", out.Class, out.Viols, out.Harness)
}

func init() {
	mc.Register(&mc.Check{
		ID: "C27",
		Rule: "old contract = struct S: I with fields (f0, f1) over {Int, String, Int?, [Int], {I}, En, T, Capability<auth(Insert) &[Int]>?, Capability<auth(Insert, Remove) &[Int]>?, Capability<auth(Insert | Remove) &[Int]>?, [Capability<auth(Insert) &[Int]>]} (quick: each type once per position, thorough: all 121), nested struct T, resource R, enum En{a,b,c}, interfaces I, J, struct S2: I, J; " +
			"x every single and every unordered pair of ~40 mutations (field add/remove/retype to 17 types incl. authorization edits of capability-typed fields (entitlement added / removed / replaced / reordered, conjunction<->disjunction, dropped)/reorder, nested add/remove/rename/field retype, conformance add/remove, enum case add/remove/reorder/raw type, struct<->resource, #removedType); " +
			"values of every kind stored under the old version, update executed on the real runtime; if accepted, four probe scripts in a fresh runtime (load all, typed field reads, enum identity, conformance casts) must succeed; both engines. non-trivial = distinct accepted mutation-class sets",
		Assumptions: []string{
			"values of a type named in an accepted #removedType pragma are excused from the load probe",
			"the probes name only declarations of the accepted new version; a probe that does not type-check is a harness error",
		},
		Run:    runC27,
		Replay: replayC27,
	})
}

package caps

import (
	"encoding/json"
	"fmt"
	"sort"
	"strconv"
	"strings"

	"github.com/onflow/cadence"
	"github.com/onflow/cadence/common"

	"verif/mc"
	"verif/rt"
)

// C25: explicit-state search over capability histories. One operation per
// transaction; after every committed transaction an observer script reads,
// in a fresh runtime, everything the capability API exposes about both
// accounts and the result is compared with the controller model.

type c25State struct {
	L *rt.Ledger
	M *model
}

type viol struct {
	Sig    string
	Detail string
}

// c25Ctx carries the per-run context of the step function.
type c25Ctx struct {
	vm  bool
	env *mc.Env // nil in replay
	obs string  // observer source
	all bool    // observer asks all 8 get<T> on unpublished paths too
}

func (c *c25Ctx) eval() {
	if c.env != nil {
		c.env.R.Eval()
	}
}
func (c *c25Ctx) dontCare() {
	if c.env != nil {
		c.env.R.DontCare.Add(1)
	}
}
func (c *c25Ctx) class(name string, sample func() any) {
	if c.env != nil {
		c.env.R.Class(name, sample)
	}
}
func (c *c25Ctx) nontrivial(key string) {
	if c.env != nil {
		c.env.R.Nontrivial(key)
	}
}


func c25Init(vm bool) *c25State {
	l := rt.NewLedger()
	rt.Deploy(l, rt.Addr(1), "T", c25PreludeSource(), vm)
	return &c25State{L: l, M: newModel()}
}

func (s *c25State) clone() *c25State { return &c25State{L: s.L.Clone(), M: s.M.clone()} }

func unquoteLogs(logs []string) []string {
	out := make([]string, len(logs))
	for i, l := range logs {
		if u, err := strconv.Unquote(l); err == nil {
			out[i] = u
		} else {
			out[i] = l
		}
	}
	return out
}

func c25Tx(body string, post bool) string {
	p := ""
	if post {
		p = "\n        T.after(s)"
	}
	return "import T from 0x1\ntransaction {\n    prepare(s: auth(Storage, Capabilities, Inbox) &Account) {\n        " + body + p + "\n    }\n}\n"
}

func equalStrings(a, b []string) bool {
	if len(a) != len(b) {
		return false
	}
	for i := range a {
		if a[i] != b[i] {
			return false
		}
	}
	return true
}

// c25Step executes op on st (in place) and returns the oracle's complaints.
func c25Step(cx *c25Ctx, st *c25State, op string) (viols []viol) {
	m := st.M
	f := strings.Split(op, "|")
	kind := f[0]
	bad := func(sig, detail string) {
		viols = append(viols, viol{kind + "|" + sig, "op " + op + ": " + detail})
	}
	if len(f) < 2 {
		bad("malformed-op", op)
		return
	}
	ai, _ := strconv.Atoi(f[1])
	if ai < 1 || ai > 2 {
		bad("malformed-op", op)
		return
	}
	a := m.A[ai]
	as := addrStr(ai)

	var body string
	// decided after the run
	var onResult func(res *rt.Result, logs []string) (expEvents []string, checkEvents bool)
	mustOK := true
	mayFailWhy := ""
	// ambiguous: the property sentence does not settle the outcome of this operation in this
	// state; the model follows the implementation and the case is counted as don't-care
	ambiguous := false
	sigClass := ""

	firstLog := func(logs []string, prefix string) (string, bool) {
		for _, l := range logs {
			if strings.HasPrefix(l, prefix) {
				return strings.TrimPrefix(l, prefix), true
			}
		}
		return "", false
	}
	hasNilLog := func(logs []string) bool {
		for _, l := range logs {
			if l == "nil" {
				return true
			}
		}
		return false
	}

	switch kind {
	case "save":
		p, _ := strconv.Atoi(f[2])
		k := f[3]
		if k == "R" {
			body = fmt.Sprintf("s.storage.save(<- T.mkR(), to: /storage/p%d)", p)
		} else {
			body = fmt.Sprintf("s.storage.save(T.S(), to: /storage/p%d)", p)
		}
		if a.Stored[p] != stNone {
			mustOK, mayFailWhy = false, "path occupied (C22's domain)"
		}
		sigClass = "stored=" + k
		onResult = func(res *rt.Result, logs []string) ([]string, bool) {
			if res.OK() {
				if k == "R" {
					a.Stored[p] = stR
				} else {
					a.Stored[p] = stS
				}
			}
			return nil, true
		}
	case "load":
		p, _ := strconv.Atoi(f[2])
		switch a.Stored[p] {
		case stR:
			body = fmt.Sprintf("destroy s.storage.load<@T.R>(from: /storage/p%d)!", p)
		case stS:
			body = fmt.Sprintf("let x = s.storage.load<T.S>(from: /storage/p%d)!", p)
		default:
			body = fmt.Sprintf("let x = s.storage.load<T.S>(from: /storage/p%d)!", p)
			mustOK, mayFailWhy = false, "nothing stored"
		}
		sigClass = "stored=" + storedIdent[a.Stored[p]]
		onResult = func(res *rt.Result, logs []string) ([]string, bool) {
			if res.OK() {
				a.Stored[p] = stNone
			}
			return nil, true
		}
	case "issue", "issueT", "aissue":
		var p, t int
		if kind == "aissue" {
			t = 6
			body = "let c = s.capabilities.account.issue<&Account>()"
		} else {
			p, _ = strconv.Atoi(f[2])
			t, _ = strconv.Atoi(f[3])
			if kind == "issue" {
				body = fmt.Sprintf("let c = s.capabilities.storage.issue<%s>(/storage/p%d)", wantedSrc[t], p)
			} else {
				body = fmt.Sprintf("let c = s.capabilities.storage.issueWithType(/storage/p%d, type: Type<%s>())", p, wantedSrc[t])
			}
		}
		body += "\n        T.keep(s, c)\n        log(\"cap \".concat(T.key(c)))"
		sigClass = "type=" + wantedSrc[t]
		onResult = func(res *rt.Result, logs []string) ([]string, bool) {
			if !res.OK() {
				return nil, false
			}
			ks, ok := firstLog(logs, "cap ")
			c, ok2 := parseCapKey(ks)
			if !ok || !ok2 {
				bad("unreadable-result", fmt.Sprintf("logs %v", logs))
				return nil, false
			}
			if c.ID == 0 || a.used(c.ID) {
				// "issued IDs are fresh": unique per account and never reused
				bad("id-not-fresh|"+sigClass, fmt.Sprintf("issued ID %d, IDs issued before in this account: %v", c.ID, a.Used))
			}
			if c.Addr != ai || c.T != t {
				bad("wrong-capability|"+sigClass, fmt.Sprintf("issued capability %s, expected address %s type %s", ks, as, wantedIdent[t]))
			}
			a.Used = append(a.Used, c.ID)
			a.Ctrls[c.ID] = &ctrl{ID: c.ID, Account: kind == "aissue", T: t, Target: p}
			a.Wallet[capv{ai, c.ID, t}] = true
			if kind == "aissue" {
				return []string{fmt.Sprintf("flow.AccountCapabilityControllerIssued(id: %d, address: %s, type: Type<%s>())", c.ID, as, wantedIdent[t])}, true
			}
			return []string{fmt.Sprintf("flow.StorageCapabilityControllerIssued(id: %d, address: %s, type: Type<%s>(), path: /storage/p%d)", c.ID, as, wantedIdent[t], p)}, true
		}
	case "retarget", "tag", "del", "atag", "adel":
		id, _ := strconv.ParseUint(f[2], 10, 64)
		ct := a.Ctrls[id]
		acc := kind == "atag" || kind == "adel"
		ns := "storage"
		render := "T.sctl(c)"
		if acc {
			ns, render = "account", "T.actl(c)"
		}
		if ct == nil || ct.Account != acc {
			// getController returns nil: the force-unwrap fails
			mustOK, mayFailWhy = false, "no such live controller"
		}
		body = fmt.Sprintf("let c = s.capabilities.%s.getController(byCapabilityID: %d)!\n        ", ns, id)
		var np int
		switch kind {
		case "retarget":
			np, _ = strconv.Atoi(f[3])
			body += fmt.Sprintf("c.retarget(/storage/p%d)\n        log(\"ctl \".concat(%s))", np, render)
			if ct != nil {
				if ct.Target == np {
					sigClass = "same-path"
				} else {
					sigClass = "other-path"
				}
			}
		case "tag", "atag":
			body += fmt.Sprintf("c.setTag(\"t\")\n        log(\"ctl \".concat(%s))", render)
		case "del", "adel":
			body += "c.delete()"
		}
		onResult = func(res *rt.Result, logs []string) ([]string, bool) {
			if !res.OK() {
				return nil, false
			}
			if ct == nil || ct.Account != acc {
				bad("dead-controller-returned", "getController returned a controller the model does not have")
				return nil, false
			}
			var ev []string
			switch kind {
			case "retarget":
				ct.Target = np
				ev = []string{fmt.Sprintf("flow.StorageCapabilityControllerTargetChanged(id: %d, address: %s, path: /storage/p%d)", id, as, np)}
			case "tag", "atag":
				ct.Tag = "t"
			case "del":
				delete(a.Ctrls, id)
				ev = []string{fmt.Sprintf("flow.StorageCapabilityControllerDeleted(id: %d, address: %s)", id, as)}
			case "adel":
				delete(a.Ctrls, id)
				ev = []string{fmt.Sprintf("flow.AccountCapabilityControllerDeleted(id: %d, address: %s)", id, as)}
			}
			if kind != "del" && kind != "adel" {
				want := m.sctl(ai, ct)
				if acc {
					want = m.actl(ai, ct)
				}
				if got, _ := firstLog(logs, "ctl "); got != want {
					bad("controller-fields-after-op|"+sigClass, fmt.Sprintf("controller reads %q, model %q", got, want))
				}
			}
			return ev, true
		}
	case "seq":
		// seq|acct|s or a|id|op;op[;op]: several operations on ONE controller reference in one
		// transaction (no re-fetch in between). ops: r0 r1 (retarget), t (setTag), d (delete),
		// g (read the controller's fields and borrow its capability at the controller's type)
		if len(f) != 5 {
			bad("malformed-op", op)
			return
		}
		acc := f[2] == "a"
		id, _ := strconv.ParseUint(f[3], 10, 64)
		steps := strings.Split(f[4], ";")
		ct := a.Ctrls[id]
		ns, render := "storage", "T.sctl(c)"
		if acc {
			ns, render = "account", "T.actl(c)"
		}
		if ct == nil || ct.Account != acc {
			mustOK, mayFailWhy = false, "no such live controller"
		}
		var sb strings.Builder
		fmt.Fprintf(&sb, "let c = s.capabilities.%s.getController(byCapabilityID: %d)!", ns, id)
		// walk the steps on a copy of the controller to know what the model expects
		var sim ctrl
		if ct != nil {
			sim = *ct
		}
		deleted, useAfterDelete := false, false
		var expLogs, expEv, norm []string
		for i, stp := range steps {
			if deleted {
				useAfterDelete = true
			}
			if n := map[string]string{"t": "setTag", "d": "delete", "g": "read"}[stp]; n != "" {
				norm = append(norm, n)
			}
			switch {
			case (stp == "r0" || stp == "r1") && !acc:
				np := int(stp[1] - '0')
				if np == sim.Target {
					norm = append(norm, "retarget-same")
				} else {
					norm = append(norm, "retarget-other")
				}
				fmt.Fprintf(&sb, "\n        c.retarget(/storage/p%d)", np)
				sim.Target = np
				expEv = append(expEv, fmt.Sprintf("flow.StorageCapabilityControllerTargetChanged(id: %d, address: %s, path: /storage/p%d)", id, as, np))
			case stp == "t":
				sb.WriteString("\n        c.setTag(\"t\")")
				sim.Tag = "t"
			case stp == "d":
				sb.WriteString("\n        c.delete()")
				deleted = true
				if acc {
					expEv = append(expEv, fmt.Sprintf("flow.AccountCapabilityControllerDeleted(id: %d, address: %s)", id, as))
				} else {
					expEv = append(expEv, fmt.Sprintf("flow.StorageCapabilityControllerDeleted(id: %d, address: %s)", id, as))
				}
			case stp == "g":
				fmt.Fprintf(&sb, "\n        log(\"g%d \".concat(%s).concat(\" \").concat(c.capability.borrow<%s>() != nil ? \"1\" : \"0\"))", i, render, wantedSrc[sim.T])
				if ct != nil && !deleted {
					// the model's view at this point of the transaction
					saved := *ct
					*ct = sim
					b := "0"
					if m.borrowOK(capv{ai, id, sim.T}, wanted[sim.T]) {
						b = "1"
					}
					r := m.sctl(ai, ct)
					if acc {
						r = m.actl(ai, ct)
					}
					*ct = saved
					expLogs = append(expLogs, fmt.Sprintf("g%d %s %s", i, r, b))
				}
			default:
				bad("malformed-op", op)
				return
			}
		}
		body = sb.String()
		if useAfterDelete {
			// the sentence does not say what using a controller reference after delete() does
			// (fail, or have no effect): either is accepted - but the controller must be gone
			mustOK, mayFailWhy, ambiguous = false, "use after delete", true
		}
		sigClass = map[bool]string{false: "storage-controller:", true: "account-controller:"}[acc] + strings.Join(norm, ";")
		onResult = func(res *rt.Result, logs []string) ([]string, bool) {
			if !res.OK() {
				return nil, false
			}
			if ct == nil || ct.Account != acc {
				bad("dead-controller-returned", "getController returned a controller the model does not have")
				return nil, false
			}
			if deleted {
				delete(a.Ctrls, id)
			} else {
				*ct = sim
			}
			if useAfterDelete {
				return nil, false
			}
			var got []string
			for _, l := range logs {
				if len(l) > 1 && l[0] == 'g' && l[1] >= '0' && l[1] <= '9' {
					got = append(got, l)
				}
			}
			if !equalStrings(got, expLogs) {
				bad("controller-read-in-sequence|"+sigClass, fmt.Sprintf("the reference reads %v, model %v", got, expLogs))
			}
			return expEv, true
		}
	case "pub":
		c, ok := parseShortCap(f[2])
		q, _ := strconv.Atoi(f[3])
		if !ok || !a.Wallet[c] {
			bad("malformed-op", op)
			return
		}
		body = fmt.Sprintf("s.capabilities.publish(T.take(s, %q), at: /public/q%d)", c.key(), q)
		switch {
		case c.Addr != ai:
			// the sentence does not say whether a capability of another account may be published
			mustOK, mayFailWhy, ambiguous = false, "capability of another account", true
		case a.Pub[q] != nil:
			// the sentence does not say what publishing over a published capability does
			mustOK, mayFailWhy, ambiguous = false, "path already published", true
		case m.A[c.Addr].Ctrls[c.ID] == nil:
			// the sentence does not say whether a capability with a deleted controller may be published
			mustOK, mayFailWhy, ambiguous = false, "controller deleted", true
		}
		sigClass = "cap=" + wantedSrc[c.T]
		onResult = func(res *rt.Result, logs []string) ([]string, bool) {
			if !res.OK() {
				return nil, false
			}
			cc := c
			a.Pub[q] = &cc
			return []string{fmt.Sprintf("flow.CapabilityPublished(address: %s, path: /public/q%d, capability: Capability<%s>(address: %s, id: %d))",
				as, q, wantedIdent[c.T], addrStr(c.Addr), c.ID)}, true
		}
	case "unpub":
		q, _ := strconv.Atoi(f[2])
		body = fmt.Sprintf("if let c = s.capabilities.unpublish(/public/q%d) { log(\"cap \".concat(T.key(c))) } else { log(\"nil\") }", q)
		onResult = func(res *rt.Result, logs []string) ([]string, bool) {
			if !res.OK() {
				return nil, false
			}
			ks, got := firstLog(logs, "cap ")
			if a.Pub[q] == nil {
				if got || !hasNilLog(logs) {
					bad("returned-unpublished", fmt.Sprintf("nothing published at q%d but unpublish returned %q", q, ks))
				}
				return nil, true
			}
			want := a.Pub[q].key()
			if !got || ks != want {
				bad("wrong-capability", fmt.Sprintf("unpublish returned %q (logs %v), published was %q", ks, logs, want))
			}
			a.Pub[q] = nil
			return []string{fmt.Sprintf("flow.CapabilityUnpublished(address: %s, path: /public/q%d)", as, q)}, true
		}
	case "ipub":
		c, ok := parseShortCap(f[2])
		name := f[3]
		r, _ := strconv.Atoi(f[4])
		if !ok || !a.Wallet[c] || r < 1 || r > 2 {
			bad("malformed-op", op)
			return
		}
		body = fmt.Sprintf("s.inbox.publish(T.take(s, %q), name: %q, recipient: %s)", c.key(), name, addrStr(r))
		if c.Addr != ai {
			// the sentence does not say whether a capability of another account may be passed on
			mustOK, mayFailWhy, ambiguous = false, "capability of another account", true
		}
		sigClass = "cap=" + wantedSrc[c.T]
		onResult = func(res *rt.Result, logs []string) ([]string, bool) {
			if !res.OK() {
				return nil, false
			}
			var n []inboxEntry
			for _, e := range a.Inbox[name] {
				if e.Rcpt != r {
					e.Definite = false
					n = append(n, e)
				}
			}
			n = append(n, inboxEntry{Rcpt: r, Cap: c, Definite: true})
			a.Inbox[name] = n
			return []string{fmt.Sprintf("flow.InboxValuePublished(provider: %s, recipient: %s, name: %q, type: Type<Capability<%s>>())",
				as, addrStr(r), name, wantedIdent[c.T])}, true
		}
	case "iunpub", "claim":
		name := f[2]
		prov := ai
		var t int
		if kind == "claim" {
			prov, _ = strconv.Atoi(f[3])
			t, _ = strconv.Atoi(f[4])
			body = fmt.Sprintf("if let c = s.inbox.claim<%s>(%q, provider: %s) { T.keep(s, c); log(\"cap \".concat(T.key(c))) } else { log(\"nil\") }", wantedSrc[t], name, addrStr(prov))
		} else {
			t, _ = strconv.Atoi(f[3])
			body = fmt.Sprintf("if let c = s.inbox.unpublish<%s>(%q) { T.keep(s, c); log(\"cap \".concat(T.key(c))) } else { log(\"nil\") }", wantedSrc[t], name)
		}
		if prov < 1 || prov > 2 {
			bad("malformed-op", op)
			return
		}
		pa := m.A[prov]
		entries := pa.Inbox[name]
		// candidates: the entries this call may legitimately return
		var cands []int
		definite := -1
		for i, e := range entries {
			if kind == "claim" && e.Rcpt != ai {
				continue
			}
			cands = append(cands, i)
			if e.Definite {
				definite = i
			}
		}
		typeOK := func(i int) bool { return capSub(wanted[entries[i].Cap.T], wanted[t]) }
		// A failure is acceptable whenever the call is not obliged to return a value
		mustOK = definite >= 0 && typeOK(definite)
		switch {
		case len(cands) == 0:
			sigClass = "no-entry"
		case definite >= 0 && typeOK(definite):
			sigClass = "entry"
		case definite >= 0:
			sigClass = "entry-type-mismatch"
		default:
			sigClass = "displaced-entry"
		}
		if !mustOK {
			// nothing obliges the call to return a value: nil and a failing call are both fine
			mayFailWhy = sigClass
		}
		onResult = func(res *rt.Result, logs []string) ([]string, bool) {
			if !res.OK() {
				return nil, false
			}
			ks, got := firstLog(logs, "cap ")
			if !got {
				if !hasNilLog(logs) {
					bad("unreadable-result", fmt.Sprintf("logs %v", logs))
					return nil, false
				}
				if definite >= 0 && typeOK(definite) {
					bad("published-value-not-returned|"+sigClass, fmt.Sprintf("model inbox of %s under %q: %+v, call returned nil", addrStr(prov), name, entries))
					return nil, false
				}
				if definite >= 0 {
					// nil on a type mismatch: the sentence does not say whether the value stays
					entries[definite].Definite = false
					cx.dontCare()
				} else if len(cands) > 0 {
					// displaced entry, see inboxEntry.Definite
					cx.dontCare()
				}
				cx.class(kind+":nil:"+sigClass, nil)
				return nil, true
			}
			c, ok := parseCapKey(ks)
			if !ok {
				bad("unreadable-result", ks)
				return nil, false
			}
			// "an inbox claim returns only a value published by that provider for that claimer under that name"
			hit := -1
			for _, i := range cands {
				e := entries[i]
				if e.Cap.Addr == c.Addr && e.Cap.ID == c.ID && (c.T == e.Cap.T || c.T == t) && typeOK(i) {
					hit = i
					if e.Definite {
						break
					}
				}
			}
			if hit < 0 {
				bad("returned-value-not-published-for-caller|"+sigClass, fmt.Sprintf("returned %s; model inbox of %s under %q: %+v (caller %s)", ks, addrStr(prov), name, entries, as))
				return nil, false
			}
			if definite >= 0 && hit != definite {
				if kind == "claim" {
					bad("stale-value-returned|"+sigClass, fmt.Sprintf("returned %s but the latest value for the caller is %+v", ks, entries[definite]))
					return nil, false
				}
				cx.dontCare()
			}
			if !entries[hit].Definite {
				cx.dontCare()
			}
			var n []inboxEntry
			for i, e := range entries {
				if i == hit {
					continue
				}
				if kind == "iunpub" {
					// which entries an unpublish removes when several claimers were addressed is not said
					e.Definite = false
				}
				n = append(n, e)
			}
			if len(n) == 0 {
				delete(pa.Inbox, name)
			} else {
				pa.Inbox[name] = n
			}
			a.Wallet[c] = true
			cx.class(kind+":value:"+sigClass, nil)
			cx.nontrivial(kind + ":value:" + sigClass + ":" + wantedSrc[c.T] + ":" + wantedSrc[t])
			if kind == "claim" {
				return []string{fmt.Sprintf("flow.InboxValueClaimed(provider: %s, recipient: %s, name: %q)", addrStr(prov), as, name)}, true
			}
			return []string{fmt.Sprintf("flow.InboxValueUnpublished(provider: %s, name: %q)", as, name)}, true
		}
	default:
		bad("malformed-op", op)
		return
	}

	res := rt.Run(st.L, rt.Tx{Source: c25Tx(body, true), Signers: []common.Address{rt.Addr(byte(ai))}, UseVM: cx.vm})
	cx.eval()
	logs := unquoteLogs(res.Logs)
	if !res.OK() {
		if !mustOK && (res.Class == "internal" || res.Class == "gopanic" || res.Class == "escaped-panic") {
			// where the model allows the operation to be refused, it must be refused as a user-level failure
			bad("internal-failure|"+sigClass+"|"+res.Class, fmt.Sprintf("%s (%s): %s %s: %s", "the operation may fail, but not with an internal error", mayFailWhy, res.Class, res.Kind, res.ErrString()))
			return
		}
		if mustOK {
			bad("failed|"+sigClass+"|"+res.Class, fmt.Sprintf("the model says the operation succeeds; got %s %s: %s", res.Class, res.Kind, res.ErrString()))
		} else {
			if ambiguous || mayFailWhy == "entry-type-mismatch" || mayFailWhy == "displaced-entry" {
				cx.dontCare()
			}
			cx.class(kind+":fail:"+mayFailWhy, func() any { return op + " -> " + res.Kind })
		}
		// a failed transaction is discarded by the host: the state is unchanged
		return
	}
	nv := len(viols)
	expEvents, checkEvents := onResult(res, logs)
	if len(viols) > nv {
		return
	}
	if ambiguous {
		cx.dontCare()
		cx.class(kind+":ok-though:"+mayFailWhy, func() any { return op })
	} else if kind != "claim" && kind != "iunpub" {
		cx.class(kind+":ok", func() any { return op })
	}
	if checkEvents {
		got := rt.EventStrings(res.Events)
		if !equalStrings(got, expEvents) {
			bad("events|"+sigClass, fmt.Sprintf("emitted %v, model %v", got, expEvents))
			return
		}
	}
	// in-transaction view of the signer's controllers
	var gotPost, wantPost []string
	for _, l := range logs {
		if strings.HasPrefix(l, "gcs ") || strings.HasPrefix(l, "agcs ") {
			gotPost = append(gotPost, l)
		}
	}
	for _, id := range a.ctrlIDs() {
		c := a.Ctrls[id]
		if c.Account {
			wantPost = append(wantPost, "agcs "+m.actl(ai, c))
		} else {
			wantPost = append(wantPost, fmt.Sprintf("gcs /storage/p%d %s", c.Target, m.sctl(ai, c)))
		}
	}
	sort.Strings(gotPost)
	sort.Strings(wantPost)
	if !equalStrings(gotPost, wantPost) {
		bad("controllers-in-transaction|"+sigClass, fmt.Sprintf("getControllers inside the transaction: %v, model: %v", gotPost, wantPost))
		return
	}

	// fresh-runtime observation of the committed state
	ores := c25Observe(cx, st)
	cx.eval()
	if !ores.OK() {
		bad("observer-failed|"+ores.Class, fmt.Sprintf("observer script failed: %s %s: %s", ores.Class, ores.Kind, ores.ErrString()))
		return
	}
	// complaints about the observed state are keyed by what is wrong with the state, not by
	// the operation that happened to lead there
	for _, v := range c25CheckObserver(cx, m, unquoteLogs(ores.Logs)) {
		viols = append(viols, viol{v.Sig, "after op " + op + ": " + v.Detail})
	}
	return
}

func c25Observe(cx *c25Ctx, st *c25State) *rt.Result {
	var maxID uint64
	for ai := 1; ai <= 2; ai++ {
		for _, id := range st.M.A[ai].Used {
			if id > maxID {
				maxID = id
			}
		}
	}
	return rt.Run(st.L, rt.Tx{Source: cx.obs, Script: true, UseVM: cx.vm,
		Args: []cadence.Value{cadence.NewUInt64(maxID + 1), cadence.NewBool(cx.all)}})
}

// c25GetLine is one packed observer line about a public path:
// bits 63..60 slot (account, path), 59..56 wanted-type index (15 = the exists line),
// 55 capability address is the account's, 54 dynamic type is Capability<W>, 53 probed,
// 52..21 capability id, 20..5 probe mask, 0 capabilities.borrow<W>(q) != nil (or exists).
type c25GetLine struct {
	addrOK, typeOK, probed, b bool
	id, mask                  uint64
}

func c25DecodeGet(v uint64) (slot, idx int, g c25GetLine) {
	slot = int(v >> 60)
	idx = int(v>>56) & 15
	g.addrOK = v>>55&1 == 1
	g.typeOK = v>>54&1 == 1
	g.probed = v>>53&1 == 1
	g.id = v >> 21 & 0xffffffff
	g.mask = v >> 5 & 0xffff
	g.b = v&1 == 1
	return
}

// c25CheckObserver compares the observer's lines with the model.
func c25CheckObserver(cx *c25Ctx, m *model, lines []string) (viols []viol) {
	bad := func(sig, detail string) { viols = append(viols, viol{"observe|" + sig, detail}) }
	var gotFixed, wantFixed []string
	gets := map[[2]int]*c25GetLine{}
	wl := map[string][2]string{}
	for _, l := range lines {
		if v, err := strconv.ParseUint(l, 10, 64); err == nil {
			slot, idx, g := c25DecodeGet(v)
			k := [2]int{slot, idx}
			if gets[k] != nil || slot > 3 {
				bad("unreadable-line", "duplicate or out-of-range packed line "+l)
			}
			gets[k] = &g
			continue
		}
		f := strings.Split(l, " ")
		switch f[0] {
		case "st", "gcs", "fec", "agcs", "afec", "gc", "agc":
			gotFixed = append(gotFixed, l)
		case "w":
			if len(f) != 5 {
				bad("unreadable-line", l)
				continue
			}
			k := f[1] + " " + f[2]
			if _, dup := wl[k]; dup {
				bad("unreadable-line", "duplicate "+l)
			}
			wl[k] = [2]string{f[3], f[4]}
		default:
			bad("unreadable-line", l)
		}
	}
	for ai := 1; ai <= 2; ai++ {
		a := m.A[ai]
		as := addrStr(ai)
		for p := 0; p < 2; p++ {
			wantFixed = append(wantFixed, fmt.Sprintf("st %s /storage/p%d %s", as, p, storedIdent[a.Stored[p]]))
		}
		for _, id := range a.ctrlIDs() {
			c := a.Ctrls[id]
			if c.Account {
				s := m.actl(ai, c)
				wantFixed = append(wantFixed, "agcs "+as+" "+s, "afec "+as+" "+s, "agc "+as+" "+s)
			} else {
				s := m.sctl(ai, c)
				ps := fmt.Sprintf("/storage/p%d", c.Target)
				wantFixed = append(wantFixed, "gcs "+as+" "+ps+" "+s, "fec "+as+" "+ps+" "+s, "gc "+as+" "+s)
			}
		}
	}
	sort.Strings(gotFixed)
	sort.Strings(wantFixed)
	if !equalStrings(gotFixed, wantFixed) {
		// "getController(s) and forEachController report exactly the live controllers per target path"
		kindOf := func(s string) string { return strings.SplitN(s, " ", 2)[0] }
		gm, wm := map[string]int{}, map[string]int{}
		for _, s := range gotFixed {
			gm[s]++
		}
		for _, s := range wantFixed {
			wm[s]++
		}
		var extra, missing []string
		for s, n := range gm {
			if n > wm[s] {
				extra = append(extra, s)
			}
		}
		for s, n := range wm {
			if n > gm[s] {
				missing = append(missing, s)
			}
		}
		sort.Strings(extra)
		sort.Strings(missing)
		k := ""
		if len(missing) > 0 {
			k = "missing-" + kindOf(missing[0])
		}
		if len(extra) > 0 {
			k += "extra-" + kindOf(extra[0])
		}
		bad("controllers|"+k, fmt.Sprintf("reported but not in the model: %v; in the model but not reported: %v", extra, missing))
		return
	}
	checkProbe := func(what string, c capv, got uint64) {
		want := m.probe(c)
		if got == want {
			if want != 0 {
				cx.nontrivial(fmt.Sprintf("probe|%s|%04x", m.capClass(c), want))
			}
			cx.class(fmt.Sprintf("probe:%04x", want), nil)
			return
		}
		for i := range wanted {
			g, w := got>>(2*i)&3, want>>(2*i)&3
			if g != w {
				r := m.evalRule(c, wanted[i])
				bad(fmt.Sprintf("borrow-check|%s|want=%s|rule(live=%v,authtype=%v,value=%v)|borrow=%d,check=%d", m.capClass(c), wantedSrc[i], r.live, r.authType, r.value, g&1, g>>1),
					fmt.Sprintf("%s capability %s: borrow<%s>()!=nil is %d, check<%s>() is %d, the rule gives %v", what, c.key(), wantedSrc[i], g&1, wantedSrc[i], g>>1, w == 3))
				return
			}
		}
	}
	for ai := 1; ai <= 2; ai++ {
		a := m.A[ai]
		as := addrStr(ai)
		for q := 0; q < 2; q++ {
			slot := (ai-1)*2 + q
			where := fmt.Sprintf("%s /public/q%d", as, q)
			pub := a.Pub[q]
			if g := gets[[2]int{slot, 15}]; g == nil {
				bad("unreadable-line", "missing exists line "+where)
			} else {
				delete(gets, [2]int{slot, 15})
				if g.b != (pub != nil) {
					bad(fmt.Sprintf("exists|published=%v", pub != nil), fmt.Sprintf("capabilities.exists(%s) is %v", where, g.b))
				}
			}
			for i, w := range wanted {
				if pub == nil && i != 0 && !cx.all {
					continue // not asked, see the observer source
				}
				g := gets[[2]int{slot, i}]
				if g == nil {
					bad("unreadable-line", fmt.Sprintf("missing get line %s %d", where, i))
					continue
				}
				delete(gets, [2]int{slot, i})
				if !g.typeOK {
					bad("get|wrong-capability-type", fmt.Sprintf("get<%s>(%s) returned a value whose dynamic type is not Capability<%s>", wantedSrc[i], where, wantedSrc[i]))
					continue
				}
				var r ruleEval
				if pub != nil {
					r = m.evalRule(*pub, w)
				}
				valid := g.id != 0
				cls := "unpublished"
				if pub != nil {
					cls = m.capClass(*pub)
				}
				switch {
				case pub == nil || !r.live || !r.authType:
					// "see only currently published capabilities and apply the same rule"
					if valid {
						bad(fmt.Sprintf("get|valid-but-rule-fails|%s|want=%s|rule(live=%v,authtype=%v)", cls, wantedSrc[i], r.live, r.authType),
							fmt.Sprintf("capabilities.get<%s>(%s) returned a capability with id %d", wantedSrc[i], where, g.id))
						continue
					}
				case r.value:
					if !valid || g.id != pub.ID || g.addrOK != (pub.Addr == ai) {
						bad(fmt.Sprintf("get|invalid-but-rule-holds|%s|want=%s", cls, wantedSrc[i]),
							fmt.Sprintf("capabilities.get<%s>(%s) returned id %d (own address: %v), published is %s", wantedSrc[i], where, g.id, g.addrOK, pub.key()))
						continue
					}
				default:
					// live, authorization and types fine, but the target holds no value of the type:
					// for get (which returns a capability, not a reference) the sentence does not say
					// whether the value clause applies: either answer is accepted
					cx.dontCare()
					if valid && (g.id != pub.ID || g.addrOK != (pub.Addr == ai)) {
						bad("get|wrong-capability", fmt.Sprintf("capabilities.get<%s>(%s) returned id %d, published is %s", wantedSrc[i], where, g.id, pub.key()))
						continue
					}
				}
				if valid {
					cx.nontrivial("get-valid|" + cls + "|" + wantedSrc[i])
					if !g.probed {
						bad("unreadable-line", "valid capability not probed")
					}
					checkProbe("capabilities.get", capv{pub.Addr, pub.ID, i}, g.mask)
				} else if g.probed && g.mask != 0 {
					bad("borrow-check|invalid-cap|borrowable", fmt.Sprintf("invalid capability from get<%s>(%s) probes %04x", wantedSrc[i], where, g.mask))
				}
				wantB := pub != nil && r.live && r.authType && r.value
				if g.b != wantB {
					bad(fmt.Sprintf("capabilities.borrow|%s|want=%s|rule(live=%v,authtype=%v,value=%v)|got=%v", cls, wantedSrc[i], r.live, r.authType, r.value, g.b),
						fmt.Sprintf("capabilities.borrow<%s>(%s)!=nil is %v, the rule gives %v", wantedSrc[i], where, g.b, wantB))
				}
			}
		}
		for _, c := range a.walletCaps() {
			k := as + " " + c.key()
			g, ok := wl[k]
			if !ok {
				bad("unreadable-line", "wallet entry missing: "+k)
				continue
			}
			delete(wl, k)
			if g[0] != c.key() {
				bad("stored-capability-changed", fmt.Sprintf("wallet %s holds %s", k, g[0]))
				continue
			}
			mask, err := strconv.ParseUint(g[1], 10, 64)
			if err != nil {
				bad("unreadable-line", "wallet probe "+g[1])
				continue
			}
			checkProbe("stored", c, mask)
		}
	}
	for k := range wl {
		bad("unreadable-line", "unexpected wallet entry "+k)
	}
	for k := range gets {
		bad("unreadable-line", fmt.Sprintf("unexpected packed line %v", k))
	}
	return
}

// c25Ops enumerates the operations enabled in a state. The quick tier uses a
// lean alphabet (stated in the check's Rule); the thorough tier the full one on
// both accounts.
func c25Ops(m *model, thorough bool) []string {
	var ops []string
	add := func(format string, a ...any) { ops = append(ops, fmt.Sprintf(format, a...)) }
	for ai := 1; ai <= 2; ai++ {
		a := m.A[ai]
		// account 2 keeps the reduced alphabet in both tiers (a symmetric alphabet squares the space)
		full := ai == 1
		// stored values at the target paths
		for p := 0; p < 2; p++ {
			if p == 1 && !full {
				continue
			}
			if a.Stored[p] == stNone {
				add("save|%d|%d|R", ai, p)
				if full && (p == 0 || thorough) {
					add("save|%d|%d|S", ai, p)
				}
			} else {
				add("load|%d|%d", ai, p)
			}
		}
		// issue
		maxIssued := 1
		if full {
			maxIssued = 2
		}
		if thorough {
			maxIssued = 3
		}
		if len(a.Used) < maxIssued {
			switch {
			case thorough:
				for p := 0; p < 2; p++ {
					for t := 0; t < 4; t++ {
						if (p+t)%2 == 0 {
							add("issue|%d|%d|%d", ai, p, t)
						} else {
							add("issueT|%d|%d|%d", ai, p, t)
						}
					}
				}
				add("aissue|%d", ai)
			case full:
				add("issue|%d|0|2", ai)
				add("issueT|%d|0|1", ai)
				add("issue|%d|1|0", ai)
				add("issue|%d|0|3", ai)
				add("aissue|%d", ai)
			default:
				add("issue|%d|0|0", ai)
			}
		}
		for _, id := range a.ctrlIDs() {
			c := a.Ctrls[id]
			if c.Account {
				if c.Tag == "" && thorough {
					add("atag|%d|%d", ai, id)
				}
				add("adel|%d|%d", ai, id)
				if full {
					add("seq|%d|a|%d|t;d", ai, id)
					add("seq|%d|a|%d|d;t", ai, id)
					if thorough {
						add("seq|%d|a|%d|d;d", ai, id)
						add("seq|%d|a|%d|t;g", ai, id)
						add("seq|%d|a|%d|d;g", ai, id)
					}
				}
				continue
			}
			add("retarget|%d|%d|%d", ai, id, 1-c.Target)
			if thorough {
				add("retarget|%d|%d|%d", ai, id, c.Target)
			}
			// several operations on one controller reference
			if full {
				o, h := 1-c.Target, c.Target
				seqs := []string{
					fmt.Sprintf("r%d;d", o), fmt.Sprintf("r%d;r%d;g", o, h), fmt.Sprintf("r%d;g", o),
					"t;d", "d;g", fmt.Sprintf("d;r%d", o), fmt.Sprintf("r%d;t;g", o),
				}
				if thorough {
					seqs = append(seqs, fmt.Sprintf("r%d;d", h), fmt.Sprintf("r%d;r%d;d", o, h), "d;t", "d;d", "t;g",
						fmt.Sprintf("t;r%d;d", o), fmt.Sprintf("r%d;r%d;g", o, o))
				}
				for _, sq := range seqs {
					add("seq|%d|s|%d|%s", ai, id, sq)
				}
			}
			if c.Tag == "" && full {
				add("tag|%d|%d", ai, id)
			}
			add("del|%d|%d", ai, id)
		}
		// publish / unpublish
		for q := 0; q < 2; q++ {
			if q == 1 && !full {
				continue
			}
			for _, c := range a.walletCaps() {
				add("pub|%d|%s|%d", ai, c.short(), q)
			}
			if a.Pub[q] != nil || (q == 0 && full) || thorough {
				add("unpub|%d|%d", ai, q)
			}
		}
		// inbox
		names := []string{"n0"}
		if thorough {
			names = append(names, "n1")
		}
		for _, n := range names {
			for i, c := range a.walletCaps() {
				switch {
				case thorough:
					add("ipub|%d|%s|%s|1", ai, c.short(), n)
					add("ipub|%d|%s|%s|2", ai, c.short(), n)
				case full:
					add("ipub|%d|%s|%s|2", ai, c.short(), n)
					if i == 0 {
						add("ipub|%d|%s|%s|1", ai, c.short(), n)
					}
				default:
					add("ipub|%d|%s|%s|1", ai, c.short(), n)
				}
			}
			if len(a.Inbox[n]) > 0 || full {
				add("iunpub|%d|%s|0", ai, n)
			}
			if thorough {
				add("iunpub|%d|%s|3", ai, n)
			}
			for prov := 1; prov <= 2; prov++ {
				if !full && prov == ai {
					continue
				}
				add("claim|%d|%s|%d|0", ai, n, prov)
				if !full || thorough {
					add("claim|%d|%s|%d|2", ai, n, prov)
				}
				if thorough {
					add("claim|%d|%s|%d|3", ai, n, prov)
				}
			}
		}
	}
	return ops
}

type c25Case struct {
	VM   bool     `json:"vm"`
	All  bool     `json:"observer_all"`
	Path []string `json:"path"` // operations from the empty state (prelude deployed)
	Sig  string   `json:"signature"`
}

// seeds: operation prefixes that build the non-empty start states.
var c25Seeds = [][]string{
	{},
	{"save|1|0|R", "issue|1|0|2", "pub|1|1/1/2|0"},
	{"save|1|0|R", "issueT|1|0|1", "issue|1|1|0", "retarget|1|1|1"},
	{"save|1|0|S", "issue|1|0|3", "ipub|1|1/1/3|n0|2", "aissue|1"},
	{"save|2|0|R", "issue|2|0|0", "ipub|2|2/1/0|n0|1", "claim|1|n0|2|0", "save|1|0|R", "issue|1|0|2"},
	// a published and stored capability whose controller was deleted (must never become valid again)
	{"save|1|0|R", "issue|1|0|2", "pub|1|1/1/2|0", "del|1|1"},
}

func runC25(env *mc.Env) {
	obs := c25ObserverSource()
	for _, vm := range []bool{false, true} {
		cx := &c25Ctx{vm: vm, env: env, obs: obs, all: env.Thorough()}
		report := func(path []string, vs []viol) {
			for _, v := range vs {
				env.R.Violation(v.Sig, c25Case{VM: vm, All: cx.all, Path: path, Sig: v.Sig}, v.Detail)
			}
		}
		var inits []mc.Node[*c25State]
		for si, seed := range c25Seeds {
			st := c25Init(vm)
			okSeed := true
			for i, op := range seed {
				if vs := c25Step(cx, st, op); len(vs) > 0 {
					report(seed[:i+1], vs)
					okSeed = false
					break
				}
			}
			if !okSeed {
				continue
			}
			if si == 0 {
				// the empty state gets the full depth
				mc.BFS(env, c25BFS(env, cx, []mc.Node[*c25State]{{State: st}}, c25Depth(env, true), report))
				continue
			}
			inits = append(inits, mc.Node[*c25State]{State: st, Path: append([]string(nil), seed...)})
		}
		if len(inits) > 0 {
			mc.BFS(env, c25BFS(env, cx, inits, c25Depth(env, false), report))
		}
	}
	if !env.Expired() {
		env.R.BoundCompleted(fmt.Sprintf("depth<=%d from the empty state, depth<=%d from %d seeded states, interpreter and VM",
			c25Depth(env, true), c25Depth(env, false), len(c25Seeds)-1))
	}
}

func c25Depth(env *mc.Env, empty bool) int {
	// both tiers use the same depths; the thorough tier widens the alphabet (see c25Ops)
	if empty {
		return 3
	}
	return 2
}

func c25BFS(env *mc.Env, cx *c25Ctx, init []mc.Node[*c25State], depth int, report func([]string, []viol)) mc.BFSOpts[*c25State] {
	return mc.BFSOpts[*c25State]{
		Init:     init,
		MaxDepth: depth,
		Ops:      func(n *mc.Node[*c25State]) []string { return c25Ops(n.State.M, env.Thorough()) },
		Step: func(n *mc.Node[*c25State], op string) (*c25State, bool) {
			st := n.State.clone()
			vs := c25Step(cx, st, op)
			if len(vs) > 0 {
				p := append(append([]string(nil), n.Path...), op)
				report(p, vs)
				return nil, false
			}
			return st, true
		},
		Key: func(s *c25State) string {
			return fmt.Sprintf("vm=%v ids=%d,%d\n%s", cx.vm, s.L.AccountIDs[rt.Addr(1)], s.L.AccountIDs[rt.Addr(2)], s.M.key())
		},
	}
}

func replayC25(env *mc.Env, raw json.RawMessage) (bool, string) {
	var c c25Case
	if err := json.Unmarshal(raw, &c); err != nil {
		return false, err.Error()
	}
	cx := &c25Ctx{vm: c.VM, obs: c25ObserverSource(), all: c.All}
	st := c25Init(c.VM)
	for i, op := range c.Path {
		vs := c25Step(cx, st, op)
		for _, v := range vs {
			if v.Sig == c.Sig {
				return true, fmt.Sprintf("after %v: %s", c.Path[:i+1], v.Detail)
			}
		}
		if len(vs) > 0 {
			return false, fmt.Sprintf("different complaint after %v: %s: %s", c.Path[:i+1], vs[0].Sig, vs[0].Detail)
		}
	}
	return false, "path ran without a complaint"
}

func init() {
	mc.Register(&mc.Check{
		ID: "C25",
		Rule: "explicit-state BFS (depth 3 from the empty state, depth 2 from 5 seeded states of 3-6 operations; the thorough tier widens the alphabet) over one-operation transactions on 2 accounts x 2 storage paths x 2 public paths: " +
			"save/load R|S at targets, storage issue/issueWithType over {&R,&{RI},auth(E)&R,&S}, account issue, retarget, setTag, delete, sequences of 2-3 of retarget/setTag/delete/read on ONE controller reference (retarget->delete, retarget->retarget, setTag->delete, delete->use ...), publish/unpublish, inbox publish/unpublish<T>/claim<T>; " +
			"after every committed transaction an observer script in a fresh runtime reads getController(s)/forEachController of both namespaces, exists, and for every published path x 8 wanted types get<T> (then borrow/check of the result against all 8 types) and capabilities.borrow<T>, and borrow/check x 8 types of every capability value kept in storage; compared with the Go controller model, events compared per transaction; both engines. " +
			"non-trivial = distinct (state class of a capability, probe pattern with at least one success), valid get results, inbox values returned",
		Assumptions: []string{
			"the host (rt) hands out account IDs from a per-account counter kept in the ledger, discarded with a failed transaction",
			"read-only operations are evaluated by the observer after every transition instead of being transitions themselves",
			"account 2 has a reduced alphabet (one storage path, one public path, one borrow type); quick tier: account 1 issues at most 2 controllers from 5 (path, type) choices; thorough tier: at most 3 from all 9, plus retarget to the same path, a second inbox name and more claim/unpublish types",
		},
		Run:    runC25,
		Replay: replayC25,
	})
}

package caps

import (
	"encoding/json"
	"sort"

	"github.com/onflow/cadence"

	"verif/rt"
)

// obsLines extracts the [String] result of an observer script, sorted (the
// observers print one self-describing line per fact; order of lines is never
// part of an oracle).
func obsLines(r *rt.Result) []string {
	arr, ok := r.Value.(cadence.Array)
	if !ok {
		return nil
	}
	out := make([]string, 0, len(arr.Values))
	for _, v := range arr.Values {
		if s, ok := v.(cadence.String); ok {
			out = append(out, string(s))
		}
	}
	sort.Strings(out)
	return out
}

func jsonStr(s string) string {
	b, _ := json.Marshal(s)
	return string(b)
}

package caps

import (
	"encoding/hex"
	"encoding/json"
	"fmt"
	"sort"
	"strings"

	"github.com/onflow/cadence"
	"github.com/onflow/cadence/common"
	"github.com/onflow/cadence/runtime"

	"verif/mc"
	"verif/rt"
)

// C26: explicit-state search over contract lifecycle histories.
//
// Model (the property sentence): per account a map name -> deployed contract.
//   add fails for an existing name; update fails for a missing one; a failed tryUpdate
//   changes nothing; remove is refused for contracts declaring enums; changes made by a
//   successful transaction are observed by every later transaction.

// --- sources ---------------------------------------------------------------

type c26Src struct {
	id    string
	valid bool   // parses, checks, declares the requested name
	enum  bool   // declares an enum
	decls string // nested type declarations, space separated (an update that drops one is left to C27)
	initPanics bool // the initializer panics: add must fail; as an update source it is a valid, compatible program
	xType string // type of field x ("Int" / "String")
	x     string // rendering of x after this source's initializer ran
	v     int    // what v() returns
}

var c26Sources = map[string]*c26Src{
	"v1":   {id: "v1", valid: true, xType: "Int", x: "10", v: 1},
	"v2":   {id: "v2", valid: true, xType: "Int", x: "20", v: 2},
	"v3":   {id: "v3", valid: true, xType: "String", x: "\"s\"", v: 3}, // incompatible with v1/v2/en (field type)
	"en":   {id: "en", valid: true, enum: true, decls: "En", xType: "Int", x: "40", v: 4},
	// the enum is not the first nested declaration
	"ens": {id: "ens", valid: true, enum: true, decls: "St En", xType: "Int", x: "80", v: 8},
	"enr": {id: "enr", valid: true, enum: true, decls: "Rs Ev En En2", xType: "Int", x: "90", v: 9},
	"pini": {id: "pini", valid: true, initPanics: true, xType: "Int", x: "70", v: 7},
	"terr": {id: "terr"}, // type error
	"name": {id: "name"}, // declares another name
}

func c26Code(name, src string) string {
	switch src {
	case "v1":
		return fmt.Sprintf("import CI from 0x3\naccess(all) contract %s: CI {\n    access(all) var x: Int\n    access(all) fun v(): Int { return 1 }\n    init() { self.x = 10 }\n}\n", name)
	case "v2":
		return fmt.Sprintf("import CI from 0x3\naccess(all) contract %s: CI {\n    access(all) var x: Int\n    access(all) fun v(): Int { return 2 }\n    init() { self.x = 20 }\n}\n", name)
	case "v3":
		return fmt.Sprintf("import CI from 0x3\naccess(all) contract %s: CI {\n    access(all) var x: String\n    access(all) fun v(): Int { return 3 }\n    init() { self.x = \"s\" }\n}\n", name)
	case "en":
		return fmt.Sprintf("import CI from 0x3\naccess(all) contract %s: CI {\n    access(all) enum En: UInt8 { access(all) case a }\n    access(all) var x: Int\n    access(all) fun v(): Int { return 4 }\n    init() { self.x = 40 }\n}\n", name)
	case "ens":
		return fmt.Sprintf("import CI from 0x3\naccess(all) contract %s: CI {\n    access(all) struct St {}\n    access(all) enum En: UInt8 { access(all) case a }\n    access(all) var x: Int\n    access(all) fun v(): Int { return 8 }\n    init() { self.x = 80 }\n}\n", name)
	case "enr":
		return fmt.Sprintf("import CI from 0x3\naccess(all) contract %s: CI {\n    access(all) resource Rs {}\n    access(all) event Ev()\n    access(all) enum En: UInt8 { access(all) case a }\n    access(all) enum En2: UInt8 { access(all) case b }\n    access(all) var x: Int\n    access(all) fun v(): Int { return 9 }\n    init() { self.x = 90 }\n}\n", name)
	case "pini":
		return fmt.Sprintf("import CI from 0x3\naccess(all) contract %s: CI {\n    access(all) var x: Int\n    access(all) fun v(): Int { return 7 }\n    init() { self.x = 70; panic(\"init\") }\n}\n", name)
	case "terr":
		return fmt.Sprintf("import CI from 0x3\naccess(all) contract %s: CI {\n    access(all) var x: Int\n    access(all) fun v(): Int { return \"five\" }\n    init() { self.x = 50 }\n}\n", name)
	case "name":
		return fmt.Sprintf("import CI from 0x3\naccess(all) contract %sZ: CI {\n    access(all) var x: Int\n    access(all) fun v(): Int { return 6 }\n    init() { self.x = 60 }\n}\n", name)
	}
	panic("c26: unknown source " + src)
}

// update verdicts of the model
const (
	updMustFail = iota // invalid new source
	updMustOK          // same declarations and field types (or only a nested declaration added)
	updOpen            // field type changed / nested declaration removed: whether this is
	//                    accepted is C27's subject, the lifecycle sentence does not say
)

func c26UpdateVerdict(old, new *c26Src) int {
	if !new.valid {
		return updMustFail
	}
	if old.xType != new.xType {
		return updOpen
	}
	for _, d := range strings.Fields(old.decls) {
		if !strings.Contains(" "+new.decls+" ", " "+d+" ") {
			return updOpen // a nested declaration is dropped
		}
	}
	return updMustOK
}

// --- model -------------------------------------------------------------------

type c26Dep struct {
	Src string // source id of the deployed code
	X   string // rendering of the stored field x (set by the initializer at add time)
}

type c26Model struct {
	A [3]map[string]c26Dep // accounts 1, 2: name -> deployment
}

func newC26Model() *c26Model {
	return &c26Model{A: [3]map[string]c26Dep{nil, {}, {}}}
}

func (m *c26Model) clone() *c26Model {
	n := newC26Model()
	for i := 1; i <= 2; i++ {
		for k, v := range m.A[i] {
			n.A[i][k] = v
		}
	}
	return n
}

func (m *c26Model) key() string {
	var sb strings.Builder
	for i := 1; i <= 2; i++ {
		names := m.names(i)
		for _, n := range names {
			d := m.A[i][n]
			fmt.Fprintf(&sb, "%d.%s=%s/%s ", i, n, d.Src, d.X)
		}
	}
	return sb.String()
}

func (m *c26Model) names(ai int) []string {
	var names []string
	for n := range m.A[ai] {
		names = append(names, n)
	}
	sort.Strings(names)
	return names
}

type c26State struct {
	L *rt.Ledger
	M *c26Model
	// Env, if set, is the one runtime environment all transactions of this history run in
	// (a host that reuses its environment); nil = a fresh environment per transaction
	Env runtime.Environment
}

func (s *c26State) clone() *c26State { return &c26State{L: s.L.Clone(), M: s.M.clone(), Env: s.Env} }

func c26Init(vm bool) *c26State {
	l := rt.NewLedger()
	rt.Deploy(l, rt.Addr(3), "CI", "access(all) contract interface CI { access(all) fun v(): Int }", vm)
	return &c26State{L: l, M: newC26Model()}
}

// --- operations ------------------------------------------------------------------

type c26Call struct {
	Kind string // add upd try rem
	Name string
	Src  string
}

type c26Op struct {
	Acct  int
	Tail  string // ok | panic
	Calls []c26Call
}

func (o c26Op) String() string {
	var cs []string
	for _, c := range o.Calls {
		if c.Kind == "rem" {
			cs = append(cs, "rem:"+c.Name)
		} else {
			cs = append(cs, c.Kind+":"+c.Name+":"+c.Src)
		}
	}
	return fmt.Sprintf("%d|%s|%s", o.Acct, o.Tail, strings.Join(cs, ";"))
}

func parseC26Op(s string) (o c26Op, ok bool) {
	f := strings.Split(s, "|")
	if len(f) != 3 {
		return o, false
	}
	if _, err := fmt.Sscan(f[0], &o.Acct); err != nil || o.Acct < 1 || o.Acct > 2 {
		return o, false
	}
	o.Tail = f[1]
	for _, cs := range strings.Split(f[2], ";") {
		p := strings.Split(cs, ":")
		c := c26Call{Kind: p[0]}
		switch {
		case p[0] == "rem" && len(p) == 2:
			c.Name = p[1]
		case len(p) == 3 && c26Sources[p[2]] != nil:
			c.Name, c.Src = p[1], p[2]
		default:
			return o, false
		}
		o.Calls = append(o.Calls, c)
	}
	return o, len(o.Calls) > 0
}

// prediction of one call on the sequential in-transaction model
const (
	pOK      = iota // must succeed (add/update: returns; tryUpdate: deployedContract != nil; remove: returns the contract)
	pAbort          // must abort the transaction (or, for tryUpdate/remove-refusal: not change anything)
	pNil            // remove of a missing name: returns nil, nothing changes
	pTryFail        // tryUpdate must report failure (or abort) and change nothing
	pOpen           // the sentence does not settle it: follow the implementation
)

// c26Predict evaluates call c on view (the account's sequential in-transaction
// view); removed = names removed earlier in this transaction.
func c26Predict(view map[string]c26Dep, removed map[string]bool, c c26Call) int {
	d, exists := view[c.Name]
	switch c.Kind {
	case "add":
		if exists {
			return pAbort // "add fails for an existing name"
		}
		if !c26Sources[c.Src].valid || c26Sources[c.Src].initPanics {
			return pAbort
		}
		if removed[c.Name] {
			// re-adding a name removed earlier in the same transaction: the sentence only says
			// add fails for an existing name; whether this add may be refused is left open
			return pOpen
		}
		return pOK
	case "upd", "try":
		fail := pAbort
		if c.Kind == "try" {
			fail = pTryFail
		}
		if !exists {
			return fail // "update fails for a missing one"
		}
		switch c26UpdateVerdict(c26Sources[d.Src], c26Sources[c.Src]) {
		case updMustFail:
			return fail
		case updOpen:
			return pOpen
		}
		return pOK
	case "rem":
		if !exists {
			return pNil
		}
		if c26Sources[d.Src].enum {
			return pAbort // "remove is refused for contracts declaring enums"
		}
		return pOK
	}
	return pOpen
}

func c26Apply(view map[string]c26Dep, removed map[string]bool, c c26Call) {
	switch c.Kind {
	case "add":
		view[c.Name] = c26Dep{Src: c.Src, X: c26Sources[c.Src].x}
	case "upd", "try":
		d := view[c.Name]
		d.Src = c.Src // the stored value (x) is kept: initializers do not run on update
		view[c.Name] = d
	case "rem":
		delete(view, c.Name)
		removed[c.Name] = true
	}
}

func c26TxSource(o c26Op, names []string) string {
	var sb strings.Builder
	sb.WriteString("import CI from 0x3\ntransaction {\n    prepare(s: auth(Contracts) &Account) {\n")
	for i, c := range o.Calls {
		switch c.Kind {
		case "add":
			fmt.Fprintf(&sb, "        s.contracts.add(name: %q, code: %q.decodeHex())\n        log(\"c%d ok\")\n", c.Name, hex.EncodeToString([]byte(c26Code(c.Name, c.Src))), i)
		case "upd":
			fmt.Fprintf(&sb, "        s.contracts.update(name: %q, code: %q.decodeHex())\n        log(\"c%d ok\")\n", c.Name, hex.EncodeToString([]byte(c26Code(c.Name, c.Src))), i)
		case "try":
			fmt.Fprintf(&sb, "        if s.contracts.tryUpdate(name: %q, code: %q.decodeHex()).deployedContract != nil { log(\"c%d ok\") } else { log(\"c%d fail\") }\n", c.Name, hex.EncodeToString([]byte(c26Code(c.Name, c.Src))), i, i)
		case "rem":
			fmt.Fprintf(&sb, "        if s.contracts.remove(name: %q) != nil { log(\"c%d ok\") } else { log(\"c%d nil\") }\n", c.Name, i, i)
		}
	}
	// the transaction's own view after the calls
	sb.WriteString("        var ns = \"names\"\n        for n in s.contracts.names { ns = ns.concat(\" \").concat(n) }\n        log(ns)\n")
	for _, n := range names {
		fmt.Fprintf(&sb, "        if let d = s.contracts.get(name: %q) { log(\"get %s \".concat(String.fromUTF8(d.code) ?? \"?\")) } else { log(\"get %s -\") }\n", n, n, n)
	}
	if o.Tail == "panic" {
		sb.WriteString("        panic(\"tail\")\n")
	}
	sb.WriteString("    }\n}\n")
	return sb.String()
}

var c26Names = []string{"A", "B"}

const c26Observer = `import CI from 0x3
access(all) fun main() {
    for addr in [0x1 as Address, 0x2 as Address] {
        let a = getAccount(addr)
        let an = addr.toString()
        var ns = "names ".concat(an)
        for n in a.contracts.names { ns = ns.concat(" ").concat(n) }
        log(ns)
        for n in ["A", "B"] {
            if let d = a.contracts.get(name: n) {
                log("get ".concat(an).concat(" ").concat(n).concat(" ").concat(d.name).concat(" ").concat(d.address.toString()).concat(" ").concat(String.fromUTF8(d.code) ?? "?"))
            } else {
                log("get ".concat(an).concat(" ").concat(n).concat(" -"))
            }
            if let r = a.contracts.borrow<&{CI}>(name: n) {
                log("borrow ".concat(an).concat(" ").concat(n).concat(" ").concat(r.v().toString()))
            } else {
                log("borrow ".concat(an).concat(" ").concat(n).concat(" -"))
            }
        }
    }
}
`

type c26Ctx struct {
	vm        bool
	env       *mc.Env
	noObserve bool // replaying a prefix: transactions and their own oracle only
}

func (c *c26Ctx) eval() {
	if c.env != nil {
		c.env.R.Eval()
	}
}
func (c *c26Ctx) dontCare() {
	if c.env != nil {
		c.env.R.DontCare.Add(1)
	}
}
func (c *c26Ctx) class(name string, sample func() any) {
	if c.env != nil {
		c.env.R.Class(name, sample)
	}
}
func (c *c26Ctx) nontrivial(key string) {
	if c.env != nil {
		c.env.R.Nontrivial(key)
	}
}

// c26CallClass is the structural class of a call in a deployment state (used in
// signatures): the call, whether its source is valid / compatible with what is
// deployed, and whether the name is deployed (with or without an enum).
func c26CallClass(view map[string]c26Dep, c c26Call) string {
	d, ok := view[c.Name]
	st := "missing"
	if ok {
		st = "deployed"
		if c26Sources[d.Src].enum {
			st = "deployed-with-enum"
		}
	}
	if c.Kind == "rem" {
		return "remove|" + st
	}
	n := c26Sources[c.Src]
	sc := "valid"
	switch {
	case !n.valid:
		sc = map[string]string{"terr": "type-error", "name": "name-mismatch"}[c.Src]
	case ok && c26UpdateVerdict(c26Sources[d.Src], n) == updOpen:
		sc = "incompatible"
	case n.enum:
		sc = "valid-with-enum"
	case n.initPanics:
		sc = "init-panics"
	}
	return c.Kind + "(" + sc + ")|" + st
}

// c26Step runs one transaction and the observers; st is updated in place.
func c26Step(cx *c26Ctx, st *c26State, ops string) (viols []viol) {
	// "t1>>t2": two transactions in a row (used in the reused-environment mode to put a
	// failing transaction in front of another one; a failed transaction does not change the state key)
	if i := strings.Index(ops, ">>"); i >= 0 {
		if viols = c26Step(cx, st, ops[:i]); len(viols) > 0 {
			return
		}
		vs := c26Step(cx, st, ops[i+2:])
		for k := range vs {
			if st.Env != nil {
				vs[k].Sig = "after-failed-tx-in-same-environment|" + vs[k].Sig
			}
			vs[k].Detail = "after " + ops[:i] + ": " + vs[k].Detail
		}
		return vs
	}
	o, ok := parseC26Op(ops)
	if !ok {
		return []viol{{"malformed-op", ops}}
	}
	bad := func(sig, detail string) { viols = append(viols, viol{sig, "tx " + ops + ": " + detail}) }
	m := st.M
	as := addrStr(o.Acct)

	res := rt.Run(st.L, rt.Tx{Source: c26TxSource(o, c26Names), Signers: []common.Address{rt.Addr(byte(o.Acct))}, UseVM: cx.vm, Environment: st.Env})
	cx.eval()
	logs := unquoteLogs(res.Logs)
	callLog := func(i int) string {
		p := fmt.Sprintf("c%d ", i)
		for _, l := range logs {
			if strings.HasPrefix(l, p) {
				return strings.TrimPrefix(l, p)
			}
		}
		return ""
	}

	// walk the calls on the sequential view, following the implementation where the sentence is open
	view := map[string]c26Dep{}
	for k, v := range m.A[o.Acct] {
		view[k] = v
	}
	removed := map[string]bool{}
	var expEvents []string
	aborted := false // the model says the transaction is over
	anyOpen := false
	sigPath := ""
	for i, c := range o.Calls {
		p := c26Predict(view, removed, c)
		cls := c26CallClass(view, c)
		if i > 0 {
			sigPath += ";"
		}
		sigPath += cls
		got := callLog(i) // "" = the call did not return
		if p == pOpen {
			anyOpen = true
			cx.dontCare()
		}
		switch {
		case got == "":
			// the call aborted the transaction (or an earlier failure did)
			switch p {
			case pOK, pNil:
				bad(fmt.Sprintf("call-failed|%s|%s", cls, res.Class), fmt.Sprintf("call %d (%s) must succeed, transaction failed: %s %s: %s", i, cls, res.Class, res.Kind, res.ErrString()))
				return
			}
			cx.class("call:"+c.Kind+":abort", func() any { return ops + " -> " + res.Kind })
			aborted = true
		case got == "ok":
			switch p {
			case pAbort, pTryFail, pNil:
				// add on an existing name / update on a missing one / invalid source / remove of an enum contract went through
				bad(fmt.Sprintf("call-succeeded|%s", cls), fmt.Sprintf("call %d (%s) must not succeed, it returned normally (%s)", i, cls, got))
				return
			}
			c26Apply(view, removed, c)
			ev := map[string]string{"add": "AccountContractAdded", "upd": "AccountContractUpdated", "try": "AccountContractUpdated", "rem": "AccountContractRemoved"}[c.Kind]
			expEvents = append(expEvents, fmt.Sprintf("flow.%s %s %s", ev, as, c.Name))
			cx.class("call:"+c.Kind+":ok", func() any { return ops })
			cx.nontrivial("ok|" + cls + "|" + c.Src + "|" + view[c.Name].X)
		case got == "fail" && c.Kind == "try":
			if p == pOK {
				bad(fmt.Sprintf("call-failed|%s|tryUpdate-reported-failure", cls), fmt.Sprintf("tryUpdate %d (%s) must succeed, it reported failure", i, cls))
				return
			}
			cx.class("call:try:reported-failure", func() any { return ops })
			cx.nontrivial("tryfail|" + cls + "|" + c.Src)
		case got == "nil" && c.Kind == "rem":
			if p == pOK {
				bad(fmt.Sprintf("call-failed|%s|remove-returned-nil", cls), fmt.Sprintf("remove %d (%s) returned nil", i, cls))
				return
			}
			if p == pAbort {
				// an enum contract: "refused"; returning nil without removing is a refusal too
				cx.class("call:rem:refused-with-nil", nil)
			} else {
				cx.class("call:rem:nil", nil)
			}
		default:
			bad("unreadable-result", fmt.Sprintf("call %d logged %q", i, got))
			return
		}
		if aborted {
			break
		}
	}
	if o.Tail == "panic" {
		aborted = true
	}

	if !res.OK() {
		if !aborted {
			// every call returned and nothing in the model ends the transaction
			bad(fmt.Sprintf("transaction-failed|%s|%s", sigPath, res.Class), fmt.Sprintf("all calls are fine for the model, transaction failed: %s %s: %s", res.Class, res.Kind, res.ErrString()))
			return
		}
		cx.class("tx:failed:"+o.Tail, nil)
		// the host discards a failed transaction: nothing to observe
		return
	}
	if aborted {
		bad(fmt.Sprintf("transaction-succeeded|%s|tail=%s", sigPath, o.Tail), "the model says the transaction aborts, it succeeded")
		return
	}

	// in-transaction view (after the calls): names and get follow the sequential model
	var wantNames []string
	for n := range view {
		wantNames = append(wantNames, n)
	}
	sort.Strings(wantNames)
	for _, l := range logs {
		switch {
		case strings.HasPrefix(l, "names"):
			got := strings.Fields(l)[1:]
			sort.Strings(got)
			if !equalStrings(got, wantNames) {
				bad(fmt.Sprintf("names-in-transaction|%s", sigPath), fmt.Sprintf("names inside the transaction %v, model %v", got, wantNames))
				return
			}
		case strings.HasPrefix(l, "get "):
			rest := strings.TrimPrefix(l, "get ")
			n := rest[:1]
			code := rest[2:]
			want := "-"
			if d, ok := view[n]; ok {
				want = c26Code(n, d.Src)
			}
			if code != want {
				bad(fmt.Sprintf("get-in-transaction|%s", sigPath), fmt.Sprintf("get(%s) inside the transaction returns code %q, model %q", n, code, want))
				return
			}
		}
	}

	// events of the successful transaction
	var gotEvents []string
	for _, e := range res.Events {
		f := cadence.FieldsMappedByName(e)
		gotEvents = append(gotEvents, fmt.Sprintf("%s %v %s", e.EventType.ID(), f["address"], strings.Trim(fmt.Sprint(f["contract"]), "\"")))
	}
	if !equalStrings(gotEvents, expEvents) {
		bad(fmt.Sprintf("events|%s", sigPath), fmt.Sprintf("events %v, model %v", gotEvents, expEvents))
		return
	}

	m.A[o.Acct] = view
	if anyOpen {
		cx.class("tx:ok:with-open-call", nil)
	} else {
		cx.class("tx:ok", nil)
	}
	if !cx.noObserve {
		viols = append(viols, c26Observe(cx, st, sigPath)...)
	}
	return
}

// c26Observe: what later transactions and scripts see (fresh runtime).
func c26Observe(cx *c26Ctx, st *c26State, sigPath string) (viols []viol) {
	bad := func(sig, detail string) { viols = append(viols, viol{sig, detail}) }
	m := st.M
	res := rt.Run(st.L, rt.Tx{Source: c26Observer, Script: true, UseVM: cx.vm})
	cx.eval()
	if !res.OK() {
		bad("observe|script-failed|"+res.Class, fmt.Sprintf("after %s: observer failed: %s %s: %s", sigPath, res.Class, res.Kind, res.ErrString()))
		return
	}
	var want []string
	for ai := 1; ai <= 2; ai++ {
		as := addrStr(ai)
		want = append(want, strings.TrimSpace("names "+as+" "+strings.Join(m.names(ai), " ")))
		for _, n := range c26Names {
			if d, ok := m.A[ai][n]; ok {
				want = append(want, fmt.Sprintf("get %s %s %s %s %s", as, n, n, as, c26Code(n, d.Src)))
				want = append(want, fmt.Sprintf("borrow %s %s %d", as, n, c26Sources[d.Src].v))
			} else {
				want = append(want, fmt.Sprintf("get %s %s -", as, n), fmt.Sprintf("borrow %s %s -", as, n))
			}
		}
	}
	var got []string
	for _, l := range unquoteLogs(res.Logs) {
		if strings.HasPrefix(l, "names ") {
			// the order of names is not part of the property: compare as a set
			f := strings.Fields(l)
			ns := f[2:]
			sort.Strings(ns)
			l = strings.TrimSpace("names " + f[1] + " " + strings.Join(ns, " "))
		}
		got = append(got, l)
	}
	sort.Strings(got)
	sort.Strings(want)
	if !equalStrings(got, want) {
		kind := "?"
		for i := range got {
			if i >= len(want) || got[i] != want[i] {
				kind = strings.Fields(got[i])[0]
				break
			}
		}
		bad("observe|later-view|"+kind, fmt.Sprintf("after %s: a later script sees %q, model %q", sigPath, got, want))
		return
	}
	// imports: every deployed contract can be imported and runs the deployed code on the kept value
	for ai := 1; ai <= 2; ai++ {
		names := m.names(ai)
		if len(names) == 0 {
			continue
		}
		var sb strings.Builder
		for _, n := range names {
			fmt.Fprintf(&sb, "import %s from %s\n", n, addrStr(ai))
		}
		sb.WriteString("access(all) fun main() {\n")
		for _, n := range names {
			fmt.Fprintf(&sb, "    log(\"%s \".concat(%s.v().toString()))\n    log(%s.x)\n", n, n, n)
		}
		sb.WriteString("}\n")
		r := rt.Run(st.L, rt.Tx{Source: sb.String(), Script: true, UseVM: cx.vm})
		cx.eval()
		if !r.OK() {
			bad("observe|import-failed|"+r.Class, fmt.Sprintf("after %s: importing %v from %s failed: %s %s: %s", sigPath, names, addrStr(ai), r.Class, r.Kind, r.ErrString()))
			return
		}
		var w []string
		for _, n := range names {
			d := m.A[ai][n]
			w = append(w, fmt.Sprintf("%s %d", n, c26Sources[d.Src].v), d.X)
		}
		g := r.Logs
		for i := range g {
			if i%2 == 0 {
				g[i] = unquoteLogs(g[i : i+1])[0]
			}
		}
		if !equalStrings(g, w) {
			bad("observe|imported-contract-state", fmt.Sprintf("after %s: imported contracts of %s report %v, model %v", sigPath, addrStr(ai), g, w))
			return
		}
	}
	// a missing contract cannot be imported (one probe per state)
	for ai := 1; ai <= 2; ai++ {
		for _, n := range c26Names {
			if _, ok := m.A[ai][n]; ok {
				continue
			}
			r := rt.Run(st.L, rt.Tx{Source: fmt.Sprintf("import %s from %s\naccess(all) fun main() {}\n", n, addrStr(ai)), Script: true, UseVM: cx.vm})
			cx.eval()
			if r.OK() {
				bad("observe|missing-contract-imported", fmt.Sprintf("after %s: import %s from %s succeeded, the model has no such contract", sigPath, n, addrStr(ai)))
			}
			return
		}
	}
	return
}

// c26Ops: transactions enabled in a state. singlesOnly restricts to one-call transactions.
func c26Ops(m *c26Model, thorough bool, singlesOnly bool) []string {
	var out []string
	emit := func(o c26Op) { out = append(out, o.String()) }
	for ai := 1; ai <= 2; ai++ {
		// account 2 keeps the reduced alphabet in both tiers (the per-account logic is symmetric;
		// a symmetric alphabet squares the state space)
		full := ai == 1
		names := []string{"A"}
		srcs := []string{"v1", "v2", "en"}
		if full {
			names = []string{"A", "B"}
			srcs = []string{"v1", "v2", "v3", "en", "ens", "enr", "pini", "terr", "name"}
		}
		var singles []c26Call
		for _, n := range names {
			for _, k := range []string{"add", "upd", "try"} {
				for _, s := range srcs {
					if (s == "ens" || s == "enr") && (k != "add" || n != "A") && !thorough {
						continue // quick tier: the enum-position variants are only deployed with add, on name A
					}
					singles = append(singles, c26Call{k, n, s})
				}
			}
			singles = append(singles, c26Call{"rem", n, ""})
		}
		for _, c := range singles {
			emit(c26Op{ai, "ok", []c26Call{c}})
			// "some transactions failing after the call": only worth running when the call itself goes through
			if p := c26Predict(m.A[ai], map[string]bool{}, c); p == pOK || p == pOpen {
				emit(c26Op{ai, "panic", []c26Call{c}})
			}
		}
		if singlesOnly || !full {
			continue
		}
		// two calls on the same name in one transaction
		pairNames := []string{"A"}
		if thorough {
			pairNames = names
		}
		firstSrcs := []string{"v1", "v2", "v3", "en", "terr"}
		type second struct{ k, s string }
		seconds := []second{{"add", "v2"}, {"add", "en"}, {"upd", "v2"}, {"upd", "v3"}, {"upd", "terr"}, {"try", "v2"}, {"try", "v3"}, {"try", "terr"}, {"rem", ""}}
		if thorough {
			seconds = nil
			for _, k := range []string{"add", "upd", "try"} {
				for _, s := range srcs {
					seconds = append(seconds, second{k, s})
				}
			}
			seconds = append(seconds, second{"rem", ""})
		}
		for _, n := range pairNames {
			var firsts []c26Call
			for _, k := range []string{"add", "upd", "try"} {
				for _, s := range firstSrcs {
					firsts = append(firsts, c26Call{k, n, s})
				}
			}
			firsts = append(firsts, c26Call{"rem", n, ""})
			for _, c1 := range firsts {
				// a first call that aborts the transaction makes the second one unreachable
				if p := c26Predict(m.A[ai], map[string]bool{}, c1); p == pAbort {
					continue
				}
				for _, s2 := range seconds {
					emit(c26Op{ai, "ok", []c26Call{c1, {s2.k, n, s2.s}}})
				}
				if thorough {
					emit(c26Op{ai, "panic", []c26Call{c1, {"upd", n, "v2"}}})
				}
			}
		}
	}
	return out
}

// c26Chains: (failing transaction, following one-call transaction) pairs of account 1 on the
// same name. Only generated in the reused-environment mode: with a fresh environment per
// transaction a failed transaction cannot influence the next one.
func c26Chains(m *c26Model) []string {
	var out []string
	srcs := []string{"v1", "v2", "v3", "en", "pini", "terr", "name"}
	for _, n := range c26Names {
		var singles []c26Call
		for _, k := range []string{"add", "upd", "try"} {
			for _, s := range srcs {
				singles = append(singles, c26Call{k, n, s})
			}
		}
		singles = append(singles, c26Call{"rem", n, ""})
		var failing []c26Op
		for _, c := range singles {
			switch c26Predict(m.A[1], map[string]bool{}, c) {
			case pAbort:
				failing = append(failing, c26Op{1, "ok", []c26Call{c}})
			case pOK:
				failing = append(failing, c26Op{1, "panic", []c26Call{c}})
			}
		}
		for _, f := range failing {
			for _, c := range singles {
				out = append(out, f.String()+">>"+c26Op{1, "ok", []c26Call{c}}.String())
			}
		}
	}
	return out
}

type c26Case struct {
	VM    bool     `json:"vm"`
	Reuse bool     `json:"reused_environment"`
	Path  []string `json:"path"`
	Sig   string   `json:"signature"`
}

// c26Replay runs path from the empty state; reuse = one runtime environment for the whole history.
// Only the last element gets the fresh-runtime observers unless observeAll.
func c26Replay(cx *c26Ctx, reuse bool, path []string, observeAll bool) (st *c26State, at int, viols []viol) {
	st = c26Init(cx.vm)
	if reuse {
		st.Env = rt.NewTxEnvironment(cx.vm)
	}
	for i, op := range path {
		c := *cx
		c.noObserve = !observeAll && i < len(path)-1
		if vs := c26Step(&c, st, op); len(vs) > 0 {
			return st, i, vs
		}
	}
	return st, len(path), nil
}

func runC26(env *mc.Env) {
	depth := mc.Pick(env, 3, 4)
	chainDepth := mc.Pick(env, 1, 2) // chains are generated in states up to this depth
	for _, vm := range []bool{false, true} {
		for _, reuse := range []bool{false, true} {
			cx := &c26Ctx{vm: vm, env: env}
			mc.BFS(env, mc.BFSOpts[*c26State]{
				Init:     []mc.Node[*c26State]{{State: c26Init(vm)}},
				MaxDepth: depth,
				Ops: func(n *mc.Node[*c26State]) []string {
					// the last level uses one-call transactions only
					ops := c26Ops(n.State.M, env.Thorough(), n.Depth == depth-1)
					if reuse && n.Depth <= chainDepth {
						ops = append(ops, c26Chains(n.State.M)...)
					}
					return ops
				},
				Step: func(n *mc.Node[*c26State], op string) (*c26State, bool) {
					p := append(append([]string(nil), n.Path...), op)
					var st *c26State
					var vs []viol
					if reuse {
						// the environment cannot be cloned: re-run the history in one fresh environment
						// (prefix without observers; it was observed when it was first explored)
						var at int
						st, at, vs = c26Replay(cx, true, p, false)
						if len(vs) > 0 {
							p = p[:at+1]
						}
						st.Env = nil
					} else {
						st = n.State.clone()
						vs = c26Step(cx, st, op)
					}
					if len(vs) > 0 {
						for _, v := range vs {
							env.R.Violation(v.Sig, c26Case{VM: vm, Reuse: reuse, Path: p, Sig: v.Sig}, v.Detail)
						}
						return nil, false
					}
					return st, true
				},
				Key: func(s *c26State) string { return fmt.Sprintf("vm=%v reuse=%v %s", vm, reuse, s.M.key()) },
			})
		}
	}
	if !env.Expired() {
		env.R.BoundCompleted(fmt.Sprintf("depth<=%d transactions from the empty state; fresh and reused runtime environment; interpreter and VM", depth))
	}
}

func replayC26(env *mc.Env, raw json.RawMessage) (bool, string) {
	var c c26Case
	if err := json.Unmarshal(raw, &c); err != nil {
		return false, err.Error()
	}
	cx := &c26Ctx{vm: c.VM}
	_, at, vs := c26Replay(cx, c.Reuse, c.Path, !c.Reuse)
	for _, v := range vs {
		if v.Sig == c.Sig {
			return true, fmt.Sprintf("after %v: %s", c.Path[:at+1], v.Detail)
		}
	}
	if len(vs) > 0 {
		return false, fmt.Sprintf("different complaint after %v: %s: %s", c.Path[:at+1], vs[0].Sig, vs[0].Detail)
	}
	return false, "path ran without a complaint"
}

func init() {
	mc.Register(&mc.Check{
		ID: "C26",
		Rule: "explicit-state BFS (depth 3 transactions, thorough 4; the last level uses one-call transactions only), every history run twice: with a fresh runtime environment per transaction and with ONE environment reused across the history (then also (failing transaction, next transaction) chains on the same name), over contract lifecycle transactions on 2 accounts x names {A,B} x sources {v1, compatible v2, incompatible v3, with-enum (enum first / after a struct / after a resource and an event, two enums), panicking-init, type-error, name-mismatch}: " +
			"one or two calls of add/update/tryUpdate/remove per transaction (pairs on the same name), optionally followed by a panic; each call's outcome, the transaction's own names/get view, the AccountContract* events of successful transactions, " +
			"and after every committed transaction a fresh-runtime view (names, get, borrow<&{CI}>, imports running the deployed code on the kept contract value, import of a missing contract) are compared with a per-account Go model; both engines. " +
			"non-trivial = distinct (call, deployment state) pairs that succeeded or were reported failed by tryUpdate",
		Assumptions: []string{
			"rt.Run journals code updates and discards them with a failed transaction, as the real host does",
			"account 2 has a reduced alphabet (name A, sources v1/v2/with-enum, one-call transactions); two-call transactions use name A only in the quick tier, both names and all 19 second calls in the thorough tier",
			"whether an update that changes a field type or removes a nested declaration is accepted is left to C27 (don't-care here)",
		},
		Run:    runC26,
		Replay: replayC26,
	})
}

package caps

import (
	"testing"

	"github.com/onflow/cadence/common"
	"verif/rt"
	"verif/rtx"
)

func TestProbeAddRemove(t *testing.T) {
	for _, vm := range []bool{false, true} {
		for _, noval := range []bool{false, true} {
			l := rt.NewLedger()
			src := `transaction {
    prepare(s: auth(Contracts) &Account) {
        s.contracts.add(name: "A", code: "access(all) contract A { access(all) var x: Int; init() { self.x = 1 } }".utf8)
        s.contracts.remove(name: "A")
    }
}`
			r := rt.Run(l, rt.Tx{Source: src, Signers: []common.Address{rt.Addr(1)}, UseVM: vm, NoAtreeValidation: noval})
			t.Log("vm", vm, "noval", noval, r.Class, r.Kind, r.ErrString())
			t.Log("registers", l.NonEmptyRegisters(), "health:", rtx.Health(l))
			t.Log(rtx.Dump(l))
		}
	}
}

package pure

import (
	"encoding/json"
	"errors"
	"fmt"
	"sort"
	"strconv"
	"strings"
	"sync"

	"github.com/onflow/cadence/common/bimap"
	"github.com/onflow/cadence/common/list"
	"github.com/onflow/cadence/common/orderedmap"
	"github.com/onflow/cadence/common/persistent"

	"verif/mc"
)

// C51 — internal ordered collections behave like their models.
//
// Explicit-state search over operation sequences. A state is the operation
// path; the real object is rebuilt by replaying the path on a fresh instance
// (the structures cannot be cloned from outside), the reference model is a
// slice. After every step *all* observers are called and compared with the
// model. States are merged when the model state (which determines every
// observer's answer) is equal.
//
// A case (for replay) is: structure, path, and the observer that disagreed.

type collCase struct {
	Struct string   `json:"struct"`
	Init   string   `json:"init,omitempty"`
	Path   []string `json:"path"`
	Query  string   `json:"query"`
}

// stepper rebuilds a real structure from a path and compares every observer with the model.
// It returns the model's canonical state and the list of disagreements (query -> detail).
type disagreement struct {
	query  string // observer name (call site)
	class  string // structural class of the state/input
	kind   string
	detail string
}

type collRun struct {
	key   string // canonical model state
	diffs []disagreement
	evals int // observer calls compared
}

type collKind struct {
	name  string
	inits []string
	ops   func(init string, path []string) []string
	run   func(init string, path []string) collRun
	depth func(env *mc.Env) int
}

func atoi(s string) int {
	n, err := strconv.Atoi(s)
	if err != nil {
		panic(err)
	}
	return n
}

func guardCall(name string, diffs *[]disagreement, class string, f func()) {
	defer func() {
		if p := recover(); p != nil {
			*diffs = append(*diffs, disagreement{name, class, "panic", fmt.Sprintf("%v", p)})
		}
	}()
	f()
}

// ---------------------------------------------------------------------------
// orderedmap

type kv struct{ k, v int }

type omModel struct{ items []kv }

func (m *omModel) find(k int) int {
	for i, it := range m.items {
		if it.k == k {
			return i
		}
	}
	return -1
}
func (m *omModel) set(k, v int) (int, bool) {
	if i := m.find(k); i >= 0 {
		old := m.items[i].v
		m.items[i].v = v
		return old, true
	}
	m.items = append(m.items, kv{k, v})
	return 0, false
}
func (m *omModel) del(k int) (int, bool) {
	if i := m.find(k); i >= 0 {
		old := m.items[i].v
		m.items = append(m.items[:i:i], m.items[i+1:]...)
		return old, true
	}
	return 0, false
}
func (m *omModel) String() string { return fmt.Sprint(m.items) }

var omOthers = map[string][]kv{
	"empty": {},
	"b":     {{2, 20}},
	"c":     {{1, 21}, {0, 22}},
}

func buildOM(items []kv) *orderedmap.OrderedMap[int, int] {
	om := orderedmap.New[orderedmap.OrderedMap[int, int]](0)
	for _, it := range items {
		om.Set(it.k, it.v)
	}
	return om
}

func omOps(init string, path []string) []string {
	ops := []string{"Clear", "SetAll:empty", "SetAll:b", "SetAll:c", "SetAll:nil"}
	for k := 0; k < 3; k++ {
		ops = append(ops, fmt.Sprintf("Set:%d:10", k), fmt.Sprintf("Set:%d:11", k), fmt.Sprintf("Delete:%d", k))
	}
	return ops
}

func omClass(m *omModel, everSet bool, init string) string {
	c := "len" + strconv.Itoa(len(m.items))
	if len(m.items) == 0 {
		if init == "zero" && !everSet {
			c = "empty-uninitialized"
		} else {
			c = "empty"
		}
	}
	return c
}

func runOM(init string, path []string) (res collRun) {
	var om *orderedmap.OrderedMap[int, int]
	if init == "zero" {
		om = &orderedmap.OrderedMap[int, int]{}
	} else {
		om = orderedmap.New[orderedmap.OrderedMap[int, int]](0)
	}
	m := &omModel{}
	everSet := false
	bad := func(q, kind, detail string) {
		res.diffs = append(res.diffs, disagreement{q, omClass(m, everSet, init), kind, detail})
	}
	for i, op := range path {
		f := strings.Split(op, ":")
		last := i == len(path)-1
		guardCall("orderedmap."+f[0], &res.diffs, omClass(m, everSet, init), func() {
			switch f[0] {
			case "Set":
				k, v := atoi(f[1]), atoi(f[2])
				old, present := om.Set(k, v)
				wOld, wPresent := m.set(k, v)
				everSet = true
				if last {
					res.evals++
					if old != wOld || present != wPresent {
						bad("orderedmap.Set", "wrong-return", fmt.Sprintf("Set(%d,%d) returned (%d,%v), model (%d,%v)", k, v, old, present, wOld, wPresent))
					}
				}
			case "Delete":
				k := atoi(f[1])
				old, present := om.Delete(k)
				wOld, wPresent := m.del(k)
				if last {
					res.evals++
					if old != wOld || present != wPresent {
						bad("orderedmap.Delete", "wrong-return", fmt.Sprintf("Delete(%d) returned (%d,%v), model (%d,%v)", k, old, present, wOld, wPresent))
					}
				}
			case "Clear":
				om.Clear()
				m.items = nil
			case "SetAll":
				if f[1] == "nil" {
					om.SetAll(nil)
				} else {
					om.SetAll(buildOM(omOthers[f[1]]))
					for _, it := range omOthers[f[1]] {
						m.set(it.k, it.v)
						everSet = true
					}
				}
			}
		})
	}
	res.key = init + "|" + strconv.FormatBool(everSet) + "|" + m.String()
	if len(res.diffs) > 0 {
		return res
	}
	class := omClass(m, everSet, init)
	cmp := func(q string, got, want any) {
		res.evals++
		if fmt.Sprint(got) != fmt.Sprint(want) {
			res.diffs = append(res.diffs, disagreement{q, class, "wrong-result", fmt.Sprintf("got %v, model says %v (model state %v)", got, want, m.items)})
		}
	}
	obs := func(q string, f func()) { guardCall(q, &res.diffs, class, f) }
	for k := 0; k < 4; k++ {
		k := k
		idx := m.find(k)
		obs("orderedmap.Get", func() {
			v, ok := om.Get(k)
			if idx >= 0 {
				cmp("orderedmap.Get", []any{v, ok}, []any{m.items[idx].v, true})
			} else {
				cmp("orderedmap.Get", []any{v, ok}, []any{0, false})
			}
		})
		obs("orderedmap.Contains", func() { cmp("orderedmap.Contains", om.Contains(k), idx >= 0) })
		obs("orderedmap.GetPair", func() {
			p := om.GetPair(k)
			if idx >= 0 {
				if p == nil {
					cmp("orderedmap.GetPair", "nil", m.items[idx])
				} else {
					cmp("orderedmap.GetPair", kv{p.Key, p.Value}, m.items[idx])
				}
			} else {
				cmp("orderedmap.GetPair", p == nil, true)
			}
		})
	}
	obs("orderedmap.Len", func() { cmp("orderedmap.Len", om.Len(), len(m.items)) })
	want := append([]kv{}, m.items...)
	obs("orderedmap.Foreach", func() {
		got := []kv{}
		om.Foreach(func(k, v int) { got = append(got, kv{k, v}) })
		cmp("orderedmap.Foreach", got, want)
	})
	obs("orderedmap.ForeachWithIndex", func() {
		got := []kv{}
		okIdx := true
		om.ForeachWithIndex(func(i, k, v int) {
			if i != len(got) {
				okIdx = false
			}
			got = append(got, kv{k, v})
		})
		cmp("orderedmap.ForeachWithIndex", []any{got, okIdx}, []any{want, true})
	})
	for stop := 0; stop <= len(m.items); stop++ {
		stop := stop
		obs("orderedmap.ForeachWithError", func() {
			got := []kv{}
			sentinel := errors.New("stop")
			err := om.ForeachWithError(func(k, v int) error {
				if len(got) == stop {
					return sentinel
				}
				got = append(got, kv{k, v})
				return nil
			})
			wantErr := stop < len(m.items)
			cmp("orderedmap.ForeachWithError", []any{got, err == sentinel, err == nil}, []any{want[:stop], wantErr, !wantErr})
		})
	}
	obs("orderedmap.Oldest/Next", func() {
		got := []kv{}
		for p := om.Oldest(); p != nil; p = p.Next() {
			got = append(got, kv{p.Key, p.Value})
			if len(got) > 10 {
				break
			}
		}
		cmp("orderedmap.Oldest/Next", got, want)
	})
	obs("orderedmap.Newest/Prev", func() {
		got := []kv{}
		for p := om.Newest(); p != nil; p = p.Prev() {
			got = append(got, kv{p.Key, p.Value})
			if len(got) > 10 {
				break
			}
		}
		rev := []kv{}
		for i := len(want) - 1; i >= 0; i-- {
			rev = append(rev, want[i])
		}
		cmp("orderedmap.Newest/Prev", got, rev)
	})
	preds := map[string]func(int) bool{
		"lt1":   func(k int) bool { return k < 1 },
		"lt2":   func(k int) bool { return k < 2 },
		"true":  func(int) bool { return true },
		"false": func(int) bool { return false },
	}
	for _, pn := range []string{"lt1", "lt2", "true", "false"} {
		p := preds[pn]
		all, anyK := true, false
		for _, it := range m.items {
			all = all && p(it.k)
			anyK = anyK || p(it.k)
		}
		obs("orderedmap.ForAllKeys", func() { cmp("orderedmap.ForAllKeys", om.ForAllKeys(p), all) })
		obs("orderedmap.ForAnyKey", func() { cmp("orderedmap.ForAnyKey", om.ForAnyKey(p), anyK) })
	}
	for _, on := range []string{"empty", "b", "c"} {
		other := omOthers[on]
		inOther := func(k int) bool {
			for _, it := range other {
				if it.k == k {
					return true
				}
			}
			return false
		}
		disjoint := true
		inter := []kv{}
		union := &omModel{items: append([]kv{}, m.items...)}
		for _, it := range m.items {
			if inOther(it.k) {
				disjoint = false
				inter = append(inter, it)
			}
		}
		for _, it := range other {
			union.set(it.k, it.v)
		}
		dump := func(o *orderedmap.OrderedMap[int, int]) []kv {
			got := []kv{}
			o.Foreach(func(k, v int) { got = append(got, kv{k, v}) })
			return got
		}
		obs("orderedmap.KeySetIsDisjointFrom", func() {
			cmp("orderedmap.KeySetIsDisjointFrom", om.KeySetIsDisjointFrom(buildOM(other)), disjoint)
		})
		obs("orderedmap.KeySetIntersection", func() {
			cmp("orderedmap.KeySetIntersection", dump(orderedmap.KeySetIntersection(om, buildOM(other))), inter)
		})
		obs("orderedmap.KeySetUnion", func() {
			cmp("orderedmap.KeySetUnion", dump(orderedmap.KeySetUnion(om, buildOM(other))), union.items)
		})
	}
	return res
}

// ---------------------------------------------------------------------------
// persistent ordered set: a tree of sets; only sets without children are mutated
// (mutating a parent that already has clones is outside what "persistent" promises).

type psModel struct {
	parent []int
	own    [][]int
}

func (m *psModel) contains(s, x int) bool {
	for ; s >= 0; s = m.parent[s] {
		for _, y := range m.own[s] {
			if y == x {
				return true
			}
		}
	}
	return false
}
func (m *psModel) hasChild(s int) bool {
	for _, p := range m.parent {
		if p == s {
			return true
		}
	}
	return false
}
func (m *psModel) add(s, x int) {
	if !m.contains(s, x) {
		m.own[s] = append(m.own[s], x)
	}
}
func (m *psModel) all(s int) []int {
	var out []int
	for ; s >= 0; s = m.parent[s] {
		out = append(out, m.own[s]...)
	}
	return out
}
func (m *psModel) String() string { return fmt.Sprint(m.parent, m.own) }

func psReplay(path []string) (*psModel, []*persistent.OrderedSet[int], []disagreement) {
	m := &psModel{parent: []int{-1}, own: [][]int{nil}}
	sets := []*persistent.OrderedSet[int]{persistent.NewOrderedSet[int](nil)}
	var diffs []disagreement
	for _, op := range path {
		f := strings.Split(op, ":")
		guardCall("persistent."+f[0], &diffs, "sets"+strconv.Itoa(len(sets)), func() {
			switch f[0] {
			case "Add":
				s, x := atoi(f[1]), atoi(f[2])
				sets[s].Add(x)
				m.add(s, x)
			case "Clone":
				s := atoi(f[1])
				sets = append(sets, sets[s].Clone())
				m.parent = append(m.parent, s)
				m.own = append(m.own, nil)
			case "AddIntersection":
				s, a, b := atoi(f[1]), atoi(f[2]), atoi(f[3])
				sets[s].AddIntersection(sets[a], sets[b])
				for _, x := range m.all(a) {
					if m.contains(b, x) {
						m.add(s, x)
					}
				}
			}
		})
	}
	return m, sets, diffs
}

func psOps(init string, path []string) []string {
	m, _, _ := psReplay(path)
	var ops []string
	n := len(m.parent)
	for s := 0; s < n; s++ {
		if n < 4 {
			ops = append(ops, fmt.Sprintf("Clone:%d", s))
		}
		if m.hasChild(s) {
			continue
		}
		for x := 0; x < 3; x++ {
			ops = append(ops, fmt.Sprintf("Add:%d:%d", s, x))
		}
		for a := 0; a < n; a++ {
			for b := 0; b < n; b++ {
				if a != b {
					ops = append(ops, fmt.Sprintf("AddIntersection:%d:%d:%d", s, a, b))
				}
			}
		}
	}
	return ops
}

func runPS(init string, path []string) (res collRun) {
	m, sets, diffs := psReplay(path)
	res.diffs = diffs
	res.key = m.String()
	if len(diffs) > 0 {
		return res
	}
	for s := range sets {
		s := s
		depth := 0
		for p := m.parent[s]; p >= 0; p = m.parent[p] {
			depth++
		}
		class := fmt.Sprintf("depth%d", depth)
		cmp := func(q string, got, want any) {
			res.evals++
			if fmt.Sprint(got) != fmt.Sprint(want) {
				res.diffs = append(res.diffs, disagreement{q, class, "wrong-result", fmt.Sprintf("set %d: got %v, model says %v (model parents/own %v)", s, got, want, m)})
			}
		}
		for x := 0; x < 4; x++ {
			x := x
			guardCall("persistent.Contains", &res.diffs, class, func() { cmp("persistent.Contains", sets[s].Contains(x), m.contains(s, x)) })
		}
		want := m.all(s)
		guardCall("persistent.IsEmpty", &res.diffs, class, func() { cmp("persistent.IsEmpty", sets[s].IsEmpty(), len(want) == 0) })
		guardCall("persistent.ForEach", &res.diffs, class, func() {
			var got []int
			err := sets[s].ForEach(func(x int) error { got = append(got, x); return nil })
			// every member exactly once
			gs, ws := append([]int{}, got...), append([]int{}, want...)
			sort.Ints(gs)
			sort.Ints(ws)
			cmp("persistent.ForEach", []any{gs, err}, []any{ws, nil})
			// insertion order among the items added to one and the same set (the order across a set and
			// its parent is not promised anywhere: not judged)
			for lvl := s; lvl >= 0; lvl = m.parent[lvl] {
				var sub []int
				for _, x := range got {
					for _, y := range m.own[lvl] {
						if x == y {
							sub = append(sub, x)
						}
					}
				}
				cmp("persistent.ForEach", sub, m.own[lvl])
			}
		})
		for stop := 0; stop < len(want); stop++ {
			stop := stop
			guardCall("persistent.ForEach", &res.diffs, class, func() {
				n := 0
				sentinel := errors.New("stop")
				err := sets[s].ForEach(func(int) error {
					if n == stop {
						return sentinel
					}
					n++
					return nil
				})
				cmp("persistent.ForEach", []any{n, err == sentinel}, []any{stop, true})
			})
		}
	}
	return res
}

// ---------------------------------------------------------------------------
// bimap

type bmModel struct{ pairs []kv }

func (m *bmModel) insert(k, v int) {
	out := m.pairs[:0:0]
	for _, p := range m.pairs {
		if p.k != k && p.v != v {
			out = append(out, p)
		}
	}
	m.pairs = append(out, kv{k, v})
}
func (m *bmModel) canon() string {
	c := append([]kv{}, m.pairs...)
	sort.Slice(c, func(i, j int) bool { return c[i].k < c[j].k })
	return fmt.Sprint(c)
}

func bmOps(string, []string) []string {
	var ops []string
	for a := 0; a < 3; a++ {
		ops = append(ops, fmt.Sprintf("Delete:%d", a), fmt.Sprintf("DeleteInverse:%d", a))
		for b := 0; b < 3; b++ {
			ops = append(ops, fmt.Sprintf("Insert:%d:%d", a, b))
		}
	}
	return ops
}

func runBM(init string, path []string) (res collRun) {
	bm := bimap.NewBiMap[int, int]()
	m := &bmModel{}
	for _, op := range path {
		f := strings.Split(op, ":")
		guardCall("bimap."+f[0], &res.diffs, "size"+strconv.Itoa(len(m.pairs)), func() {
			switch f[0] {
			case "Insert":
				bm.Insert(atoi(f[1]), atoi(f[2]))
				m.insert(atoi(f[1]), atoi(f[2]))
			case "Delete":
				bm.Delete(atoi(f[1]))
				out := m.pairs[:0:0]
				for _, p := range m.pairs {
					if p.k != atoi(f[1]) {
						out = append(out, p)
					}
				}
				m.pairs = out
			case "DeleteInverse":
				bm.DeleteInverse(atoi(f[1]))
				out := m.pairs[:0:0]
				for _, p := range m.pairs {
					if p.v != atoi(f[1]) {
						out = append(out, p)
					}
				}
				m.pairs = out
			}
		})
	}
	res.key = m.canon()
	if len(res.diffs) > 0 {
		return res
	}
	class := "size" + strconv.Itoa(len(m.pairs))
	cmp := func(q string, got, want any) {
		res.evals++
		if fmt.Sprint(got) != fmt.Sprint(want) {
			res.diffs = append(res.diffs, disagreement{q, class, "wrong-result", fmt.Sprintf("got %v, model says %v (model %v)", got, want, m.pairs)})
		}
	}
	for x := 0; x < 4; x++ {
		x := x
		fw, bw := []any{0, false}, []any{0, false}
		for _, p := range m.pairs {
			if p.k == x {
				fw = []any{p.v, true}
			}
			if p.v == x {
				bw = []any{p.k, true}
			}
		}
		guardCall("bimap.Get", &res.diffs, class, func() { v, ok := bm.Get(x); cmp("bimap.Get", []any{v, ok}, fw) })
		guardCall("bimap.GetInverse", &res.diffs, class, func() { v, ok := bm.GetInverse(x); cmp("bimap.GetInverse", []any{v, ok}, bw) })
		guardCall("bimap.Exists", &res.diffs, class, func() { cmp("bimap.Exists", bm.Exists(x), fw[1]) })
		guardCall("bimap.ExistsInverse", &res.diffs, class, func() { cmp("bimap.ExistsInverse", bm.ExistsInverse(x), bw[1]) })
	}
	guardCall("bimap.Size", &res.diffs, class, func() { cmp("bimap.Size", bm.Size(), len(m.pairs)) })
	return res
}

// ---------------------------------------------------------------------------
// list: handles are creation indices; handle 9 is an element of another list.

const listMaxElems = 4

type liModel struct {
	order   []int // live handles in list order
	created int
}

func (m *liModel) pos(h int) int {
	for i, x := range m.order {
		if x == h {
			return i
		}
	}
	return -1
}
func (m *liModel) remove(h int) {
	if i := m.pos(h); i >= 0 {
		m.order = append(m.order[:i:i], m.order[i+1:]...)
	}
}
func (m *liModel) insertAt(i, h int) {
	m.order = append(m.order[:i:i], append([]int{h}, m.order[i:]...)...)
}

func liReplay(path []string) (*liModel, *list.List[int], []*list.Element[int], []disagreement) {
	m := &liModel{}
	l := list.New[int]()
	otherList := list.New[int]()
	foreign := otherList.PushBack(99)
	var hs []*list.Element[int]
	var diffs []disagreement
	handle := func(s string) (*list.Element[int], int) {
		h := atoi(s)
		if h == 9 {
			return foreign, 9
		}
		return hs[h], h
	}
	for i, op := range path {
		last := i == len(path)-1
		f := strings.Split(op, ":")
		class := "len" + strconv.Itoa(len(m.order))
		check := func(q string, got, want any) {
			if last && fmt.Sprint(got) != fmt.Sprint(want) {
				diffs = append(diffs, disagreement{q, class, "wrong-return", fmt.Sprintf("got %v, model says %v", got, want)})
			}
		}
		guardCall("list."+f[0], &diffs, class, func() {
			switch f[0] {
			case "PushBack":
				hs = append(hs, l.PushBack(m.created))
				m.order = append(m.order, m.created)
				m.created++
			case "PushFront":
				hs = append(hs, l.PushFront(m.created))
				m.insertAt(0, m.created)
				m.created++
			case "InsertBefore", "InsertAfter":
				mark, h := handle(f[1])
				var e *list.Element[int]
				if f[0] == "InsertBefore" {
					e = l.InsertBefore(m.created, mark)
				} else {
					e = l.InsertAfter(m.created, mark)
				}
				p := m.pos(h)
				check("list."+f[0], e == nil, p < 0)
				// the handle table always grows so that handle numbers stay aligned with the model
				hs = append(hs, e)
				if p >= 0 {
					if f[0] == "InsertAfter" {
						p++
					}
					m.insertAt(p, m.created)
				}
				m.created++
			case "Remove":
				e, h := handle(f[1])
				v := l.Remove(e)
				want := h
				if h == 9 {
					want = 99
				}
				check("list.Remove", v, want)
				m.remove(h)
			case "MoveToFront", "MoveToBack":
				e, h := handle(f[1])
				if f[0] == "MoveToFront" {
					l.MoveToFront(e)
				} else {
					l.MoveToBack(e)
				}
				if m.pos(h) >= 0 {
					m.remove(h)
					if f[0] == "MoveToFront" {
						m.insertAt(0, h)
					} else {
						m.order = append(m.order, h)
					}
				}
			case "MoveBefore", "MoveAfter":
				e, h := handle(f[1])
				mark, hm := handle(f[2])
				if f[0] == "MoveBefore" {
					l.MoveBefore(e, mark)
				} else {
					l.MoveAfter(e, mark)
				}
				if m.pos(h) >= 0 && m.pos(hm) >= 0 && h != hm {
					m.remove(h)
					p := m.pos(hm)
					if f[0] == "MoveAfter" {
						p++
					}
					m.insertAt(p, h)
				}
			case "PushBackList", "PushFrontList":
				// a copy of the list itself: new elements carry the same values, and get no handles
				if f[0] == "PushBackList" {
					l.PushBackList(l)
				} else {
					l.PushFrontList(l)
				}
				cp := append([]int{}, m.order...)
				for i := range cp {
					cp[i] += 100 // model ids of the anonymous copies: value = id % 100
				}
				if f[0] == "PushBackList" {
					m.order = append(m.order, cp...)
				} else {
					m.order = append(cp, m.order...)
				}
			case "Init":
				l.Init()
				m.order = nil
				// Init leaves the old elements dangling (as container/list does); using them
				// afterwards is outside the contract, so their handles are retired
				for i := range hs {
					hs[i] = nil
				}
			}
		})
	}
	return m, l, hs, diffs
}

func liOps(init string, path []string) []string {
	m, _, hs, _ := liReplay(path)
	var ops []string
	if m.created < listMaxElems {
		ops = append(ops, "PushBack", "PushFront")
	}
	handles := []int{}
	for h := range hs {
		if hs[h] != nil {
			handles = append(handles, h)
		}
	}
	handles = append(handles, 9)
	for _, h := range handles {
		if m.created < listMaxElems {
			ops = append(ops, fmt.Sprintf("InsertBefore:%d", h), fmt.Sprintf("InsertAfter:%d", h))
		}
		ops = append(ops, fmt.Sprintf("Remove:%d", h), fmt.Sprintf("MoveToFront:%d", h), fmt.Sprintf("MoveToBack:%d", h))
		for _, g := range handles {
			ops = append(ops, fmt.Sprintf("MoveBefore:%d:%d", h, g), fmt.Sprintf("MoveAfter:%d:%d", h, g))
		}
	}
	if len(m.order) > 0 && len(m.order) <= 3 {
		ops = append(ops, "PushBackList", "PushFrontList")
	}
	ops = append(ops, "Init")
	return ops
}

func runLI(init string, path []string) (res collRun) {
	m, l, hs, diffs := liReplay(path)
	res.diffs = diffs
	// which handles exist matters for the enabled operations, so it is part of the state
	nilHandles := ""
	for _, h := range hs {
		if h == nil {
			nilHandles += "n"
		} else {
			nilHandles += "e"
		}
	}
	res.key = fmt.Sprint(m.order, m.created, nilHandles)
	if len(diffs) > 0 {
		return res
	}
	class := "len" + strconv.Itoa(len(m.order))
	cmp := func(q string, got, want any) {
		res.evals++
		if fmt.Sprint(got) != fmt.Sprint(want) {
			res.diffs = append(res.diffs, disagreement{q, class, "wrong-result", fmt.Sprintf("got %v, model says %v (model order %v)", got, want, m.order)})
		}
	}
	vals := func(ids []int) []int {
		out := make([]int, len(ids))
		for i, x := range ids {
			out[i] = x % 100
		}
		return out
	}
	guardCall("list.Len", &res.diffs, class, func() { cmp("list.Len", l.Len(), len(m.order)) })
	guardCall("list.Front/Next", &res.diffs, class, func() {
		got := []int{}
		for e := l.Front(); e != nil && len(got) < 40; e = e.Next() {
			got = append(got, e.Value)
		}
		cmp("list.Front/Next", got, vals(m.order))
	})
	guardCall("list.Back/Prev", &res.diffs, class, func() {
		got := []int{}
		for e := l.Back(); e != nil && len(got) < 40; e = e.Prev() {
			got = append(got, e.Value)
		}
		w := vals(m.order)
		for i, j := 0, len(w)-1; i < j; i, j = i+1, j-1 {
			w[i], w[j] = w[j], w[i]
		}
		cmp("list.Back/Prev", got, w)
	})
	for h, e := range hs {
		if e == nil {
			continue
		}
		h, e := h, e
		guardCall("list.Element.Next/Prev", &res.diffs, class, func() {
			p := m.pos(h)
			next, prev := "nil", "nil"
			if p >= 0 && p+1 < len(m.order) {
				next = strconv.Itoa(m.order[p+1] % 100)
			}
			if p > 0 {
				prev = strconv.Itoa(m.order[p-1] % 100)
			}
			g := func(x *list.Element[int]) string {
				if x == nil {
					return "nil"
				}
				return strconv.Itoa(x.Value)
			}
			cmp("list.Element.Next/Prev", []string{g(e.Next()), g(e.Prev())}, []string{next, prev})
		})
	}
	return res
}

// ---------------------------------------------------------------------------

var collKinds = []*collKind{
	{name: "orderedmap", inits: []string{"new", "zero"}, ops: omOps, run: runOM, depth: func(env *mc.Env) int { return mc.Pick(env, 6, 8) }},
	{name: "persistent", inits: []string{""}, ops: psOps, run: runPS, depth: func(env *mc.Env) int { return mc.Pick(env, 5, 6) }},
	{name: "bimap", inits: []string{""}, ops: bmOps, run: runBM, depth: func(env *mc.Env) int { return mc.Pick(env, 6, 8) }},
	{name: "list", inits: []string{""}, ops: liOps, run: runLI, depth: func(env *mc.Env) int { return mc.Pick(env, 5, 6) }},
}

func kindByName(n string) *collKind {
	for _, k := range collKinds {
		if k.name == n {
			return k
		}
	}
	return nil
}

type collState struct {
	init string
	path []string
	key  string
}

func reportDiffs(env *mc.Env, k *collKind, init string, path []string, diffs []disagreement) {
	for _, d := range diffs {
		env.R.Violation(fmt.Sprintf("%s|%s|%s", d.query, d.class, d.kind),
			collCase{Struct: k.name, Init: init, Path: path, Query: d.query},
			fmt.Sprintf("%s (%s) after %v: %s", d.query, init, path, d.detail))
	}
}

func runCollKind(env *mc.Env, k *collKind) {
	var inits []mc.Node[collState]
	for _, in := range k.inits {
		r := k.run(in, nil)
		env.R.EvalN(int64(r.evals))
		reportDiffs(env, k, in, nil, r.diffs)
		inits = append(inits, mc.Node[collState]{State: collState{init: in, key: r.key}})
	}
	var mu sync.Mutex
	classes := map[string]int64{}
	mc.BFS(env, mc.BFSOpts[collState]{
		Init:     inits,
		MaxDepth: k.depth(env),
		Ops:      func(n *mc.Node[collState]) []string { return k.ops(n.State.init, n.State.path) },
		Step: func(n *mc.Node[collState], op string) (collState, bool) {
			path := append(append([]string{}, n.State.path...), op)
			r := k.run(n.State.init, path)
			env.R.EvalN(int64(r.evals))
			if len(r.diffs) > 0 {
				reportDiffs(env, k, n.State.init, path, r.diffs)
				return collState{}, false
			}
			opName := op
			if i := strings.IndexByte(op, ':'); i >= 0 {
				opName = op[:i]
			}
			mu.Lock()
			classes[k.name+"."+opName]++
			mu.Unlock()
			if r.key != n.State.key {
				env.R.Nontrivial(k.name + "|" + n.State.key + "|" + op) // the operation changed the state
			}
			return collState{init: n.State.init, path: path, key: r.key}, true
		},
		Key:       func(s collState) string { return k.name + "|" + s.key },
		MaxStates: 400000,
	})
	names := make([]string, 0, len(classes))
	for c := range classes {
		names = append(names, c)
	}
	sort.Strings(names)
	for _, c := range names {
		cc := c
		env.R.Class(cc, func() any { return cc + " transitions executed and all observers compared" })
		env.R.ClassN(cc, classes[c]-1)
	}
}

func runC51(env *mc.Env) {
	var wg sync.WaitGroup
	wg.Add(1)
	go func() {
		defer wg.Done()
		defer func() {
			if p := recover(); p != nil {
				env.R.HarnessError("interval tree search panicked: %v", p)
			}
		}()
		runIntervalTrees(env)
	}()
	for _, k := range collKinds {
		runCollKind(env, k)
	}
	wg.Wait()
	// BFS records the bound of the last structure; state the whole bound explicitly
	env.R.BoundCompleted(fmt.Sprintf("orderedmap depth %d, persistent set depth %d, bimap depth %d, list depth %d, interval tree %d puts",
		collKinds[0].depth(env), collKinds[1].depth(env), collKinds[2].depth(env), collKinds[3].depth(env), mc.Pick(env, 4, 5)))
}

func replayC51(env *mc.Env, raw json.RawMessage) (bool, string) {
	var c collCase
	if err := json.Unmarshal(raw, &c); err != nil {
		return false, err.Error()
	}
	if c.Struct == "intervalst" {
		return replayIntervalTree(c)
	}
	k := kindByName(c.Struct)
	if k == nil {
		return false, "unknown structure " + c.Struct
	}
	r := k.run(c.Init, c.Path)
	for _, d := range r.diffs {
		if d.query == c.Query {
			return true, fmt.Sprintf("%s after %v: %s", d.query, c.Path, d.detail)
		}
	}
	return false, fmt.Sprintf("%s after %v: model and implementation agree", c.Query, c.Path)
}

func init() {
	mc.Register(&mc.Check{
		ID:   "C51",
		Rule: "explicit-state search (BFS, states merged by model state) over operation sequences of the real structures, each rebuilt by replaying the path on a fresh instance, all observers compared with slice models after every step: orderedmap (keys 0..2; Set/Delete/Clear/SetAll from a New and from a zero-value map; Get, Contains, GetPair, Len, Foreach*, Oldest/Next, Newest/Prev, ForAllKeys/ForAnyKey, KeySet*), persistent ordered set (a tree of <= 4 sets; Add/AddIntersection on sets without clones, Clone of any set; Contains, IsEmpty, ForEach with early stop), bimap (3x3; Insert/Delete/DeleteInverse), list (<= 4 created elements, stale and foreign handles; every mutator), interval tree (every Put sequence of <= 4 of the 10 intervals over positions 0..3; math/rand seeded per Put, seeds searched until every outcome of the randomized insertion along the search path was seen; Search/SearchAll at 6 positions, SearchInterval/Get/Contains for 12 intervals, Values). non-trivial = distinct (state, operation) pair that changed the model state",
		Assumptions: []string{
			"the slice/map models in c51_collections.go and c51_intervalst.go are right",
			"math/rand's seeded global source is the only way to steer intervalst's randomized insertion without editing the repository; completeness of the explored insertion outcomes is counted (expected = nodes on the search path + 1), not assumed",
			"mutating a persistent set that already has clones, and the iteration order between a set's own items and its parent's, are not promised and not judged",
		},
		Run:    runC51,
		Replay: replayC51,
	})
}

package pure

import (
	"encoding/hex"
	"encoding/json"
	"fmt"
	"sort"
	"strings"
	"sync"

	"github.com/onflow/cadence"
	"github.com/onflow/cadence/stdlib/rlp"

	"verif/mc"
	"verif/rt"
)

// C46 — RLP decoding accepts exactly canonical encodings and never crashes.
//
// Real code: stdlib/rlp.DecodeString / DecodeList (called directly, with the
// wrapper's "bytesRead == len(input)" rule applied by the harness) and the
// Cadence functions RLP.decodeString / RLP.decodeList in both engines.
// Oracle: refJudge below, an independent strict decoder written from the RLP
// definition (it shares no code with the implementation and does all length
// arithmetic in uint64 against "bytes remaining").

// ---------------------------------------------------------------------------
// Reference

// refHeader reads one item header at the start of b.
// why == "" : canonical header, hdr bytes long, announcing size payload bytes
// (the payload may still lie beyond the input).
func refHeader(b []byte) (isList bool, hdr int, size uint64, why string) {
	if len(b) == 0 {
		return false, 0, 0, "empty"
	}
	f := b[0]
	switch {
	case f < 0x80:
		return false, 0, 1, "" // the byte is its own payload
	case f <= 0xb7:
		return false, 1, uint64(f - 0x80), ""
	case f <= 0xbf:
		isList = false
	case f <= 0xf7:
		return true, 1, uint64(f - 0xc0), ""
	default:
		isList = true
	}
	var ll int
	if isList {
		ll = int(f - 0xf7)
	} else {
		ll = int(f - 0xb7)
	}
	if len(b) < 1+ll {
		return isList, 0, 0, "truncated-length"
	}
	if b[1] == 0 {
		return isList, 0, 0, "noncanonical-leading-zero"
	}
	for _, x := range b[1 : 1+ll] {
		size = size<<8 | uint64(x)
	}
	if size < 56 {
		return isList, 0, 0, "noncanonical-short-as-long"
	}
	return isList, 1 + ll, size, ""
}

// refHeaderLenient reads the announced size of a long-form header without judging canonicity
// (used only to build inputs).
func refHeaderLenient(b []byte) (isList bool, hdr int, size uint64, ok bool) {
	for _, x := range b[1:] {
		size = size<<8 | uint64(x)
	}
	return b[0] >= 0xc0, len(b), size, true
}

// refExtent is refHeader plus "the payload lies inside b"; total = bytes of the item.
func refExtent(b []byte) (isList bool, hdr int, total int, why string) {
	isList, hdr, size, why := refHeader(b)
	if why != "" {
		return isList, 0, 0, why
	}
	if size > uint64(len(b)-hdr) {
		return isList, 0, 0, "beyond-input"
	}
	return isList, hdr, hdr + int(size), ""
}

// refSplit tiles a list payload into items using canonical headers only.
func refSplit(payload []byte) (items [][]byte, why string) {
	items = [][]byte{}
	for len(payload) > 0 {
		_, _, total, w := refExtent(payload)
		if w != "" {
			return nil, itemWhy(w)
		}
		items = append(items, payload[:total])
		payload = payload[total:]
	}
	return items, ""
}

func itemWhy(w string) string {
	switch w {
	case "truncated-length":
		return "item-truncated-length"
	case "noncanonical-leading-zero":
		return "item-noncanonical-leading-zero"
	case "noncanonical-short-as-long":
		return "item-noncanonical-short-as-long"
	case "beyond-input":
		return "item-beyond-input"
	}
	return "item-" + w
}

// refDeep says whether enc is exactly one canonical item, recursively.
func refDeep(enc []byte) bool {
	isList, hdr, total, why := refExtent(enc)
	if why != "" || total != len(enc) {
		return false
	}
	if !isList {
		if hdr == 1 && total == 2 && enc[1] < 0x80 {
			return false // single byte below 0x80 must be encoded as itself
		}
		return true
	}
	items, w := refSplit(enc[hdr:])
	if w != "" {
		return false
	}
	for _, it := range items {
		if !refDeep(it) {
			return false
		}
	}
	return true
}

type expectation struct {
	accept   bool
	dontCare bool     // the property sentence does not settle this input (see below)
	why      string   // reason of rejection / don't care
	payload  []byte   // decodeString
	items    [][]byte // decodeList
}

// refJudge is the property: "return the payload (respectively the encoded
// items) for every canonical RLP encoding with no trailing bytes … fail with
// a user error for every other input".
func refJudge(fn string, inp []byte) expectation {
	isList, hdr, total, why := refExtent(inp)
	if why != "" {
		return expectation{why: why}
	}
	if total != len(inp) {
		return expectation{why: "trailing-bytes"}
	}
	if fn == "DecodeString" {
		if isList {
			return expectation{why: "type-mismatch"}
		}
		if hdr == 1 && total == 2 && inp[1] < 0x80 {
			return expectation{why: "noncanonical-single-byte"}
		}
		return expectation{accept: true, payload: inp[hdr:]}
	}
	if !isList {
		return expectation{why: "type-mismatch"}
	}
	items, w := refSplit(inp[hdr:])
	if w != "" {
		return expectation{why: w}
	}
	for _, it := range items {
		if !refDeep(it) {
			// DON'T-CARE. Sentence: "decodeList return[s] … the encoded items for every canonical
			// RLP encoding"; the items are returned still encoded ("does not recursively decode",
			// stdlib/rlp.cdc). The list header and every item header are canonical and the items
			// tile the payload exactly, but an item's *content* is not canonical (0x81 0x05, or a
			// nested list whose own payload is malformed). Whether decodeList must already refuse
			// it, or may hand the item back for the caller's next decode to refuse, is not settled
			// by the sentence: accept both; if it accepts, the items must be this split.
			return expectation{dontCare: true, why: "item-content-noncanonical", items: items}
		}
	}
	return expectation{accept: true, items: items}
}

// ---------------------------------------------------------------------------
// Real code

type rlpObs struct {
	accepted bool
	payload  []byte
	items    [][]byte
	err      string
	crash    string // non-empty: Go panic / internal error / escaped panic
}

func callRLPGo(fn string, inp []byte) (o rlpObs) {
	defer func() {
		if p := recover(); p != nil {
			o = rlpObs{crash: fmt.Sprintf("panic: %v", p)}
		}
	}()
	if fn == "DecodeString" {
		s, n, err := rlp.DecodeString(inp, 0)
		if err != nil {
			return rlpObs{err: err.Error()}
		}
		if n != len(inp) {
			return rlpObs{err: "trailing"} // what the Cadence wrapper does with bytesRead
		}
		return rlpObs{accepted: true, payload: s}
	}
	l, n, err := rlp.DecodeList(inp, 0)
	if err != nil {
		return rlpObs{err: err.Error()}
	}
	if n != len(inp) {
		return rlpObs{err: "trailing"}
	}
	return rlpObs{accepted: true, items: l}
}

const rlpScriptString = `access(all) fun main(b: [UInt8]): [UInt8] { return RLP.decodeString(b) }`
const rlpScriptList = `access(all) fun main(b: [UInt8]): [[UInt8]] { return RLP.decodeList(b) }`

func bytesToCadence(b []byte) cadence.Value {
	vs := make([]cadence.Value, len(b))
	for i, x := range b {
		vs[i] = cadence.UInt8(x)
	}
	return cadence.NewArray(vs).WithType(cadence.NewVariableSizedArrayType(cadence.UInt8Type))
}

func cadenceToBytes(v cadence.Value) ([]byte, bool) {
	a, ok := v.(cadence.Array)
	if !ok {
		return nil, false
	}
	out := make([]byte, len(a.Values))
	for i, x := range a.Values {
		u, ok := x.(cadence.UInt8)
		if !ok {
			return nil, false
		}
		out[i] = byte(u)
	}
	return out, true
}

var rlpLedger = sync.OnceValue(func() *rt.Ledger { return rt.NewLedger() })

func callRLPScript(fn string, inp []byte, vm bool) rlpObs {
	src := rlpScriptString
	if fn == "DecodeList" {
		src = rlpScriptList
	}
	res := rt.Run(rlpLedger(), rt.Tx{Source: src, Script: true, UseVM: vm, Args: []cadence.Value{bytesToCadence(inp)}})
	switch res.Class {
	case "ok":
		if fn == "DecodeString" {
			p, ok := cadenceToBytes(res.Value)
			if !ok {
				return rlpObs{crash: fmt.Sprintf("unexpected result value %v", res.Value)}
			}
			return rlpObs{accepted: true, payload: p}
		}
		a, ok := res.Value.(cadence.Array)
		if !ok {
			return rlpObs{crash: fmt.Sprintf("unexpected result value %v", res.Value)}
		}
		items := [][]byte{}
		for _, x := range a.Values {
			p, ok := cadenceToBytes(x)
			if !ok {
				return rlpObs{crash: fmt.Sprintf("unexpected result value %v", res.Value)}
			}
			items = append(items, p)
		}
		return rlpObs{accepted: true, items: items}
	case "user":
		return rlpObs{err: res.Kind}
	default:
		return rlpObs{crash: res.Class + ": " + res.ErrString()}
	}
}

func callRLP(fn, via string, inp []byte) rlpObs {
	switch via {
	case "go":
		return callRLPGo(fn, inp)
	case "interpreter":
		return callRLPScript(fn, inp, false)
	case "vm":
		return callRLPScript(fn, inp, true)
	}
	panic("via " + via)
}

// ---------------------------------------------------------------------------
// Comparison

func shapeClass(inp []byte) string {
	if len(inp) == 0 {
		return "empty"
	}
	switch f := inp[0]; {
	case f < 0x80:
		return "single-byte"
	case f <= 0xb7:
		return "short-string"
	case f <= 0xbf:
		return "long-string"
	case f <= 0xf7:
		return "short-list"
	default:
		return "long-list"
	}
}

func eqItems(a, b [][]byte) bool {
	if len(a) != len(b) {
		return false
	}
	for i := range a {
		if string(a[i]) != string(b[i]) {
			return false
		}
	}
	return true
}

// rlpCompare returns ("", class) when the observation is allowed, else (badKind, detail).
func rlpCompare(fn string, inp []byte, exp expectation, o rlpObs) (bad string, class string) {
	if o.crash != "" {
		return "crash", o.crash
	}
	switch {
	case exp.dontCare:
		if o.accepted && !eqItems(o.items, exp.items) {
			return "wrong-items", fmt.Sprintf("got %x want %x", o.items, exp.items)
		}
		if o.accepted {
			return "", "dontcare:" + exp.why + ":accepted"
		}
		return "", "dontcare:" + exp.why + ":rejected"
	case exp.accept:
		if !o.accepted {
			return "rejected-canonical", "canonical encoding refused: " + o.err
		}
		if fn == "DecodeString" {
			if string(o.payload) != string(exp.payload) {
				return "wrong-payload", fmt.Sprintf("got %x want %x", trunc(o.payload), trunc(exp.payload))
			}
		} else if !eqItems(o.items, exp.items) {
			return "wrong-items", fmt.Sprintf("got %d items want %d", len(o.items), len(exp.items))
		}
		return "", "accept"
	default:
		if o.accepted {
			return "accepted-invalid", "input is not a canonical encoding (" + exp.why + ") but was decoded"
		}
		return "", rejectClass(exp.why)
	}
}

var rejectClasses sync.Map

func rejectClass(why string) string {
	if v, ok := rejectClasses.Load(why); ok {
		return v.(string)
	}
	c := "reject:" + why
	rejectClasses.Store(why, c)
	return c
}

func trunc(b []byte) []byte {
	if len(b) > 40 {
		return b[:40]
	}
	return b
}

type rlpCase struct {
	Fn  string `json:"fn"`
	Via string `json:"via"` // go | interpreter | vm
	Hex string `json:"hex,omitempty"`
	// Gen describes large inputs compactly: hex prefix + N bytes of Fill.
	Pad  int    `json:"pad,omitempty"`
	Fill byte   `json:"fill,omitempty"`
	Note string `json:"note,omitempty"`
}

func (c rlpCase) bytes() []byte {
	b, err := hex.DecodeString(c.Hex)
	if err != nil {
		panic(err)
	}
	for i := 0; i < c.Pad; i++ {
		b = append(b, c.Fill)
	}
	return b
}

// compact renders inp as hex prefix + run of one trailing byte value.
func compactCase(fn, via string, inp []byte, note string) rlpCase {
	n := len(inp)
	if n > 64 {
		fill := inp[n-1]
		i := n
		for i > 0 && inp[i-1] == fill {
			i--
		}
		if n-i > 16 {
			return rlpCase{Fn: fn, Via: via, Hex: hex.EncodeToString(inp[:i]), Pad: n - i, Fill: fill, Note: note}
		}
	}
	return rlpCase{Fn: fn, Via: via, Hex: hex.EncodeToString(inp), Note: note}
}

type rlpClassKey struct{ via, fn, class string }

func (k rlpClassKey) String() string {
	if k.via != "go" {
		return k.via + ":" + k.fn + ":" + k.class
	}
	return k.fn + ":" + k.class
}

type rlpCounter struct {
	n       int64
	classes map[rlpClassKey]int64
	sample  map[rlpClassKey]string
}

func newRLPCounter() *rlpCounter {
	return &rlpCounter{classes: map[rlpClassKey]int64{}, sample: map[rlpClassKey]string{}}
}

// one runs one (fn, via, input) and reports.
func rlpOne(env *mc.Env, ctr *rlpCounter, fn, via string, inp []byte, note string) {
	exp := refJudge(fn, inp)
	o := callRLP(fn, via, inp)
	ctr.n++
	bad, class := rlpCompare(fn, inp, exp, o)
	if bad != "" {
		why := exp.why
		if exp.accept {
			why = "canonical"
		}
		sig := fmt.Sprintf("%s|%s|%s|%s", fn, shapeClass(inp), why, bad)
		if via != "go" {
			sig = "script:" + sig
		}
		env.R.Violation(sig, compactCase(fn, via, inp, note),
			fmt.Sprintf("%s(%x%s) via %s: %s", fn, trunc(inp), more(inp), via, class))
		return
	}
	if exp.dontCare {
		env.R.DontCare.Add(1)
	}
	k := rlpClassKey{via, fn, class}
	ctr.classes[k]++
	if _, ok := ctr.sample[k]; !ok {
		ctr.sample[k] = fmt.Sprintf("%x%s", trunc(inp), more(inp))
	}
	if exp.accept || exp.dontCare {
		if len(inp) <= 64 {
			env.R.Nontrivial(via + fn + string(inp))
		} else {
			// large corpus items differ in their first bytes, their length or their tail
			env.R.Nontrivial(fmt.Sprintf("%s%s%d|%s|%s", via, fn, len(inp), inp[:48], inp[len(inp)-8:]))
		}
	}
}

func more(b []byte) string {
	if len(b) > 40 {
		return fmt.Sprintf("…(%d bytes)", len(b))
	}
	return ""
}

func (ctr *rlpCounter) flush(env *mc.Env) {
	env.R.EvalN(ctr.n)
	keys := make([]rlpClassKey, 0, len(ctr.classes))
	for k := range ctr.classes {
		keys = append(keys, k)
	}
	sort.Slice(keys, func(i, j int) bool { return keys[i].String() < keys[j].String() })
	for _, k := range keys {
		kk, s := k.String(), ctr.sample[k]
		env.R.Class(kk, func() any { return kk + " e.g. " + s })
		env.R.ClassN(kk, ctr.classes[k]-1)
	}
}

var rlpFns = []string{"DecodeString", "DecodeList"}

// ---------------------------------------------------------------------------
// Reference *encoder* (used only to build structured inputs)

func encLen(n int, base byte) []byte {
	if n <= 55 {
		return []byte{base + byte(n)}
	}
	var lb []byte
	for x := n; x > 0; x >>= 8 {
		lb = append([]byte{byte(x)}, lb...)
	}
	return append([]byte{base + 55 + byte(len(lb))}, lb...)
}

func encString(s []byte) []byte {
	if len(s) == 1 && s[0] < 0x80 {
		return []byte{s[0]}
	}
	return append(encLen(len(s), 0x80), s...)
}

func encList(items ...[]byte) []byte {
	var p []byte
	for _, it := range items {
		p = append(p, it...)
	}
	return append(encLen(len(p), 0xc0), p...)
}

func fillBytes(n int, f byte) []byte {
	b := make([]byte, n)
	for i := range b {
		b[i] = f
	}
	return b
}

var rlpLengths = []int{0, 1, 55, 56, 255, 256, 65535, 65536}

// structuredCorpus: canonical encodings of nested items of depth <= 2.
func structuredCorpus(maxLen int) [][]byte {
	var strs [][]byte
	for _, n := range rlpLengths {
		if n > maxLen {
			continue
		}
		fills := []byte{0x00}
		if n == 1 {
			fills = []byte{0x00, 0x7f, 0x80, 0xff}
		} else if n > 256 {
			// 0xff never starts a decodable item, so a mutated header does not turn the payload
			// into tens of thousands of one-byte items (two explicit corpus entries below do that)
			fills = []byte{0xff}
		} else if n > 0 {
			fills = []byte{0x00, 0xff}
		}
		for _, f := range fills {
			strs = append(strs, encString(fillBytes(n, f)))
		}
	}
	// strings chosen so that a list holding exactly one of them has a payload of a boundary length
	var exact [][]byte
	for _, target := range rlpLengths {
		if target < 2 || target > maxLen {
			continue
		}
		for d := 1; d <= 4; d++ {
			f := byte(0x41)
			if target > 256 {
				f = 0xff
			}
			e := encString(fillBytes(target-d, f))
			if len(e) == target {
				exact = append(exact, e)
			}
		}
	}
	small := [][]byte{strs[0], {0x05}, encString([]byte{0x80}), encString([]byte("cat"))}
	var out [][]byte
	out = append(out, strs...)
	var lists1 [][]byte
	lists1 = append(lists1, encList())
	for _, s := range strs {
		lists1 = append(lists1, encList(s))
	}
	for _, s := range exact {
		lists1 = append(lists1, encList(s))
	}
	for _, a := range small {
		for _, b := range small {
			lists1 = append(lists1, encList(a, b))
			for _, c := range small[:2] {
				lists1 = append(lists1, encList(a, b, c))
			}
		}
	}
	// 55 / 56 single-byte items, 55/56 empty strings
	for _, n := range []int{55, 56} {
		lists1 = append(lists1, append(encLen(n, 0xc0), fillBytes(n, 0x01)...))
		lists1 = append(lists1, append(encLen(n, 0xc0), fillBytes(n, 0x80)...))
	}
	out = append(out, lists1...)
	// depth 2
	for i, l := range lists1 {
		if len(l) > maxLen {
			continue
		}
		out = append(out, encList(l))
		out = append(out, encList(l, []byte{0x05}))
		if i%3 == 0 {
			out = append(out, encList(encList(), l, encList(encList())))
		}
	}
	return out
}

// deepInvalid: lists that are shallowly fine but whose items are not canonical (don't-care cell),
// and lists that must be refused.
func trickyCorpus() [][]byte {
	return [][]byte{
		{0xc2, 0x81, 0x05},             // item is a non-canonical single byte
		{0xc3, 0xc2, 0x81, 0x05},       // nested
		{0xc2, 0xc1, 0xc1},             // inner list's payload is a truncated list
		{0xc1, 0x82, 0x61, 0x62},       // item overruns the list payload (must fail)
		{0xc3, 0x82, 0x61},             // list payload beyond input
		{0xc3, 0xb8, 0x01, 0x61},       // item with non-canonical long form
		{0xc2, 0xb8, 0x38},             // item announcing 56 bytes inside a 2-byte payload
		{0xc4, 0x83, 0x61, 0x62, 0x63}, // fine
		{0xc4, 0x83, 0x61, 0x62, 0x63, 0x00},
		{0xf8, 0x02, 0x61, 0x62},
		{0xb8, 0x02, 0x61, 0x62},
		{0x81, 0x7f}, {0x81, 0x80}, {0x80}, {0xc0}, {0x7f}, {0x00},
	}
}

var lenAlphabet = []byte{0x00, 0x01, 0x37, 0x38, 0x7f, 0x80, 0xff}

// ---------------------------------------------------------------------------
// Run

func runC46(env *mc.Env) {
	// Part 1: every byte string of length <= 3, both functions, direct calls.
	var p1 func(first int)
	p1 = func(first int) {
		ctr := newRLPCounter()
		defer ctr.flush(env)
		buf := make([]byte, 3)
		if first == 256 {
			for _, fn := range rlpFns {
				rlpOne(env, ctr, fn, "go", []byte{}, "")
			}
			return
		}
		buf[0] = byte(first)
		for _, fn := range rlpFns {
			rlpOne(env, ctr, fn, "go", buf[:1], "")
			for b := 0; b < 256; b++ {
				buf[1] = byte(b)
				rlpOne(env, ctr, fn, "go", buf[:2], "")
				for c := 0; c < 256; c++ {
					buf[2] = byte(c)
					rlpOne(env, ctr, fn, "go", buf[:3], "")
				}
			}
		}
	}
	mc.ParallelFor(env, 257, p1)
	env.R.BoundCompleted("all byte strings of length <= 3")

	// Part 2: structured canonical encodings, every single-byte edit of the first 12 bytes,
	// every truncation within the first 12 bytes and by one byte at the end, one trailing byte.
	corpus := append(structuredCorpus(1<<20), trickyCorpus()...)
	// lists of 65535 / 65536 one-byte items: decoded as they are, truncated and extended, but not
	// edited 3060 times each (every decode builds a 65536-element item slice twice)
	noEdits := len(corpus)
	corpus = append(corpus, append(encLen(65535, 0xc0), fillBytes(65535, 0x01)...))
	corpus = append(corpus, append(encLen(65536, 0xc0), fillBytes(65536, 0x01)...))
	env.R.Set("structured_corpus_items", int64(len(corpus)))
	mc.ParallelFor(env, len(corpus), func(i int) {
		ctr := newRLPCounter()
		defer ctr.flush(env)
		base := corpus[i]
		inp := append([]byte(nil), base...)
		for _, fn := range rlpFns {
			rlpOne(env, ctr, fn, "go", inp, "canonical")
			for pos := 0; pos < len(inp) && pos < 12 && i < noEdits; pos++ {
				orig := inp[pos]
				for v := 0; v < 256; v++ {
					if byte(v) == orig {
						continue
					}
					inp[pos] = byte(v)
					rlpOne(env, ctr, fn, "go", inp, "edit")
				}
				inp[pos] = orig
			}
			for cut := 0; cut < len(inp) && cut < 12; cut++ {
				rlpOne(env, ctr, fn, "go", inp[:cut], "truncated")
			}
			if len(inp) > 0 {
				rlpOne(env, ctr, fn, "go", inp[:len(inp)-1], "truncated")
			}
			rlpOne(env, ctr, fn, "go", append(append([]byte(nil), inp...), 0x00), "trailing")
		}
	})

	// Part 3: long-form length prefixes with 1..8 length bytes from lenAlphabet (sizes up to 2^64-1),
	// bare / followed by 1 / followed by 56 zero bytes, and wrapped as the only item of a short list.
	type job struct {
		first byte
		k     int
		b0    byte // first length byte
	}
	var jobs []job
	for _, base := range []byte{0xb7, 0xf7} {
		for k := 1; k <= 8; k++ {
			for _, b0 := range lenAlphabet {
				jobs = append(jobs, job{base + byte(k), k, b0})
			}
		}
	}
	mc.ParallelFor(env, len(jobs), func(i int) {
		j := jobs[i]
		ctr := newRLPCounter()
		defer ctr.flush(env)
		n := 1
		for x := 1; x < j.k; x++ {
			n *= len(lenAlphabet)
		}
		buf := make([]byte, 0, 80)
		w := make([]byte, 0, 16)
		w2 := make([]byte, 0, 16)
		var zeros [56]byte
		for idx := 0; idx < n; idx++ {
			buf = append(buf[:0], j.first, j.b0)
			for x, r := 1, idx; x < j.k; x++ {
				buf = append(buf, lenAlphabet[r%len(lenAlphabet)])
				r /= len(lenAlphabet)
			}
			hl := len(buf)
			for _, fn := range rlpFns {
				rlpOne(env, ctr, fn, "go", buf[:hl], "long-prefix")
				buf = append(buf[:hl], zeros[:]...)
				rlpOne(env, ctr, fn, "go", buf, "long-prefix+56")
				if j.k <= 6 {
					buf = append(buf[:hl], 0)
					rlpOne(env, ctr, fn, "go", buf, "long-prefix+1")
				}
				// exactly the announced number of payload bytes, when that is small
				if _, _, size, _ := refHeaderLenient(buf[:hl]); size <= 4096 {
					buf = buf[:hl]
					for x := uint64(0); x < size; x++ {
						buf = append(buf, 0)
					}
					rlpOne(env, ctr, fn, "go", buf, "long-prefix+exact")
				}
				// first byte announcing one length byte more than present
				if j.k <= 6 {
					buf = buf[:hl]
					buf[0]++
					rlpOne(env, ctr, fn, "go", buf, "long-prefix-short")
					buf[0]--
				}
				// as the only item of a short list, and followed by another item
				w = append(append(w[:0], 0xc0+byte(hl)), buf[:hl]...)
				rlpOne(env, ctr, fn, "go", w, "wrapped")
				if j.k <= 6 {
					w2 = append(append(w2[:0], 0xc0+byte(hl)+1), buf[:hl]...)
					w2 = append(w2, 0x05)
					rlpOne(env, ctr, fn, "go", w2, "wrapped+item")
				}
			}
		}
	})

	// Part 4: the Cadence functions, both engines, on a subset.
	sub := wrapperSubset()
	env.R.Set("wrapper_subset_inputs", int64(len(sub)))
	chunk := 64
	nChunks := (len(sub) + chunk - 1) / chunk
	mc.ParallelFor(env, nChunks*2, func(i int) {
		via := "interpreter"
		if i%2 == 1 {
			via = "vm"
		}
		c := i / 2
		ctr := newRLPCounter()
		defer ctr.flush(env)
		for k := c * chunk; k < (c+1)*chunk && k < len(sub); k++ {
			for _, fn := range rlpFns {
				rlpOne(env, ctr, fn, via, sub[k], "wrapper")
			}
		}
	})
}

func wrapperSubset() [][]byte {
	var out [][]byte
	out = append(out, []byte{})
	for a := 0; a < 256; a++ {
		out = append(out, []byte{byte(a)})
	}
	firsts := []byte{0x00, 0x7f, 0x80, 0x81, 0x82, 0xb7, 0xb8, 0xb9, 0xbf, 0xc0, 0xc1, 0xc2, 0xf7, 0xf8, 0xf9, 0xff}
	for _, f := range firsts {
		for b := 0; b < 256; b++ {
			out = append(out, []byte{f, byte(b)})
		}
	}
	for _, f := range []byte{0x81, 0x82, 0xb8, 0xc1, 0xc2, 0xf8} {
		for _, b := range []byte{0x00, 0x05, 0x37, 0x38, 0x7f, 0x80, 0x81, 0xc0, 0xc1, 0xff} {
			for c := 0; c < 256; c += 5 {
				out = append(out, []byte{f, b, byte(c)})
			}
		}
	}
	for _, e := range structuredCorpus(300) {
		out = append(out, e)
		if len(e) > 1 {
			out = append(out, e[:len(e)-1])
		}
		out = append(out, append(append([]byte(nil), e...), 0))
	}
	out = append(out, trickyCorpus()...)
	for _, base := range []byte{0xb7, 0xf7} {
		for k := 1; k <= 8; k++ {
			for _, b0 := range lenAlphabet {
				for _, rest := range []byte{0x00, 0x7f, 0xff} {
					p := []byte{base + byte(k), b0}
					for x := 1; x < k; x++ {
						p = append(p, rest)
					}
					out = append(out, p)
					out = append(out, append(append([]byte(nil), p...), make([]byte, 56)...))
					out = append(out, append([]byte{0xc0 + byte(len(p))}, p...))
				}
			}
		}
	}
	return out
}

func replayC46(env *mc.Env, raw json.RawMessage) (bool, string) {
	var c rlpCase
	if err := json.Unmarshal(raw, &c); err != nil {
		return false, err.Error()
	}
	inp := c.bytes()
	exp := refJudge(c.Fn, inp)
	o := callRLP(c.Fn, c.Via, inp)
	bad, class := rlpCompare(c.Fn, inp, exp, o)
	want := "reject(" + exp.why + ")"
	if exp.accept {
		want = "accept"
	} else if exp.dontCare {
		want = "don't-care"
	}
	return bad != "", fmt.Sprintf("%s(%x%s) via %s: reference says %s; observed %s %s", c.Fn, trunc(inp), more(inp), c.Via, want, bad, strings.TrimSpace(class))
}

func init() {
	mc.Register(&mc.Check{
		ID:   "C46",
		Rule: "direct calls of rlp.DecodeString/DecodeList (accept = no error and bytesRead == len) on: every byte string of length <= 3; a corpus of canonical encodings of nested items of depth <= 2 with lengths {0,1,55,56,255,256,65535,65536} plus every single-byte edit of their first 12 bytes, truncations and one trailing byte; every long-form prefix with 1..8 length bytes from {00,01,37,38,7f,80,ff} bare, +56 zero bytes, + exactly the announced number of bytes when <= 4096, and wrapped as the only item of a short list (for <= 6 length bytes also +1 byte, with a wrong length-of-length, and wrapped next to a second item); RLP.decodeString/decodeList scripts in interpreter and VM on a subset. Every execution compared with an independent strict reference decoder. non-trivial = distinct input the reference accepts (or puts in the don't-care cell)",
		Assumptions: []string{
			"the reference decoder in c46_rlp.go (written from the RLP definition, uint64 length arithmetic) is right",
			"direct calls apply the wrapper's rule 'bytesRead must equal the input length' in the harness; the wrappers themselves are exercised on the subset",
			"decodeString given a list / decodeList given a string must fail (stdlib/rlp.cdc: 'if the encoded value type does not match … the program aborts')",
		},
		Run:    runC46,
		Replay: replayC46,
	})
}

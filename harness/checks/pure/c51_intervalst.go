package pure

import (
	"fmt"
	"math/rand"
	"sort"
	"strconv"
	"strings"
	"sync"

	"github.com/onflow/cadence/common/intervalst"

	"verif/mc"
)

// Interval tree part of C51.
//
// common/intervalst inserts with a randomized root insertion driven by the
// global math/rand source (rand.Float32 in randomizedInsert). Without editing
// the repository the only seam is rand.Seed: the check re-seeds the global
// source before *every* Put, so a state is a sequence of (interval, seed)
// pairs and is rebuilt deterministically. From every state and for every next
// interval, seeds 0,1,2,… are tried until every possible outcome of the
// randomized insertion was produced: the insertion can turn into a root
// insertion at each node of the search path or at its nil end, so a tree of
// distinct intervals has exactly (nodes on the search path, + 1 if the last of them is not a leaf) successors.
// That expectation is only used to *count coverage* (evidence field
// intervalst_incomplete_transitions), never as an oracle.
//
// The tree's shape is observable: Values() is the post-order of the values,
// and for distinct intervals a BST is determined by its post-order.
//
// Everything here runs on one goroutine and holds randMu, because the seeded
// source is process-global.

var randMu sync.Mutex

type ipos int

func (p ipos) Compare(other intervalst.Position) int {
	if _, ok := other.(intervalst.MinPosition); ok {
		return 1
	}
	o := other.(ipos)
	switch {
	case p < o:
		return -1
	case p > o:
		return 1
	}
	return 0
}

func (p ipos) String() string { return strconv.Itoa(int(p)) }

type ivl struct{ lo, hi int }

var ivlAlphabet = func() []ivl {
	var out []ivl
	for lo := 0; lo <= 3; lo++ {
		for hi := lo; hi <= 3; hi++ {
			out = append(out, ivl{lo, hi})
		}
	}
	return out
}()

func (i ivl) real() intervalst.Interval { return intervalst.NewInterval(ipos(i.lo), ipos(i.hi)) }
func (i ivl) less(o ivl) bool           { return i.lo < o.lo || (i.lo == o.lo && i.hi < o.hi) }

type putStep struct {
	iv   int // index into ivlAlphabet
	seed int64
}

func encodeSteps(ps []putStep) []string {
	out := make([]string, len(ps))
	for i, p := range ps {
		out[i] = fmt.Sprintf("Put:%d:%d:seed%d", ivlAlphabet[p.iv].lo, ivlAlphabet[p.iv].hi, p.seed)
	}
	return out
}

func decodeSteps(path []string) []putStep {
	var out []putStep
	for _, s := range path {
		f := strings.Split(s, ":")
		lo, hi := atoi(f[1]), atoi(f[2])
		seed, _ := strconv.ParseInt(strings.TrimPrefix(f[3], "seed"), 10, 64)
		for i, a := range ivlAlphabet {
			if a.lo == lo && a.hi == hi {
				out = append(out, putStep{i, seed})
			}
		}
	}
	return out
}

// build rebuilds the real tree; the value of a Put is its index in the path. Caller holds randMu.
func buildTree(steps []putStep) *intervalst.IntervalST[int] {
	t := &intervalst.IntervalST[int]{}
	for i, s := range steps {
		rand.Seed(s.seed) //nolint:staticcheck // the deprecated global seeding is exactly the seam needed
		t.Put(ivlAlphabet[s.iv].real(), i)
	}
	return t
}

// shapeKey: post-order of interval indices.
func shapeKey(t *intervalst.IntervalST[int], steps []putStep) string {
	vals := t.Values()
	var sb strings.Builder
	for _, v := range vals {
		if v < 0 || v >= len(steps) {
			sb.WriteString("?")
			continue
		}
		sb.WriteByte(byte('a' + steps[v].iv))
	}
	return sb.String()
}

// model tree for distinct intervals: reconstruct from post-order, return search path length for iv.
type mnode struct {
	iv          int
	left, right *mnode
}

func fromPostorder(post []int) *mnode {
	if len(post) == 0 {
		return nil
	}
	root := post[len(post)-1]
	rest := post[:len(post)-1]
	k := 0
	for k < len(rest) && ivlAlphabet[rest[k]].less(ivlAlphabet[root]) {
		k++
	}
	return &mnode{iv: root, left: fromPostorder(rest[:k]), right: fromPostorder(rest[k:])}
}

// insertionOutcomes: the randomized insertion turns into a root insertion at one of the nodes of the
// search path, or (only if the last node of the path has another child: a single node is always
// root-inserted at, since rand.Float32()*1 < 1) appends a leaf at its nil end.
func insertionOutcomes(n *mnode, iv int) int {
	if n == nil {
		return 1
	}
	c := 0
	var last *mnode
	for n != nil {
		c++
		last = n
		if ivlAlphabet[iv].less(ivlAlphabet[n.iv]) {
			n = n.left
		} else {
			n = n.right
		}
	}
	if last.left != nil || last.right != nil {
		c++
	}
	return c
}

func distinctIvs(steps []putStep) bool {
	seen := map[int]bool{}
	for _, s := range steps {
		if seen[s.iv] {
			return false
		}
		seen[s.iv] = true
	}
	return true
}

// queryTree compares every observer with the model (the multiset of (interval, value) pairs).
func queryTree(t *intervalst.IntervalST[int], steps []putStep) (diffs []disagreement, evals int) {
	class := fmt.Sprintf("n=%d", len(steps))
	if distinctIvs(steps) {
		class += "|distinct"
	} else {
		class += "|duplicates"
	}
	bad := func(q, kind, detail string) { diffs = append(diffs, disagreement{q, class, kind, detail}) }
	member := func(in intervalst.Interval, v int) bool {
		if v < 0 || v >= len(steps) {
			return false
		}
		a := ivlAlphabet[steps[v].iv]
		lo, ok1 := in.Min.(ipos)
		hi, ok2 := in.Max.(ipos)
		return ok1 && ok2 && int(lo) == a.lo && int(hi) == a.hi
	}
	for p := -1; p <= 4; p++ {
		p := p
		var want []int // values whose interval contains p
		for i, s := range steps {
			a := ivlAlphabet[s.iv]
			if a.lo <= p && p <= a.hi {
				want = append(want, i)
			}
		}
		guardCall("intervalst.Search", &diffs, class, func() {
			in, v, ok := t.Search(ipos(p))
			evals++
			switch {
			case ok != (len(want) > 0):
				bad("intervalst.Search", map[bool]string{true: "found-nothing-to-find", false: "not-found"}[ok], fmt.Sprintf("Search(%d): present=%v, model has %d intervals containing it", p, ok, len(want)))
			case ok && (in == nil || !member(*in, v) || !contains(want, v)):
				bad("intervalst.Search", "wrong-entry", fmt.Sprintf("Search(%d) returned %v value %d, not an entry containing the position", p, in, v))
			}
		})
		guardCall("intervalst.SearchAll", &diffs, class, func() {
			es := t.SearchAll(ipos(p))
			evals++
			var got []int
			for _, e := range es {
				if !member(e.Interval, e.Value) {
					bad("intervalst.SearchAll", "wrong-entry", fmt.Sprintf("SearchAll(%d) returned %v value %d which was never put", p, e.Interval, e.Value))
					return
				}
				got = append(got, e.Value)
			}
			sort.Ints(got)
			switch {
			case len(got) < len(want):
				bad("intervalst.SearchAll", "missing-entry", fmt.Sprintf("SearchAll(%d) returned values %v, model says %v", p, got, want))
			case fmt.Sprint(got) != fmt.Sprint(want):
				bad("intervalst.SearchAll", "extra-or-wrong-entry", fmt.Sprintf("SearchAll(%d) returned values %v, model says %v", p, got, want))
			}
		})
	}
	queries := append([]ivl{{-1, -1}, {4, 4}}, ivlAlphabet...)
	for _, q := range queries {
		q := q
		var inter []int
		var same []int
		for i, s := range steps {
			a := ivlAlphabet[s.iv]
			if a.lo <= q.hi && q.lo <= a.hi {
				inter = append(inter, i)
			}
			if a == q {
				same = append(same, i)
			}
		}
		rq := intervalst.NewInterval(ipos(q.lo), ipos(q.hi))
		guardCall("intervalst.SearchInterval", &diffs, class, func() {
			in, v, ok := t.SearchInterval(rq)
			evals++
			switch {
			case ok != (len(inter) > 0):
				bad("intervalst.SearchInterval", map[bool]string{true: "found-nothing-to-find", false: "not-found"}[ok], fmt.Sprintf("SearchInterval(%v): present=%v, model has %d intersecting intervals", q, ok, len(inter)))
			case ok && (in == nil || !member(*in, v) || !contains(inter, v)):
				bad("intervalst.SearchInterval", "wrong-entry", fmt.Sprintf("SearchInterval(%v) returned %v value %d, not an intersecting entry", q, in, v))
			}
		})
		guardCall("intervalst.Get", &diffs, class, func() {
			v, ok := t.Get(rq)
			c := t.Contains(rq)
			evals += 2
			switch {
			case ok != (len(same) > 0) || c != ok:
				bad("intervalst.Get", "wrong-presence", fmt.Sprintf("Get(%v) present=%v Contains=%v, model has %d entries", q, ok, c, len(same)))
			case ok && !contains(same, v):
				// which of several values put for the same interval is returned is not specified: any of them
				bad("intervalst.Get", "wrong-value", fmt.Sprintf("Get(%v) returned %d, model values %v", q, v, same))
			}
		})
	}
	guardCall("intervalst.Values", &diffs, class, func() {
		got := append([]int{}, t.Values()...)
		evals++
		sort.Ints(got)
		var want []int
		for i := range steps {
			want = append(want, i)
		}
		if fmt.Sprint(got) != fmt.Sprint(want) {
			bad("intervalst.Values", "wrong-multiset", fmt.Sprintf("Values() = %v, model %v", got, want))
		}
	})
	return diffs, evals
}

func contains(xs []int, x int) bool {
	for _, y := range xs {
		if y == x {
			return true
		}
	}
	return false
}

func runIntervalTrees(env *mc.Env) {
	randMu.Lock()
	defer randMu.Unlock()
	// the seam must work: since Go 1.24 rand.Seed is a no-op unless the binary sets GODEBUG randseednop=0
	// (cmd/pure/main.go does); without it the search would be irreproducible
	var probe [2][4]float32
	for r := range probe {
		rand.Seed(12345) //nolint:staticcheck
		for i := range probe[r] {
			probe[r][i] = rand.Float32()
		}
	}
	if probe[0] != probe[1] {
		env.R.HarnessError("rand.Seed does not determine math/rand's global source (GODEBUG randseednop must be 0): the interval tree search is not reproducible")
		return
	}
	maxPuts := mc.Pick(env, 4, 5)
	maxSeeds := int64(mc.Pick(env, 96, 256))
	dupSeeds := int64(mc.Pick(env, 12, 24)) // seeds tried when the expected number of outcomes is unknown
	type state struct {
		steps []putStep
		key   string
	}
	report := func(steps []putStep, diffs []disagreement) {
		for _, d := range diffs {
			env.R.Violation(fmt.Sprintf("%s|%s|%s", d.query, d.class, d.kind),
				collCase{Struct: "intervalst", Path: encodeSteps(steps), Query: d.query},
				fmt.Sprintf("%s after %v: %s", d.query, encodeSteps(steps), d.detail))
		}
	}
	frontier := []state{{}}
	seen := map[string]bool{"": true}
	var incomplete, transitions, statesN, shapesComplete int64
	for depth := 0; depth < maxPuts; depth++ {
		var next []state
		for _, st := range frontier {
			if env.Expired() {
				env.R.NotExhaustive(fmt.Sprintf("interval tree search stopped by the deadline at depth %d", depth))
				return
			}
			// model shape of the current state (distinct intervals only)
			var model *mnode
			known := distinctIvs(st.steps)
			if known {
				t := buildTree(st.steps)
				post := []int{}
				for _, v := range t.Values() {
					post = append(post, st.steps[v].iv)
				}
				model = fromPostorder(post)
			}
			for iv := range ivlAlphabet {
				expected := -1
				limit := dupSeeds
				if known {
					expected = insertionOutcomes(model, iv)
					limit = maxSeeds
				}
				outcomes := map[string]bool{}
				for seed := int64(0); seed < limit && (expected < 0 || len(outcomes) < expected); seed++ {
					steps := append(append([]putStep{}, st.steps...), putStep{iv, seed})
					var t *intervalst.IntervalST[int]
					if panicked, pv, _ := mc.Guard(func() { t = buildTree(steps) }); panicked {
						report(steps, []disagreement{{"intervalst.Put", fmt.Sprintf("n=%d", len(steps)), "panic", fmt.Sprint(pv)}})
						transitions++
						continue
					}
					key := shapeKey(t, steps)
					transitions++
					// outcomes are told apart by the post-order of put indices (a duplicate of an
					// existing interval can end up above or below it with the same post-order of intervals)
					okey := fmt.Sprint(t.Values())
					if outcomes[okey] {
						continue
					}
					outcomes[okey] = true
					env.R.Nontrivial("intervalst|" + st.key + "|" + key)
					if seen[key] {
						continue // same tree (shape and intervals) reached before: its queries were compared then
					}
					seen[key] = true
					statesN++
					env.R.States.Add(1)
					diffs, evals := queryTree(t, steps)
					env.R.EvalN(int64(evals))
					if len(diffs) > 0 {
						report(steps, diffs)
						continue
					}
					next = append(next, state{steps, key})
				}
				if expected >= 0 {
					if len(outcomes) < expected {
						incomplete++
					} else {
						shapesComplete++
					}
				}
			}
		}
		frontier = next
	}
	env.R.Transitions.Add(transitions)
	env.R.Set("intervalst_states", statesN)
	env.R.Set("intervalst_put_executions", transitions)
	env.R.Set("intervalst_complete_transitions", shapesComplete)
	env.R.Set("intervalst_incomplete_transitions", incomplete)
	env.R.Class("intervalst.Put", func() any {
		return fmt.Sprintf("%d distinct trees of <= %d puts queried; %d (state, interval) pairs with every insertion outcome seen, %d incomplete", statesN, maxPuts, shapesComplete, incomplete)
	})
	if incomplete > 0 {
		env.R.NotExhaustive(fmt.Sprintf("interval tree: %d (state, interval) pairs did not show every expected insertion outcome within %d seeds", incomplete, maxSeeds))
	}
}

func replayIntervalTree(c collCase) (bool, string) {
	randMu.Lock()
	defer randMu.Unlock()
	steps := decodeSteps(c.Path)
	var t *intervalst.IntervalST[int]
	if panicked, pv, _ := mc.Guard(func() { t = buildTree(steps) }); panicked {
		return c.Query == "intervalst.Put", fmt.Sprintf("Put sequence %v panicked: %v", c.Path, pv)
	}
	diffs, _ := queryTree(t, steps)
	for _, d := range diffs {
		if d.query == c.Query {
			return true, fmt.Sprintf("%s after %v (post-order %s): %s", d.query, c.Path, shapeKey(t, steps), d.detail)
		}
	}
	return false, fmt.Sprintf("%s after %v: model and implementation agree", c.Query, c.Path)
}

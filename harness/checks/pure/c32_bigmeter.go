package pure

import (
	"encoding/json"
	"fmt"
	"math/big"
	"sort"

	"github.com/onflow/cadence/common"
	"github.com/onflow/cadence/interpreter"
	"github.com/onflow/cadence/sema"

	"verif/mc"
	"verif/num"
)

// C32 — big-integer memory metering never under-reports.
//
// Real code: the arithmetic / bitwise value methods of Int, UInt, Int128,
// Int256, UInt128, UInt256, Word128, Word256, called with an interpreter
// whose memory gauge records every MemoryKindBigInt usage.
// Oracle: bytes metered as MemoryKindBigInt during the call >=
// len(result.Bits()) * word size.

type meterCase struct {
	Type string `json:"type"`
	Op   string `json:"op"`
	A    string `json:"a"` // hex, optional leading '-'
	B    string `json:"b,omitempty"`
}

type recGauge struct {
	bigInt  uint64
	wrapped bool // some BigInt amount had the top bit set: a negative estimate converted to uint64
	calls   int
}

func (g *recGauge) MeterMemory(u common.MemoryUsage) error {
	if u.Kind == common.MemoryKindBigInt {
		g.calls++
		if u.Amount >= 1<<63 {
			g.wrapped = true
		} else {
			g.bigInt += u.Amount
		}
	}
	return nil
}

func newMeteredInter(g *recGauge) *interpreter.Interpreter {
	inter, err := interpreter.NewInterpreter(nil, nil, &interpreter.Config{
		Storage:     interpreter.NewInMemoryStorage(nil, nil),
		MemoryGauge: g,
	})
	if err != nil {
		panic(err)
	}
	return inter
}

var c32Ops = []string{"Plus", "Minus", "Mul", "Div", "Mod", "Negate", "Or", "Xor", "And", "Shl", "Shr",
	"SaturatingPlus", "SaturatingMinus", "SaturatingMul", "SaturatingDiv"}

func bigOf(v interpreter.Value) *big.Int {
	switch v := v.(type) {
	case interpreter.IntValue:
		return v.BigInt
	case interpreter.UIntValue:
		return v.BigInt
	case interpreter.Int128Value:
		return v.BigInt
	case interpreter.Int256Value:
		return v.BigInt
	case interpreter.UInt128Value:
		return v.BigInt
	case interpreter.UInt256Value:
		return v.BigInt
	case interpreter.Word128Value:
		return v.BigInt
	case interpreter.Word256Value:
		return v.BigInt
	}
	return nil
}

type meterObs struct {
	failed   string // non-empty: the operation failed (error class), nothing to judge
	metered  uint64
	wrapped  bool
	result   *big.Int
	aliased  bool // the result shares its big.Int with an operand (nothing was allocated)
	resBytes uint64
}

func callMetered(inter *interpreter.Interpreter, g *recGauge, t *num.Type, op string, a, b *big.Int) (o meterObs) {
	av := t.Make(a)
	var bv interpreter.NumberValue
	if b != nil {
		bv = t.Make(b)
	}
	*g = recGauge{}
	defer func() {
		if p := recover(); p != nil {
			o = meterObs{failed: num.ErrClass(p)}
		}
	}()
	var out interpreter.Value
	switch op {
	case "Plus":
		out = av.Plus(inter, bv)
	case "Minus":
		out = av.Minus(inter, bv)
	case "Mul":
		out = av.Mul(inter, bv)
	case "Div":
		out = av.Div(inter, bv)
	case "Mod":
		out = av.Mod(inter, bv)
	case "Negate":
		out = av.Negate(inter)
	case "SaturatingPlus":
		out = av.SaturatingPlus(inter, bv)
	case "SaturatingMinus":
		out = av.SaturatingMinus(inter, bv)
	case "SaturatingMul":
		out = av.SaturatingMul(inter, bv)
	case "SaturatingDiv":
		out = av.SaturatingDiv(inter, bv)
	case "Or":
		out = av.(interpreter.IntegerValue).BitwiseOr(inter, bv.(interpreter.IntegerValue))
	case "Xor":
		out = av.(interpreter.IntegerValue).BitwiseXor(inter, bv.(interpreter.IntegerValue))
	case "And":
		out = av.(interpreter.IntegerValue).BitwiseAnd(inter, bv.(interpreter.IntegerValue))
	case "Shl":
		out = av.(interpreter.IntegerValue).BitwiseLeftShift(inter, bv.(interpreter.IntegerValue))
	case "Shr":
		out = av.(interpreter.IntegerValue).BitwiseRightShift(inter, bv.(interpreter.IntegerValue))
	default:
		panic("unknown op " + op)
	}
	r := bigOf(out)
	if r == nil {
		panic(fmt.Sprintf("C32: result of %s.%s is not a big-integer value: %T", t.Name, op, out))
	}
	o.metered, o.wrapped, o.result = g.bigInt, g.wrapped, r
	o.resBytes = uint64(len(r.Bits())) * uint64(common.BigIntWordSize)
	if r == bigOf(av) || (bv != nil && r == bigOf(bv)) {
		o.aliased = true
	}
	return o
}

func signCh(x *big.Int) string {
	switch x.Sign() {
	case -1:
		return "-"
	case 0:
		return "0"
	}
	return "+"
}

// inputClass is the structural class used in signatures: signs of the operands.
func inputClass(op string, a, b *big.Int) string {
	if b == nil {
		return "a" + signCh(a)
	}
	return "a" + signCh(a) + "b" + signCh(b)
}

// judgeMeter: "" = fine; otherwise the kind of violation.
func judgeMeter(o meterObs) (bad string, class string) {
	switch {
	case o.failed != "":
		return "", "failed:" + o.failed
	case o.aliased:
		// DON'T-CARE: "the memory metered before the operation is at least the size of the result it
		// produces" — an operation that hands back one of its operands produces no new result.
		return "", "dontcare:result-is-operand"
	case o.wrapped:
		// DON'T-CARE: the closed-form estimate came out negative and was converted to uint64
		// (about 2^64). Literally "at least the size of the result" holds for the number handed to
		// the gauge, mathematically the estimate (negative) is below it; the sentence does not say
		// which one counts. Counted and described in notes/C32.md, never an alarm.
		return "", "dontcare:negative-estimate-wrapped"
	case o.metered < o.resBytes:
		return "under-metered", fmt.Sprintf("metered %d bytes < result %d bytes", o.metered, o.resBytes)
	case o.resBytes == 0:
		return "", "zero-result"
	case o.metered == o.resBytes:
		return "", "exact"
	}
	return "", "over"
}

func hexBig(x *big.Int) string {
	if x.Sign() < 0 {
		return "-" + new(big.Int).Neg(x).Text(16)
	}
	return x.Text(16)
}

func parseHexBig(s string) *big.Int {
	x, ok := new(big.Int).SetString(s, 16)
	if !ok {
		panic("bad hex int " + s)
	}
	return x
}

// wordValues returns the operand alphabet for unbounded types: for each word length n the
// smallest (2^(64(n-1))), the largest (2^(64n)-1) and the alternating-bit value of that length.
func wordValues(lengths []int, signed bool) []*big.Int {
	var out []*big.Int
	seen := map[string]bool{}
	put := func(x *big.Int) {
		if !seen[x.String()] {
			seen[x.String()] = true
			out = append(out, x)
		}
	}
	one := big.NewInt(1)
	for _, n := range lengths {
		if n == 0 {
			put(big.NewInt(0))
			continue
		}
		small := new(big.Int).Lsh(one, uint(64*(n-1)))
		large := new(big.Int).Sub(new(big.Int).Lsh(one, uint(64*n)), one)
		alt := new(big.Int)
		for i := 0; i < n; i++ {
			alt.Lsh(alt, 64)
			alt.Or(alt, new(big.Int).SetUint64(0xAAAAAAAAAAAAAAAA))
		}
		smallPlus := new(big.Int).Add(small, one)
		for _, v := range []*big.Int{small, smallPlus, large, alt} {
			put(v)
			if signed {
				put(new(big.Int).Neg(v))
			}
		}
	}
	return out
}

var shiftAmounts = []int64{0, 1, 63, 64, 65, 127, 128, 1000, 4096}

func runC32(env *mc.Env) {
	lengths := mc.Pick(env,
		[]int{0, 1, 2, 3, 4, 5, 6, 7, 8, 39, 40, 41, 42, 99, 100, 101},
		[]int{0, 1, 2, 3, 4, 5, 6, 7, 8, 9, 10, 16, 39, 40, 41, 42, 43, 79, 80, 81, 99, 100, 101, 102, 150, 199, 200, 201, 299, 300})
	type job struct {
		t  *num.Type
		op string
		as []*big.Int
		bs []*big.Int
	}
	var jobs []job
	for _, name := range []string{"Int", "UInt", "Int128", "Int256", "UInt128", "UInt256", "Word128", "Word256"} {
		t := num.ByName[name]
		var base []*big.Int
		if t.Bits == 0 {
			base = wordValues(lengths, t.Signed())
		} else {
			base = num.Lattice(t, env.Thorough())
		}
		for _, op := range c32Ops {
			if op == "Negate" && !t.Signed() {
				continue
			}
			if len(op) > 10 && op[:10] == "Saturating" && !supportsSaturating(t, op) {
				continue // only members a program can reach
			}
			bs := base
			switch op {
			case "Negate":
				bs = []*big.Int{nil}
			case "Shl", "Shr":
				bs = nil
				for _, s := range shiftAmounts {
					x := big.NewInt(s)
					if t.InRange(x) {
						bs = append(bs, x)
					}
				}
			}
			// split the a-operands so that the work is spread
			for lo := 0; lo < len(base); lo += 8 {
				hi := min(lo+8, len(base))
				jobs = append(jobs, job{t, op, base[lo:hi], bs})
			}
		}
	}
	mc.ParallelFor(env, len(jobs), func(i int) {
		j := jobs[i]
		g := &recGauge{}
		inter := newMeteredInter(g)
		classes := map[string]int64{}
		samples := map[string]string{}
		var n int64
		for _, a := range j.as {
			for _, b := range j.bs {
				o := callMetered(inter, g, j.t, j.op, a, b)
				n++
				bad, class := judgeMeter(o)
				if bad != "" {
					c := meterCase{Type: j.t.Name, Op: j.op, A: hexBig(a)}
					if b != nil {
						c.B = hexBig(b)
					}
					env.R.Violation(fmt.Sprintf("%s.%s|%s|%s", j.t.Name, j.op, inputClass(j.op, a, b), bad), c,
						fmt.Sprintf("%s.%s: a has %d words, b %s: %s", j.t.Name, j.op, len(a.Bits()), wordsOf(b), class))
					continue
				}
				if len(class) > 8 && class[:8] == "dontcare" {
					env.R.DontCare.Add(1)
				}
				key := j.t.Name + "." + j.op + ":" + class
				classes[key]++
				if _, ok := samples[key]; !ok {
					samples[key] = fmt.Sprintf("a=%d words (%s) b=%s metered=%d result=%d bytes", len(a.Bits()), signCh(a), wordsOf(b), o.metered, o.resBytes)
				}
				if class == "exact" || class == "over" {
					// the mechanism (an estimate compared with a non-empty result) was exercised
					env.R.Nontrivial(fmt.Sprintf("%s|%s|%s|%v", j.t.Name, j.op, hexBig(a), b))
				}
			}
		}
		env.R.EvalN(n)
		keys := make([]string, 0, len(classes))
		for k := range classes {
			keys = append(keys, k)
		}
		sort.Strings(keys)
		for _, k := range keys {
			kk, s := k, samples[k]
			env.R.Class(kk, func() any { return kk + ": " + s })
			env.R.ClassN(kk, classes[k]-1)
		}
	})
	env.R.BoundCompleted(fmt.Sprintf("word lengths %v", lengths))
}

func supportsSaturating(t *num.Type, op string) bool {
	st, ok := t.Sema.(sema.SaturatingArithmeticType)
	if !ok {
		return false
	}
	switch op {
	case "SaturatingPlus":
		return st.SupportsSaturatingAdd()
	case "SaturatingMinus":
		return st.SupportsSaturatingSubtract()
	case "SaturatingMul":
		return st.SupportsSaturatingMultiply()
	case "SaturatingDiv":
		return st.SupportsSaturatingDivide()
	}
	return false
}

func wordsOf(b *big.Int) string {
	if b == nil {
		return "-"
	}
	if b.IsInt64() && b.Int64() >= 0 && b.Int64() <= 4096 {
		return fmt.Sprintf("%d", b.Int64())
	}
	return fmt.Sprintf("%d words (%s)", len(b.Bits()), signCh(b))
}

func replayC32(env *mc.Env, raw json.RawMessage) (bool, string) {
	var c meterCase
	if err := json.Unmarshal(raw, &c); err != nil {
		return false, err.Error()
	}
	t := num.ByName[c.Type]
	a := parseHexBig(c.A)
	var b *big.Int
	if c.B != "" {
		b = parseHexBig(c.B)
	}
	g := &recGauge{}
	o := callMetered(newMeteredInter(g), g, t, c.Op, a, b)
	bad, class := judgeMeter(o)
	return bad != "", fmt.Sprintf("%s.%s(a: %d words, b: %s): metered %d bytes as BigInt in %d gauge calls, result %d bytes [%s %s]",
		c.Type, c.Op, len(a.Bits()), wordsOf(b), o.metered, g.calls, o.resBytes, bad, class)
}

func init() {
	mc.Register(&mc.Check{
		ID:   "C32",
		Rule: "every (type, op, a, b): Int/UInt operands = for each word length n in the stated list the values 2^(64(n-1)), 2^(64(n-1))+1, 2^(64n)-1 and the alternating-bit value of n words, both signs for Int, all pairs; shift amounts {0,1,63,64,65,127,128,1000,4096}; 128/256-bit types over the boundary lattice; ops + - * / % neg | ^ & << >> and the saturating variants, executed on the real value methods with a recording memory gauge; oracle metered(MemoryKindBigInt) >= len(result.Bits())*wordSize. non-trivial = distinct case with a non-empty result that was compared with a recorded estimate",
		Assumptions: []string{
			"the size of the result is len(result.Bits())*8 bytes (the property's definition), not the capacity math/big allocated",
			"value methods are called directly; operator dispatch from programs is covered by C34/C52",
		},
		Run:    runC32,
		Replay: replayC32,
	})
}

package pure

import (
	"encoding/json"
	"errors"
	"fmt"
	"math/big"
	"sort"

	"github.com/onflow/cadence"
	cerrors "github.com/onflow/cadence/errors"
	"github.com/onflow/cadence/stdlib"
	ru "github.com/onflow/cadence/test_utils/runtime_utils"

	"verif/mc"
	"verif/num"
	"verif/rt"
)

// C47 — revertibleRandom is bounded and exactly uniform.
//
// The random source is the environment. A *node* of the draw tree is a finite
// sequence of source bytes; running the real function on a source that holds
// exactly those bytes either returns a value having consumed all of them (a
// leaf of mass 256^-k), or asks for n more bytes (an inner node: its 256^n
// extensions are its children). The tree is enumerated explicitly and the
// oracle works on exact masses, so it holds for every correct sampler, not
// just for mask-and-reject:
//
//   (B) every returned value is < M                       (M = modulo, or 2^bits without one)
//   (U1) P(v) <= 1/M for the mass P(v) of explored leaves returning v
//        (explored leaves are a subset of all leaves; a uniform sampler gives every v total mass 1/M)
//   (U2) when the tree is explored completely to some depth with R = mass not yet decided:
//        1/M - P(v) <= R for every v < M   (the missing mass of v can only come from undecided nodes)
//   (Z) modulo 0 fails with a user error.
//
// A modulo reduction violates U1 at the first draw, a mask one bit short or a
// short read violates U2 (some values never appear while R is small), reading
// too few bytes for a type violates U1 (a leaf heavier than 1/M).

var errSourceExhausted = errors.New("verif: random source exhausted")

// byteSrc hands out the bytes of a node and records how many more were wanted.
type byteSrc struct {
	bytes []byte
	// tail, if non-nil, continues the source after bytes (periodic adversarial sources) up to budget
	tail   func(i int) byte
	budget int
	pos    int
	need   int    // bytes requested beyond the end, 0 = not exhausted
	log    []byte // bytes handed out from tail
}

func (s *byteSrc) ReadRandom(buf []byte) error {
	avail := len(s.bytes)
	if s.tail != nil {
		avail = s.budget
	}
	if s.pos+len(buf) > avail {
		s.need = s.pos + len(buf) - avail
		return errSourceExhausted
	}
	for i := range buf {
		if s.pos < len(s.bytes) {
			buf[i] = s.bytes[s.pos]
		} else {
			buf[i] = s.tail(s.pos)
			s.log = append(s.log, buf[i])
		}
		s.pos++
	}
	return nil
}

type drawOutcome struct {
	kind string // value | exhausted | user-error | crash
	val  *big.Int
	used int // bytes consumed
	need int
	info string
}

// sampler runs the real function once.
type sampler func(t *num.Type, modulo *big.Int, src *byteSrc) drawOutcome

func directSampler(t *num.Type, modulo *big.Int, src *byteSrc) (o drawOutcome) {
	defer func() {
		if p := recover(); p != nil {
			if src.need > 0 {
				o = drawOutcome{kind: "exhausted", need: src.need, used: src.pos}
				return
			}
			if e, ok := p.(error); ok && cerrors.IsUserError(e) {
				o = drawOutcome{kind: "user-error", info: e.Error()}
				return
			}
			o = drawOutcome{kind: "crash", info: fmt.Sprintf("%v", p)}
		}
	}()
	var out *big.Int
	if modulo == nil {
		out = num.Raw(stdlib.RevertibleRandom(src, nil, t.Sema, nil))
	} else {
		out = num.Raw(stdlib.RevertibleRandom(src, nil, t.Sema, t.Make(modulo)))
	}
	return drawOutcome{kind: "value", val: out, used: src.pos}
}

var c47Ledger = rt.NewLedger()

func cadenceUnsigned(t *num.Type, x *big.Int) cadence.Value {
	switch t.Name {
	case "UInt8":
		return cadence.UInt8(x.Uint64())
	case "UInt16":
		return cadence.UInt16(x.Uint64())
	case "UInt32":
		return cadence.UInt32(x.Uint64())
	case "UInt64":
		return cadence.UInt64(x.Uint64())
	case "UInt128":
		v, _ := cadence.NewUInt128FromBig(x)
		return v
	case "UInt256":
		v, _ := cadence.NewUInt256FromBig(x)
		return v
	case "Word8":
		return cadence.Word8(x.Uint64())
	case "Word16":
		return cadence.Word16(x.Uint64())
	case "Word32":
		return cadence.Word32(x.Uint64())
	case "Word64":
		return cadence.Word64(x.Uint64())
	case "Word128":
		v, _ := cadence.NewWord128FromBig(x)
		return v
	case "Word256":
		v, _ := cadence.NewWord256FromBig(x)
		return v
	}
	panic(t.Name)
}

func scriptSampler(vm bool) sampler {
	return func(t *num.Type, modulo *big.Int, src *byteSrc) drawOutcome {
		tx := rt.Tx{Script: true, UseVM: vm, Hook: func(i *ru.TestRuntimeInterface) { i.OnReadRandom = src.ReadRandom }}
		if modulo == nil {
			tx.Source = fmt.Sprintf(`access(all) fun main(): %s { return revertibleRandom<%s>() }`, t.Name, t.Name)
		} else {
			tx.Source = fmt.Sprintf(`access(all) fun main(m: %s): %s { return revertibleRandom<%s>(modulo: m) }`, t.Name, t.Name, t.Name)
			tx.Args = []cadence.Value{cadenceUnsigned(t, modulo)}
		}
		res := rt.Run(c47Ledger, tx)
		switch {
		case src.need > 0:
			return drawOutcome{kind: "exhausted", need: src.need, used: src.pos}
		case res.Class == "ok":
			v, ok := new(big.Int).SetString(res.Value.String(), 10)
			if !ok || res.Value.Type().ID() != t.Name {
				return drawOutcome{kind: "crash", info: fmt.Sprintf("result %v of type %s", res.Value, res.Value.Type().ID())}
			}
			return drawOutcome{kind: "value", val: v, used: src.pos}
		case res.Class == "user":
			return drawOutcome{kind: "user-error", info: res.Kind}
		}
		return drawOutcome{kind: "crash", info: res.Class + ": " + res.ErrString()}
	}
}

func samplerFor(via string) sampler {
	switch via {
	case "go":
		return directSampler
	case "interpreter":
		return scriptSampler(false)
	case "vm":
		return scriptSampler(true)
	}
	panic(via)
}

// ---------------------------------------------------------------------------
// Cases

type rndCase struct {
	Via    string `json:"via"`
	Type   string `json:"type"`
	Modulo string `json:"modulo"` // "" = no modulo argument
	Mode   string `json:"mode"`   // tree | block | zero
	// tree: complete to D1 bytes, then nodes number i (in lexicographic order) with i < K or i % Stride == 0 to D2
	D1, D2, K, Stride int `json:",omitempty"`
	// block: periodic source Pattern, bytes Pos and Pos+1 take all 65536 values (Pos = -1: each single position takes all 256; -2: only the first and the last position)
	Pattern string `json:"pattern,omitempty"`
	Pos     int    `json:"pos,omitempty"`
}

func (c rndCase) modulo() *big.Int {
	if c.Modulo == "" {
		return nil
	}
	m, _ := new(big.Int).SetString(c.Modulo, 10)
	return m
}

func moduloClass(m *big.Int) string {
	switch {
	case m == nil:
		return "no-modulo"
	case m.Sign() == 0:
		return "m=0"
	case m.Cmp(big.NewInt(1)) == 0:
		return "m=1"
	}
	pm := new(big.Int).Sub(m, big.NewInt(1))
	if new(big.Int).And(m, pm).Sign() == 0 {
		return "m=2^k"
	}
	return "m-not-2^k"
}

type rndFinding struct {
	kind   string
	detail string
}

// space is M: modulo, or 2^bits.
func space(t *num.Type, m *big.Int) *big.Int {
	if m != nil {
		return m
	}
	return new(big.Int).Lsh(big.NewInt(1), uint(t.Bits))
}

// runTree enumerates the draw tree of (t, m) and applies B, U1, U2. M must be <= 2^16.
type treeResult struct {
	runs, leaves, inner int64
	undecidedParts      int64
	maxDepth            int
	findings            []rndFinding
	decidedMass         float64
}

func runTree(c rndCase, smp sampler, expired func() bool) (tr treeResult) {
	t := num.ByName[c.Type]
	m := c.modulo()
	M := space(t, m).Uint64()
	dmax := c.D2
	if dmax < c.D1 {
		dmax = c.D1
	}
	pow := make([]uint64, dmax+1) // pow[k] = 256^(dmax-k): mass of a depth-k node
	pow[dmax] = 1
	for k := dmax - 1; k >= 0; k-- {
		pow[k] = pow[k+1] * 256
	}
	S := pow[0]
	mass := make([]uint64, M)
	var undecided uint64
	add := func(f rndFinding) {
		if len(tr.findings) < 8 {
			tr.findings = append(tr.findings, f)
		}
	}
	idxAtD1 := 0
	var walk func(prefix []byte, deep bool)
	walk = func(prefix []byte, deep bool) {
		src := &byteSrc{bytes: prefix}
		o := smp(t, m, src)
		tr.runs++
		switch o.kind {
		case "value":
			if o.used != len(prefix) {
				// the function returned without reading every byte of the node although the same
				// shorter source asked for more: it is not a function of its source alone
				add(rndFinding{"not-a-function-of-the-source", fmt.Sprintf("source %x: returned after %d bytes although the same prefix asked for more", prefix, o.used)})
				return
			}
			tr.leaves++
			if len(prefix) > tr.maxDepth {
				tr.maxDepth = len(prefix)
			}
			if !o.val.IsUint64() || o.val.Uint64() >= M {
				add(rndFinding{"out-of-range", fmt.Sprintf("source %x returned %s, not below %d", prefix, o.val, M)})
				return
			}
			mass[o.val.Uint64()] += pow[len(prefix)]
		case "exhausted":
			tr.inner++
			limit := c.D1
			if len(prefix) == c.D1 && c.D2 > c.D1 {
				// an undecided node at the complete depth: only selected ones are explored further
				deep = idxAtD1 < c.K || (c.Stride > 0 && idxAtD1%c.Stride == 0)
				idxAtD1++
			}
			if deep {
				limit = c.D2
			}
			if len(prefix)+o.need > limit || o.need > 2 || expired() {
				undecided += pow[len(prefix)]
				tr.undecidedParts++
				return
			}
			ext := make([]byte, len(prefix)+o.need)
			copy(ext, prefix)
			n := 1 << (8 * o.need)
			for x := 0; x < n; x++ {
				for j := 0; j < o.need; j++ {
					ext[len(prefix)+j] = byte(x >> (8 * (o.need - 1 - j)))
				}
				walk(ext, deep)
			}
		case "user-error":
			add(rndFinding{"user-error-on-positive-modulo", fmt.Sprintf("source %x: %s", prefix, o.info)})
		default:
			add(rndFinding{"crash", fmt.Sprintf("source %x: %s", prefix, o.info)})
		}
	}
	walk(nil, false)
	if len(tr.findings) > 0 {
		return tr
	}
	var sum uint64
	for _, p := range mass {
		sum += p
	}
	if sum+undecided != S {
		tr.findings = append(tr.findings, rndFinding{"harness:mass-does-not-add-up", fmt.Sprintf("decided %d + undecided %d != %d", sum, undecided, S)})
		return tr
	}
	tr.decidedMass = float64(sum) / float64(S)
	for v, p := range mass {
		if p*M > S { // U1
			add(rndFinding{"overweight-value", fmt.Sprintf("value %d is returned with probability >= %d/%d > 1/%d", v, p, S, M)})
		} else if S-p*M > undecided*M { // U2
			add(rndFinding{"starved-value", fmt.Sprintf("value %d has probability %d/%d and only %d/%d is still undecided: it cannot reach 1/%d", v, p, S, undecided, S, M)})
		}
	}
	return tr
}

// ---------------------------------------------------------------------------
// Blocks: partial exploration for spaces too large to enumerate.

func patternByte(pattern string, i int) byte {
	switch pattern {
	case "00":
		return 0x00
	case "ff":
		return 0xff
	case "a55a":
		if i%2 == 0 {
			return 0xa5
		}
		return 0x5a
	case "ff8-then-00": // the first 8 bytes all-one, then zero
		if i < 8 {
			return 0xff
		}
		return 0x00
	case "ff64-then-00":
		if i < 64 {
			return 0xff
		}
		return 0x00
	case "count":
		return byte(i*37 + 11)
	}
	panic(pattern)
}

type blockResult struct {
	runs, leaves, undecided int64
	findings                []rndFinding
}

// runBlock: sources are the periodic pattern with positions Pos, Pos+1 taking all 65536 values
// (Pos == -1: every single position 0..width-1 taking all 256 values). Checks B and U1 exactly.
func runBlock(c rndCase, smp sampler) (br blockResult) {
	t := num.ByName[c.Type]
	m := c.modulo()
	M := space(t, m)
	width := t.Bits / 8
	type leafSet struct {
		ks []int
	}
	// minK: the least number of bytes k with M <= 256^k (a leaf of fewer bytes is heavier than 1/M)
	minK := 0
	for new(big.Int).Lsh(big.NewInt(1), uint(8*minK)).Cmp(M) < 0 {
		minK++
	}
	seenLeaf := map[string]struct{}{}
	byValue := map[string]*leafSet{}
	add := func(f rndFinding) {
		if len(br.findings) < 8 {
			br.findings = append(br.findings, f)
		}
	}
	one := func(override map[int]byte) {
		src := &byteSrc{budget: 4096, tail: func(i int) byte {
			if b, ok := override[i]; ok {
				return b
			}
			return patternByte(c.Pattern, i)
		}}
		o := smp(t, m, src)
		br.runs++
		switch o.kind {
		case "value":
			consumed := src.log[:o.used]
			if _, dup := seenLeaf[string(consumed)]; dup {
				return // same leaf reached from another source of the block
			}
			seenLeaf[string(consumed)] = struct{}{}
			br.leaves++
			if o.val.Sign() < 0 || o.val.Cmp(M) >= 0 {
				add(rndFinding{"out-of-range", fmt.Sprintf("source %x… returned %s, not below %s", consumed[:min(len(consumed), 40)], o.val, M)})
				return
			}
			if o.used < minK {
				add(rndFinding{"overweight-value", fmt.Sprintf("source %x… returned %s after only %d bytes: that leaf alone has probability 256^-%d > 1/M (M has %d bits)", consumed[:min(len(consumed), 40)], o.val, o.used, o.used, M.BitLen())})
				return
			}
			vk := string(o.val.Bytes())
			ls := byValue[vk]
			if ls == nil {
				ls = &leafSet{}
				byValue[vk] = ls
			}
			ls.ks = append(ls.ks, o.used)
		case "exhausted":
			br.undecided++ // no decision within 4096 bytes: not judged (see notes: termination is only probabilistic)
		case "user-error":
			add(rndFinding{"user-error-on-positive-modulo", o.info})
		default:
			add(rndFinding{"crash", o.info})
		}
	}
	if c.Pos < 0 {
		one(nil)
		for p := 0; p < width; p++ {
			if c.Pos == -2 && p != 0 && p != width-1 {
				continue // light variant: first and last byte position only
			}
			for x := 0; x < 256; x++ {
				one(map[int]byte{p: byte(x)})
			}
		}
	} else {
		ov := map[int]byte{}
		for x := 0; x < 65536; x++ {
			ov[c.Pos], ov[c.Pos+1] = byte(x>>8), byte(x)
			one(ov)
		}
	}
	// U1: sum over the leaves of a value of 256^-k <= 1/M  <=>  M * sum 256^(K-k) <= 256^K
	keys := make([]string, 0, len(byValue))
	for k := range byValue {
		keys = append(keys, k)
	}
	sort.Strings(keys)
	for _, v := range keys {
		ls := byValue[v]
		if len(ls.ks) == 1 {
			continue // a single leaf of >= minK bytes weighs at most 1/M
		}
		K := 0
		for _, k := range ls.ks {
			if k > K {
				K = k
			}
		}
		sum := new(big.Int)
		for _, k := range ls.ks {
			sum.Add(sum, new(big.Int).Lsh(big.NewInt(1), uint(8*(K-k))))
		}
		lhs := new(big.Int).Mul(sum, M)
		if lhs.Cmp(new(big.Int).Lsh(big.NewInt(1), uint(8*K))) > 0 {
			add(rndFinding{"overweight-value", fmt.Sprintf("value 0x%x is returned by %d explored leaves of depths %v: probability > 1/M (M has %d bits)", v, len(ls.ks), ls.ks[:min(len(ls.ks), 6)], M.BitLen())})
		}
	}
	return br
}

func runZero(c rndCase, smp sampler) []rndFinding {
	t := num.ByName[c.Type]
	src := &byteSrc{budget: 4096, tail: func(i int) byte { return patternByte("count", i) }}
	o := smp(t, big.NewInt(0), src)
	if o.kind != "user-error" {
		return []rndFinding{{"zero-modulo-not-a-user-error", fmt.Sprintf("modulo 0: %s %v %s", o.kind, o.val, o.info)}}
	}
	return nil
}

func judgeRnd(c rndCase, expired func() bool) (fs []rndFinding, runs int64, leaves int64, info string) {
	smp := samplerFor(c.Via)
	switch c.Mode {
	case "tree":
		tr := runTree(c, smp, expired)
		return tr.findings, tr.runs, tr.leaves, fmt.Sprintf("leaves=%d inner=%d undecided-nodes=%d decided-mass=%.4f depth<=%d", tr.leaves, tr.inner, tr.undecidedParts, tr.decidedMass, tr.maxDepth)
	case "block":
		br := runBlock(c, smp)
		return br.findings, br.runs, br.leaves, fmt.Sprintf("leaves=%d undecided=%d", br.leaves, br.undecided)
	case "zero":
		return runZero(c, smp), 1, 0, ""
	}
	panic(c.Mode)
}

// ---------------------------------------------------------------------------

var c47Types = []string{"UInt8", "UInt16", "UInt32", "UInt64", "UInt128", "UInt256", "Word8", "Word16", "Word32", "Word64", "Word128", "Word256"}

// smallModuli: lattice of moduli <= 2^16 (in range of t).
func smallModuli(t *num.Type, consecutive int) []*big.Int {
	set := map[int64]bool{}
	for _, k := range []int{1, 2, 3, 4, 7, 8, 9, 12, 15, 16} {
		p := int64(1) << k
		for d := int64(-1); d <= 1; d++ {
			set[p+d] = true
		}
	}
	for _, x := range []int64{1, 2, 3, 5, 6, 7, 10, 100, 127, 200, 255, 256, 257, 300, 511, 1000, 10000, 40000, 50000, 65535, 65536} {
		set[x] = true
	}
	for i := 0; i < consecutive; i++ {
		set[int64(1000+i)] = true
	}
	var out []*big.Int
	for x := range set {
		b := big.NewInt(x)
		if x >= 1 && x <= 65536 && t.InRange(b) {
			out = append(out, b)
		}
	}
	sort.Slice(out, func(i, j int) bool { return out[i].Cmp(out[j]) < 0 })
	return out
}

func largeModuli(t *num.Type) []*big.Int {
	var out []*big.Int
	seen := map[string]bool{}
	put := func(x *big.Int) {
		if x.BitLen() > 17 && t.InRange(x) && !seen[x.String()] {
			seen[x.String()] = true
			out = append(out, x)
		}
	}
	for _, k := range []int{17, 20, 24, 31, 32, 33, 63, 64, 65, 127, 128, 129, 255, 256} {
		if k > t.Bits {
			break
		}
		p := new(big.Int).Lsh(big.NewInt(1), uint(k))
		for d := int64(-1); d <= 1; d++ {
			put(new(big.Int).Add(p, big.NewInt(d)))
		}
	}
	put(t.Max)
	put(new(big.Int).Sub(t.Max, big.NewInt(1)))
	put(new(big.Int).Div(t.Max, big.NewInt(3)))
	return out
}

func runC47(env *mc.Env) {
	var cases []rndCase
	thorough := env.Thorough()
	for _, name := range c47Types {
		t := num.ByName[name]
		width := t.Bits / 8
		// zero modulo, all three ways of calling
		for _, via := range []string{"go", "interpreter", "vm"} {
			cases = append(cases, rndCase{Via: via, Type: name, Modulo: "0", Mode: "zero"})
		}
		switch t.Bits {
		case 8:
			for m := 1; m <= 255; m++ {
				cases = append(cases, rndCase{Via: "go", Type: name, Modulo: fmt.Sprint(m), Mode: "tree", D1: mc.Pick(env, 2, 3)})
			}
			cases = append(cases, rndCase{Via: "go", Type: name, Mode: "tree", D1: 2})
		case 16:
			ms := smallModuli(t, mc.Pick(env, 8, 0))
			if thorough {
				// every modulus up to 4096 in addition to the lattice
				ms = smallModuli(t, 0)
				have := map[string]bool{}
				for _, m := range ms {
					have[m.String()] = true
				}
				for m := int64(1); m <= 4096; m++ {
					if !have[fmt.Sprint(m)] {
						ms = append(ms, big.NewInt(m))
					}
				}
			}
			lattice := map[string]bool{}
			for _, m := range smallModuli(t, 0) {
				lattice[m.String()] = true
			}
			for _, m := range ms {
				c := rndCase{Via: "go", Type: name, Modulo: m.String(), Mode: "tree", D1: 2}
				if lattice[m.String()] {
					// second draws below the first 2 undecided first draws (thorough: first 3 and every 4096th)
					c.D2, c.K, c.Stride = 4, mc.Pick(env, 2, 3), mc.Pick(env, 0, 4096)
					if m.Cmp(big.NewInt(256)) <= 0 {
						c.D1, c.D2, c.K, c.Stride = 2, 3, 3, 1024 // one byte per draw: third draws below selected nodes
					}
				}
				cases = append(cases, c)
			}
			cases = append(cases, rndCase{Via: "go", Type: name, Mode: "tree", D1: 2})
		default:
			for i, m := range smallModuli(t, mc.Pick(env, 8, 1000)) {
				if !thorough && width > 8 && m.BitLen() > 9 && i%3 != 0 {
					continue // quick tier, 128/256-bit: every third of the two-byte moduli
				}
				cases = append(cases, rndCase{Via: "go", Type: name, Modulo: m.String(), Mode: "tree", D1: 2})
			}
			// no modulo: adversarial sources, every single position and every adjacent pair of positions
			for _, p := range []string{"00", "ff", "a55a", "count"} {
				cases = append(cases, rndCase{Via: "go", Type: name, Mode: "block", Pattern: p, Pos: -1})
			}
			for pos := 0; pos+1 < width; pos++ {
				if !thorough && width > 8 && pos != 0 && pos != width/2 && pos != width-2 {
					continue // quick tier, 128/256-bit: first, middle and last adjacent pair only
				}
				cases = append(cases, rndCase{Via: "go", Type: name, Mode: "block", Pattern: "a55a", Pos: pos})
			}
			// large moduli: adversarial sources (boundedness, U1 on what was explored)
			for _, m := range largeModuli(t) {
				for _, p := range mc.Pick(env, []string{"ff8-then-00", "a55a", "count"}, []string{"00", "ff8-then-00", "ff64-then-00", "a55a", "count"}) {
					cases = append(cases, rndCase{Via: "go", Type: name, Modulo: m.String(), Mode: "block", Pattern: p, Pos: -1})
				}
			}
		}
		// the Cadence function in both engines: one-byte-per-draw moduli completely to one draw, no modulo
		for _, via := range []string{"interpreter", "vm"} {
			for _, m := range []int64{1, 2, 3, 200, 255} {
				cases = append(cases, rndCase{Via: via, Type: name, Modulo: fmt.Sprint(m), Mode: "tree", D1: 1, D2: 2, K: 1})
			}
			if t.Bits == 8 {
				cases = append(cases, rndCase{Via: via, Type: name, Mode: "tree", D1: 1})
				for _, m := range []int64{5, 127, 128, 129} {
					cases = append(cases, rndCase{Via: via, Type: name, Modulo: fmt.Sprint(m), Mode: "tree", D1: 1, D2: 2, K: 2})
				}
			} else {
				pos := -1
				if t.Bits > 64 {
					pos = -2
				}
				cases = append(cases, rndCase{Via: via, Type: name, Mode: "block", Pattern: "count", Pos: pos})
				if t.Bits > 16 {
					cases = append(cases, rndCase{Via: via, Type: name, Modulo: t.Max.String(), Mode: "block", Pattern: "ff8-then-00", Pos: -2})
				}
			}
		}
	}
	env.R.Set("cases", int64(len(cases)))
	// heavier cases first
	mc.ParallelFor(env, len(cases), func(i int) {
		c := cases[i]
		fs, runs, leaves, info := judgeRnd(c, env.Expired)
		env.R.EvalN(runs)
		env.R.Add("leaves_judged_"+c.Mode, leaves)
		m := c.modulo()
		for _, f := range fs {
			if len(f.kind) > 8 && f.kind[:8] == "harness:" {
				env.R.HarnessError("%+v: %s", c, f.detail)
				continue
			}
			sig := fmt.Sprintf("%s|%s|%s", c.Type, moduloClass(m), f.kind)
			if c.Via != "go" {
				sig = "script:" + sig
			}
			env.R.Violation(sig, c, fmt.Sprintf("revertibleRandom<%s>(modulo: %s) via %s [%s]: %s", c.Type, orNone(c.Modulo), c.Via, c.Mode, f.detail))
		}
		if len(fs) == 0 {
			cls := fmt.Sprintf("%s:%s:%s:%s", c.Via, c.Mode, widthClass(c.Type), moduloClass(m))
			env.R.Class(cls, func() any { return fmt.Sprintf("%+v -> %s", c, info) })
			env.R.Nontrivial(fmt.Sprintf("%+v", c))
		}
	})
	env.R.BoundCompleted(fmt.Sprintf("8-bit: all moduli, tree depth %d bytes; 16-bit: first draw complete", mc.Pick(env, 2, 3)))
}

func widthClass(name string) string {
	t := num.ByName[name]
	return fmt.Sprintf("%dbit", t.Bits)
}

func orNone(s string) string {
	if s == "" {
		return "none"
	}
	return s
}

func replayC47(env *mc.Env, raw json.RawMessage) (bool, string) {
	var c rndCase
	if err := json.Unmarshal(raw, &c); err != nil {
		return false, err.Error()
	}
	fs, runs, _, info := judgeRnd(c, func() bool { return false })
	if len(fs) == 0 {
		return false, fmt.Sprintf("%+v: no finding in %d runs (%s)", c, runs, info)
	}
	return true, fmt.Sprintf("%+v: %s: %s (%d runs)", c, fs[0].kind, fs[0].detail, runs)
}

func init() {
	mc.Register(&mc.Check{
		ID:   "C47",
		Rule: "explicit enumeration of the draw tree of the real revertibleRandom (stdlib.RevertibleRandom called with a byte source that holds exactly the bytes of one tree node; a node that asks for n more bytes is expanded into its 256^n children), exact integer masses. 8-bit types: all 255 moduli and no modulo, complete to 2 bytes (3 thorough). 16-bit: lattice moduli + consecutive ones (thorough: all moduli <= 4096 and the lattice), first draw complete, second/third draws below selected undecided nodes; no modulo complete (bijection). 32..256-bit: every lattice modulus <= 2^16 plus consecutive ones as trees; no modulo and large lattice moduli on adversarial periodic sources with every single byte position (and, without modulo, every adjacent pair of positions) taking all values. The Cadence function through scripts in interpreter and VM for one-byte moduli, no modulo, max modulo and modulo 0. Oracle: value < M; mass(v) <= 1/M; where complete, 1/M - mass(v) <= undecided mass; modulo 0 is a user error. non-trivial = distinct (type, modulo, mode) case whose tree/block was judged",
		Assumptions: []string{
			"source bytes are independent and uniform (each byte value has weight 1/256) — the property's premise",
			"for spaces larger than 2^16 only boundedness and mass(v) <= 1/M on the explored sources are decided (a bias of order 2^-100 is out of reach of any enumeration)",
			"a source that is not decided within 4096 bytes is counted as undecided, not as a failure: a correct rejection sampler terminates only with probability 1",
		},
		Run:    runC47,
		Replay: replayC47,
	})
}
